"""Probe modules used by the run-level harnesses (module level so that they pickle)."""
import numpy as np
import starsim as ss


class RecAnalyzer(ss.Analyzer):
    """A user analyzer with its own state and its own distribution."""
    def __init__(self, **kw):
        super().__init__(**kw); self.trace = []; self.d = ss.random(name='recdist')
    def step(self):
        self.trace.append((int(self.sim.t.ti), float(self.d.rvs(self.sim.people.auids).sum()), int(len(self.sim.people))))


class ProbeIntv(ss.Intervention):
    def step(self): pass

class ProbeAna(ss.Analyzer):
    def step(self): pass

class ProbeConn(ss.Connector):
    def step(self): pass


class ScipyDelay(ss.Intervention):
    """Owns SciPy-only distributions created non-strict (usable stand-alone, re-initialised by the sim)."""
    def __init__(self, **kw):
        import scipy.stats as sps
        super().__init__(**kw)
        self.delay = ss.Dist(dist=sps.gamma, a=2.0, scale=3.0, strict=False)
        self.delay2 = ss.Dist(dist=sps.norm(loc=1.0, scale=2.0), strict=False)
        self.vals = []
    def step(self):
        self.vals.append((self.delay.rvs(4).tolist(), self.delay2.rvs(self.sim.people.auids[:5]).tolist()))


class ZeroTransOfInfected(ss.Connector):
    """Sets the relative transmissibility of every currently infectious agent to zero (and restores the others to one)."""
    def step(self):
        for d in self.sim.diseases():
            if isinstance(d, ss.Infection):
                d.rel_trans[self.sim.people.auids] = 1.0
                d.rel_trans[d.infectious.uids] = 0.0
