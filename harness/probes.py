"""Probe modules used by the run-level harnesses (module level so that they pickle)."""
import numpy as np
import starsim as ss


class RecAnalyzer(ss.Analyzer):
    """A user analyzer with its own state and its own distribution."""
    def __init__(self, **kw):
        super().__init__(**kw); self.trace = []; self.d = ss.random(name='recdist')
    def step(self):
        self.trace.append((int(self.sim.t.ti), float(self.d.rvs(self.sim.people.auids).sum()), int(len(self.sim.people))))


class ProbeIntv(ss.Intervention):
    def step(self): pass

class ProbeAna(ss.Analyzer):
    def step(self): pass

class ProbeConn(ss.Connector):
    def step(self): pass


class ScipyDelay(ss.Intervention):
    """Owns SciPy-only distributions created non-strict (usable stand-alone, re-initialised by the sim)."""
    def __init__(self, **kw):
        import scipy.stats as sps
        super().__init__(**kw)
        self.delay = ss.Dist(dist=sps.gamma, a=2.0, scale=3.0, strict=False)
        self.delay2 = ss.Dist(dist=sps.norm(loc=1.0, scale=2.0), strict=False)
        self.vals = []
    def step(self):
        self.vals.append((self.delay.rvs(4).tolist(), self.delay2.rvs(self.sim.people.auids[:5]).tolist()))


class ZeroTransOfInfected(ss.Connector):
    """Sets the relative transmissibility of every currently infectious agent to zero (and restores the others to one)."""
    def step(self):
        for d in self.sim.diseases():
            if isinstance(d, ss.Infection):
                d.rel_trans[self.sim.people.auids] = 1.0
                d.rel_trans[d.infectious.uids] = 0.0


class ZeroSusOfEven(ss.Connector):
    """Sets the relative susceptibility of every even-numbered agent to zero and that of infectious odd agents' transmissibility to two (distinct factors on both sides)."""
    def step(self):
        for d in self.sim.diseases():
            if isinstance(d, ss.Infection):
                au = self.sim.people.auids
                d.rel_sus[au] = 1.0; d.rel_sus[au[np.asarray(au) % 2 == 0]] = 0.0
                d.rel_trans[au] = 1.0; d.rel_trans[au[np.asarray(au) % 2 == 1]] = 2.0


class Book(ss.Analyzer):
    """C10 bookkeeping probe (module level: it travels with pickled / copied sims)."""
    def __init__(self, **kw):
        super().__init__(**kw); self.rows = []; self.problems = []
    def step(self):
        sim = self.sim; ppl = sim.people; ti = sim.t.ti
        n = int(ppl.uid.len_used)
        if not np.array_equal(np.asarray(ppl.uid.raw[:n]), np.arange(n)):
            self.problems.append((ti, 'uid array is not 0..n-1'))
        for st in ppl._states.values():
            if st.len_used != n or len(st.raw) < n:
                self.problems.append((ti, f'state {st.name} has len_used={st.len_used}, len(raw)={len(st.raw)} but n_uid={n}'))
        for arr in (ppl.slot, ppl.parent):
            if arr.len_used != n: self.problems.append((ti, f'{arr.name} has len_used={arr.len_used} but n_uid={n}'))
            if len(arr) != len(ppl.auids): self.problems.append((ti, f'the active view of people.{arr.name} has {len(arr)} entries, the population has {len(ppl.auids)} active agents'))
        # every agent array held by a module (found through the module, not through the people's registry) covers the whole id space
        for mod in sim.modules:
            for k, v in mod.__dict__.items():
                for j, a in enumerate(v if isinstance(v, (list, tuple)) else [v]):      # arrays kept directly or in lists (per-dose / per-strain arrays)
                    if isinstance(a, ss.Arr) and (a.len_used != n or len(a.raw) < n):
                        self.problems.append((ti, f'{mod.name}.{k}{f"[{j}]" if isinstance(v, (list, tuple)) else ""} has len_used={a.len_used}, len(raw)={len(a.raw)} but {n} uids have been issued'))
        au = np.asarray(ppl.auids)
        if len(np.unique(au)) != len(au): self.problems.append((ti, 'duplicate active uids'))
        if len(au) and au.max() >= n: self.problems.append((ti, 'active uid outside the id space'))
        # every death requested so far (logged by the class-level wrapper of People.request_death installed by the check) has been carried out by now
        reqs = getattr(ppl, '_c10_requests', None)
        if reqs:
            for t_req, us in reqs:
                still = [u for u in us if u < n and bool(ppl.alive.raw[u])]
                if still:
                    self.problems.append((ti, f'death of agent {still[0]} was requested at step {t_req} (before the resolution phase of step {int(ti)}) and has not been carried out: its time of death reads {float(ppl.ti_dead.raw[still[0]])}')); break
            reqs.clear()
        lost = np.setdiff1d(np.flatnonzero(np.asarray(ppl.alive.raw[:n])), au)
        if len(lost):
            self.problems.append((ti, f'agent {int(lost[0])} is alive (never died) but is no longer among the active agents ({len(lost)} such agents)'))
        overdue = au[(ppl.alive.raw[au]) & (ppl.ti_dead.raw[au] < ti)]
        if len(overdue):
            self.problems.append((ti, f'death requested at step {int(ppl.ti_dead.raw[overdue[0]])} for agent {int(overdue[0])} has still not been carried out after the death-resolution phase of step {int(ti)}'))
        self.rows.append(dict(ti=int(ti), n_uid=n, n_active=len(au), alive_active=int(np.count_nonzero(ppl.alive.raw[au])),
                              late=int(np.count_nonzero((~ppl.alive.raw[au]) & (ppl.ti_dead.raw[au] < ti)))))


class MarkerModule(ss.Intervention):
    """Owns an agent state whose default is a distribution (drawn when agents are created) and never touches it again."""
    def __init__(self, **kw):
        super().__init__(**kw)
        self.define_states(ss.FloatArr('marker', default=ss.random(name='markerdist')))
    def step(self): pass


class ExtraAgent(ss.Intervention):
    """Creates one extra (isolated, male) agent at a given step: later agents get later uids, their slots are unaffected."""
    def __init__(self, at=1, **kw):
        super().__init__(**kw); self.at = at
    def step(self):
        if self.ti == self.at:
            new = self.sim.people.grow(1, new_slots=np.array([987654]))
            self.sim.people.female[new] = False
            self.sim.people.age[new] = 5.0


class PreUsed(ss.Intervention):
    """Owns distributions that had a life before the sim: created non-strict and sampled stand-alone (as in a notebook) before being handed over."""
    def __init__(self, **kw):
        super().__init__(**kw)
        self.d_a = ss.normal(loc=1.0, scale=2.0, strict=False)
        self.d_b = ss.normal(loc=1.0, scale=2.0, strict=False)
        self.u_a = ss.random(strict=False)
        self.pre = [self.d_a.rvs(7).tolist(), self.d_b.rvs(3).tolist(), self.u_a.rvs(11).tolist()]     # stand-alone use
        self.vals = []
    def step(self):
        au = self.sim.people.auids
        self.vals.append((self.d_a.rvs(au[:6]).tolist(), self.d_b.rvs(au[:6]).tolist(), self.u_a.rvs(au[:6]).tolist()))


class _RefHolderMixin:
    """Reads nothing, samples nothing, changes nothing: only keeps references to other module objects of the sim."""
    def _grab(self, sim):
        order = ['demographics', 'networks', 'diseases', 'interventions', 'analyzers', 'connectors']
        mods = [(g, m) for g in order for m in getattr(sim, g)()]
        me = [i for i, (g, m) in enumerate(mods) if m is self][0]
        if self.which == 'earlier': self.watched = [m for g, m in mods[:me] if g in ('diseases', 'networks', 'demographics')]
        else: self.watched = [m for g, m in mods[me + 1:]]
    def step(self): pass


class RefHolderIntv(_RefHolderMixin, ss.Intervention):
    def __init__(self, which='earlier', **kw):
        super().__init__(**kw); self.which = which
    def init_pre(self, sim, **kw):
        super().init_pre(sim, **kw); self._grab(sim)


class RefHolderAna(_RefHolderMixin, ss.Analyzer):
    def __init__(self, which='earlier', **kw):
        super().__init__(**kw); self.which = which
    def init_pre(self, sim, **kw):
        super().init_pre(sim, **kw); self._grab(sim)


class RefHolderConn(_RefHolderMixin, ss.Connector):
    def __init__(self, which='earlier', **kw):
        super().__init__(**kw); self.which = which
    def init_pre(self, sim, **kw):
        super().init_pre(sim, **kw); self._grab(sim)


class DelayDays(ss.Intervention):
    """A module whose default delay is a distribution over a duration written in days (C05: overriding it with a unit-less duration)."""
    def __init__(self, pars=None, **kwargs):
        super().__init__()
        self.define_pars(delay=ss.constant(v=ss.days(5)), wait=ss.normal(loc=ss.days(20), scale=ss.days(2)))
        self.update_pars(pars, **kwargs)
    def step(self): pass


class CurePositives(ss.Intervention):
    """Cures (infected -> recovered) the agents whom the triage/screening intervention `source` reported positive in this step."""
    def __init__(self, source='tri', disease='sir', **kw):
        super().__init__(**kw); self.source = source; self.disease = disease
    def step(self):
        pos = ss.uids(self.sim.interventions[self.source].outcomes['positive'])
        if len(pos):
            d = self.sim.diseases[self.disease]; cured = pos[d.infected[pos]]
            d.infected[cured] = False; d.recovered[cured] = True


class MultiDose(ss.Intervention):
    """Keeps one per-agent array per dose in a list (the arrays share their name) and lists them through an overloaded `states` property."""
    def __init__(self, n_doses=3, **kw):
        super().__init__(**kw); self.n_doses = n_doses
        self.received = [ss.BoolArr('received', label=f'Received dose {i}') for i in range(n_doses)]
        self.ti_received = [ss.FloatArr('ti_received', label=f'Time of dose {i}') for i in range(n_doses)]
    @property
    def states(self):
        return super().states + self.received + self.ti_received
    def step(self):
        k = self.ti
        if k < self.n_doses:
            uids = self.sim.people.auids[:10]; self.received[k][uids] = True; self.ti_received[k][uids] = k
