"""
Operation sequences on real ss.Dist objects, and their encoding as Coq terms for the L1 model.
Used by C03, C04 (and C05 for the exact uniform families).
"""
import numpy as np
import sciris as sc

ERRMAP = {'DistNotInitializedError': 'ENotInitialized', 'DistNotReadyError': 'ENotReady', 'DistSeedRepeatError': 'ESeedRepeat',
          'ValueError': 'EValue', 'TypeError': 'EType', 'KeyError': 'EKey', 'IndexError': 'EIndex'}


class MockT:
    def __init__(self): self.ti = 0

class MockModule:
    def __init__(self): self.t = MockT(); self.ti = 0

def mock_sim(slots):
    return sc.objdict(people=sc.objdict(slot=np.asarray(slots, dtype=np.int64), auids=np.arange(len(slots))))


def gen_slots(rng, n):
    """Slot table with repeats and gaps (as produced by Pregnancy.choose_slots)."""
    slots = list(range(n))
    for i in range(n):
        k = rng.random()
        if k < 0.15: slots[i] = rng.randrange(0, 3 * n)      # gap / arbitrary
        elif k < 0.25: slots[i] = slots[rng.randrange(n)]     # repeat
    return slots


def gen_ops(rng, n_agents, length, strict, auto, p_err=0.15):
    """A mostly-valid operation history; a separate fraction of deliberately invalid operations."""
    ops = []
    ti = 0
    for _ in range(length):
        k = rng.random()
        if k < 0.30:
            if rng.random() < p_err: tgt = rng.choice([ti, max(0, ti - 1), 0])       # backwards: refused
            else:
                ti += rng.choice([1, 1, 1, 2, 5]); tgt = ti
            ops.append(('jump_dt', tgt, rng.random() < 0.03))
        elif k < 0.36:
            ops.append(('jump', rng.choice([None, None, rng.randrange(0, 3000)]), rng.choice([1, 1, 2, 7, 0, -1]), rng.random() < 0.1))
        elif k < 0.42:
            ops.append(('reset', rng.random() < 0.7))
        elif k < 0.90:
            m = rng.choice([0, 1, 2, 3, 5, 8, 13, min(n_agents, 40)])
            kind = rng.random()
            if kind < 0.5: uids = rng.sample(range(n_agents), min(m, n_agents))
            elif kind < 0.7: uids = sorted(rng.sample(range(n_agents), min(m, n_agents)))
            else: uids = [rng.randrange(n_agents) for _ in range(m)]      # with repeats
            ops.append(('rvs', uids, rng.random() < 0.08))
        else:
            ops.append(('rvsn', rng.choice([0, 1, 2, 3, 7, 16, 33]), rng.random() < 0.08))
    return ops


def float_num(x):
    """float32 uniform -> its 24-bit numerator."""
    return int(round(float(x) * 16777216))


def run_impl(ss, family, seed, slots, strict, auto, ops, p=None, init=True):
    """Execute `ops` on a real distribution. Returns (hist0 (state, inc), per-op results, final observables)."""
    sim = mock_sim(slots)
    kw = dict(strict=strict, auto=auto)
    if family == 'random': d = ss.random(name='d', **kw)
    elif family == 'bernoulli': d = ss.bernoulli(p=p, name='d', **kw)
    elif family == 'rand_raw': d = ss.rand_raw(name='d', **kw)
    else: raise ValueError(family)
    mod = MockModule()
    if init:
        d.init(trace='harness_dist', seed=seed, sim=sim, module=mod, force=True)
        h0 = d.history[0]['state']
        hist0 = (int(h0['state']), int(h0['inc']))
    else:
        d.sim = sim; d.slots = sim.people.slot
        hist0 = (0, 1)
    out = []
    for op in ops:
        try:
            if op[0] == 'jump_dt':
                d.jump_dt(ti=op[1], force=op[2]); out.append(('ok', []))
            elif op[0] == 'jump':
                d.jump(to=op[1], delta=op[2], force=op[3]); out.append(('ok', []))
            elif op[0] == 'reset':
                d.reset(-1 if op[1] else 0); out.append(('ok', []))
            elif op[0] in ('rvs', 'rvsn'):
                arg = ss.uids(op[1]) if op[0] == 'rvs' else int(op[1])
                r = d.rvs(arg, reset=op[2])
                if family == 'random': vals = [float_num(x) for x in r]
                elif family == 'bernoulli': vals = [int(bool(x)) for x in r]
                else: vals = [int(x) for x in r]
                out.append(('ok', vals))
        except Exception as E:
            out.append(('err', ERRMAP.get(type(E).__name__, 'EOther')))
    st = d.state
    final = dict(ind=int(d.ind), called=int(d.called), ready=bool(d.ready),
                 state=int(st['state']['state']) if st else 0, has32=int(st['has_uint32']) if st else 0)
    return hist0, out, final


# ------------------------------------------------------------------ Coq encoding
def z(n): return str(int(n)) if n >= 0 else f'({int(n)})'
def zl(l): return '[' + '; '.join(z(x) for x in l) + ']'
def b(x): return 'true' if x else 'false'

def op_term(op, slots):
    if op[0] == 'jump_dt': return f'OJumpDt {z(op[1])} {b(op[2])}'
    if op[0] == 'jump': return f'OJump {"None" if op[1] is None else "(Some " + z(op[1]) + ")"} {z(op[2])} {b(op[3])}'
    if op[0] == 'reset': return f'OReset {b(op[1])}'
    if op[0] == 'rvs': return f'ORvs {zl([slots[u] for u in op[1]])} {b(op[2])}'
    if op[0] == 'rvsn': return f'ORvsN {z(op[1])} {b(op[2])}'
    raise ValueError(op)

def res_term(r):
    return f'(Ok {zl(r[1])})' if r[0] == 'ok' else f'(Err {r[1]})'

def case_term(hist0, strict, auto, slots, ops, outs, final, init=True, bern=(0, 0)):
    g0 = f'(mkPcg {z(hist0[0])} {z(hist0[1])} false 0)'
    d0 = f'(dist_init {g0} {b(strict)} {b(auto)})' if init else \
         f'(mkDist {g0} {g0} {g0} 0 0 true false {b(strict)} {b(auto)})'
    return (f'({d0}, [' + '; '.join(op_term(o, slots) for o in ops) + '], [' + '; '.join(res_term(r) for r in outs) + '], '
            f'({z(final["ind"])}, {z(final["called"])}, {b(final["ready"])}, {z(final["state"])}), ({z(bern[0])}, {z(bern[1])}))')

CASE_TYPE = 'dist * list dop * list (res (list Z)) * (Z * Z * bool * Z) * (Z * Z)'

OK_DEF = f'''Open Scope Z_scope.
(* read-out of the uniform stream: identity (ss.random) or comparison with p = pn/pd (ss.bernoulli) *)
Definition readout (pn pd : Z) (r : res (list Z)) : res (list Z) :=
  match r with
  | Ok l => Ok (if pd =? 0 then l else map (fun x => if bern_of pn pd x then 1 else 0) l)
  | Err e => Err e end.
Fixpoint all2 (pn pd : Z) (a b : list (res (list Z))) : bool :=
  match a, b with [], [] => true | x :: a', y :: b' => andb (res_eqb (readout pn pd x) y) (all2 pn pd a' b') | _, _ => false end.
Definition ok (c : {CASE_TYPE}) : bool :=
  let '(d0, ops, outs, (ind, called, ready, st), (pn, pd)) := c in
  let '(df, tr) := dtrace d0 ops in
  andb (all2 pn pd tr outs) (andb (d_ind df =? ind) (andb (d_called df =? called) (andb (Bool.eqb (d_ready df) ready) (p_st (d_cur df) =? st)))).'''
