"""
Shared helpers for C01 / C02 / C18: configuration builders (module level: picklable for multiprocessing), result fingerprints,
sampling-only probe modules.
"""
import numpy as np


def fingerprint(sim, states=True):
    """flattened result series + (optionally) every state array restricted to the active agents, as bytes"""
    out = {}
    for k, v in sim.results.flatten().items():
        if hasattr(v, '__len__') and not isinstance(v, str):
            try: out['res:' + k] = np.asarray(v, dtype=float).tobytes()
            except Exception: pass
    if states and getattr(sim, 'people', None) is not None and hasattr(sim.people, 'auids'):
        import starsim as ss
        au = np.asarray(sim.people.auids)
        out['auids'] = au.tobytes()
        for nm in ('uid', 'slot', 'alive', 'female', 'age', 'ti_dead', 'scale', 'parent'):
            st = getattr(sim.people, nm, None)
            try: out['state:people.' + nm] = np.asarray(st.raw[au]).tobytes()
            except Exception: pass
        for mod in sim.modules:
            for k, v in mod.__dict__.items():
                if isinstance(v, ss.Arr):
                    try: out[f'state:{mod.name}.{k}'] = np.asarray(v.raw[au]).tobytes()
                    except Exception: pass
    return out


def diff_keys(a, b, prefix=None):
    ks = [k for k in a if k in b and a[k] != b[k]] + sorted(set(a) ^ set(b))
    if prefix is not None: ks = [k for k in ks if k.startswith(prefix)]
    return ks


CONFIGS = ['sir_tabdeaths', 'sis_tx2', 'sir_userdists', 'sir_vx_all_or_nothing', 'syphilis_mf', 'sir_dx_triage', 'sis_pools_agegroup', 'sir_mf', 'sis_static', 'sir_er_deaths', 'sir_preg', 'sis_pool', 'hiv_mf_vx', 'measles_day', 'sir_births', 'sir_random_odd', 'ncd', 'sir_random_even']

def _all_active(sim): return sim.people.auids


def make_sim(kind, seed, n=200, dur=8, extra=None, variant=0):
    """the configuration grid (extra: dict of additional module lists merged in)"""
    import starsim as ss
    kw = dict(n_agents=n, dur=dur, rand_seed=seed, verbose=0)
    ex = extra or {}
    def L(key, base): return list(ex.get(key + '_front', [])) + list(base) + list(ex.get(key, []))
    if kind == 'sir_tabdeaths':
        import pandas as pd
        rows = [dict(Time=y, Sex=sx, AgeGrpStart=a, mx=(mx + (y - 1990)) * (1 + 3 * variant) + (5 if sx == 'Male' else 0)) for y in (1990, 2000, 2010, 2020) for sx in ('Female', 'Male') for a, mx in ((0, 10), (5, 3), (40, 15), (70, 120))]
        return ss.Sim(diseases=L('diseases', [ss.SIR(beta={'mf': [0.3, 0.2]}, init_prev=0.1)]), networks=L('networks', [ss.MFNet()]), demographics=[ss.Deaths(death_rate=pd.DataFrame(rows))], connectors=L('connectors', []), analyzers=L('analyzers', []), interventions=L('interventions', []), start=2000, **kw)
    if kind == 'sis_tx2':
        import pandas as pd
        df = pd.DataFrame([dict(name='x', disease='sis', state='infected', efficacy=0.7 + 0.05 * variant, post_state='susceptible'), dict(name='x', disease='sis', state='susceptible', efficacy=0.5, post_state='susceptible')])
        trt = ss.treat_num(product=ss.Tx(df), prob=0.6, max_capacity=20, eligibility=lambda sim: sim.people.auids, name='trt')
        return ss.Sim(diseases=L('diseases', [ss.SIS(beta=0.1, init_prev=0.3)]), networks=L('networks', [ss.StaticNet()]), interventions=L('interventions', [trt]), connectors=L('connectors', []), analyzers=L('analyzers', []), **kw)
    if kind == 'sir_userdists':
        # the user holds distribution objects (created stand-alone, non-strict) and keeps using them between sims
        global _USER_DISTS
        try: _USER_DISTS
        except NameError: _USER_DISTS = dict(w=ss.weibull(c=2.0, scale=8.0, strict=False), g=ss.gamma(a=2.0, scale=3.0, strict=False))
        _USER_DISTS['w'].rvs(3); _USER_DISTS['g'].rvs(5)       # stand-alone use, every time a sim is built
        return ss.Sim(diseases=L('diseases', [ss.SIR(beta={'mf': [0.3, 0.2]}, init_prev=0.2, dur_inf=_USER_DISTS['w']), ss.SIS(beta={'mf': [0.2, 0.2]}, dur_inf=_USER_DISTS['g'])]), networks=L('networks', [ss.MFNet()]),
                      connectors=L('connectors', []), analyzers=L('analyzers', []), interventions=L('interventions', []), **kw)
    if kind == 'sir_vx_all_or_nothing':      # the all-or-nothing vaccine product (leaky=False)
        return ss.Sim(diseases=L('diseases', [ss.SIR(beta={'mf': [0.3, 0.2]}, init_prev=0.1)]), networks=L('networks', [ss.MFNet()]), interventions=L('interventions', [ss.routine_vx(product=ss.sir_vaccine(efficacy=0.6, leaky=False), prob=0.4)]),
                      connectors=L('connectors', []), analyzers=L('analyzers', []), **kw)
    if kind == 'syphilis_mf':
        return ss.Sim(diseases=L('diseases', [ss.Syphilis(init_prev=0.2, beta={'mf': [0.5, 0.3]})]), networks=L('networks', [ss.MFNet()]), interventions=L('interventions', []), connectors=L('connectors', []), analyzers=L('analyzers', []), **kw)
    if kind == 'sir_dx_triage':      # a diagnostic product with several (disease, state) rows, delivered by triage; positives are cured
        import pandas as pd
        from harness.probes import CurePositives
        rows = [('sir', 'susceptible', 'positive', 0.10), ('sir', 'susceptible', 'negative', 0.90), ('sir', 'infected', 'positive', 0.80), ('sir', 'infected', 'negative', 0.20), ('sir', 'recovered', 'positive', 0.30), ('sir', 'recovered', 'negative', 0.70)]
        dx = ss.Dx(pd.DataFrame(rows, columns=['disease', 'state', 'result', 'probability']), hierarchy=['positive', 'negative'])
        tri = ss.routine_triage(product=dx, prob=0.6 + 0.05 * variant, eligibility=_all_active, name='tri')
        return ss.Sim(diseases=L('diseases', [ss.SIR(beta=0.08, init_prev=0.1, p_death=0)]), networks=L('networks', [ss.RandomNet(n_contacts=4)]), interventions=L('interventions', [tri, CurePositives(name='cure')]),
                      connectors=L('connectors', []), analyzers=L('analyzers', []), **kw)
    if kind == 'sis_pools_agegroup':      # mixing pools between age groups
        mps = ss.MixingPools(beta=ss.beta(0.3), contacts=np.array([[1.0, 2.0], [2.0, 1.0]]), src={'a': ss.AgeGroup(0, 30), 'b': ss.AgeGroup(30, None)}, dst={'a': ss.AgeGroup(0, 30), 'b': ss.AgeGroup(30, None)})
        return ss.Sim(diseases=L('diseases', [ss.SIS(beta=0.0, init_prev=0.1)]), networks=L('networks', [mps]), interventions=L('interventions', []), connectors=L('connectors', []), analyzers=L('analyzers', []), **kw)
    if kind == 'sir_births_people':      # a People object supplied by the user + a module drawing from the process-wide generator (seeded by Sim.init)
        kw2 = {k: v for k, v in kw.items() if k != 'n_agents'}
        return ss.Sim(people=ss.People(n), diseases=L('diseases', [ss.SIR(beta=0.1, init_prev=0.1)]), networks=L('networks', [ss.RandomNet(n_contacts=4)]), demographics=[ss.Births(birth_rate=40)],
                      interventions=L('interventions', []), connectors=L('connectors', []), analyzers=L('analyzers', []), **kw2)
    if kind == 'sir_mf': return ss.Sim(diseases=L('diseases', [ss.SIR(beta={'mf': [0.3, 0.2]}, init_prev=0.1)]), networks=L('networks', [ss.MFNet()]), connectors=L('connectors', []), analyzers=L('analyzers', []), interventions=L('interventions', []), **kw)
    if kind == 'sis_static': return ss.Sim(diseases=L('diseases', [ss.SIS(beta=0.1)]), networks=L('networks', [ss.StaticNet()]), connectors=L('connectors', []), analyzers=L('analyzers', []), interventions=L('interventions', []), **kw)
    if kind == 'sir_er_deaths': return ss.Sim(diseases=L('diseases', [ss.SIR(beta=0.2, p_death=0.2)]), networks=L('networks', [ss.ErdosRenyiNet()]), demographics=[ss.Deaths(death_rate=30)], connectors=L('connectors', []), analyzers=L('analyzers', []), interventions=L('interventions', []), **kw)
    if kind == 'sir_preg': return ss.Sim(diseases=L('diseases', [ss.SIR(beta={'mf': [0.3, 0.2], 'maternal': [0.5, 0]})]), networks=L('networks', [ss.MFNet(), ss.MaternalNet()]), demographics=[ss.Pregnancy(fertility_rate=100), ss.Deaths(death_rate=20)], connectors=L('connectors', []), analyzers=L('analyzers', []), interventions=L('interventions', []), **kw)
    if kind == 'sis_pool': return ss.Sim(diseases=L('diseases', [ss.SIS(beta=0.0)]), networks=L('networks', [ss.MixingPool(beta=1.0, contacts=ss.poisson(2))]), connectors=L('connectors', []), analyzers=L('analyzers', []), interventions=L('interventions', []), **kw)
    if kind == 'hiv_mf_vx': return ss.Sim(diseases=L('diseases', [ss.SIR(beta={'mf': [0.3, 0.2]})]), networks=L('networks', [ss.MFNet()]), interventions=L('interventions', [ss.routine_vx(product=ss.sir_vaccine(efficacy=0.5), prob=0.2)]), connectors=L('connectors', []), analyzers=L('analyzers', []), **kw)
    if kind == 'measles_day': return ss.Sim(diseases=L('diseases', [ss.Measles(beta=0.5, init_prev=0.1)]), networks=L('networks', [ss.StaticNet()]), connectors=L('connectors', []), analyzers=L('analyzers', []), interventions=L('interventions', []), unit='day', start='2020-01-01', dt=2.0, n_agents=n, dur=30, rand_seed=seed, verbose=0)
    if kind == 'sir_births': return ss.Sim(diseases=L('diseases', [ss.SIR(beta={'mf': [0.3, 0.2]})]), networks=L('networks', [ss.MFNet()]), demographics=[ss.Births(birth_rate=30), ss.Deaths(death_rate=20)], connectors=L('connectors', []), analyzers=L('analyzers', []), interventions=L('interventions', []), **kw)
    if kind == 'sir_random_odd': return ss.Sim(diseases=L('diseases', [ss.SIR(beta=0.1)]), networks=L('networks', [ss.RandomNet(n_contacts=5)]), connectors=L('connectors', []), analyzers=L('analyzers', []), interventions=L('interventions', []), **kw)
    if kind == 'sir_random_even': return ss.Sim(diseases=L('diseases', [ss.SIR(beta=0.1)]), networks=L('networks', [ss.RandomNet(n_contacts=4)]), connectors=L('connectors', []), analyzers=L('analyzers', []), interventions=L('interventions', []), **kw)
    if kind == 'ncd': return ss.Sim(diseases=L('diseases', [ss.NCD()]), connectors=L('connectors', []), analyzers=L('analyzers', []), interventions=L('interventions', []), demographics=[ss.Deaths(death_rate=10)], **kw)
    raise KeyError(kind)


def module_classes(sim):
    out = {type(sim.people).__name__}
    for m in sim.modules:
        out.add(type(m).__name__)
        for c in type(m).__mro__: out.add(c.__name__)
    return out


def make_sampler(ss, base, n_dists, name):
    """a component that only reads state and samples its own distributions (analyzer / intervention / connector)"""
    class Sampler(base):
        def __init__(self, n_dists=2, **kw):
            super().__init__(**kw)
            fams = [lambda: ss.weibull(c=1.5, scale=2.0), lambda: ss.gamma(a=2.0, scale=1.5), lambda: ss.random(), lambda: ss.normal(1, 2), lambda: ss.bernoulli(0.3), lambda: ss.poisson(3), lambda: ss.lognorm_ex(2, 1),
                    lambda: ss.randint(0, 10), lambda: ss.expon(2.0), lambda: ss.nbinom(3, 0.4), lambda: ss.uniform(1, 3), lambda: ss.lognorm_im(0.2, 0.5), lambda: ss.constant(2)]
            for i in range(n_dists): setattr(self, f'd{i}', fams[i % len(fams)]())
            self.n_dists = n_dists
            self.seen = 0.0
        def step(self):
            sim = self.sim
            au = sim.people.auids
            for i in range(self.n_dists):
                v = getattr(self, f'd{i}').rvs(au)
                self.seen += float(np.sum(np.asarray(v, dtype=float)))
            for d in sim.diseases():      # reads, never writes
                if hasattr(d, 'infected'): self.seen += float(np.count_nonzero(d.infected.raw[au]))
    return Sampler(n_dists=n_dists, name=name)
