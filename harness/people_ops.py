"""
Operation sequences on a real ss.People (inside an initialised sim) with attached test arrays,
and their encoding for the Coq model L2_People / L2_ArrOps.  Used by C10 and C11.
"""
import numpy as np
from fractions import Fraction as F
from vlib.core import qlit

NANQ = '((-999999999) # 1)'
IMPORTS = 'Model.Prelude Gen.Gen_Arr Model.L2_People Model.L2_ArrOps'
CMPS = {'CGt': lambda a, c: a > c, 'CLt': lambda a, c: a < c, 'CGe': lambda a, c: a >= c, 'CLe': lambda a, c: a <= c,
        'CEq': lambda a, c: a == c, 'CNe': lambda a, c: a != c}
LOPS = {'LAnd': lambda a, b: a & b, 'LOr': lambda a, b: a | b, 'LXor': lambda a, b: a ^ b}


def tc_default(n):
    return np.arange(n) * 0.5 + 100.0


def setup(ss, rng, n0):
    sim = ss.Sim(n_agents=n0, networks=ss.RandomNet(), diseases=ss.SIS(), verbose=0, rand_seed=rng.randrange(1000))
    sim.init()
    ppl = sim.people
    arrs = [ss.FloatArr('tf0', default=2.5), ss.FloatArr('tf1'), ss.BoolArr('tb0', default=False), ss.State('tb1', default=True),
            ss.FloatArr('tc', default=tc_default)]
    for a in arrs:
        a.link_people(ppl); a.init_vals()
    # give the arrays some structure
    for a in arrs[:2]:
        us = ss.uids(rng.sample(range(n0), max(1, n0 // 2)))
        a[us] = np.array([rng.randrange(-8, 40) * 0.25 for _ in us])
    for a in arrs[2:4]:
        us = ss.uids(rng.sample(range(n0), max(1, n0 // 2)))
        a[us] = np.array([rng.random() < 0.5 for _ in us])
    return sim, ppl, arrs

META = [dict(dflt='(Some (5 # 2))', nan=NANQ, kind='float', maynan=False), dict(dflt='None', nan=NANQ, kind='float', maynan=True),
        dict(dflt='(Some 0)', nan='0', kind='bool', maynan=False), dict(dflt='(Some 1)', nan='0', kind='bool', maynan=False),
        dict(dflt='None', nan=NANQ, kind='float', maynan=False)]


def cell(x):
    x = float(x)
    if x != x: return f'V {NANQ}'
    return f'V {qlit(x)}'

def cells(xs): return '[' + '; '.join(cell(x) for x in xs) + ']'
def nats(xs): return '[' + '; '.join(str(int(x)) for x in xs) + ']%nat'

def arr_term(a, dflt, nan):
    used = int(a.len_used)
    return f'(mkArr (pad_raw {len(a.raw)} {cells(np.asarray(a.raw, dtype=float)[:used])}) {used} {dflt} {nan})'

def ppl_term(sim, ppl, arrs):
    """Model state literal: cells beyond len_used are padded with the nan value up to len_tot (their real content is unobservable)."""
    others = '[' + '; '.join(arr_term(a, m['dflt'], m['nan']) for a, m in zip(arrs, META)) + ']'
    return (f'(mkPpl {nats(ppl.auids)} {arr_term(ppl.uid, "None", "((-1) # 1)")} {arr_term(ppl.slot, "None", "((-1) # 1)")} '
            f'{arr_term(ppl.parent, "None", "((-1) # 1)")} {arr_term(ppl.alive, "(Some 1)", "0")} {arr_term(ppl.ti_dead, "None", NANQ)} {others} {int(sim.t.ti)})')

def snap_term(ppl, arrs):
    def one(a): return f'({int(a.len_used)}%nat, {len(a.raw)}%nat, {cells(np.asarray(a.raw, dtype=float)[:a.len_used])})'
    return f'({nats(ppl.auids)}, {int(ppl.uid.len_used)}%nat, [' + '; '.join(one(a) for a in [ppl.uid, ppl.slot, ppl.alive, ppl.ti_dead] + arrs) + '])'


def gen_key(rng, ss, ppl, arrs):
    k = rng.random()
    n = int(ppl.uid.len_used)
    if k < 0.45:
        us = [rng.randrange(n) for _ in range(rng.randint(1, 5))]
        return ('uids', us)
    if k < 0.65: return ('bool', rng.choice([2, 3]))
    if k < 0.9:
        lo = rng.randint(0, max(0, len(ppl.auids))); hi = rng.randint(lo, len(ppl.auids) + 2)
        return ('slice', lo, hi)
    return ('empty',)

def key_real(ss, key, arrs):
    if key[0] == 'uids': return ss.uids(key[1])
    if key[0] == 'bool': return arrs[key[1]]
    if key[0] == 'slice': return slice(key[1], key[2])
    return []

def key_term(key):
    if key[0] == 'uids': return f'(KUids {nats(key[1])})'
    if key[0] == 'bool': return f'(KBoolOf {key[1]})'
    if key[0] == 'slice': return f'(KSlice {key[1]} {key[2]})'
    return 'KEmpty'


def run_sequence(ss, rng, n0, length, weights):
    """Generate and execute one op sequence on a real People. Returns (coq case term, metadata)."""
    sim, ppl, arrs = setup(ss, rng, n0)
    p0 = ppl_term(sim, ppl, arrs)
    ops_t, outs_t, log = [], [], []
    kinds = list(weights)
    for _ in range(length):
        kind = rng.choices(kinds, [weights[k] for k in kinds])[0]
        n = int(ppl.uid.len_used)
        if kind == 'grow':
            k = rng.choice([0, 1, 1, 2, 3, 5, 6, 30 if rng.random() < 0.3 else 4])
            slots = [rng.randrange(0, 3 * (n + k) + 1) for _ in range(k)] if rng.random() < 0.4 and k else None
            new = ppl.grow(k, new_slots=np.array(slots) if slots is not None else None)
            tcvals = [F(float(x)) for x in np.asarray(arrs[4].raw[np.asarray(new, dtype=int)], dtype=float)] if k else []
            vals = '[None; None; None; None; ' + ('Some [' + '; '.join(qlit(x) for x in tcvals) + ']' if k else 'None') + ']'
            ops_t.append(f'APeople (PGrow {k} {"None" if slots is None else "(Some " + nats(slots) + ")"} {vals})'); outs_t.append('ONone')
            log.append(('grow', k, slots))
        elif kind == 'request_death':
            us = rng.sample(list(map(int, ppl.auids)), min(len(ppl.auids), rng.randint(0, 3))) if len(ppl.auids) else []
            if us and rng.random() < 0.3: us = us + [us[0]]
            ppl.request_death(ss.uids(us))
            ops_t.append(f'APeople (PRequestDeath {nats(us)})'); outs_t.append('ONone'); log.append(('request_death', us))
        elif kind == 'step_die':
            ppl.step_die(); ops_t.append('APeople PStepDie'); outs_t.append('ONone'); log.append(('step_die',))
        elif kind == 'remove_dead':
            ppl.remove_dead(); ops_t.append('APeople PRemoveDead'); outs_t.append('ONone'); log.append(('remove_dead',))
        elif kind == 'tick':
            sim.t.ti += 1; ops_t.append('APeople PTick'); outs_t.append('ONone'); log.append(('tick',))
        elif kind == 'set':
            k = rng.randrange(4); key = gen_key(rng, ss, ppl, arrs)
            v = (rng.random() < 0.5) if META[k]['kind'] == 'bool' else rng.randrange(-8, 40) * 0.25
            arrs[k][key_real(ss, key, arrs)] = v
            ops_t.append(f'ASet {k} {key_term(key)} {qlit(float(v))}'); outs_t.append('ONone'); log.append(('set', k, key, v))
        elif kind == 'setmany':
            k = rng.randrange(2); us = rng.sample(range(n), min(n, rng.randint(1, 4)))
            vs = [rng.randrange(-8, 40) * 0.25 for _ in us]
            arrs[k][ss.uids(us)] = np.array(vs)
            ops_t.append(f'ASetMany {k} {nats(us)} [' + '; '.join(qlit(x) for x in vs) + ']'); outs_t.append('ONone'); log.append(('setmany', k, us, vs))
        elif kind == 'get':
            k = rng.randrange(5); key = gen_key(rng, ss, ppl, arrs)
            r = np.atleast_1d(np.asarray(arrs[k][key_real(ss, key, arrs)], dtype=float))
            ops_t.append(f'AGet {k} {key_term(key)}'); outs_t.append(f'OCells {cells(r)}'); log.append(('get', k, key))
        elif kind == 'getint':
            k = rng.randrange(5); i = rng.randrange(n)
            r = float(arrs[k][int(i)])
            ops_t.append(f'AGetInt {k} {i}'); outs_t.append(f'OCells {cells([r])}'); log.append(('getint', k, i))
        elif kind == 'values':
            k = rng.randrange(5); r = np.asarray(arrs[k].values, dtype=float)
            ops_t.append(f'AValues {k}'); outs_t.append(f'OCells {cells(r)}'); log.append(('values', k))
        elif kind == 'cmp':
            k = rng.choice([0, 1, 4]); c = rng.randrange(-8, 40) * 0.25
            op = rng.choice(['CGt', 'CGe', 'CEq', 'CNe'] if META[k]['maynan'] else list(CMPS))
            r = CMPS[op](arrs[k], c).uids
            ops_t.append(f'ACmp {k} {op} {qlit(c)}'); outs_t.append(f'OUids (Some {nats(r)})'); log.append(('cmp', k, op, c))
        elif kind == 'logic':
            op = rng.choice(list(LOPS)); ka, kb = rng.choice([2, 3]), rng.choice([2, 3])
            r = LOPS[op](arrs[ka], arrs[kb]).uids
            ops_t.append(f'ALogic {ka} {kb} {op}'); outs_t.append(f'OUids (Some {nats(r)})'); log.append(('logic', ka, kb, op))
        elif kind == 'not':
            k = rng.choice([2, 3]); r = (~arrs[k]).uids
            ops_t.append(f'ANot {k}'); outs_t.append(f'OUids (Some {nats(r)})'); log.append(('not', k))
        elif kind == 'truefalse':
            k = rng.choice([0, 2, 3, 4]); t = rng.random() < 0.5
            r = arrs[k].true() if t else arrs[k].false()
            ops_t.append(f'{"ATrue" if t else "AFalse"} {k}'); outs_t.append(f'OUids (Some {nats(r)})'); log.append(('true' if t else 'false', k))
        elif kind == 'reduce':
            k = rng.choice([0, 2, 3, 4])
            if rng.random() < 0.5:
                r = float(arrs[k].sum()); ops_t.append(f'ASum {k}')
            else:
                r = float(arrs[k].count()); ops_t.append(f'ACount {k}')
            outs_t.append(f'ONum {qlit(r)}'); log.append(('reduce', k))
    case = f'({p0}, [' + '; '.join(ops_t) + '], [' + '; '.join(outs_t) + f'], {snap_term(ppl, arrs)})'
    return case, log, sim, ppl, arrs

CASE_TYPE = 'ppl * list aop * list aout * (list nat * nat * list (nat * nat * list cell))'
OK_DEF = f'''Definition pad_raw (tot : nat) (l : list cell) : list cell := l ++ repeat (V {NANQ}) (tot - length l).
Definition ok (c : {CASE_TYPE}) : bool :=
  let '(p0, ops, outs, snap) := c in
  let '(pf, mo) := arun p0 ops in andb (outs_eqb mo outs) (snap_eqb (snapshot pf) snap).'''
