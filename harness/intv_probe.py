"""
Probes for C20: class-level wrappers (installed BEFORE the sim is built; the loop's plan holds bound methods) on the delivery classes,
the Bernoulli filter and the uniform source of Dist, recording for each intervention step what the implementation saw and did.
Also the intervention subclasses used by the configurations (module level so that sims stay picklable).
"""
import numpy as np
import pandas as pd


def make_classes(ss):
    class Screen(ss.routine_screening):
        def check_eligibility(self): return ss.Intervention.check_eligibility(self)
        def init_results(self):
            super().init_results()
            self.define_results(ss.Result('n_screened', dtype=int), ss.Result('n_dx', dtype=int))
    class CScreen(ss.campaign_screening):
        def check_eligibility(self): return ss.Intervention.check_eligibility(self)
        def init_results(self):
            super().init_results()
            self.define_results(ss.Result('n_screened', dtype=int), ss.Result('n_dx', dtype=int))
    return Screen, CScreen


def dx_table(disease='sis', pos_inf=0.9, pos_sus=0.1):
    return pd.DataFrame([dict(name='t', disease=disease, state='susceptible', result='positive', probability=pos_sus), dict(name='t', disease=disease, state='susceptible', result='negative', probability=1 - pos_sus),
                         dict(name='t', disease=disease, state='infected', result='positive', probability=pos_inf), dict(name='t', disease=disease, state='infected', result='negative', probability=1 - pos_inf)])

def tx_table(disease='sis', eff=0.75, rows=(('infected', 'susceptible'),)):
    return pd.DataFrame([dict(name='x', disease=disease, state=a, efficacy=eff, post_state=b) for a, b in rows])


def as_uids(ss, sim, x):
    if x is None: return np.asarray(sim.people.auids).copy()
    if isinstance(x, ss.BoolArr): return np.asarray(x.uids).copy()
    return np.asarray(x).copy()


class IntvRecorder:
    def __init__(self, ss):
        self.ss, self.saved, self.filters, self.steps, self.tx_calls, self.dx_calls = ss, [], [], [], [], []

    def _patch(self, cls, name, make):
        orig = cls.__dict__[name]
        self.saved.append((cls, name, orig))
        setattr(cls, name, make(orig))

    def __enter__(self):
        ss, rec = self.ss, self
        def mk_rand(orig):
            def rand(self_, size):
                out = orig(self_, size)
                self_._probe_rands = np.asarray(out, dtype=float).copy()
                return out
            return rand
        self._patch(ss.Dist, 'rand', mk_rand)
        def mk_filter(orig):
            def filt(self_, uids=None, both=False):
                self_._probe_rands = None
                out = orig(self_, uids, both=both)
                u = np.asarray(uids).copy() if uids is not None and not isinstance(uids, (ss.BoolArr,)) else None
                acc = np.asarray(out[0] if both else out).copy()
                draws = None
                try:
                    if u is not None and self_._probe_rands is not None and len(u):
                        sl = self_._slots
                        draws = self_._probe_rands[sl] if sl is not None else self_._probe_rands
                        if len(draws) != len(u): draws = None
                except Exception:
                    draws = None
                p = self_.pars.p if hasattr(self_, 'pars') else None
                if callable(p) or not isinstance(p, (int, float, np.ndarray, np.floating, np.integer, list)): p = None
                rec.filters.append(dict(dist=self_, name=getattr(self_, 'name', None), uids=u, p=np.asarray(p, dtype=float).copy() if np.ndim(p) else (float(p) if p is not None else None),
                                        accepted=acc, draws=None if draws is None else np.asarray(draws, dtype=float).copy()))
                return out
            return filt
        self._patch(ss.bernoulli, 'filter', mk_filter)

        def snap_vx(iv, n):
            return dict(vaccinated=np.asarray(iv.vaccinated.raw[:n]).copy(), doses=np.asarray(iv.n_doses.raw[:n], dtype=float).copy())
        def disease_flags(sim, n):
            out = {}
            for d in sim.diseases():
                out[d.name] = {k: np.asarray(v.raw[:n]).copy() for k, v in d.__dict__.items() if isinstance(v, ss.BoolArr)}
                if hasattr(d, 'rel_sus'): out[d.name]['rel_sus'] = np.asarray(d.rel_sus.raw[:n], dtype=float).copy()
            return out
        def mk_step(kind):
            def make(orig):
                def step(self_, *a, **kw):
                    if getattr(self_, '_probe_depth', 0):       # super().step() of a subclass: recorded once, at the outermost call
                        return orig(self_, *a, **kw)
                    self_._probe_depth = 1
                    try:
                        sim = self_.sim
                        n = int(sim.people.uid.len_used)
                        ent = dict(kind=kind, name=self_.name, cls=type(self_).__name__, ti=int(sim.ti), n=n, auids=np.asarray(sim.people.auids).copy(),
                                   year=float(sim.t.yearvec[sim.ti]) if sim.ti < len(sim.t.yearvec) else None)
                        try:
                            ent['eligible'] = as_uids(ss, sim, self_.eligibility(sim) if self_.eligibility is not None else None)
                        except Exception as E:
                            ent['eligible'] = None; ent['elig_err'] = repr(E)
                        ent['tps'] = np.asarray(getattr(self_, 'timepoints', []), dtype=float).copy()
                        ent['probs'] = np.asarray(getattr(self_, 'prob', []), dtype=float).copy()
                        ent['flags_before'] = disease_flags(sim, n)
                        if kind == 'vx': ent['before'] = snap_vx(self_, n)
                        if kind == 'screen': ent['before'] = dict(screened=np.asarray(self_.screened.raw[:n]).copy(), screens=np.asarray(self_.screens.raw[:n], dtype=float).copy())
                        if kind == 'treat': ent['queue_before'] = list(self_.queue); ent['cap'] = self_.max_capacity
                        f0, t0 = len(rec.filters), len(rec.tx_calls)
                        out = orig(self_, *a, **kw)
                        ent['out'] = np.asarray(out).astype(int).copy()
                        ent['filters'] = rec.filters[f0:]
                        ent['tx_calls'] = rec.tx_calls[t0:]
                        ent['flags_after'] = disease_flags(sim, n)
                        if kind == 'vx': ent['after'] = snap_vx(self_, n)
                        if kind == 'screen': ent['after'] = dict(screened=np.asarray(self_.screened.raw[:n]).copy(), screens=np.asarray(self_.screens.raw[:n], dtype=float).copy())
                        if kind == 'treat': ent['queue_after'] = list(self_.queue)
                        rec.steps.append(ent)
                        return out
                    finally:
                        self_._probe_depth = 0
                return step
            return make
        self._patch(ss.BaseVaccination, 'step', mk_step('vx'))
        self._patch(ss.BaseScreening, 'step', mk_step('screen'))
        self._patch(ss.BaseTriage, 'step', mk_step('triage'))
        self._patch(ss.treat_num, 'step', mk_step('treat'))

        def mk_adm(orig):
            def administer(self_, uids, *a, **kw):
                sim = self_.sim
                n = int(sim.people.uid.len_used)
                before = {dn: {k: np.asarray(v.raw[:n]).copy() for k, v in sim.diseases[dn].__dict__.items() if isinstance(v, ss.BoolArr)} for dn in self_.diseases}
                f0 = len(rec.filters)
                out = orig(self_, uids, *a, **kw)
                after = {dn: {k: np.asarray(v.raw[:n]).copy() for k, v in sim.diseases[dn].__dict__.items() if isinstance(v, ss.BoolArr)} for dn in self_.diseases}
                rows = []
                for dn in self_.diseases:
                    for st in self_.health_states:
                        sub = self_.df[(self_.df.state == st) & (self_.df.disease == dn)]
                        if len(sub): rows.append((dn, st, str(sub.post_state.values[0]), float(sub.efficacy.values[0])))
                        else: rows.append((dn, st, None, None))
                rec.tx_calls.append(dict(uids=np.asarray(uids).copy(), before=before, after=after, rows=rows, filters=rec.filters[f0:], auids=np.asarray(sim.people.auids).copy(), n=n, out=out, ti=int(sim.ti)))
                return out
            return administer
        self._patch(ss.Tx, 'administer', mk_adm)

        def mk_dx(orig):
            def administer(self_, uids, *a, **kw):
                sim = self_.sim
                n = int(sim.people.uid.len_used)
                states = []
                for dn in self_.diseases:
                    for st in self_.health_states:
                        states.append((str(dn), str(st), np.asarray(getattr(sim.diseases[dn], st).raw[:n]).copy()))
                draws = []
                orig_rvs = self_.result_dist.rvs
                def rvs(arg, *aa, **kk):
                    out = orig_rvs(arg, *aa, **kk)
                    draws.append((np.asarray(arg).copy(), np.asarray(out).copy()))
                    return out
                self_.result_dist.rvs = rvs
                try:
                    out = orig(self_, uids, *a, **kw)
                finally:
                    try: del self_.result_dist.rvs
                    except Exception: self_.result_dist.rvs = orig_rvs
                rec.dx_calls.append(dict(uids=np.asarray(uids).copy(), states=states, draws=draws, out=out, hierarchy=list(self_.hierarchy), default=int(self_.default_value),
                                         auids=np.asarray(sim.people.auids).copy(), n=n, ti=int(sim.ti)))
                return out
            return administer
        self._patch(ss.Dx, 'administer', mk_dx)
        return self

    def __exit__(self, *a):
        for cls, name, orig in reversed(self.saved): setattr(cls, name, orig)
