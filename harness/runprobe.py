"""
Run-level probes installed on real sims at run time (instance-level wrappers; no source change).
TransProbe records, for every Infection.infect() call: the pre-transmission state, every network's edges and the
per-direction effective betas as computed by the implementation, the pairwise random numbers actually drawn, and the
outputs (new cases, sources, network indices).  Used by C12 (and C14/C15 for their own probes).
"""
import types
import numpy as np
from fractions import Fraction as F
from vlib.core import qlit


class TransProbe:
    def __init__(self, ss, sim):
        self.ss, self.sim, self.calls, self.pool_calls = ss, sim, [], []
        for dis in sim.diseases():
            if isinstance(dis, ss.Infection):
                self._wrap_disease(dis)
        for net in sim.networks():
            if isinstance(net, ss.MixingPool):
                self._wrap_pool(net)

    def _wrap_disease(self, dis):
        ss, probe = self.ss, self
        orig_infect = dis.infect
        orig_rvs = dis.trans_rng.rvs
        cur = {}
        def rvs(*args):
            out = orig_rvs(*args)
            if 'rands' in cur: cur['rands'].append(np.asarray(out, dtype=float).copy())
            return out
        dis.trans_rng.rvs = rvs
        def infect(self_):
            sim = self_.sim; ppl = sim.people
            n = int(ppl.uid.len_used)
            rec = dict(disease=self_.name, ti=int(self_.ti), n_uid=n, auids=np.asarray(ppl.auids).copy(),
                       inf=np.asarray(self_.infectious.raw[:n]).copy(), sus=np.asarray(self_.susceptible.raw[:n]).copy(),
                       rel_trans=np.asarray(self_.rel_trans.raw[:n], dtype=float).copy(), rel_sus=np.asarray(self_.rel_sus.raw[:n], dtype=float).copy(),
                       alive=np.asarray(ppl.alive.raw[:n]).copy(), nets=[], rands=[])
            betamap = self_.validate_beta()
            for i, (nkey, net) in enumerate(sim.networks.items()):
                nk = ss.standardize_netkey(nkey)
                ent = dict(name=nkey, index=i, cls=type(net).__name__, p1=[], p2=[], eff=[None, None], gate=[False, False])
                if isinstance(net, ss.Network) and len(net):
                    ent['p1'] = np.asarray(net.edges.p1).copy(); ent['p2'] = np.asarray(net.edges.p2).copy()
                    ent['edge_beta'] = np.asarray(net.edges.beta, dtype=float).copy()
                    for d in (0, 1):
                        beta = betamap[nk][d]
                        ent['gate'][d] = bool(beta)
                        if ent['gate'][d]:
                            ent['eff'][d] = np.asarray(net.net_beta(disease_beta=beta), dtype=float).copy()
                rec['nets'].append(ent)
            cur['rands'] = rec['rands']
            try:
                new_cases, sources, networks = orig_infect()
            finally:
                cur.pop('rands', None)
            rec['out'] = (np.asarray(new_cases).copy(), np.asarray(sources).copy(), np.asarray(networks).copy())
            probe.calls.append(rec)
            return new_cases, sources, networks
        dis.infect = types.MethodType(infect, dis)

    def _wrap_pool(self, pool):
        """The loop's plan holds the bound pool.step captured at init, so the pool is observed from inside:
        at each p_acquire.filter() call (one per disease per step) the pre-acquisition state is recorded."""
        probe = self
        orig_filter = pool.p_acquire.filter
        state = dict(ti=None, k=0)
        def filt(uids=None, both=False):
            sim = pool.sim
            n = int(sim.people.uid.len_used)
            ti = int(pool.ti)
            if state['ti'] != ti: state['ti'], state['k'] = ti, 0
            diseases = pool.diseases or []
            snap = {d.name: dict(inf=np.asarray(d.infectious.raw[:n]).copy(), sus=np.asarray(d.susceptible.raw[:n]).copy(),
                                 rel_trans=np.asarray(d.rel_trans.raw[:n], dtype=float).copy(), rel_sus=np.asarray(d.rel_sus.raw[:n], dtype=float).copy())
                    for d in diseases}
            p = pool.p_acquire.pars.p
            out = orig_filter(uids, both=both)
            beta = pool.pars.beta
            dname = diseases[state['k']].name if state['k'] < len(diseases) else None
            state['k'] += 1
            probe.pool_calls.append(dict(pool=pool.name, ti=ti, snap=snap, diseases=[dname],
                                         recs=[dict(dst=np.asarray(uids).copy(), p=np.asarray(p, dtype=float).copy() if np.ndim(p) else float(p), new=np.asarray(out).copy())],
                                         src=np.asarray(pool.src_uids).copy() if pool.src_uids is not None else None,
                                         contacts=np.asarray(pool.eff_contacts.raw[:n], dtype=float).copy(), auids=np.asarray(sim.people.auids).copy(),
                                         beta=float(beta.values) if hasattr(beta, 'values') else float(beta)))
            return out
        pool.p_acquire.filter = filt


# ------------------------------------------------------------------ Coq encoding of one infect() call
def cells_bool(a): return '[' + '; '.join('V 1' if x else 'V 0' for x in a) + ']'
def cells_f(a): return '[' + '; '.join('V ' + qlit(float(x)) for x in a) + ']'
def nats(a): return '[' + '; '.join(str(int(x)) for x in a) + ']%nat'

def infect_case(rec):
    """(inf, sus, rel_trans, rel_sus, auids, nets, rands, expected).  Effective per-edge betas are those computed by the
    implementation's net_beta (edge beta x disease beta); the model multiplies them by a unit direction beta."""
    nets = []
    for ent in rec['nets']:
        if len(ent['p1']) == 0:
            nets.append('(mkNet [] 0 0)'); continue
        # one edge list per network: the two directions may carry different effective betas -> encode as b0/b1 scaling when proportional
        e0, e1 = ent['eff']
        base = e0 if e0 is not None else e1
        if base is None:
            nets.append('(mkNet [] 0 0)'); continue
        edges = '[' + '; '.join(f'mkEdge {int(a)} {int(b)} {qlit(float(x))}' for a, b, x in zip(ent['p1'], ent['p2'], base)) + ']'
        # direction betas relative to `base`
        def rel(e):
            if e is None: return '0'
            nz = np.flatnonzero(base != 0)
            if len(nz) == 0: return '1'
            ratios = e[nz] / base[nz]
            if not np.allclose(ratios, ratios[0], rtol=1e-12, atol=0): return None
            return qlit(F(float(e[nz[0]])) / F(float(base[nz[0]])))
        r0, r1 = rel(e0), rel(e1)
        if r0 is None or r1 is None: return None
        nets.append(f'(mkNet {edges} {r0} {r1})')
    rands = '[' + '; '.join('[' + '; '.join(qlit(float(x)) for x in r) + ']' for r in rec['rands']) + ']'
    nc, srcs, nws = rec['out']
    exp = '[' + '; '.join(f'({int(t)}, {int(s)}, {int(w)})%nat' for t, s, w in zip(nc, srcs, nws)) + ']'
    return (f'({cells_bool(rec["inf"])}, {cells_bool(rec["sus"])}, {cells_f(rec["rel_trans"])}, {cells_f(rec["rel_sus"])}, {nats(rec["auids"])}, '
            f'[' + '; '.join(nets) + f'], {rands}, {exp})')

INFECT_TYPE = 'list cell * list cell * list cell * list cell * list nat * list netw * list (list Q) * list (nat * nat * nat)'
INFECT_OK = '''Definition trip_eqb (a b : nat * nat * nat) : bool :=
  let '(x, y, z) := a in let '(x', y', z') := b in andb (Nat.eqb x x') (andb (Nat.eqb y y') (Nat.eqb z z')).
Fixpoint trips_eqb (a b : list (nat * nat * nat)) : bool :=
  match a, b with [], [] => true | x :: a', y :: b' => andb (trip_eqb x y) (trips_eqb a' b') | _, _ => false end.
Definition ok (c : %s) : bool :=
  let '(inf, sus, rt, rs, au, nets, rands, exp) := c in
  match infect inf sus rt rs au nets rands with Some r => trips_eqb r exp | None => false end.''' % INFECT_TYPE
