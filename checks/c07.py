"""
C07 -- Every accepted time specification yields a consistent timeline.

1. translator: Gen_Time.v (unit table, time_ratio incl. the rounding variant used for fractional calendar steps)
2. obligations: Props/C07.v
3. correspondence: generated accepted specifications (numeric / unitless / calendar day-week / calendar year; integer, fractional and
   non-dividing dt; numeric, zero and ISO-date starts incl. leap days and month ends; stop-or-dur) are given to ss.Time and to the model
   (numeric_timeline, unitless_timeline, calendar_timeline, year_calendar_timeline, abstvec_*): npts, time / year / elapsed vectors
   (1e-9) and dates (exact) compared inside Coq
4. oracle on the implementation: the clauses of the property on the real Time objects (start, strictly increasing, uniform spacing,
   last point not after stop and stop < last + dt, representations denote the same instants, one result entry per time point,
   module placement on the sim axis).  A model/implementation divergence that the oracle explains by a concrete violated clause is
   reported as that violation (known findings: float floor in the grid length, fractional-step date drift, month-end drift).
"""
import datetime as dtm
import numpy as np
from fractions import Fraction as F
from vlib.core import Broken, qlit

IMPORTS = 'Model.Prelude Model.L3_Units Gen.Gen_Time Model.L3_Timeline'
UC = {'day': 'UDay', 'week': 'UWeek', 'month': 'UMonth', 'year': 'UYear', 'unitless': 'UUnitless'}
UD = {'day': 1.0, 'week': 7.0, 'month': 30.4375, 'year': 365.25}


def dlit(x):
    """The user's decimal literal (shortest repr of the float), as an exact rational: the model computes on what was written."""
    return qlit(F(repr(float(x))))

def stop_lit(start, stop, dt):
    """`stop` as the model sees it.  A stop that is a whole number of steps from the start *to rounding* (the decimal texts of start, stop, dt put
    it within 1e-9 steps of a grid point: e.g. stop = start + 29 * (1/12) computed in floats) is the grid point itself -- the property bounds the
    last point by stop "to rounding".  Exact multiples (2000, 2000.3, 0.1) are unchanged, so the float-floor finding still shows."""
    a, b, d = F(repr(float(start))), F(repr(float(stop))), F(repr(float(dt)))
    if d > 0:
        q = (b - a) / d; k = round(q)
        if q != k and abs(q - k) < F(1, 10**9): return qlit(a + k * d)
    return qlit(b)

def ql(xs): return '[' + '; '.join(qlit(float(x)) for x in xs) + ']'
def zl(xs): return '[' + '; '.join(str(int(x)) if int(x) >= 0 else f'({int(x)})' for x in xs) + ']%Z'


def oracle_time(ctx, ss, t, spec):
    """Clauses of the property on one real Time object. Returns True if a violation was reported."""
    hit = False
    def viol(msg, **kw):
        nonlocal hit
        hit = True
        ctx.violation(f'{spec}: {msg}', dict(spec=spec) | kw)
    dt, unit = float(t.dt), t.unit
    tv = np.asarray(t.tvec, dtype=float)
    # the year vector and the date vector name the same instants (Gregorian rule: century years are leap only if divisible by 400)
    if not t.is_numeric and spec.get('unit') in ('day', 'week'):
        import calendar
        yv = np.asarray(t.yearvec, dtype=float)
        for i, d_ in enumerate(t.datevec):
            dd = d_.date(); ylen = 366 if calendar.isleap(dd.year) else 365
            want = dd.year + (dd.timetuple().tm_yday - 1) / ylen
            if abs(yv[i] - want) > 2e-4:
                viol(f'year vector and date vector disagree: point {i} is {dd.isoformat()} = year {want:.6f} but yearvec says {yv[i]:.6f}', index=i); break
    if t.is_numeric:
        x = np.asarray(t.timevec, dtype=float)
        if abs(x[0] - float(t.start)) > 1e-6: viol(f'time vector starts at {x[0]}, requested start {t.start}')
        if len(x) > 1:
            d = np.diff(x)
            if (d <= 0).any(): viol('time vector is not strictly increasing')
            elif np.abs(d - dt).max() > 2e-6: viol(f'spacing {d.min()}..{d.max()} is not the requested dt {dt}')
        if x[-1] > float(t.stop) + 1e-6: viol(f'last time point {x[-1]} is after stop {t.stop}')
        if x[-1] + dt <= float(t.stop) + 1e-9:
            viol(f'time vector ends at {x[-1]} although {x[-1] + dt} is still not after stop {float(t.stop)} (a grid point is missing)',
                 finding_key='inclusiverange-float-floor', last=float(x[-1]), stop=float(t.stop), dt=dt)
        if abs(tv - (x - x[0])).max() > 2e-6: viol('elapsed-time vector differs from timevec - start')
        if unit in UD:
            ratio = UD[unit] / 365.25
            yv = np.asarray(t.yearvec, dtype=float)
            want = (x - x[0]) * ratio + (2000 if float(t.start) == 0 else 0) + x[0]
            if np.abs(yv - want).max() > 2e-6: viol('year vector does not denote the same instants as the time vector')
    else:
        dates = [d.date() if hasattr(d, 'date') else d for d in t.datevec]
        ords = np.array([d.toordinal() for d in dates])
        start = ss.date(t.start).date().toordinal(); stop = ss.date(t.stop).date().toordinal()
        if ords[0] != start: viol(f'date vector starts at {dates[0]}, requested start {t.start}')
        if len(ords) > 1 and (np.diff(ords) <= 0).any(): viol('date vector is not strictly increasing')
        if ords[-1] > stop: viol(f'last date {dates[-1]} is after stop {t.stop}')
        if unit in ('day', 'week'):
            el = (ords - ords[0]) / UD[unit]
            if np.abs(el - tv).max() > 1e-6:
                i = int(np.argmax(np.abs(el - tv)))
                viol(f'date and elapsed-time representations drift apart: point {i} is {dates[i]} = {el[i]:.4f} {unit}s after the start but tvec says {tv[i]}',
                     finding_key='fractional-step-date-drift' if float(dt) != int(dt) else None, index=i)
            step = np.diff(ords)
            if len(step) and step.max() != step.min(): viol(f'date spacing is not uniform: {sorted(set(step.tolist()))} days')
        if unit == 'month' and float(dt) == int(dt) and len(dates) > 2:
            dom = [d.day for d in dates]
            if dates[0].day > 28 and any(x < min(dates[0].day, 28) or (x != dates[0].day and m.month != 2) for x, m in zip(dom[2:], dates[2:])):
                viol(f'monthly grid from {dates[0]} loses the day of month: {dates[1]}, {dates[2]}, ...', finding_key='month-end-drift')
        if unit == 'year' and float(dt) == 1.0 and (dates[0].month, dates[0].day) == (ss.date(t.stop).date().month, ss.date(t.stop).date().day) and (dates[0].month, dates[0].day) != (2, 29):
            # stop is a whole number of calendar years after start: it is a grid point and must be the last one
            if ords[-1] != stop:
                viol(f'yearly grid from {dates[0]} to {ss.date(t.stop).date()} ends at {dates[-1]}: the requested stop, a whole number of years after the start, is not part of the timeline ({len(dates)} points)',
                     finding_key='year-grid-from-mid-year-date-drops-stop' if (dates[0].month, dates[0].day) != (1, 1) else None)
        yv = np.asarray(t.yearvec, dtype=float)
        want = np.array([d.year + (d - dtm.date(d.year, 1, 1)).days / (dtm.date(d.year + 1, 1, 1) - dtm.date(d.year, 1, 1)).days for d in dates])
        if np.abs(yv - want).max() > 1.5 / 365: viol('year vector does not denote the dates of the date vector (more than a day apart)')
    if t.npts != len(t.tvec) or t.npts != len(t.yearvec) or t.npts != len(t.timevec): viol('vectors of different lengths')
    return hit


def gen_numeric(rng):
    unit = rng.choice(['year', 'year', 'day', 'week', 'month', 'unitless'])
    start = rng.choice([0, 2000, 2000, 1995.5, 10, 1])
    dt = rng.choice([1.0, 1.0, 0.5, 0.25, 0.1, 0.2, 2.0, 7.0, 0.3, 1.5, 1 / 12, 0.05])
    k = rng.randint(1, 30)
    kind = rng.random()
    if kind < 0.6: stop = start + k * dt                 # dividing (in exact arithmetic of the literals)
    elif kind < 0.8: stop = round(start + k * dt + dt * rng.choice([0.3, 0.5, 0.9]), 6)   # non-dividing
    else: stop = round(start + k * dt, 6)
    return dict(kind='numeric', unit=unit, start=start, stop=float(stop), dt=dt)


def gen_calendar(rng, century=False):
    unit = rng.choice(['day', 'day', 'week', 'week', 'year', 'month']) if not century else rng.choice(['day', 'week'])
    y, m = rng.choice([2019, 2020, 2021, 2024] if not century else [2100, 1900, 2099, 2000]), rng.randint(1, 12)      # century years: 1900 and 2100 are not leap years, 2000 is
    d = rng.choice([1, 15, 28, 29, 30, 31])
    while True:
        try: s = dtm.date(y, m, d); break
        except ValueError: d -= 1
    if unit == 'year':
        dt = rng.choice([1.0, 0.5, 0.25, 1 / 12]); e = s + dtm.timedelta(days=rng.randint(200, 1500))
    elif unit == 'month':
        dt = rng.choice([1.0, 2.0, 3.0]); e = s + dtm.timedelta(days=rng.randint(60, 500))
    else:
        dt = rng.choice([1.0, 2.0, 7.0, 1.5, 0.5, 2.5, 10.0] if unit == 'day' else [1.0, 2.0, 1.5, 0.5, 4.0])
        e = s + dtm.timedelta(days=rng.randint(5, 120))
    if unit == 'year' and rng.random() < 0.5 and (s.month, s.day) != (2, 29):      # a stop that is a whole number of calendar years after the start
        dt = 1.0; e = dtm.date(s.year + rng.randint(1, 6), s.month, s.day)
    return dict(kind='calendar', unit=unit, start=s.isoformat(), stop=e.isoformat(), dt=dt)


def run(ctx):
    ctx.translate(['Gen_Time'])
    ctx.build_props('C07')
    try:
        import starsim as ss
    except Exception as E:
        raise Broken('correspondence', 'cannot import starsim', repr(E))
    rng = ctx.rng
    ctx.cov['rule'] = ('accepted (start, stop, dt, unit) specifications: numeric / unitless / ISO-date starts (leap days, month ends), integer / fractional / '
                       'non-dividing dt, four units; every vector of the real ss.Time compared with the model in Coq; module-vs-sim placements for the three '
                       'make_abstvec branches; result lengths; non-trivial = distinct specification with more than one time point')
    terms, specs, times = [], [], []
    n = ctx.n(260, 6000)
    for c in range(n):
        spec = gen_numeric(rng) if c % 2 == 0 else gen_calendar(rng, century=(c % 10 == 1))
        try:
            t = ss.Time(start=spec['start'], stop=spec['stop'], dt=spec['dt'], unit=spec['unit'])
        except Exception as E:
            ctx.dist(f'rejected by the constructor ({type(E).__name__})'); continue
        ctx.count(repr(spec), nontrivial=t.npts > 1); ctx.dist(f'{spec["kind"]}/{spec["unit"]}')
        if spec['unit'] == 'month' and spec['kind'] == 'calendar':
            oracle_time(ctx, ss, t, spec); continue            # dateutil month stepping is not modelled: implementation-side clauses only
        tv, yv, el = np.asarray(t.timevec if t.is_numeric else [0] * t.npts, dtype=float), np.asarray(t.yearvec, dtype=float), np.asarray(t.tvec, dtype=float)
        if spec['kind'] == 'numeric':
            mdl = f'numeric_timeline {UC[spec["unit"]]} {dlit(spec["start"])} {stop_lit(spec["start"], spec["stop"], spec["dt"])} {dlit(spec["dt"])}'
            dates = [d.date().toordinal() for d in t.datevec]
            kindflag = 0
        else:
            so, eo = dtm.date.fromisoformat(spec['start']).toordinal(), dtm.date.fromisoformat(spec['stop']).toordinal()
            mdl = f'year_calendar_timeline {so} {eo} {dlit(spec["dt"])}' if spec['unit'] == 'year' else f'calendar_timeline {UC[spec["unit"]]} {so} {eo} {dlit(spec["dt"])}'
            dates = [d.date().toordinal() for d in t.datevec]
            tv = np.array(dates, dtype=float); kindflag = 1
        terms.append(f'({mdl}, {t.npts}%nat, {ql(tv)}, {ql(yv)}, {ql(el)}, {zl(dates)}, {1 - kindflag}%Z)')
        specs.append(spec); times.append(t)
    okdef = '''Fixpoint qs_close (a b : list Q) : bool := match a, b with [], [] => true | x :: a', y :: b' => andb (Qclose (1 # 100000000) x y) (qs_close a' b') | _, _ => false end.
(* dates derived from a numeric year vector may differ by one day when year fraction x year length falls on a half day (binary64 noise) *)
Fixpoint zs_eqb (tol : Z) (a b : list Z) : bool := match a, b with [], [] => true | x :: a', y :: b' => andb (Z.leb (Z.abs (x - y)) tol) (zs_eqb tol a' b') | _, _ => false end.
Definition ok (c : timeline * nat * list Q * list Q * list Q * list Z * Z) : bool :=
  let '(m, n, tv, yv, el, ds, tol) := c in
  andb (Nat.eqb (tl_npts m) n) (andb (qs_close (tl_time m) tv) (andb (qs_close (tl_year m) yv) (andb (qs_close (tl_tvec m) el) (zs_eqb tol (tl_dates m) ds)))).'''
    bad = ctx.coq_mismatches('timelines', IMPORTS, 'timeline * nat * list Q * list Q * list Q * list Z * Z', terms, okdef, shard=40)
    badset = set(bad)
    explained = 0
    for i, (spec, t) in enumerate(zip(specs, times)):
        hit = oracle_time(ctx, ss, t, spec)
        if i in badset:
            if hit: explained += 1
            else: ctx.broke('correspondence', f'{spec}: the model timeline and the real ss.Time differ, and no clause of the property fails on the real object',
                            f'npts={t.npts}, yearvec[:4]={np.asarray(t.yearvec)[:4]}, tvec[:4]={np.asarray(t.tvec)[:4]}')
    ctx.cov['divergences_explained_by_a_violated_clause'] = explained
    ctx.cov['divergences'] = len(bad)
    if specs: ctx.sample(dict(kind='time specification', spec=specs[0], npts=times[0].npts))
    ctx.guard('module_placement', module_placement, ctx, ss)
    ctx.guard('duration_forms', duration_forms, ctx, ss)


def duration_forms(ctx, ss):
    """start + dur (instead of stop): the timeline has dur/dt + 1 points and its elapsed-time vector ends at dur, whatever the unit and the form of the start."""
    for unit in ('day', 'week', 'month', 'year'):
        for start in (None, 2000, '2000-01-01', '2021-03-01'):
            for dur, dt in ((12, 1.0), (1, 1.0), (10, 2.0), (6, 0.5)):
                key = dict(probe='start+dur', unit=unit, start=start, dur=dur, dt=dt)
                try:
                    sim = ss.Sim(n_agents=5, unit=unit, dur=dur, dt=dt, verbose=0, **({} if start is None else dict(start=start))); sim.init()
                except Exception as E:
                    ctx.dist('start+dur rejected by the constructor'); continue
                ctx.count(repr(key), nontrivial=True); ctx.dist('start+dur forms')
                want = int(round(dur / dt)) + 1; t = sim.t
                if t.npts != want or abs(float(t.tvec[-1]) - dur) > 1e-6:
                    w = dict(key)
                    if unit in ('month', 'year') and not t.is_numeric: w['finding_key'] = 'date-start-plus-dur-loses-final-point'
                    elif float(dt) != int(dt) and unit in ('day', 'week') and not t.is_numeric: w['finding_key'] = 'fractional-step-date-drift'
                    ctx.violation(f'{key}: the timeline has {t.npts} points and its elapsed time ends at {float(t.tvec[-1])}; start + dur is a grid point, so {want} points ending at {dur} are expected', w)


def module_placement(ctx, ss):
    """Module timelines on the sim's elapsed-time axis + one result entry per own time point."""
    rng = ctx.rng
    from harness.probes import ProbeAna
    terms, metas = [], []
    # a module that spells the sim's own unit with an accepted alias and leaves everything else to be inherited has exactly the sim's timeline
    for su, aliases in (('year', ['years', 'yr', 'y']), ('day', ['days', 'd']), ('week', ['weeks', 'wk', 'w'])):
        for al in aliases:
            for simkw in (dict(unit=su, dt=0.5, start=2000, dur=4), dict(unit=su, dt=2.0, start='2020-02-01', dur=12)):
                key = dict(branch='alias', sim=simkw, module=dict(unit=al))
                try:
                    sim = ss.Sim(n_agents=20, diseases=ss.SIS(unit=al), networks=ss.RandomNet(), verbose=0, **simkw); sim.init()
                except Exception as E:
                    ctx.dist(f'placement rejected by the constructor ({type(E).__name__})'); continue
                ctx.count(repr(key), nontrivial=True); ctx.dist('placement:alias')
                st, mt = sim.t, sim.diseases.sis.t
                if mt.npts != st.npts or not np.allclose(np.asarray(mt.tvec, dtype=float), np.asarray(st.tvec, dtype=float)) or not np.allclose(np.asarray(mt.yearvec, dtype=float), np.asarray(st.yearvec, dtype=float)):
                    ctx.violation(f'{key}: a module whose unit is the alias {al!r} of the sim unit has {mt.npts} time points (dt {mt.dt}, start {mt.start}); the sim has {st.npts} (dt {st.dt}, start {st.start})', key)
    # a time specification accepted by the constructor survives later parameter updates that do not mention time
    for simkw, modkw in ((dict(unit='year', dt=1.0, start=2000, dur=10), dict(dt=0.5)), (dict(unit='day', dt=1.0, start='2020-01-01', dur=63), dict(unit='week', dt=1.0)),
                         (dict(unit='year', dt=0.5, start=2000, dur=6), dict(unit='year', dt=0.25, start=2001, stop=2004))):
        key = dict(branch='later update_pars', sim=simkw, module=modkw)
        try:
            d1 = ss.SIS(**modkw); d2 = ss.SIS(**modkw); d2.update_pars(dict(imm_boost=2.0)); d2.update_pars(None, init_prev=0.02)
            s1 = ss.Sim(n_agents=20, diseases=d1, networks=ss.RandomNet(), verbose=0, **simkw); s1.init()
            s2 = ss.Sim(n_agents=20, diseases=d2, networks=ss.RandomNet(), verbose=0, **simkw); s2.init()
        except Exception as E:
            ctx.violation(f'{key}: raised {type(E).__name__}: {E}', key); continue
        ctx.count(repr(key), nontrivial=True); ctx.dist('placement:later update_pars')
        t1, t2 = s1.diseases.sis.t, s2.diseases.sis.t
        if t1.npts != t2.npts or t1.unit != t2.unit or float(t1.dt) != float(t2.dt) or not np.allclose(np.asarray(t1.abstvec, dtype=float), np.asarray(t2.abstvec, dtype=float)):
            ctx.violation(f'{key}: after update_pars(imm_boost=..) the module built with {modkw} has unit {t2.unit}, dt {t2.dt}, {t2.npts} time points; without that call it has unit {t1.unit}, dt {t1.dt}, {t1.npts} time points', key)
    forced = [(dict(unit='year', dt=1.0, start=2000, dur=10), dict(unit='year', dt=0.5, start=2000, stop=2005)),      # same NUMBER of points as the sim, other instants
              (dict(unit='day', dt=2.0, start='2020-01-01', dur=56), dict(unit='day', dt=1.0, start='2020-01-01', stop='2020-01-29'))]
    for c in range(ctx.n(30, 500)):
        branch = rng.choice(['numeric', 'year', 'days'])
        if branch == 'numeric':
            su = rng.choice(['year', 'day']); sdt = rng.choice([1.0, 0.5, 2.0]); sstart = rng.choice([2000, 0, 10]); dur = rng.choice([4, 6, 10]) * sdt
            mu = rng.choice([su, su, 'day' if su == 'year' else 'week']); mdt = rng.choice([sdt, sdt / 2, sdt * 2, 1.0])
            mstart = sstart + rng.choice([0, 0, sdt, 2 * sdt]); mstop = sstart + dur - rng.choice([0, 0, sdt])
            simkw = dict(unit=su, dt=sdt, start=sstart, dur=dur)
            modkw = dict(unit=mu, dt=mdt, start=mstart, stop=mstop) if mu == su else dict(unit=mu, dt=mdt)
        elif branch == 'year':
            simkw = dict(unit='year', dt=rng.choice([1.0, 0.5]), start='2020-01-01', dur=rng.choice([3, 5]))
            modkw = rng.choice([dict(unit='day', dt=30.0), dict(unit='week', dt=4.0), dict(unit='year', dt=0.25), dict(unit='month', dt=1.0)])
        else:
            simkw = dict(unit=rng.choice(['day', 'week']), dt=rng.choice([1.0, 2.0, 7.0]), start='2020-02-01', dur=rng.choice([28, 56]))
            modkw = rng.choice([dict(unit='day', dt=1.0), dict(unit='day', dt=3.0), dict(unit='week', dt=1.0), dict(unit='week', dt=2.0)])
        if c < len(forced): simkw, modkw = forced[c]; branch = 'numeric' if c == 0 else 'days'
        key = dict(branch=branch, sim=simkw, module=modkw)
        try:
            sim = ss.Sim(n_agents=20, diseases=ss.SIS(**modkw), networks=ss.RandomNet(), analyzers=ProbeAna(name='pana', **modkw), verbose=0, **simkw)
            sim.init()
        except Exception as E:
            ctx.dist(f'placement rejected by the constructor ({type(E).__name__})'); continue
        ctx.count(repr(key)); ctx.dist('placement:' + branch)
        st, mt = sim.t, sim.diseases.sis.t
        # one result entry per own time point
        for mod in sim.modules:
            for rk, res in mod.results.items():
                if isinstance(res, ss.Result) and len(res) != mod.t.npts:
                    ctx.violation(f'{key}: result {mod.name}.{rk} has {len(res)} entries, its module has {mod.t.npts} time points', key | dict(result=f'{mod.name}.{rk}'))
        for rk, res in sim.results.items():
            if isinstance(res, ss.Result) and len(res) != st.npts:
                ctx.violation(f'{key}: sim result {rk} has {len(res)} entries, the sim has {st.npts} time points', key | dict(result=rk))
        # the integration plan runs the module at its own instants
        try:
            plan = sim.loop.plan; pt = np.unique(np.round(np.asarray([float(t) for t, m in zip(plan.time, plan.module) if m == 'sis']), 9))
            own = np.unique(np.round(np.asarray(mt.abstvec, dtype=float), 9))
            if len(pt) != len(own) or not np.allclose(pt, own, atol=1e-8):
                ctx.violation(f'{key}: the loop schedules the module at {pt[:4].tolist()}.. ({len(pt)} instants); its own timeline is {own[:4].tolist()}.. ({len(own)} instants)', key | dict(probe='plan-vs-timeline'))
        except Exception as E:
            ctx.violation(f'{key}: reading the integration plan raised {type(E).__name__}: {E}', key)
        # placement oracle: the module instants, as calendar years, relative to the sim start, in sim units
        a = np.asarray(mt.abstvec, dtype=float)
        if len(a) > 1 and (np.diff(a) <= 0).any(): ctx.violation(f'{key}: module placement on the sim axis is not increasing', key)
        if branch != 'numeric' or (st.unit in UD):
            want = (np.asarray(mt.yearvec, dtype=float) - float(st.yearvec[0])) * 365.25 / UD[st.unit]
            if False:
                pass
            if branch != 'numeric' and np.abs(a - want).max() > 1.5 / UD[st.unit] + 1e-6:
                i = int(np.argmax(np.abs(a - want)))
                ctx.violation(f'{key}: module time point {i} (year {mt.yearvec[i]}) is placed at {a[i]} on the sim axis; its calendar instant is {want[i]:.4f} {st.unit}s after the sim start', key | dict(index=i))
        # model
        if branch == 'numeric':
            if not (mt.is_numeric and st.is_numeric): continue
            mdl = f'abstvec_numeric {UC[mt.unit]} {UC[st.unit]} {ql(mt.tvec)} {qlit(float(mt.start))} {qlit(float(st.start))}'
        elif branch == 'year':
            mdl = f'abstvec_year {ql(mt.yearvec)} {qlit(float(st.yearvec[0]))}'
        else:
            mdl = f'abstvec_days {zl([d.date().toordinal() for d in mt.datevec])} {st.datevec[0].date().toordinal()} {UC[st.unit]}'
        terms.append(f'({mdl}, {ql(a)})'); metas.append(key)
    okdef = '''Fixpoint qs_close (a b : list Q) : bool := match a, b with [], [] => true | x :: a', y :: b' => andb (Qclose (1 # 100000000) x y) (qs_close a' b') | _, _ => false end.
Definition ok (c : list Q * list Q) : bool := qs_close (fst c) (snd c).'''
    bad = ctx.coq_mismatches('abstvec', IMPORTS, 'list Q * list Q', terms, okdef, shard=40)
    for j in bad[:3]:
        ctx.broke('correspondence', f'{metas[j]}: module placement (make_abstvec) differs between model and implementation')


def replay(ctx, rp):
    run(ctx)
