"""
C19 -- Ageing, parentage and pregnancy states stay mutually consistent.

1. translator: Gen_Preg.v -- flag scripts of Pregnancy.update_states / set_prognoses / finish_step; schedules, embryo age, maternal-network
   edge end / keep / inactivity expressions; shape pins on make_embryos, make_pregnancies, step (burn-in), do_step, update_states hand-over
2. obligations: Props/C19.v
3. correspondence: every real call of the three flag-changing methods is replayed through the generated scripts in Coq; every recorded conception
   (step, gestation, post-partum duration -> stored ti_delivery / ti_postpartum, embryo age, prenatal edge end) and every observed delivery step
   is recomputed by the generated expressions / delivery_step in Coq
4. oracle on the implementation (per-step probe + class-level wrappers): ageing by dt_year, newborn age in [0, dt_year), one mother per conceived
   agent (female, alive, in the fertile age range, not pregnant nor post-partum at conception), links agree, exclusivity of the three states,
   delivery at conception + ceil(gestation), prenatal edges == current pregnancies, postnatal edges only between delivered mother-child pairs and
   ending less than one step after the post-partum period
"""
import math
import numpy as np
import pandas as pd
from fractions import Fraction as F
from vlib.core import Broken, qlit

IMPORTS = 'Model.Prelude Model.L5_CompartBase Gen.Gen_Compart Model.L5_Compart Gen.Gen_Preg Model.L5_Preg'
FLAGS = ['fecund', 'pregnant', 'postpartum']


class PregRecorder:
    def __init__(self, ss):
        self.ss, self.saved, self.calls, self.conceptions = ss, [], [], []
    def __enter__(self):
        ss, rec = self.ss, self
        cls = ss.Pregnancy
        for meth in ('update_states', 'set_prognoses', 'finish_step'):
            orig = cls.__dict__[meth]
            self.saved.append((cls, meth, orig))
            def make(orig, meth):
                def wrapper(self_, *a, **kw):
                    sim = self_.sim; ppl = sim.people
                    n = int(ppl.uid.len_used)
                    before = {f: np.asarray(getattr(self_, f).raw[:n]).copy() for f in FLAGS}
                    timers = {k: np.asarray(getattr(self_, k).raw[:n], dtype=float).copy() for k in ('ti_delivery', 'ti_postpartum', 'ti_dead')}
                    ti = int(self_.ti)
                    uids = np.asarray(a[0]).copy() if (a and meth == 'set_prognoses') else None
                    if meth == 'set_prognoses':
                        for u in map(int, uids):
                            rec.conceptions.append(dict(ti=ti, mother=u, female=bool(ppl.female.raw[u]), alive=bool(ppl.alive.raw[u]), age=float(ppl.age.raw[u]),
                                                        flags={f: bool(before[f][u]) for f in FLAGS}, active=u in set(map(int, ppl.auids))))
                    out = orig(self_, *a, **kw)
                    n2 = int(ppl.uid.len_used)
                    after = {f: np.asarray(getattr(self_, f).raw[:n]).copy() for f in FLAGS}
                    ent = dict(meth=meth, ti=ti, n=n, before=before, after=after, timers=timers, uids=uids, auids=np.asarray(ppl.auids).copy())
                    if meth == 'set_prognoses':
                        ent['sched'] = {int(u): dict(ti_delivery=float(self_.ti_delivery.raw[u]), ti_postpartum=float(self_.ti_postpartum.raw[u]), dur_pp=float(self_.dur_postpartum.raw[u])) for u in uids}
                    rec.calls.append(ent)
                    return out
                return wrapper
            setattr(cls, meth, make(orig, meth))
        return self
    def __exit__(self, *a):
        for cls, meth, orig in self.saved: setattr(cls, meth, orig)


def make_probe(ss):
    class PregProbe(ss.Analyzer):
        def __init__(self, **kw):
            super().__init__(**kw); self.problems = []; self.prev = None; self.post_seen = {}; self.deliveries = []; self.embryos = []; self.post_edges = []
        def note(self, what): self.problems.append((int(self.sim.ti), what))
        def step(self):
            sim = self.sim; ppl = sim.people; p = sim.demographics.pregnancy; ti = int(sim.ti)
            au = np.asarray(ppl.auids); n = int(ppl.uid.len_used)
            alive = np.asarray(ppl.alive.raw[:n]); age = np.asarray(ppl.age.raw[:n], dtype=float)
            fl = {f: np.asarray(getattr(p, f).raw[:n]) for f in FLAGS}
            child = np.asarray(p.child_uid.raw[:n], dtype=float); parent = np.asarray(ppl.parent.raw[:n])
            dty = float(sim.t.dt_year)
            act = np.zeros(n, dtype=bool); act[au] = True
            live = act & alive
            # (c) exclusivity
            cnt = sum(fl[f].astype(int) for f in FLAGS)
            bad = np.flatnonzero(live & (cnt != 1))
            if len(bad): self.note(f'agent {int(bad[0])} is in {int(cnt[bad[0]])} of the states fecund/pregnant/postpartum: ' + ', '.join(f for f in FLAGS if fl[f][bad[0]]))
            # (a) ageing and (b) links of the agents that appeared since the last step
            if self.prev is not None:
                pn = self.prev['n']
                both = live[:pn] & self.prev['live']
                if sim.pars.use_aging:
                    d = age[:pn] - self.prev['age']
                    bad = np.flatnonzero(both & (np.abs(d - dty) > 1e-4))
                    if len(bad): self.note(f'agent {int(bad[0])} aged by {d[bad[0]]:.6f} in one step of {dty:.6f} years')
                # newborns: the child of a woman who was pregnant at the last probe and is not any more (both alive) is aged in [0, dt_year)
                pf = self.prev['flags']; pc = self.prev['child']
                for m in np.flatnonzero(both & pf['pregnant'] & ~fl['pregnant'][:pn] & fl['postpartum'][:pn]):
                    c = pc[m]
                    if np.isnan(c) or not alive[int(c)]: continue
                    self.deliveries.append(dict(ti=ti, mother=int(m), child=int(c), age=float(age[int(c)])))
                    if not (-1e-4 <= age[int(c)] < dty + 1e-4): self.note(f'newborn {int(c)} of woman {int(m)} enters at age {age[int(c)]:.5f} (step length {dty:.5f} years)')
            pn = self.prev['n'] if self.prev is not None else int(sim.pars.n_agents)
            for u in range(pn, n):
                m = int(parent[u])
                self.embryos.append(dict(ti=ti, child=u, mother=m, age=float(age[u])))
                if m < 0 or m >= n: self.note(f'conceived agent {u} has no mother (parent = {m})'); continue
                if not (child[m] == u) and alive[u] and alive[m] and fl['pregnant'][m]: self.note(f'child link of mother {m} is {child[m]}, her conceived child is {u}')
            # links of current pregnancies
            for m in np.flatnonzero(live & fl['pregnant']):
                c = child[m]
                if np.isnan(c): self.note(f'pregnant woman {int(m)} has no child link'); break
                if int(parent[int(c)]) != int(m): self.note(f'child {int(c)} of pregnant woman {int(m)} has parent {int(parent[int(c)])}'); break
            # (e) prenatal edges == current pregnancies (both endpoints alive)
            pre = [nw for nw in sim.networks() if getattr(nw, 'prenatal', False)]
            post = [nw for nw in sim.networks() if getattr(nw, 'postnatal', False)]
            cur = {(int(m), int(child[m])) for m in np.flatnonzero(live & fl['pregnant']) if not np.isnan(child[m]) and alive[int(child[m])]}
            for nw in pre:
                if nw in post: continue
                pe = {(int(a), int(b)) for a, b, bt in zip(nw.edges.p1, nw.edges.p2, nw.edges.beta) if alive[a] and alive[b] and bt > 0}   # active = still transmitting (ended edges may linger with beta 0)
                if pe != cur:
                    ex, mi = sorted(pe - cur), sorted(cur - pe)
                    self.note(f'active prenatal edges of {nw.name} differ from current pregnancies: ' + (f'edge {ex[0]} without a pregnancy' if ex else f'pregnancy {mi[0]} without an edge'))
            # (f) postnatal edges
            for nw in post:
                if nw in pre: continue
                for a, b, e, s in zip(nw.edges.p1.tolist(), nw.edges.p2.tolist(), np.asarray(nw.edges.end, dtype=float).tolist(), np.asarray(nw.edges.start, dtype=float).tolist()):
                    key = (nw.name, a, b, s)
                    if key in self.post_seen: continue
                    self.post_seen[key] = ti
                    if int(parent[b]) != a: self.note(f'postnatal edge ({a}, {b}) does not join a mother and her child'); continue
                    if age[b] < -1e-4: self.note(f'postnatal edge ({a}, {b}) to an unborn child (age {age[b]:.4f})'); continue
                    self.post_edges.append(dict(net=nw.name, mother=a, child=b, end=e, start=s, seen=ti))
            self.prev = dict(n=n, age=age.copy(), live=live.copy(), flags={f: fl[f].copy() for f in FLAGS}, child=child.copy())
    return PregProbe


def direct_state_probes(ctx, ss, viol):
    states = {'fecund': dict(fecund=True, pregnant=False, postpartum=False), 'pregnant': dict(fecund=False, pregnant=True, postpartum=False), 'postpartum': dict(fecund=False, pregnant=False, postpartum=True)}
    def fresh():
        sim = ss.Sim(n_agents=40, demographics=ss.Pregnancy(fertility_rate=0), dur=6, dt=1.0, rand_seed=1, verbose=0); sim.init()
        sim.run(until=sim.t.yearvec[2])
        return sim, sim.demographics.pregnancy
    def one(p, u): return sum(int(bool(getattr(p, f).raw[u])) for f in FLAGS)
    for sname, st in states.items():
        # update_states: the four truth assignments of (delivery due, post-partum over)
        for due in (True, False):
            for over in (True, False):
                sim, p = fresh(); ti = int(p.ti)
                m = int(np.asarray(sim.people.female.uids)[0]); U = ss.uids([m])
                for f, v in st.items(): getattr(p, f)[U] = v
                p.ti_delivery[U] = ti - 1 if due else ti + 5; p.ti_postpartum[U] = ti - 1 if over else ti + 5; p.ti_dead[U] = np.nan
                p.update_states()
                ctx.count(('direct', 'update_states', sname, due, over), nontrivial=True); ctx.dist('direct-state probe')
                if one(p, m) != 1:
                    viol(f'Pregnancy.update_states on a {sname} woman (delivery due: {due}, post-partum over: {over}) leaves her in {one(p, m)} of the states fecund/pregnant/postpartum', dict(probe='update_states', state=sname, due=due, over=over))
        # finish_step: her unborn / just-born child (age slightly below zero) dies at this step
        sim, p = fresh(); ppl = sim.people; ti = int(p.ti)
        m = int(np.asarray(ppl.female.uids)[0]); U = ss.uids([m])
        c = int(np.asarray(ppl.auids)[-1]) if int(np.asarray(ppl.auids)[-1]) != m else int(np.asarray(ppl.auids)[-2]); C = ss.uids([c])
        for f, v in st.items(): getattr(p, f)[U] = v
        ppl.parent[C] = m; p.child_uid[U] = c; ppl.age[C] = -1.5e-8; ppl.ti_dead[C] = ti
        p.finish_step()
        ctx.count(('direct', 'finish_step', sname), nontrivial=True); ctx.dist('direct-state probe')
        if one(p, m) != 1:
            viol(f'Pregnancy.finish_step on a {sname} woman whose child (age just below zero) dies at this step leaves her in {one(p, m)} of the states fecund/pregnant/postpartum', dict(probe='finish_step', state=sname))
    # set_prognoses on a fecund woman
    sim, p = fresh(); m = int(np.asarray(sim.people.female.uids)[0]); U = ss.uids([m])
    for f, v in states['fecund'].items(): getattr(p, f)[U] = v
    p.set_prognoses(U)
    ctx.count(('direct', 'set_prognoses'), nontrivial=True)
    if one(p, m) != 1 or not bool(p.pregnant.raw[m]): viol('Pregnancy.set_prognoses on a fecund woman does not leave her exactly pregnant', dict(probe='set_prognoses'))


def configs(ss, rng, n):
    out = []
    asfr = pd.DataFrame([dict(Time=y, AgeGrp=a, ASFR=v + (y - 1990)) for y in (1990, 2030) for a, v in ((10, 0), (15, 120), (20, 300), (30, 250), (40, 60), (50, 0))])
    for i in range(n):
        dt = [1.0, 0.5, 0.25, 0.4, 1 / 12, 0.2][i % 6]
        gest = [0.75, 0.75, 0.5, 0.7, 1.0][rng.randrange(5)]
        fert = asfr if i % 3 == 1 else [150, 400, 80][rng.randrange(3)]
        pmat = [0.0, 0.1][i % 2]; pneo = [0.0, 0.5][(i // 2) % 2]
        burnin = bool(i % 4 != 3)
        nets = [['pre', 'post'], ['pre', 'post'], ['maternal'], []][i % 4]
        deaths = (i % 5 != 4)
        pp = [None, 0.3, 1.5][i % 3]
        dur = {1.0: 10, 0.5: 8, 0.25: 6, 0.4: 8, 1 / 12: 3, 0.2: 5}[dt]
        label = f'dt{dt:g}:gest{gest}:{"table" if i % 3 == 1 else fert}:mat{pmat}:neo{pneo}:burnin{int(burnin)}:{"+".join(nets) or "nonet"}:{"deaths" if deaths else "nodeaths"}:pp{pp}'
        gform = (i // 2) % 4
        label += f':gunit{gform}'
        def mk(seed, dt=dt, gest=gest, fert=fert, pmat=pmat, pneo=pneo, burnin=burnin, nets=nets, deaths=deaths, pp=pp, dur=dur, gform=gform):
            # the same gestation written in years, months, weeks or days (i % 4)
            gdur = [ss.years(gest), ss.dur(gest * 12, 'month'), ss.dur(gest * 365.25 / 7, 'week'), ss.dur(gest * 365.25, 'day')][gform]
            kw = dict(fertility_rate=fert, dur_pregnancy=gdur, p_maternal_death=ss.bernoulli(pmat), p_neonatal_death=ss.bernoulli(pneo), burnin=burnin)
            if pp is not None: kw['dur_postpartum'] = ss.constant(ss.years(pp))
            if isinstance(fert, pd.DataFrame): kw.update(min_age=22, max_age=33)     # a window narrower than the ages that carry rates in the table
            dem = [ss.Pregnancy(**kw)] + ([ss.Deaths(death_rate=25)] if deaths else [])
            nw = [dict(pre=ss.PrenatalNet, post=ss.PostnatalNet, maternal=ss.MaternalNet)[k]() for k in nets]
            return ss.Sim(n_agents=250, demographics=dem, networks=nw or None, start=2000, dur=dur, dt=dt, rand_seed=seed, verbose=0)
        out.append((label, mk, dict(dt=dt, gest=gest, burnin=burnin, pp=pp)))
    return out


def val_term(d): return '[' + '; '.join(f'("{k}", {"true" if v else "false"})' for k, v in d.items()) + ']'


def run(ctx):
    ctx.translate(['Gen_Preg', 'Gen_Compart'])
    ctx.build_props('C19')
    try:
        import starsim as ss
    except Exception as E:
        raise Broken('correspondence', 'cannot import starsim', repr(E))
    rng = ctx.rng
    Probe = make_probe(ss)
    ctx.cov['rule'] = ('grid of Pregnancy configurations: dt in {1, 1/2, 2/5, 1/4, 1/5, 1/12} x gestation x scalar / age-specific fertility x maternal / neonatal death x burn-in x '
                       'prenatal+postnatal / single maternal / no network x background deaths x post-partum duration; every update_states / set_prognoses / finish_step call and every '
                       'conception recorded; per-step probe; non-trivial = a woman whose state changed, a conception, a delivery')
    sterms, smeta, cterms, cmeta, dterms, dmeta, aterms, ameta = [], [], [], [], [], [], [], []
    nviol = 0
    def viol(msg, w):
        nonlocal nviol
        nviol += 1
        if nviol <= 6: ctx.violation(msg, w)
    conds = {'update_states': ['self.ti_delivery <= ti', 'self.ti_postpartum <= ti', 'self.ti_dead <= ti']}
    for label, mk, meta in configs(ss, rng, ctx.n(12, 96)):
        seed = rng.randrange(1, 10**4)
        W = dict(config=label, seed=seed)
        try:
            with PregRecorder(ss) as rec:
                sim = mk(seed)
                sim.pars['analyzers'] = [Probe(name='pregprobe')]
                sim.run()
        except Exception as E:
            viol(f'{label}: run raised {type(E).__name__}: {E}', W); continue
        ctx.count(('run', label, seed)); ctx.dist('run:dt%g' % meta['dt'])
        probe = sim.analyzers.pregprobe; p = sim.demographics.pregnancy; ppl = sim.people
        seen = set()
        for ti, what in probe.problems:
            k = what[:30]
            if k in seen: continue
            seen.add(k); viol(f'{label}: step {ti}: {what}', dict(W, ti=ti))
        dty = float(sim.t.dt_year); d_steps = float(p.pars.dur_pregnancy)
        gest_years = float(p.pars.dur_pregnancy.to('year')) if hasattr(p.pars.dur_pregnancy, 'to') else meta['gest']
        # ---- conceptions: who conceives
        by_step = {}
        for c in rec.conceptions:
            by_step.setdefault(c['ti'], []).append(c['mother'])
            ctx.count((label, seed, 'conception', c['ti'], c['mother']), nontrivial=True); ctx.dist('conception' + (':burn-in' if c['ti'] < 0 else ''))
            Wc = dict(W, ti=c['ti'], mother=c['mother'])
            if not c['female']: viol(f'{label}: step {c["ti"]}: agent {c["mother"]} conceived but is not female', Wc)
            if not c['alive'] or not c['active']: viol(f'{label}: step {c["ti"]}: agent {c["mother"]} conceived but is not alive / active', Wc)
            if not (p.pars.min_age - 1e-6 <= c['age'] <= p.pars.max_age + 1e-6): viol(f'{label}: step {c["ti"]}: woman {c["mother"]} conceived at age {c["age"]:.3f}, outside [{p.pars.min_age}, {p.pars.max_age}]', Wc)
            if c['flags']['pregnant'] or c['flags']['postpartum'] or not c['flags']['fecund']:
                viol(f'{label}: step {c["ti"]}: woman {c["mother"]} conceived while ' + ', '.join(k for k, v in c['flags'].items() if v), Wc)
        for t, ms in by_step.items():
            if len(set(ms)) != len(ms): viol(f'{label}: step {t}: a woman conceived twice in one step', dict(W, ti=t))
        # embryos: exactly one per conception, mother = the conceiving woman, age at conception
        conc = {}
        for c in rec.conceptions: conc.setdefault(c['mother'], []).append(c['ti'])
        moth_of = {}
        for e in probe.embryos:
            moth_of[e['child']] = e['mother']
            if e['mother'] not in conc: viol(f'{label}: conceived agent {e["child"]} names {e["mother"]} as mother, who never conceived', dict(W, child=e['child']))
        if len(probe.embryos) != len(rec.conceptions): viol(f'{label}: {len(rec.conceptions)} conceptions but {len(probe.embryos)} conceived agents', W)
        # ---- schedules: model in Coq; delivery step: observed vs ceil
        for ent in rec.calls:
            if ent['meth'] == 'set_prognoses':
                for u, s in ent['sched'].items():
                    if len(cterms) < ctx.n(400, 4000):
                        cterms.append(f'(({ent["ti"]})%Z, {qlit(d_steps)}, {qlit(s["dur_pp"])}, {qlit(s["ti_delivery"])}, {qlit(s["ti_postpartum"])})')
                        cmeta.append(dict(W, ti=ent['ti'], mother=u, **s))
            if ent['meth'] == 'update_states':
                deliv = np.flatnonzero(ent['before']['pregnant'] & ~ent['after']['pregnant'])
                for m in map(int, deliv):
                    t0s = [t for t in conc.get(m, []) if t < ent['ti']]   # update_states runs before the conceptions of its own step
                    if not t0s: continue
                    t0 = max(t0s)
                    exp = t0 + math.ceil(d_steps - 1e-9)
                    ctx.count((label, seed, 'delivery', ent['ti'], m), nontrivial=True); ctx.dist('delivery')
                    if ent['ti'] != exp: viol(f'{label}: woman {m} conceived at step {t0} (gestation {d_steps:.4f} steps) delivered at step {ent["ti"]}, expected step {exp}', dict(W, mother=m))
                    if len(dterms) < ctx.n(300, 3000):
                        dterms.append(f'(({t0})%Z, {qlit(d_steps)}, ({ent["ti"]})%Z)'); dmeta.append(dict(W, mother=m, conceived=t0, delivered=ent['ti'], gestation_steps=d_steps))
                # women who should have delivered by now but did not
                late = np.flatnonzero(ent['after']['pregnant'] & (ent['timers']['ti_delivery'] <= ent['ti']))
                act = set(map(int, ent['auids']))
                late = [int(m) for m in late if int(m) in act]
                if late: viol(f'{label}: step {ent["ti"]}: woman {late[0]} is still pregnant although her delivery was due at {ent["timers"]["ti_delivery"][late[0]]:.3f}', dict(W, ti=ent['ti']))
            # flag scripts
            changed = np.flatnonzero(np.any([ent['before'][f] != ent['after'][f] for f in FLAGS], axis=0))
            act = set(map(int, ent['auids']))
            pool = [int(u) for u in list(changed[:20]) + rng.sample(range(ent['n']), min(ent['n'], 4))]
            uset = set(map(int, ent['uids'])) if ent['uids'] is not None else set()
            for u in pool:
                st = {f: bool(ent['before'][f][u]) for f in FLAGS}; ex = {f: bool(ent['after'][f][u]) for f in FLAGS}
                cv = {}
                if ent['meth'] == 'update_states':
                    if u not in act: continue
                    with np.errstate(invalid='ignore'):
                        cv = {'self.ti_delivery <= ti': bool(ent['timers']['ti_delivery'][u] <= ent['ti']), 'self.ti_postpartum <= ti': bool(ent['timers']['ti_postpartum'][u] <= ent['ti']),
                              'self.ti_dead <= ti': bool(ent['timers']['ti_dead'][u] <= ent['ti'])}
                elif ent['meth'] == 'set_prognoses': cv = {'uids': u in uset}
                else: cv = {'mother_uids': st != ex and ex == dict(fecund=True, pregnant=False, postpartum=False)}
                if len(sterms) < ctx.n(1500, 15000):
                    sterms.append(f'("{ent["meth"]}", {val_term(cv)}, {val_term(st)}, {val_term(ex)})')
                    smeta.append(dict(W, meth=ent['meth'], ti=ent['ti'], uid=u, before=st, after=ex, conds=cv))
                    ctx.count((label, seed, ent['meth'], ent['ti'], u), nontrivial=st != ex)
        # ---- postnatal edges: created at the delivery step of the pregnancy that produced the child; end less than one step after the post-partum period
        sched = {}
        for ent in rec.calls:
            if ent['meth'] == 'set_prognoses':
                for u, s_ in ent['sched'].items(): sched.setdefault(u, []).append((ent['ti'], s_))
        for pe in probe.post_edges:
            cands = [(t0, s_) for t0, s_ in sched.get(pe['mother'], []) if t0 < pe['start'] - 1e-9]
            ctx.count((label, seed, 'postnatal', pe['mother'], pe['child']), nontrivial=True); ctx.dist('postnatal edge')
            if not cands: viol(f'{label}: postnatal edge ({pe["mother"]}, {pe["child"]}) starting at {pe["start"]} without an earlier conception of the mother', dict(W, **pe)); continue
            t0, s_ = max(cands, key=lambda x: x[0])
            exp_start = t0 + math.ceil(d_steps - 1e-9)
            if abs(pe['start'] - exp_start) > 1e-6: viol(f'{label}: postnatal edge ({pe["mother"]}, {pe["child"]}) starts at step {pe["start"]}, the delivery step of that pregnancy is {exp_start}', dict(W, **pe))
            if not (-1e-3 <= pe['end'] - s_['ti_postpartum'] < 1 + 1e-3):
                viol(f'{label}: postnatal edge ({pe["mother"]}, {pe["child"]}) ends at {pe["end"]:.4f}; the post-partum period of that pregnancy ends at {s_["ti_postpartum"]:.4f}: not within one step', dict(W, **pe))
        for d_ in probe.deliveries: ctx.count((label, seed, 'newborn', d_['child']), nontrivial=True); ctx.dist('newborn age checked')
        # ---- embryo age at conception (model: embryo_age_gen on the exact rationals of gestation and step length)
        for e in probe.embryos:
            ts = [t for t in conc.get(e['mother'], []) if t <= e['ti']]
            if not ts or len(aterms) >= ctx.n(300, 3000): continue
            t0 = max(ts)
            want_age = -meta['gest'] + (-t0 * dty if t0 < 0 else 0.0)
            if abs(e['age'] - want_age) > 1e-3:
                viol(f'{label}: the agent conceived at step {t0} by woman {e["mother"]} enters with age {e["age"]:.4f}; minus the gestation ({meta["gest"]} years{", aged to step 0" if t0 < 0 else ""}) is {want_age:.4f}', dict(W, **e, conceived=t0))
            aterms.append(f'({qlit(F(repr(meta["gest"])))}, ({t0})%Z, {qlit(F(repr(meta["dt"])) if abs(meta["dt"] * 12 - round(meta["dt"] * 12)) > 1e-9 or meta["dt"] in (1.0, 0.5, 0.25) else F(round(meta["dt"] * 12), 12))}, {qlit(e["age"])})')
            ameta.append(dict(W, **e, conceived=t0))
    # ---------------------------------------------------------------- direct-state probes: every valid state x every truth assignment of the time tests,
    # realised on a real Pregnancy module and pushed through the real method (the concrete counterpart of the exhaustive check of the model)
    try:
        direct_state_probes(ctx, ss, viol)
    except Exception as E:
        ctx.violation(f'direct-state probe raised {type(E).__name__}: {E}', dict(probe='direct-state'))
    # ---------------------------------------------------------------- Coq
    ctx.cov['replayed_in_coq'] = dict(flag_calls=len(sterms), conceptions=len(cterms), deliveries=len(dterms))
    okdef = '''From Coq Require Import String.
Open Scope string_scope.
Definition same (ks : list string) (a b : valuation) : bool := forallb (fun k => Bool.eqb (getv a k) (getv b k)) ks.
Definition ok (c : string * valuation * valuation * valuation) : bool :=
  let '(m, cv, st, ex) := c in
  match run_script (preg_script_gen m) cv st with Some st' => same (map fst st) st' ex | None => false end.'''
    bad = ctx.coq_mismatches('pregflags', IMPORTS, 'string * valuation * valuation * valuation', sterms, okdef, shard=300)
    for j in bad[:3]: ctx.broke('correspondence', f'Pregnancy.{smeta[j]["meth"]}: the generated script run on the recorded flags / time tests does not give the flags observed after the call', repr(smeta[j]))
    okc = '''Definition ok (c : Z * Q * Q * Q * Q) : bool :=
  let '(ti, d, dpp, td, tpp) := c in
  andb (Qclose (1 # 10000) (ti_delivery_gen (inject_Z ti) d) td) (Qclose (1 # 10000) (ti_postpartum_gen (ti_delivery_gen (inject_Z ti) d) dpp) tpp).'''
    bad = ctx.coq_mismatches('pregsched', IMPORTS, 'Z * Q * Q * Q * Q', cterms, okc, shard=300)
    for j in bad[:3]: ctx.broke('correspondence', 'Pregnancy.set_prognoses: stored ti_delivery / ti_postpartum differ from the generated schedule expressions', repr(cmeta[j]))
    okd = '''Definition ok (c : Z * Q * Z) : bool := let '(t0, d, t) := c in
  andb (Z.eqb (delivery_step t0 d) t) (andb (delivery_due (ti_delivery_gen (inject_Z t0) d) t) (negb (delivery_due (ti_delivery_gen (inject_Z t0) d) (t - 1)))).'''
    bad = ctx.coq_mismatches('pregdeliv', IMPORTS, 'Z * Q * Z', dterms, okd, shard=300)
    for j in bad[:3]: ctx.broke('correspondence', 'observed delivery step differs from delivery_step (conception + gestation rounded up)', repr(dmeta[j]))
    oka = '''Definition ok (c : Q * Z * Q * Q) : bool := let '(g, ti, dty, a) := c in Qclose (1 # 10000) (embryo_age_gen g (inject_Z ti) dty) a.'''
    bad = ctx.coq_mismatches('pregage', IMPORTS, 'Q * Z * Q * Q', aterms, oka, shard=300)
    for j in bad[:3]: ctx.broke('correspondence', 'age of a conceived agent differs from embryo_age_gen (minus gestation, aged to step 0 in burn-in)', repr(ameta[j]))
    ctx.cov['replayed_in_coq']['embryo_ages'] = len(aterms)


    return None


def replay(ctx, rp):
    run(ctx)
