"""
C13 -- Disease compartments partition the living and follow allowed moves.

1. translator: Gen_Compart.v -- for SIR, SIS, Measles, Ebola, Cholera, Gonorrhea, HIV the ordered scripts of selector definitions
   (flags required + time condition) and boolean flag updates of step_state / set_prognoses / step_die
2. obligations: Props/C13.v -- exhaustive (finite) checks over all flag valuations and all truth assignments of the time conditions,
   lifted to universally quantified theorems; the machines are defined FROM the generated scripts
3. correspondence: every real call of step_state / set_prognoses / step_die of those diseases is recorded (class-level wrappers installed before
   the sim is built): per-agent flags before and after, the time conditions evaluated on the recorded timer arrays; the model script is run in
   Coq for sampled agents and must give the flags observed after the call
4. oracle on the implementation: per-step probe for every built-in disease (incl. Syphilis): exactly one compartment per living active agent,
   none for agents who died in models that resolve deaths, only allowed moves between consecutive steps, scheduled recovery/death never before
   infection, cumulative infections = number of infection events (= distinct ever-infected agents where there is no way back)
"""
import numpy as np
from vlib.core import Broken

IMPORTS = 'Model.Prelude Model.L5_CompartBase Gen.Gen_Compart Model.L5_Compart'
SPECS = {
    'SIR': dict(flags=['susceptible', 'infected', 'recovered'], part=['susceptible', 'infected', 'recovered'], subs=[], arrows=[('susceptible', 'infected'), ('infected', 'recovered')], dies=True),
    'SIS': dict(flags=['susceptible', 'infected'], part=['susceptible', 'infected'], subs=[], arrows=[('susceptible', 'infected'), ('infected', 'susceptible')], dies=False),
    'Measles': dict(flags=['susceptible', 'exposed', 'infected', 'recovered'], part=['susceptible', 'exposed', 'infected', 'recovered'], subs=[],
                    arrows=[('susceptible', 'exposed'), ('exposed', 'infected'), ('infected', 'recovered'), ('exposed', 'recovered')], dies=True),
    'Ebola': dict(flags=['susceptible', 'exposed', 'infected', 'severe', 'recovered', 'buried'], part=['susceptible', 'exposed', 'infected', 'recovered'], subs=[('severe', 'infected')],
                  arrows=[('susceptible', 'exposed'), ('exposed', 'infected'), ('infected', 'recovered'), ('exposed', 'recovered')], dies=True),
    'Cholera': dict(flags=['susceptible', 'exposed', 'infected', 'symptomatic', 'recovered'], part=['susceptible', 'exposed', 'recovered'], subs=[('infected', 'exposed'), ('symptomatic', 'infected')],
                    arrows=[('susceptible', 'exposed'), ('exposed', 'recovered')], dies=True),
    'Gonorrhea': dict(flags=['susceptible', 'infected', 'symptomatic'], part=['susceptible', 'infected'], subs=[('symptomatic', 'infected')], arrows=[('susceptible', 'infected'), ('infected', 'susceptible')], dies=False),
    'HIV': dict(flags=['susceptible', 'infected', 'on_art'], part=['susceptible', 'infected'], subs=[], arrows=[('susceptible', 'infected')], dies=False),
    'Syphilis': dict(flags=['susceptible', 'exposed', 'primary', 'secondary', 'latent_temp', 'latent_long', 'tertiary', 'congenital'],
                     part=['susceptible', 'exposed', 'primary', 'secondary', 'latent_temp', 'latent_long', 'tertiary', 'congenital'], subs=[],
                     arrows=[('susceptible', 'exposed'), ('susceptible', 'congenital'), ('exposed', 'primary'), ('primary', 'secondary'), ('secondary', 'latent_temp'), ('secondary', 'latent_long'),
                             ('latent_temp', 'secondary'), ('latent_long', 'tertiary')], dies=False),
}
SYPH_STAGES = ['exposed', 'primary', 'secondary', 'latent_temp', 'latent_long', 'tertiary']


class CallRecorder:
    """Class-level wrappers (the loop's plan holds bound methods created at init, so instances cannot be patched afterwards)."""
    def __init__(self, ss, scripts):
        self.ss, self.scripts, self.calls, self.saved = ss, scripts, [], []
    def __enter__(self):
        ss = self.ss; rec = self
        for cname in SPECS:
            cls = getattr(ss, cname)
            for meth in ('step_state', 'set_prognoses', 'step_die'):
                if meth not in cls.__dict__: continue
                orig = cls.__dict__[meth]
                self.saved.append((cls, meth, orig))
                def make(orig, cname, meth):
                    def wrapper(self_, *a, **kw):
                        if type(self_).__name__ != cname: return orig(self_, *a, **kw)     # a subclass calling super(): recorded at the subclass level
                        n = int(self_.sim.people.uid.len_used)
                        flags = SPECS[cname]['flags']
                        before = {f: np.asarray(getattr(self_, f).raw[:n]).copy() for f in flags}
                        timers = {k: np.asarray(v.raw[:n], dtype=float).copy() for k, v in self_.__dict__.items() if k.startswith('ti_') and hasattr(v, 'raw')}
                        uids = np.asarray(a[0]).copy() if (a and meth != 'step_state') else None
                        ti = int(self_.ti)
                        out = orig(self_, *a, **kw)
                        after = {f: np.asarray(getattr(self_, f).raw[:n]).copy() for f in flags}
                        timers_after = {k: np.asarray(v.raw[:n], dtype=float).copy() for k, v in self_.__dict__.items() if k.startswith('ti_') and hasattr(v, 'raw')}
                        rec.calls.append(dict(cls=cname, meth=meth, ti=ti, n=n, before=before, after=after, timers=timers, timers_after=timers_after, uids=uids, auids=np.asarray(self_.sim.people.auids).copy()))
                        return out
                    return wrapper
                setattr(cls, meth, make(orig, cname, meth))
        return self
    def __exit__(self, *a):
        for cls, meth, orig in self.saved: setattr(cls, meth, orig)


def eval_cond(text, timers, ti, u, flags):
    """Evaluate a time condition text of the generated script (e.g. `self.ti_recovered <= ti`) for agent u on the recorded timers."""
    class S: pass
    s = S(); sim = S(); people = S(); people.hiv = S()
    for k, v in timers.items(): setattr(s, k, v[u])
    s.ti = ti; sim.ti = ti; people.hiv.infected = bool(flags.get('infected', np.zeros(u + 1))[u])
    try:
        with np.errstate(invalid='ignore'):
            return bool(eval(text.replace(' & ', ' and '), {'self': s, 'ti': ti, 'np': np, 'sim': sim, 'people': people}))
    except Exception:
        return None


def parse_scripts():
    """(class, method) -> list of script items, read back from the generated Gen_Compart.v"""
    import re, os
    from vlib.core import TH
    txt = open(os.path.join(TH, 'Gen', 'Gen_Compart.v')).read()
    out = {}
    for m in re.finditer(r'\| "(\w+)", "(\w+)" => \[(.*)\]', txt):
        items = []
        for it in re.finditer(r'SelDef "([^"]*)" \[(.*?)\] "([^"]*)"(?=;|$)|SetFlag "([^"]*)" (true|false) "([^"]*)"', m.group(3)):
            if it.group(1) is not None: items.append(('sel', it.group(1), it.group(3)))
            else: items.append(('set', it.group(4), it.group(5) == 'true', it.group(6)))
        out[(m.group(1), m.group(2))] = items
    return out


def val_term(d): return '[' + '; '.join(f'("{k}", {"true" if v else "false"})' for k, v in d.items()) + ']'


def configs(ss):
    dem = lambda: [ss.Births(birth_rate=30), ss.Deaths(death_rate=30)]
    cf = {
        'SIR': lambda seed: ss.Sim(n_agents=120, diseases=ss.SIR(init_prev=0.1, p_death=0.3, beta=0.2), networks=ss.RandomNet(), demographics=dem(), dur=12, rand_seed=seed, verbose=0),
        'SIS': lambda seed: ss.Sim(n_agents=120, diseases=ss.SIS(init_prev=0.1, beta=0.2), networks=ss.RandomNet(), demographics=dem(), dur=12, rand_seed=seed, verbose=0),
        'Measles': lambda seed: ss.Sim(n_agents=150, diseases=ss.Measles(init_prev=0.1, beta=0.9, p_death=0.2), networks=ss.RandomNet(), demographics=dem(), unit='day', dt=2.0, start='2020-01-01', dur=60, rand_seed=seed, verbose=0),
        'Measles-seeded': lambda seed: ss.Sim(n_agents=3000, diseases=ss.Measles(init_prev=0.4, beta=0.0, p_death=0.3), networks=ss.RandomNet(), unit='day', dt=1.0, start='2020-01-01', dur=3, rand_seed=seed, verbose=0),
        'Ebola': lambda seed: ss.Sim(n_agents=150, diseases=ss.Ebola(init_prev=0.1, beta=0.9), networks=ss.RandomNet(), demographics=dem(), unit='day', dt=2.0, start='2020-01-01', dur=60, rand_seed=seed, verbose=0),
        'Cholera': lambda seed: ss.Sim(n_agents=150, diseases=ss.Cholera(init_prev=0.1, beta=0.9, p_death=0.2), networks=ss.RandomNet(), demographics=dem(), unit='day', dt=1.0, start='2020-01-01', dur=40, rand_seed=seed, verbose=0),
        'Gonorrhea': lambda seed: ss.Sim(n_agents=200, diseases=ss.Gonorrhea(init_prev=0.2, beta={'mf': [0.5, 0.3]}), networks=ss.MFNet(), demographics=dem(), dur=10, rand_seed=seed, verbose=0),
        'HIV': lambda seed: ss.Sim(n_agents=200, diseases=ss.HIV(init_prev=0.1, beta={'mf': [0.3, 0.2]}), networks=ss.MFNet(), demographics=dem(), dur=10, rand_seed=seed, verbose=0),
        'HIV+pregnancy': lambda seed: ss.Sim(n_agents=300, diseases=ss.HIV(init_prev=0.3, beta={'mf': [0.3, 0.2], 'maternal': [0.9, 0]}), networks=[ss.MFNet(), ss.MaternalNet()],
                                             demographics=[ss.Pregnancy(fertility_rate=150), ss.Deaths(death_rate=10)], dur=10, rand_seed=seed, verbose=0),
        'Syphilis': lambda seed: ss.Sim(n_agents=300, diseases=ss.Syphilis(init_prev=0.2, beta={'mf': [0.5, 0.3], 'maternal': [0.9, 0]}), networks=[ss.MFNet(), ss.MaternalNet()],
                                        demographics=[ss.Pregnancy(fertility_rate=40), ss.Deaths(death_rate=20)], dur=12, rand_seed=seed, verbose=0),
        # treatment products (one product over one disease, and ONE product over two co-circulating diseases), delivered by a capacity-limited treatment
        'SIR+Tx': lambda seed: ss.Sim(n_agents=150, diseases=ss.SIR(init_prev=0.3, beta=0.2, dur_inf=8, p_death=0.1), networks=ss.RandomNet(), demographics=dem(), dur=14, rand_seed=seed, verbose=0,
                                      interventions=ss.treat_num(product=ss.Tx(tx_df([('sir', 'infected', 'susceptible', 0.8)])), prob=0.6, max_capacity=15, eligibility=lambda sim: sim.diseases.sir.infected.uids)),
        'SIS+Tx': lambda seed: ss.Sim(n_agents=150, diseases=ss.SIS(init_prev=0.3, beta=0.2), networks=ss.RandomNet(), demographics=dem(), dur=12, rand_seed=seed, verbose=0,
                                      interventions=ss.treat_num(product=ss.Tx(tx_df([('sis', 'infected', 'susceptible', 0.8)])), prob=0.6, max_capacity=15, eligibility=lambda sim: sim.diseases.sis.infected.uids)),
        'flu+rsv+Tx': lambda seed: ss.Sim(n_agents=150, diseases=[ss.SIR(name='flu', init_prev=0.3, beta=0.2, dur_inf=8), ss.SIR(name='rsv', init_prev=0.2, beta=0.3, dur_inf=8)], networks=ss.RandomNet(),
                                          demographics=dem(), dur=12, rand_seed=seed, verbose=0,
                                          interventions=ss.treat_num(product=ss.Tx(tx_df([('flu', 'infected', 'recovered', 1.0), ('rsv', 'infected', 'recovered', 0.9)])), prob=0.7, max_capacity=20,
                                                                     eligibility=lambda sim: sim.diseases.flu.infected.uids.union(sim.diseases.rsv.infected.uids))),
        # one product whose table lists an SIS row first and an SIR row with another post-treatment state
        'SIS+SIR one Tx': lambda seed: ss.Sim(n_agents=200, diseases=[ss.SIS(init_prev=0.3, beta=0.2), ss.SIR(init_prev=0.3, beta=0.2, dur_inf=8)], networks=ss.RandomNet(), demographics=dem(), dur=12, rand_seed=seed, verbose=0,
                                              interventions=ss.treat_num(product=ss.Tx(tx_df([('sis', 'infected', 'susceptible', 0.9), ('sir', 'infected', 'recovered', 0.9)])), prob=0.7, max_capacity=25,
                                                                         eligibility=lambda sim: sim.diseases.sis.infected.uids.union(sim.diseases.sir.infected.uids))),
        # two co-circulating diseases transmitted through one mixing pool
        'SIS+SIR pool': lambda seed: ss.Sim(n_agents=200, diseases=[ss.SIS(init_prev=0.2), ss.SIR(init_prev=0.2, dur_inf=5)], networks=ss.MixingPool(beta=ss.beta(0.5), contacts=ss.poisson(3)), demographics=dem(), dur=12, rand_seed=seed, verbose=0),
        # unborn children of women who die are requested to die after the resolution phase of the step (Pregnancy.finish_step): they too end up in no compartment
        'SIR+pregnancy-neonatal-deaths': lambda seed: ss.Sim(n_agents=300, diseases=ss.SIR(init_prev=0.1, beta=0.1, p_death=0.1), networks=ss.RandomNet(),
                                                             demographics=[ss.Pregnancy(fertility_rate=300, p_neonatal_death=ss.bernoulli(p=1.0)), ss.Deaths(death_rate=150)], dur=5, dt=0.25, rand_seed=seed, verbose=0),
        'SIR+SIS': lambda seed: ss.Sim(n_agents=120, diseases=[ss.SIR(init_prev=0.1, p_death=0.3, beta=0.2), ss.SIS(init_prev=0.1, beta=0.2)], networks=ss.RandomNet(), demographics=dem(), dur=10, rand_seed=seed, verbose=0),
    }
    return cf


def tx_df(rows):
    import pandas as pd
    return pd.DataFrame([dict(name='tx', disease=d, state=a, post_state=b, efficacy=e) for d, a, b, e in rows])

EXTRA_ARROWS = {'SIR+Tx': {'sir': [('infected', 'susceptible')]}, 'SIS+Tx': {}, 'flu+rsv+Tx': {}}   # moves added by the product table of the configuration


def make_probe(ss):
    class Compart(ss.Analyzer):
        def __init__(self, **kw):
            self.extra_arrows = kw.pop('extra_arrows', {})
            super().__init__(**kw); self.problems = []; self.prev = {}; self.ever = {}; self.events = {}; self.new_series = {}; self.onset_hits = {}
        def step(self):
            sim = self.sim; ppl = sim.people; au = np.asarray(ppl.auids); ti = int(sim.t.ti)
            alive = ppl.alive.raw[au]
            for dis in sim.diseases():
                cname = type(dis).__name__
                n = int(ppl.uid.len_used)
                if cname in SPECS:
                    sp = SPECS[cname]
                    F = {f: np.asarray(getattr(dis, f).raw[:n]) for f in sp['flags']}
                    cnt = sum(F[f][au].astype(int) for f in sp['part'])
                    bad = au[alive & (cnt != 1)]
                    if len(bad): self.problems.append((ti, dis.name, f'living agent {int(bad[0])} is in {int(cnt[alive & (cnt != 1)][0])} compartments of {sp["part"]}: ' + ', '.join(f for f in sp['part'] if F[f][bad[0]])))
                    for a, b in sp['subs']:
                        bad = au[alive & F[a][au] & ~F[b][au]]
                        if len(bad): self.problems.append((ti, dis.name, f'agent {int(bad[0])} is {a} without being {b}'))
                    if sp['dies']:
                        bad = au[(~alive) & (cnt != 0)]
                        if len(bad): self.problems.append((ti, dis.name, f'agent {int(bad[0])} died but still holds a compartment flag'))
                        # ... also after removal: every identifier ever issued whose agent is dead holds no compartment
                        allu = np.arange(n); dead_all = ~np.asarray(ppl.alive.raw[:n], dtype=bool)
                        cnt_all = sum(F[f][:n].astype(int) for f in sp['part'])
                        bad = allu[dead_all & (cnt_all != 0)]
                        if len(bad): self.problems.append((ti, dis.name, f'agent {int(bad[0])} is dead (and removed) but still holds the compartment flag ' + ', '.join(f for f in sp['part'] if F[f][bad[0]])))
                    comp = np.full(n, -1)
                    for i, f in enumerate(sp['part']): comp[F[f]] = i
                    prev = self.prev.get(dis.name)
                    if prev is not None:
                        m = min(len(prev), n)
                        allowed = {(sp['part'].index(a), sp['part'].index(b)) for a, b in list(sp['arrows']) + list(self.extra_arrows.get(dis.name, [])) if a in sp['part'] and b in sp['part']}
                        both = np.zeros(n, dtype=bool); both[au] = alive
                        for u in np.flatnonzero(both[:m] & (prev[:m] >= 0) & (comp[:m] >= 0) & (prev[:m] != comp[:m])):
                            # several arrows may be taken within one step (e.g. E->I->R when durations are shorter than dt): allow paths
                            if not reachable(allowed, int(prev[u]), int(comp[u])):
                                self.problems.append((ti, dis.name, f'agent {int(u)} moved {sp["part"][prev[u]]} -> {sp["part"][comp[u]]}, not along the arrows of the model')); break
                    self.prev[dis.name] = comp
                if cname == 'Syphilis':
                    F = {f: np.asarray(getattr(dis, f).raw[:n]) for f in SYPH_STAGES + ['infected', 'susceptible']}
                    cnt = sum(F[f][au].astype(int) for f in SYPH_STAGES)
                    bad = au[alive & (cnt > 1)]
                    if len(bad): self.problems.append((ti, dis.name, f'agent {int(bad[0])} is in {int(cnt[alive & (cnt > 1)][0])} syphilis stages at once'))
                    bad = au[alive & F['infected'][au] & (cnt == 0)]
                    if len(bad): self.problems.append((ti, dis.name, f'agent {int(bad[0])} is infected but in no stage'))
                    bad = au[alive & F['infected'][au] & F['susceptible'][au]]
                    if len(bad): self.problems.append((ti, dis.name, f'agent {int(bad[0])} is both susceptible and infected'))
                if isinstance(dis, ss.Infection) and dis.t.npts == sim.t.npts:
                    # time of acquisition: ti_exposed where the model has a latent stage (there ti_infected is the onset of infectiousness)
                    acq = np.asarray((dis.ti_exposed if hasattr(dis, 'ti_exposed') else dis.ti_infected).raw[:n], dtype=float)
                    refs = [('acquisition', acq)]
                    if hasattr(dis, 'ti_exposed') and cname != 'Cholera':       # Cholera schedules recovery from exposure, not from onset
                        refs.append(('ti_infected', np.asarray(dis.ti_infected.raw[:n], dtype=float)))
                    act = np.zeros(n, dtype=bool); act[au] = True
                    for other in ('ti_infected', 'ti_recovered', 'ti_dead', 'ti_symptomatic', 'ti_severe'):
                        if not hasattr(dis, other) or self.extra_arrows.get(dis.name): continue   # a product that returns agents to susceptible leaves stale schedules behind: not judged
                        o = np.asarray(getattr(dis, other).raw[:n], dtype=float)
                        for rname, r in refs:
                            if rname == other: continue
                            with np.errstate(invalid='ignore'):
                                bad = np.flatnonzero((o < r) & ~np.isnan(o) & ~np.isnan(r) & act)
                            if len(bad): self.problems.append((ti, dis.name, f'agent {int(bad[0])}: {other} = {o[bad[0]]} precedes {rname} = {r[bad[0]]}'))
                    new = set(np.flatnonzero((acq == dis.ti) & act).tolist())
                    self.events[dis.name] = self.events.get(dis.name, 0) + len(new)
                    self.ever.setdefault(dis.name, set()).update(new)
                    self.new_series.setdefault(dis.name, []).append(len(new))
                    tinf = np.asarray(dis.ti_infected.raw[:n], dtype=float)
                    self.onset_hits[dis.name] = self.onset_hits.get(dis.name, 0) + int(np.count_nonzero((tinf == dis.ti) & act))
    return Compart


def reachable(allowed, a, b):
    seen, todo = {a}, [a]
    while todo:
        x = todo.pop()
        for (p, q) in allowed:
            if p == x and q not in seen: seen.add(q); todo.append(q)
    return b in seen


def direct_state_probes(ctx, ss, scripts):
    """The concrete counterpart of the exhaustive check of the model: every valid compartment state x every due / not-due assignment of the timers
    named in the method's time tests is set up on one agent of a real, initialised disease module and pushed through the real step_state;
    set_prognoses on a susceptible agent; step_die on an agent in every state."""
    import re, itertools
    mk = configs(ss)
    for cname, sp in SPECS.items():
        if cname not in mk: continue
        try:
            sim = mk[cname](7); sim.init()
            for _ in range(len(sim.loop.plan) // max(1, sim.t.npts) * 2): sim.run_one_step()      # two whole steps in: ti >= 2
        except Exception as E:
            ctx.violation(f'direct-state probe: {cname} could not be set up: {type(E).__name__}: {E}', dict(disease=cname)); continue
        dis = [d for d in sim.diseases() if type(d).__name__ == cname][0]
        ti = int(dis.ti)
        conds = [it[2] for it in scripts.get((cname, 'step_state'), []) if it[0] == 'sel' and it[2]]
        timers = sorted(set(re.findall(r'self\.(ti_\w+)', ' '.join(conds))))
        timers = [t for t in timers if hasattr(dis, t)]
        # valid states: one partition flag, plus every consistent choice of the sub-state flags
        subflags = [a for a, b in sp['subs']]
        others = [f for f in sp['flags'] if f not in sp['part'] and f not in subflags]
        au = np.asarray(sim.people.auids)
        alive = au[np.asarray(sim.people.alive.raw[au])]
        u = int(alive[len(alive) // 2]); U = ss.uids([u])
        def one(d): return [f for f in sp['part'] if bool(getattr(d, f).raw[u])]
        def consistent(d): return all((not bool(getattr(d, a).raw[u])) or bool(getattr(d, b).raw[u]) for a, b in sp['subs'])
        for pf in sp['part']:
            for subs_on in itertools.product([False, True], repeat=len(subflags)):
                st = {f: (f == pf) for f in sp['part']}
                st.update({f: v for f, v in zip(subflags, subs_on)})
                if not all((not st.get(a, False)) or st.get(b, False) for a, b in sp['subs']): continue
                for due in itertools.product([False, True], repeat=len(timers)):
                    for f in sp['flags']:
                        if f in st: getattr(dis, f)[U] = st[f]
                    for t, dflag in zip(timers, due): getattr(dis, t)[U] = (ti - 1) if dflag else (ti + 7)
                    if hasattr(dis, 'ti_dead') and 'ti_dead' in timers: pass
                    try:
                        dis.step_state()
                    except Exception as E:
                        ctx.violation(f'direct-state probe: {cname}.step_state on an agent in state {pf}{"+" + "+".join(f for f, v in zip(subflags, subs_on) if v) if any(subs_on) else ""} raised {type(E).__name__}: {E}', dict(disease=cname, state=pf)); break
                    ctx.count(('direct', cname, pf, subs_on, due), nontrivial=True); ctx.dist('direct-state probe')
                    now = one(dis)
                    desc = f'{pf}' + ''.join('+' + f for f, v in zip(subflags, subs_on) if v) + ' with ' + (', '.join(f'{t} {"due" if dflag else "not due"}' for t, dflag in zip(timers, due)) or 'no timers')
                    if len(now) != 1:
                        ctx.violation(f'direct-state probe: {cname}.step_state takes an agent in state {desc} to {len(now)} compartments ({", ".join(now) or "none"})', dict(disease=cname, state=pf, due=list(due))); continue
                    if not consistent(dis):
                        ctx.violation(f'direct-state probe: {cname}.step_state takes an agent in state {desc} to an inconsistent sub-state', dict(disease=cname, state=pf, due=list(due))); continue
                    allowed = {(sp['part'].index(a), sp['part'].index(b)) for a, b in sp['arrows']}
                    if not reachable(allowed, sp['part'].index(pf), sp['part'].index(now[0])):
                        ctx.violation(f'direct-state probe: {cname}.step_state moves an agent from {desc} to {now[0]}, not along the arrows of the model', dict(disease=cname, state=pf, due=list(due)))
            # step_die from this state
            if sp['dies']:
                for f in sp['flags']: getattr(dis, f)[U] = (f == pf)
                try:
                    dis.step_die(U)
                    left = [f for f in sp['flags'] if f in sp['part'] + subflags and bool(getattr(dis, f).raw[u])]
                    ctx.count(('direct-die', cname, pf), nontrivial=True)
                    if left: ctx.violation(f'direct-state probe: {cname}.step_die leaves the flags {left} on an agent who died in state {pf}', dict(disease=cname, state=pf))
                except Exception as E:
                    ctx.violation(f'direct-state probe: {cname}.step_die raised {type(E).__name__}: {E}', dict(disease=cname, state=pf))
        # set_prognoses on a susceptible agent
        for f in sp['flags']: getattr(dis, f)[U] = (f == 'susceptible')
        try:
            dis.set_prognoses(U)
            now = one(dis)
            ctx.count(('direct-prog', cname), nontrivial=True)
            if len(now) != 1 or now[0] == 'susceptible' or not consistent(dis):
                ctx.violation(f'direct-state probe: {cname}.set_prognoses on a susceptible agent leaves it in {now or "no compartment"}', dict(disease=cname))
        except Exception as E:
            ctx.violation(f'direct-state probe: {cname}.set_prognoses raised {type(E).__name__}: {E}', dict(disease=cname))


def run(ctx):
    ctx.translate(['Gen_Compart'])
    ctx.build_props('C13')
    try:
        import starsim as ss
    except Exception as E:
        raise Broken('correspondence', 'cannot import starsim', repr(E))
    rng = ctx.rng
    scripts = parse_scripts()
    Compart = make_probe(ss)
    ctx.cov['rule'] = ('one run per built-in disease (SIR, SIS, Measles, Ebola, Cholera, Gonorrhea, HIV, Syphilis, SIR+SIS) with births and deaths: every step_state / '
                       'set_prognoses / step_die call recorded; for sampled agents the generated script is run in Coq on the recorded flags and time conditions and must '
                       'reproduce the flags after the call; per-step probe for partition, arrows, timers, cumulative infections; non-trivial = agent whose flags changed')
    terms, metas = [], []
    for name, mk in configs(ss).items():
        for rep in range(ctx.n(1, 5)):
            seed = rng.randrange(1, 10**4)
            try:
                with CallRecorder(ss, scripts) as rec:
                    sim = mk(seed)
                    sim.pars['analyzers'] = [Compart(name='compart', extra_arrows=EXTRA_ARROWS.get(name, {}))]
                    sim.run()
            except Exception as E:
                ctx.violation(f'{name}: run raised {type(E).__name__}: {E}', dict(config=name, seed=seed)); continue
            ctx.count(('run', name, seed)); ctx.dist('run:' + name)
            probe = sim.analyzers.compart
            seen = set()
            for ti, dname, what in probe.problems:
                k = (dname, what.split(' ')[0:3].__repr__()[:40])
                if (dname, what[:25]) in seen: continue
                seen.add((dname, what[:25]))
                if len(seen) > 4: break
                ctx.violation(f'{name}: step {ti}: {dname}: {what}', dict(config=name, seed=seed, ti=ti, disease=dname))
            # cumulative infections = number of infection events; = distinct ever-infected agents where there is no way back
            for dis in sim.diseases():
                if isinstance(dis, ss.Infection) and dis.t.npts == sim.t.npts and dis.name in probe.events:
                    cum = float(np.asarray(dis.results.cum_infections)[-1])
                    ev = probe.events[dis.name]
                    ctx.count(('cum', name, seed, dis.name), nontrivial=ev > 0)
                    if cum != ev:
                        w = dict(config=name, seed=seed, disease=dis.name, cum_infections=cum, events=ev)
                        # known defect: models with a latent stage overwrite ti_infected with the (fractional) onset of infectiousness, and
                        # Infection.update_results counts `ti_infected == ti`: the count is the number of onsets that hit a step exactly
                        if hasattr(dis, 'ti_exposed') and cum == probe.onset_hits[dis.name]: w['finding_key'] = 'latent-stage-infections-uncounted'
                        ctx.violation(f'{name}: {dis.name}.cum_infections ends at {cum}, the probe counted {ev} infection events among active agents', w)
                    new_res = [float(x) for x in np.asarray(dis.results.new_infections)]
                    if cum == ev and new_res != [float(x) for x in probe.new_series[dis.name]]:
                        ctx.violation(f'{name}: {dis.name}.new_infections {new_res} differs from the per-step infection events {probe.new_series[dis.name]}', dict(config=name, seed=seed, disease=dis.name))
                    if type(dis).__name__ in ('SIR', 'Measles', 'Ebola', 'Cholera', 'HIV') and not EXTRA_ARROWS.get(name, {}).get(dis.name) and ev != len(probe.ever[dis.name]):
                        ctx.violation(f'{name}: {dis.name}: {ev} infection events but {len(probe.ever[dis.name])} distinct agents ever infected, in a model without reinfection', dict(config=name, seed=seed, disease=dis.name))
            # correspondence cases
            for call in rec.calls:
                sc_items = scripts.get((call['cls'], call['meth']), [])
                conds = [it[2] for it in sc_items if it[0] == 'sel' and it[2]]
                changed = np.flatnonzero(np.any([call['before'][f] != call['after'][f] for f in call['before']], axis=0))
                act = set(map(int, call['auids']))          # `.uids` of a boolean state only ever yields active agents
                pool = [int(u) for u in list(changed[:25]) + rng.sample(range(call['n']), min(call['n'], 6))]
                for u in changed:
                    if int(u) not in act and (call['uids'] is None or int(u) not in set(map(int, call['uids']))):
                        ctx.violation(f"{name}: {call['cls']}.{call['meth']} at step {call['ti']} changed the flags of agent {int(u)}, who is not active", dict(config=name, seed=seed)); break
                pool = [u for u in pool if u in act]
                uset = set(map(int, call['uids'])) if call['uids'] is not None else set()
                for u in pool:
                    u = int(u)
                    cv = {}
                    ok = True
                    for ctext in conds:
                        # Syphilis.step_state re-schedules later stages inside the call (set_*_prognoses) before it tests them: those tests see the new timers
                        tm = call['timers_after'] if (call['cls'] == 'Syphilis' and 'ti_secondary' not in ctext) else call['timers']
                        v = eval_cond(ctext, tm, call['ti'], u, call['before'])
                        if v is None: ok = False
                        cv[ctext] = bool(v)
                    if not ok: continue
                    cv['uids'] = u in uset
                    st = {f: bool(call['before'][f][u]) for f in call['before']}
                    ex = {f: bool(call['after'][f][u]) for f in call['after']}
                    # selectors that are neither defined nor `uids` (e.g. symp_uids, clearances): membership read off the observation when a flag they set changed
                    free = set(it[3] for it in sc_items if it[0] == 'set') - set(it[1] for it in sc_items if it[0] == 'sel') - {'uids'}
                    for fs in free:
                        tgt = [it for it in sc_items if it[0] == 'set' and it[3] == fs]
                        cv[fs] = all(ex[it[1]] == it[2] for it in tgt) and any(st[it[1]] != it[2] for it in tgt)
                    terms.append(f'("{call["cls"]}", "{call["meth"]}", {val_term(cv)}, {val_term(st)}, {val_term(ex)})')
                    metas.append(dict(config=name, seed=seed, cls=call['cls'], meth=call['meth'], ti=call['ti'], uid=u, before=st, after=ex, conds=cv))
                    ctx.count((name, seed, call['cls'], call['meth'], call['ti'], u), nontrivial=st != ex)
                ctx.dist(f'call:{call["cls"]}.{call["meth"]}')
    ctx.guard('direct_state_probes', direct_state_probes, ctx, ss, scripts)
    okdef = '''From Coq Require Import String.
Open Scope string_scope.
Definition same (ks : list string) (a b : valuation) : bool := forallb (fun k => Bool.eqb (getv a k) (getv b k)) ks.
Definition ok (c : string * string * valuation * valuation * valuation) : bool :=
  let '(d, m, cv, st, ex) := c in
  match run_script (script_gen d m) cv st with Some st' => same (map fst st) st' ex | None => false end.'''
    step = max(1, len(terms) // ctx.n(1500, 20000))
    sub = list(range(0, len(terms), step))
    ctx.cov['agent_calls_replayed_in_coq'] = len(sub)
    bad = ctx.coq_mismatches('scripts', IMPORTS, 'string * string * valuation * valuation * valuation', [terms[i] for i in sub], okdef, shard=250)
    for j in bad[:3]:
        ctx.broke('correspondence', f'{metas[sub[j]]["cls"]}.{metas[sub[j]]["meth"]}: the generated script run on the recorded flags / time conditions does not give the flags observed after the call', repr(metas[sub[j]]))
    if metas: ctx.sample(dict(kind='recorded agent call', **{k: str(v) for k, v in metas[0].items()}))


def replay(ctx, rp):
    run(ctx)
