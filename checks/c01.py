"""
C01 -- Same configuration and seed give bit-identical simulations.

1. translator: Gen_Sim.v -- the call sites that draw from the process-wide NumPy generator (AST scan of starsim/*.py, diseases/*.py), shape pins on
   str2int (sha-based), Dist.process_seed, Dists.init, Dist.init (private generator), Sim.init (seed reset first), Sim.init_dists; Gen_Dist.v seed_gen
2. obligations: Props/C01.v
3. correspondence: (a) every distribution of real sims has seed = seed_gen(sha(trace) mod 1e9, base seed), evaluated in Coq; (b) the set of
   configurations that consume the process-wide generator during a run (observed through np.random.get_state()) is exactly the set whose
   module classes appear in global_rng_sites_gen
4. oracle on the implementation: for a grid of configurations and process histories (other sims created / run in between, draws from np.random
   between init and run and at a loop-function boundary, deep-copied twins, a worker process with another PYTHONHASHSEED) results and final agent
   states are bit-identical; a different seed changes every distribution's first draws.  Configurations containing a known global-generator user
   are reported as known findings when they differ.
"""
import os, sys, json, subprocess, copy, hashlib
import numpy as np
from vlib.core import Broken, VERIF, REPO

IMPORTS = 'Model.Prelude Gen.Gen_Dist Gen.Gen_Sim Model.L6_Sim'


def gstate_digest():
    st = np.random.get_state()
    return hashlib.sha1(st[1].tobytes() + str(st[2:]).encode()).hexdigest()


WORKER = r'''
import sys, json, hashlib
sys.path.insert(0, %r)
import numpy as np
from harness.simruns import make_sim, fingerprint
kind, seed = sys.argv[1], int(sys.argv[2])
sim = make_sim(kind, seed); sim.run()
fp = fingerprint(sim)
print('FP ' + json.dumps({k: hashlib.sha1(v).hexdigest() for k, v in fp.items()}))
'''


def run(ctx):
    ctx.translate(['Gen_Sim', 'Gen_Dist'])
    ctx.build_props('C01')
    try:
        import starsim as ss, sciris as sc
    except Exception as E:
        raise Broken('correspondence', 'cannot import starsim', repr(E))
    from harness.simruns import make_sim, fingerprint, diff_keys, CONFIGS, module_classes
    rng = ctx.rng
    ctx.cov['rule'] = ('configuration grid (disease x network x demographics x intervention x time spec) x seeds x process histories {alone, draws from np.random between init and run, '
                       'draws at a loop-function boundary, another sim initialised / run in between, deep-copied twin run afterwards, fresh worker process with another PYTHONHASHSEED}; '
                       'non-trivial = a history other than `alone`')
    out = ctx.coq_eval('c01classes', 'From SS Require Import ' + IMPORTS + '.\nFrom Coq Require Import String.\nOpen Scope string_scope.\nEval vm_compute in global_rng_classes.\n')
    import re
    gclasses = set(re.findall(r'"([^"]+)"', out))
    ctx.cov['global_generator_classes'] = sorted(gclasses)
    sterms, smeta = [], []
    nviol = 0
    def viol(msg, w):
        nonlocal nviol
        nviol += 1
        if nviol <= 40: ctx.violation(msg, w)
    kinds = CONFIGS if ctx.tier != 'quick' else CONFIGS
    for kind in kinds:
        try: make_sim(kind, rng.randrange(1, 10**5), variant=1).run()     # the first sim of this kind in this process carries OTHER data (tables, efficacies): whatever it leaves behind is seen below
        except Exception: pass
        for rep in range(ctx.n(1, 4)):
            seed = rng.randrange(1, 10**5)
            W = dict(config=kind, seed=seed)
            try:
                a = make_sim(kind, seed); a.init()
            except Exception as E:
                viol(f'{kind}: init raised {type(E).__name__}: {E}', W); continue
            classes = module_classes(a)
            users = sorted(classes & gclasses)
            # (a) seeds
            for tr, d in a.dists.dists.items():
                off = int(sc.sha(tr, asint=True) % 1_000_000_000)
                sterms.append(f'({off}%Z, {seed}%Z, {int(d.seed)}%Z)'); smeta.append(dict(W, trace=tr, seed_of_dist=int(d.seed)))
            g0 = gstate_digest(); a.run(); g1 = gstate_digest()
            consumed = g0 != g1
            ctx.count(('consumes-global', kind, seed)); ctx.dist('consumes global generator: %s' % consumed)
            if consumed and not users:
                ctx.broke('correspondence', f'{kind}: the run advanced the process-wide NumPy generator although none of its module classes {sorted(classes)[:12]} has a call site in global_rng_sites_gen', repr(W))
            ref = fingerprint(a)
            def compare(name, fp):
                ctx.count((kind, seed, name), nontrivial=True); ctx.dist('history ' + name)
                d = diff_keys(ref, fp)
                if d:
                    w = dict(W, history=name, first_difference=d[0])
                    if users: w['finding_key'] = 'global-generator:' + '+'.join(users)
                    viol(f'{kind} (seed {seed}): history `{name}` gives a different simulation than the run alone (first difference: {d[0]})' + (f'; global-generator users present: {users}' if users else ''), w)
            try:
                b = make_sim(kind, seed); b.init(); np.random.random(rng.randrange(1, 40)); b.run(); compare('np.random draws between init and run', fingerprint(b))
                c = make_sim(kind, seed); c.init(); o = make_sim(CONFIGS[rng.randrange(len(CONFIGS))], seed + 17); o.run(); c.run(); compare('another sim created and run in between', fingerprint(c))
                v_ = make_sim(kind, seed + 5, variant=1); v_.run(); c2 = make_sim(kind, seed); c2.run(); compare('a sim of the same kind with other data run before (same process)', fingerprint(c2))
                o2 = make_sim(kind, seed + 1); o2.init(); d_ = make_sim(kind, seed); d_.init(); o2.run(); d_.run(); compare('another sim initialised before and run in between', fingerprint(d_))
                e = make_sim(kind, seed); e2 = copy.deepcopy(e); e.run(); e2.run(); compare('deep-copied twin run afterwards', fingerprint(e2))
                h = make_sim(kind, seed); h.init(); h2 = copy.deepcopy(h); h.run(); h2.run(); compare('twin deep-copied after init, original run first', fingerprint(h2)); compare('initialised sim run after being deep-copied', fingerprint(h))
                h = make_sim(kind, seed); h.init(); h2 = copy.deepcopy(h); h2.run(); h.run(); compare('twin deep-copied after init, twin run first', fingerprint(h))
                x = make_sim(kind, seed); y = make_sim(kind, seed + 1); x.init(); y.init()
                while x.loop.index < len(x.loop.plan):
                    if y.loop.index < len(y.loop.plan): y.loop.run_one_step()
                    x.loop.run_one_step()
                x.run(); compare('stepped in lock-step with a sim of the same kind and another seed', fingerprint(x))
                # a perturbation of the process-wide generator at a loop-function boundary
                class Poke(ss.Analyzer):
                    def step(self): np.random.random(3)
                f = make_sim(kind, seed, extra=dict(analyzers=[Poke(name='poke')])); f.run()
                g_ = make_sim(kind, seed, extra=dict(analyzers=[ss.Analyzer.from_func(lambda sim: None)] if False else []));
                fpf = {k: v for k, v in fingerprint(f).items() if 'poke' not in k}
                compare('np.random draws at a loop-function boundary', fpf)
            except Exception as E:
                viol(f'{kind}: a history raised {type(E).__name__}: {E}', W)
            # a different seed changes every distribution's stream
            x = make_sim(kind, seed); x.init(); y = make_sim(kind, seed + 1); y.init()
            for tr, dx in x.dists.dists.items():
                dy = y.dists.dists.get(tr)
                if dy is None: continue
                try:
                    try: vx = np.asarray(dx.rvs(8), dtype=float); vy = np.asarray(dy.rvs(8), dtype=float)      # through the distribution itself (NumPy or SciPy sampler)
                    except Exception: vx = np.asarray(dx.rng.random(8)); vy = np.asarray(dy.rng.random(8))
                    if type(dx).__name__ in ('constant', 'bernoulli', 'randint', 'poisson', 'choice') or len(np.unique(vx)) < 3: vx = np.asarray(dx.rng.random(8)); vy = np.asarray(dy.rng.random(8))
                except Exception: continue
                ctx.count(('seedchange', kind, tr));
                if np.array_equal(vx, vy): viol(f'{kind}: distribution {tr} has the same stream under seeds {seed} and {seed + 1}', dict(W, trace=tr))
        # worker process with another hash seed (one seed per configuration)
        if ctx.tier != 'quick' or kind in CONFIGS[:7]:
            seed = rng.randrange(1, 10**5)
            try: make_sim(kind, seed + 9, variant=1).run()          # this process has already run sims of the same kind with other data
            except Exception: pass
            a = make_sim(kind, seed); a.run(); ref = {k: hashlib.sha1(v).hexdigest() for k, v in fingerprint(a).items()}
            users = sorted(module_classes(a) & gclasses)
            for hs in ([rng.randrange(1, 1000)] if kind != 'sis_tx2' else [1, 2, 3, 5]):      # several hash seeds where string-keyed tables are iterated
                env = dict(os.environ, PYTHONHASHSEED=str(hs), PYTHONPATH=REPO + ':' + VERIF)
                pr = subprocess.run([sys.executable, '-c', WORKER % VERIF, kind, str(seed)], capture_output=True, text=True, env=env, timeout=600)
                line = [l for l in pr.stdout.splitlines() if l.startswith('FP ')]
                ctx.count((kind, seed, 'worker', hs), nontrivial=True); ctx.dist('history worker process, other PYTHONHASHSEED')
                if not line:
                    viol(f'{kind}: the worker process failed: {pr.stderr[-300:]}', dict(config=kind, seed=seed))
                else:
                    fp = json.loads(line[0][3:])
                    d = [k for k in ref if fp.get(k) != ref[k]]
                    if d:
                        w = dict(config=kind, seed=seed, history='worker', first_difference=d[0])      # both runs start from np.random as Sim.init seeded it: the global generator explains no difference here
                        viol(f'{kind} (seed {seed}): a fresh worker process with PYTHONHASHSEED={env["PYTHONHASHSEED"]} gives a different simulation (first difference: {d[0]})', w)
    bad = ctx.coq_mismatches('c01seeds', IMPORTS, 'Z * Z * Z', sterms, 'Definition ok (c : Z * Z * Z) : bool := let \'(o, b, s) := c in Z.eqb (seed_gen o b) s.', shard=500)
    for j in bad[:3]: ctx.broke('correspondence', 'a distribution\'s seed differs from seed_gen(sha(trace) mod 1e9, base seed)', repr(smeta[j]))
    ctx.cov['replayed_in_coq'] = dict(dist_seeds=len(sterms))


def replay(ctx, rp):
    run(ctx)
