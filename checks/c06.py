"""
C06 -- Time-unit conversion preserves physical quantities.

1. translator: Gen_Time.v regenerated from starsim/time.py
2. obligations: Props/C06.v (25 theorems about the generated definitions)
3. correspondence: model (tp_values, tp_to, time_ratio_gen, arithmetic) evaluated in Coq on the same
   inputs as the real ss.dur / ss.rate / ss.time_ratio; probabilities (not executable over R) are tied by
   the translator + an implementation-side evaluation of the very statements proved in Props/C06.v
4. search: the same statements (reciprocity, transitivity, physical preservation, round trip, compounding,
   range, monotonicity, rejection) evaluated directly on the implementation -> concrete failing input
"""
import math, itertools
from fractions import Fraction as F
from vlib.core import qlit, Broken

UNITS = ['day', 'week', 'month', 'year']
UC = {'day': 'UDay', 'week': 'UWeek', 'month': 'UMonth', 'year': 'UYear', 'unitless': 'UUnitless', None: 'UNone'}
DAYS = {'day': F(1), 'week': F(7), 'month': F(487, 16), 'year': F(1461, 4)}
TOL = '(1 # 1000000000000)'


def rnd_dt(rng):
    k = rng.random()
    if k < 0.3: return float(rng.choice([1, 2, 3, 5, 7, 10, 30]))
    if k < 0.6: return 1.0 / rng.choice([2, 3, 4, 5, 7, 10, 12, 52, 365])
    if k < 0.8: return rng.choice([0.1, 0.2, 0.25, 0.5, 1.5, 2.5, 0.01])
    return round(rng.uniform(0.01, 20), rng.choice([1, 2, 3, 6]))


def rnd_v(rng):
    k = rng.random()
    if k < 0.2: return float(rng.randint(0, 100))
    if k < 0.3: return 0.0
    if k < 0.4: return -round(rng.uniform(0, 50), 3)
    return round(rng.uniform(0, 500), rng.choice([0, 1, 3, 8]))


def res_term(val):
    if isinstance(val, str): return '(Err EZeroDiv)' if 'ZeroDivision' in val else '(Err EValue)'
    return f'(Ok {qlit(val)})'


def run(ctx):
    import numpy as np
    ctx.translate(['Gen_Time', 'Gen_Crude'])
    proved = ctx.build_props('C06')
    try:
        import starsim as ss
        import sciris as sc
    except Exception as E:
        raise Broken('correspondence', 'cannot import starsim', repr(E))
    rng = ctx.rng
    ctx.cov['rule'] = ('cases = (kind, v, unit, self_dt, parent_unit, parent_dt) for ss.dur/ss.rate/.to()/arithmetic and '
                       '(unit1, dt1, unit2, dt2) for ss.time_ratio, drawn from VERIF_SEED; all 36 ordered unit pairs incl. unitless/None '
                       'always included; non-trivial = distinct tuple whose two (unit, dt) sides differ; probabilities: (class, v, factor) '
                       'grid evaluated against the statements of Props/C06.v')

    def impl(fn):
        try:
            return fn()
        except (ValueError, TypeError, KeyError, AttributeError, ZeroDivisionError) as E:
            return 'ERR:' + type(E).__name__

    # ---------------------------------------------------------------- A. time_ratio
    ratio_cases = []
    allu = UNITS + ['unitless', None]
    for u1 in allu:
        for u2 in allu:
            ratio_cases.append((u1, 1.0, u2, 1.0))
            ratio_cases.append((u1, rnd_dt(rng), u2, rnd_dt(rng)))
    for _ in range(ctx.n(300, 6000)):
        d = rnd_dt(rng)
        ratio_cases.append((rng.choice(UNITS), d, rng.choice(UNITS), d if rng.random() < 0.2 else rnd_dt(rng)))
    terms = []
    for (u1, d1, u2, d2) in ratio_cases:
        r = impl(lambda: ss.time_ratio(u1, d1, u2, d2))
        ctx.count(('ratio', u1, d1, u2, d2), nontrivial=(u1, d1) != (u2, d2))
        ctx.dist('time_ratio' + ('/error' if isinstance(r, str) else ''))
        terms.append(f'(({UC[u1]}, {qlit(d1)}), ({UC[u2]}, {qlit(d2)}), {res_term(r)})')
    ok_def = (f'Definition errc (e : err) : bool := match e with EZeroDiv => true | _ => false end.\n'
              f'Definition ok (c : (unit_t * Q) * (unit_t * Q) * res Q) : bool :=\n'
              f'  let \'(a, b, r) := c in match time_ratio_gen (fst a) (snd a) (fst b) (snd b), r with\n'
              f'  | Ok x, Ok y => Qclose {TOL} x y | Err e1, Err e2 => Bool.eqb (errc e1) (errc e2) | _, _ => false end.')
    bad = ctx.coq_mismatches('ratio', 'Model.Prelude Model.L3_Units Gen.Gen_Time Model.L3_TimePar',
                             '(unit_t * Q) * (unit_t * Q) * res Q', terms, ok_def)
    ctx.sample(dict(kind='time_ratio', case=ratio_cases[40], impl=impl(lambda: ss.time_ratio(*ratio_cases[40]))))
    for i in bad[:5]:
        c = ratio_cases[i]
        ctx.broke('correspondence', f'time_ratio{c}: model (Gen_Time.time_ratio_gen) and implementation disagree',
                  f'implementation returned {impl(lambda: ss.time_ratio(*c))}')

    # ---------------------------------------------------------------- B. dur / rate values, to(), arithmetic
    tp_cases = []
    for _ in range(ctx.n(600, 12000)):
        kind = rng.choice(['dur', 'rate'])
        tp_cases.append((kind, rnd_v(rng), rng.choice(UNITS), rnd_dt(rng) if rng.random() < 0.4 else 1.0,
                         rng.choice(UNITS), rnd_dt(rng)))
    cls = {'dur': ss.dur, 'rate': ss.rate}
    def mk(c):
        kind, v, u, sdt, pu, pdt = c
        return cls[kind](v, unit=u, parent_unit=pu, parent_dt=pdt, self_dt=sdt).init()
    def tpterm(c):
        kind, v, u, sdt, pu, pdt = c
        return f'(mkTP {"KDur" if kind == "dur" else "KRate"} {qlit(v)} {UC[u]} {qlit(sdt)} {UC[pu]} {qlit(pdt)})'
    terms, terms_to, terms_ar = [], [], []
    to_args = []
    for c in tp_cases:
        r = impl(lambda: float(mk(c).values))
        ctx.count(('tp',) + c, nontrivial=(c[2], c[3]) != (c[4], c[5]))
        ctx.dist(c[0] + '.values')
        terms.append(f'({tpterm(c)}, {res_term(r)})')
        # to(unit, dt) then to(unit0, dt0)
        u, d, u0, d0 = rng.choice(UNITS), rnd_dt(rng), rng.choice(UNITS), rnd_dt(rng)
        to_args.append((u, d, u0, d0))
        r1 = impl(lambda: float(mk(c).to(u, d).v))
        r2 = impl(lambda: float(mk(c).to(u, d).to(u0, d0).v))
        r3 = impl(lambda: float(mk(c).to_parent().v))
        ctx.count(('to',) + c + (u, d, u0, d0)); ctx.dist('to/to.to/to_parent', 3)
        terms_to.append(f'({tpterm(c)}, ({UC[u]}, {qlit(d)}), ({UC[u0]}, {qlit(d0)}), ({res_term(r1)}, {res_term(r2)}, {res_term(r3)}))')
        k = rnd_v(rng) or 2.0
        x = rnd_v(rng)
        rm = impl(lambda: float((mk(c) * k).values)); rd = impl(lambda: float((mk(c) / k).values))
        rn = impl(lambda: float((-mk(c)).values)); ra = impl(lambda: float(mk(c) + x)); rs = impl(lambda: float(mk(c) - x))
        rr = impl(lambda: float((k * mk(c)).values))
        ctx.count(('arith',) + c + (k, x)); ctx.dist('arithmetic(*,/,neg,+,-,rmul)', 6)
        terms_ar.append(f'({tpterm(c)}, ({qlit(k)}, {qlit(x)}), [{res_term(rm)}; {res_term(rd)}; {res_term(rn)}; {res_term(ra)}; {res_term(rs)}; {res_term(rr)}])')
    cmpdef = (f'Definition errc (e : err) : bool := match e with EZeroDiv => true | _ => false end.\n'
              f'Definition cmp (m r : res Q) : bool := match m, r with Ok x, Ok y => Qclose {TOL} x y | Err e1, Err e2 => Bool.eqb (errc e1) (errc e2) | _, _ => false end.\n')
    imports = 'Model.Prelude Model.L3_Units Gen.Gen_Time Model.L3_TimePar'
    bad = ctx.coq_mismatches('values', imports, 'timepar * res Q', terms,
                             cmpdef + 'Definition ok (c : timepar * res Q) : bool := cmp (tp_values (fst c)) (snd c).')
    for i in bad[:5]:
        ctx.broke('correspondence', f'{tp_cases[i]}: model tp_values and implementation .values disagree',
                  f'implementation: {impl(lambda: float(mk(tp_cases[i]).values))}')
    ok_to = cmpdef + '''Definition vof (r : res timepar) : res Q := bind r (fun q => Ok (tp_v q)).
Definition ok (c : timepar * (unit_t * Q) * (unit_t * Q) * (res Q * res Q * res Q)) : bool :=
  let '(p, a, b, (r1, r2, r3)) := c in
  (* the object is built and initialised first (its factor against the parent is computed): when that fails, everything derived from it fails alike *)
  let q1 := bind (tp_values p) (fun _ => tp_to p (fst a) (Some (snd a))) in
  andb (cmp (vof q1) r1) (andb (cmp (vof (bind q1 (fun q => tp_to q (fst b) (Some (snd b))))) r2) (cmp (vof (bind (tp_values p) (fun _ => tp_to_parent p))) r3)).'''
    bad = ctx.coq_mismatches('to', imports, 'timepar * (unit_t * Q) * (unit_t * Q) * (res Q * res Q * res Q)', terms_to, ok_to)
    for i in bad[:5]:
        ctx.broke('correspondence', f'{tp_cases[i]} .to{to_args[i][:2]}.to{to_args[i][2:]} / to_parent: model tp_to and implementation disagree')
    ok_ar = cmpdef + '''Definition ok (c : timepar * (Q * Q) * list (res Q)) : bool :=
  let '(p, (k, x), rs) := c in
  match rs with
  | [rm; rd; rn; ra; rs'; rr] =>
     andb (cmp (tp_values (tp_mul p k)) rm) (andb (cmp (tp_values (tp_div p k)) rd) (andb (cmp (tp_values (tp_neg p)) rn)
     (andb (cmp (tp_add p x) ra) (andb (cmp (tp_sub p x) rs') (cmp (tp_values (tp_mul p k)) rr)))))
  | _ => false end.'''
    bad = ctx.coq_mismatches('arith', imports, 'timepar * (Q * Q) * list (res Q)', terms_ar, ok_ar)
    for i in bad[:5]:
        ctx.broke('correspondence', f'{tp_cases[i]} arithmetic: model and implementation disagree')
    ctx.sample(dict(kind='dur/rate', case=tp_cases[0], impl_values=impl(lambda: float(mk(tp_cases[0]).values))))

    # ---------------------------------------------------------------- C. unit aliases / validation
    from translator import targets
    alias = {}
    for k, vs in ss.time.unit_mapping_reverse.items():
        for v in vs:
            if isinstance(v, str): alias[v] = k
    terms = [f'("{a}"%string, {UC[k]})' for a, k in alias.items()]
    bad = ctx.coq_mismatches('alias', imports, 'String.string * unit_t', terms,
                             'From Coq Require Import String.\nDefinition ok (c : String.string * unit_t) : bool := match alias_lookup unit_alias_gen (fst c) with Some u => unit_eqb u (snd c) | None => false end.')
    for i in bad: ctx.broke('correspondence', f'unit alias {list(alias)[i]} differs between model and implementation')
    for bad_unit in ['fortnight', 'sec', 'decade', '', 'Year ']:
        r = impl(lambda: ss.dur(1, unit=bad_unit))
        ctx.count(('badunit', bad_unit)); ctx.dist('unknown-unit rejection')
        if not isinstance(r, str):
            ctx.violation(f'unknown unit {bad_unit!r} accepted by ss.dur', dict(unit=bad_unit))
    for a, k in alias.items():
        if k in UNITS:
            r = impl(lambda: ss.dur(1, unit=a).unit)
            if r != k:
                ctx.violation(f'unit alias {a!r} resolves to {r!r}, expected {k!r}', dict(alias=a))

    # ---------------------------------------------------------------- D. oracle: the statements themselves on the implementation
    oracle(ctx, ss, np, rng)


def close(a, b, tol=1e-9):
    return abs(a - b) <= tol * max(1.0, abs(a), abs(b))


def oracle(ctx, ss, np, rng):
    """Direct evaluation of the C06 statements on the real objects (search for a concrete failing input)."""
    dts = [1.0, 0.5, 0.1, 2.0, 7.0, 1 / 12, 1 / 365, 0.25, 3.0]
    n = 0
    # reciprocity / transitivity / formula
    for u1, u2 in itertools.product(UNITS, UNITS):
        for d1, d2 in itertools.product(dts[:5] if not ctx.thorough else dts, repeat=2):
            r12 = ss.time_ratio(u1, d1, u2, d2); r21 = ss.time_ratio(u2, d2, u1, d1); n += 1
            if not close(r12 * r21, 1.0):
                ctx.violation(f'time_ratio not reciprocal: r({u1},{d1};{u2},{d2})*r(back) = {r12*r21}', dict(u1=u1, d1=d1, u2=u2, d2=d2))
            exp = float((F(d1) / F(d2)) * (DAYS[u1] / DAYS[u2]))
            if not close(r12, exp):
                ctx.violation(f'time_ratio({u1},{d1},{u2},{d2}) = {r12}, physical value {exp}', dict(u1=u1, d1=d1, u2=u2, d2=d2))
            for u3 in UNITS:
                d3 = rng.choice(dts)
                r23 = ss.time_ratio(u2, d2, u3, d3); r13 = ss.time_ratio(u1, d1, u3, d3); n += 1
                if not close(r12 * r23, r13):
                    ctx.violation(f'time_ratio not transitive via ({u2},{d2}): {r12*r23} vs {r13}', dict(u1=u1, d1=d1, u2=u2, d2=d2, u3=u3, d3=d3))
    # physical preservation, round trip for all four kinds, scalar and array
    kinds = dict(dur=ss.dur, rate=ss.rate, time_prob=ss.time_prob, rate_prob=ss.rate_prob, beta=ss.beta)
    for _ in range(ctx.n(400, 8000)):
        kind = rng.choice(list(kinds)); K = kinds[kind]
        u, pu = rng.choice(UNITS), rng.choice(UNITS)
        sdt = rng.choice([1.0, 1.0, 0.5, 2.0]); pdt = rng.choice(dts)
        isarr = rng.random() < 0.3
        if kind in ('time_prob', 'beta'):
            v = rng.choice([0.0, 1.0, 0.5, 0.01, 0.999]) if rng.random() < 0.4 else rng.random()
        elif kind == 'rate_prob':
            v = rng.choice([0.0, 0.1, 2.5, 40.0]) if rng.random() < 0.4 else rng.uniform(0, 10)
        else:
            v = rnd_v(rng)
        vv = np.array([v, v / 2, v]) if isarr else v
        if isarr and kind in ('rate_prob', 'rate', 'dur') and rng.random() < 0.3: v = float(int(v) + 1); vv = np.array([int(v), int(v) * 2, int(v)])      # integer-typed arrays are values in range too
        key = dict(kind=kind, v=v, unit=u, self_dt=sdt, parent_unit=pu, parent_dt=pdt, array=isarr)
        try:
            p = K(vv, unit=u, parent_unit=pu, parent_dt=pdt, self_dt=sdt).init()
        except Exception as E:
            ctx.violation(f'valid {kind} rejected: {type(E).__name__}: {E}', key); continue
        n += 1; ctx.count(('oracle',) + tuple(key.values())); ctx.dist('oracle:' + kind + ('[array]' if isarr else ''))
        y = np.atleast_1d(np.asarray(p.values, dtype=float))[0]
        f = float((F(sdt) * DAYS[u]) / (F(pdt) * DAYS[pu]))     # physical factor
        if not close(float(p.factor), f):
            ctx.violation(f'{kind} factor {p.factor} != physical {f}', key)
        if kind == 'dur' and not close(y * pdt * float(DAYS[pu]), v * sdt * float(DAYS[u])):
            ctx.violation(f'dur: steps x step length = {y*pdt*float(DAYS[pu])} days, original {v*sdt*float(DAYS[u])} days', key)
        if kind == 'rate' and not close(y / (pdt * float(DAYS[pu])), v / (sdt * float(DAYS[u]))):
            ctx.violation(f'rate: per-step rate / step length differs from original rate', key)
        if kind in ('time_prob', 'beta'):
            if not (0.0 <= y <= 1.0): ctx.violation(f'time_prob value {y} outside [0,1]', key)
            if v in (0.0, 1.0) and y != v: ctx.violation(f'time_prob end point {v} not exact: {y}', key)
            if 0 < v < 1:
                ex = -math.expm1(math.log1p(-v) / f)      # per-step probability whose compounding over f steps is v
                if not abs(y - ex) <= 1e-12: ctx.violation(f'time_prob per-step value {y}; the value that compounds to {v} over {f} steps is {ex}', key)
            p2 = K(vv, unit=u, parent_unit=pu, parent_dt=pdt * 2, self_dt=sdt).init()
            y2 = np.atleast_1d(np.asarray(p2.values, dtype=float))[0]
            if y2 < y - 1e-15: ctx.violation(f'time_prob not monotone in dt: {y} at dt={pdt}, {y2} at dt={2*pdt}', key)
        if kind == 'rate_prob':
            ex = -math.expm1(-v / f)
            if not abs(y - ex) <= 1e-12: ctx.violation(f'rate_prob value {y} != 1-exp(-rate*dt) = {ex}', key)
            if not (0.0 <= y <= 1.0): ctx.violation(f'rate_prob value {y} outside [0,1]', key)
            p2 = K(vv, unit=u, parent_unit=pu, parent_dt=pdt * 2, self_dt=sdt).init()
            y2 = np.atleast_1d(np.asarray(p2.values, dtype=float))[0]
            if y2 < y - 1e-15: ctx.violation(f'rate_prob not monotone in dt: {y} at dt={pdt}, {y2} at dt={2*pdt}', key)
        # pointwise agreement of the array branch with the scalar branch
        if isarr:
            ys = np.asarray(p.values, dtype=float)
            for j, vj in enumerate(vv):
                yj = float(K(float(vj), unit=u, parent_unit=pu, parent_dt=pdt, self_dt=sdt).init().values)
                if not close(ys[j], yj, 1e-12): ctx.violation(f'{kind} array branch differs from scalar branch at element {j}: {ys[j]} vs {yj}', key)
        # round trip through another (unit, dt).  For probabilities the check is applied only where it is
        # well conditioned in binary64 (the intermediate probability is not within 1e-6 of 1).
        u2, d2 = rng.choice(UNITS), rng.choice(dts)
        try:
            mid = p.to(u2, d2)
            q = mid.to(u, sdt)
            back = np.atleast_1d(np.asarray(q.v, dtype=float))[0]
            midv = np.atleast_1d(np.asarray(mid.v, dtype=float))[0]
            wellcond = kind in ('dur', 'rate') or (midv <= 1 - 1e-6)
            if wellcond and not close(back, v, 1e-7):
                w = key | dict(via=(u2, d2))
                if kind == 'rate_prob': w['finding_key'] = 'rate_prob.to-roundtrip'
                ctx.violation(f'{kind}: to({u2},{d2}) and back gives {back}, original {v}', w)
        except Exception as E:
            ctx.violation(f'{kind}: to/back raised {type(E).__name__}: {E}', key)
        # arithmetic rescales consistently (dur, rate)
        if kind in ('dur', 'rate'):
            k = rng.choice([2.0, 0.5, 3.0])
            ym = np.atleast_1d(np.asarray((p * k).values, dtype=float))[0]
            if not close(ym, y * k): ctx.violation(f'{kind}*{k}: values {ym} != {y}*{k}', key)
            # conversion without an explicit dt, then arithmetic: the converted quantity behaves like a plain number of that unit
            try:
                q1 = p.to(u2)
                base = float(np.atleast_1d(np.asarray(q1.values, dtype=float))[0])
                def val(x): return float(np.atleast_1d(np.asarray(getattr(x, 'values', x), dtype=float))[0])
                for what, got, want in ((f'({kind}.to({u2!r}) * {k})', val(q1 * k), base * k), (f'(-{kind}.to({u2!r}))', val(-q1), -base), (f'({kind}.to({u2!r}) / {k})', val(q1 / k), base / k)):
                    if not close(got, want): ctx.violation(f'{what} = {got}; the converted value is {base}, so the result should be {want}', key | dict(via=u2, probe='to-then-arithmetic')); break
            except Exception as E:
                ctx.violation(f'{kind}: to({u2!r}) followed by arithmetic raised {type(E).__name__}: {E}', key)
    # rejections
    rej = [(ss.time_prob, -0.1), (ss.time_prob, 1.5), (ss.beta, 2.0), (ss.rate_prob, -1.0), (ss.time_prob, np.array([0.2, 1.2])), (ss.rate_prob, np.array([0.5, -0.5]))]
    # arrays whose valid entries all sit on the boundary (0 or 1) with one entry out of range, for every (unit, dt) side
    for K in (ss.time_prob, ss.beta):
        for arr in ([0.0, 1.0, 1.5], [-0.2, 0.0], [1.5], [1.0, -1e-9], [0.0, 0.0, 2.0]):
            rej.append((K, np.array(arr)))
    for K, bad in rej:
      for (u_, pu_, pdt_) in (('year', 'day', 1.0), ('day', 'day', 1.0), ('week', 'year', 0.5)):
        n += 1; ctx.dist('oracle:rejection')
        try:
            p = K(bad, unit=u_, parent_unit=pu_, parent_dt=pdt_).init()
            ctx.violation(f'{K.__name__}({bad}) accepted (values {p.values})', dict(kind=K.__name__, v=str(bad)))
        except Exception:
            pass
    # durations and rates handed to a module through a distribution: what the module receives, times its own step, is the original quantity
    for (u_, pu_, pdt_) in (('day', 'week', 1.0), ('year', 'day', 1.0), ('week', 'day', 3.0), ('day', 'year', 0.1), ('year', 'year', 0.25), ('year', 'year', 1.0), ('day', 'day', 1.0), ('week', 'week', 1.0)):
        for kind, v in (('dur', 10), ('dur', 2.5), ('rate', 3), ('rate', 0.7), ('rate_prob', 0.7), ('rate_prob', 3.0), ('time_prob', 0.3), ('time_prob', 0.95)):
            n += 1; ctx.dist('oracle:timepar inside a distribution')
            W = dict(kind=kind, v=v, unit=u_, parent_unit=pu_, parent_dt=pdt_, probe='dist-wrapped')
            try:
                K = dict(dur=ss.dur, rate=ss.rate, rate_prob=ss.rate_prob, time_prob=ss.time_prob)[kind]
                ref = K(v, unit=u_, parent_unit=pu_, parent_dt=pdt_).init(); want = float(np.atleast_1d(np.asarray(ref.values, dtype=float))[0])
                d = ss.constant(v=K(v, unit=u_, parent_unit=pu_, parent_dt=pdt_).init(), strict=False); d.init()
                got = float(np.asarray(d.rvs(3), dtype=float)[0])
            except Exception as E:
                ctx.dist('oracle:timepar inside a distribution rejected'); continue
            if not close(got, want, 1e-9):
                ctx.violation(f'ss.constant(v=ss.{kind}({v!r}, {u_!r})) in a parent with unit {pu_} and dt {pdt_} yields {got} per-step units; the parameter alone converts to {want}', W)
            # two time parameters in one distribution (degenerate uniform: low = high): both are converted, once
            if kind in ('dur', 'rate'):
                try:
                    d2 = ss.uniform(low=K(v, unit=u_, parent_unit=pu_, parent_dt=pdt_).init(), high=K(v, unit=u_, parent_unit=pu_, parent_dt=pdt_).init(), strict=False); d2.init()
                    got2 = float(np.asarray(d2.rvs(3), dtype=float)[0])
                except Exception as E:
                    ctx.dist('oracle:two timepars inside a distribution rejected'); continue
                n += 1; ctx.dist('oracle:two timepars inside a distribution')
                if abs(got2 - want) > 1e-5 * max(1.0, abs(want)):      # the variates pass through float32
                    ctx.violation(f'ss.uniform(low=ss.{kind}({v!r}, {u_!r}), high=the same) in a parent with unit {pu_} and dt {pdt_} yields {got2} per-step units; the parameter alone converts to {want}', dict(W, probe='dist-wrapped-two'))
    # a plain number given to an ALREADY INITIALISED time parameter of a module (pars.update after sim.init): the per-step value follows the new number
    for simkw in (dict(unit='year', dt=0.5), dict(unit='day', dt=2.0, start='2000-01-01'), dict(unit='week', dt=1.0, start='2000-01-01')):
        try:
            sim = ss.Sim(n_agents=20, dur=3 * simkw['dt'], verbose=0, diseases=ss.SIS(), networks=ss.RandomNet(), **simkw); sim.init()
            mod = sim.diseases.sis
            for key_, newv in (('waning', 0.4), ('beta', 0.3)):
                n += 1; ctx.dist('oracle:number into an initialised time parameter')
                via = rng.choice(['module', 'sim'])
                if via == 'module': mod.pars.update({key_: newv})
                else: sim.pars.update({mod.name: {key_: newv}})
                tp = mod.pars[key_]
                fresh = type(tp)(newv, unit=tp.unit, parent_unit=mod.t.unit, parent_dt=float(mod.t.dt), self_dt=tp.self_dt).init()
                got = float(np.atleast_1d(np.asarray(tp.values, dtype=float))[0]); want = float(np.atleast_1d(np.asarray(fresh.values, dtype=float))[0])
                if float(tp.v) != newv or not close(got, want, 1e-12):
                    ctx.violation(f'SIS.{key_} updated to {newv} after sim.init() (through the {via} parameters) in a {simkw} sim: v = {float(tp.v)}, per-step value {got}; a fresh {type(tp).__name__}({newv}) converts to {want}', dict(probe='post-init-number', par=key_, sim=simkw, via=via))
        except Exception as E:
            ctx.violation(f'updating a time parameter after sim.init() raised {type(E).__name__}: {E}', dict(probe='post-init-number', sim=simkw))
    # crude rates of the demographics modules: reported value vs the model (crude_rate_reported: count / alive / (units * SIM step in years), replayed in
    # Coq) and vs the property (count divided by the step length of the module that counted it)
    cterms, cmeta, offrate = [], [], []
    for simkw, modkw in ((dict(unit='day', dt=1.0, start='2000-01-01', dur=1100), dict(unit='year', dt=1.0)), (dict(unit='year', dt=1.0, dur=6), dict()), (dict(unit='year', dt=0.5, dur=4), dict(unit='year', dt=1.0)),
                         (dict(unit='year', dt=0.25, dur=3), dict())):
        try:
            sim = ss.Sim(n_agents=2000, verbose=0, rand_seed=rng.randrange(1, 10**4), demographics=[ss.Births(birth_rate=20, **modkw), ss.Deaths(death_rate=10, **modkw)], **simkw); sim.run()
        except Exception as E:
            ctx.dist('oracle:crude-rate config rejected'); continue
        for mod, cntkey, ratekey in ((sim.demographics.births, 'new', 'cbr'), (sim.demographics.deaths, 'new', 'cmr')):
            cnt = np.asarray(mod.results[cntkey], dtype=float); rep = np.asarray(mod.results[ratekey], dtype=float)
            inds = mod.match_time_inds(); alive = np.asarray(sim.results.n_alive, dtype=float)[inds]
            sdt, mdt, units = float(sim.t.dt_year), float(mod.t.dt_year), float(mod.pars.rate_units)
            for t in range(len(cnt)):
                if alive[t] <= 0 or (ratekey == 'cbr' and t == 0): continue
                n += 1; ctx.dist('oracle:crude rate')
                a_t = float(sim.people.alive.sum()) if False else alive[t]
                if ratekey == 'cmr' and len(cterms) < ctx.n(60, 400):
                    cterms.append(f'({qlit(float(cnt[t]))}, {qlit(float(alive[t]))}, {qlit(units)}, {qlit(sdt)}, {qlit(mdt)}, {qlit(float(rep[t]))})'); cmeta.append(dict(sim=simkw, module=type(mod).__name__, t=t))
                own = cnt[t] / alive[t] / (units * mdt)
                if ratekey == 'cmr' and not close(float(rep[t]), float(own), 1e-9): offrate.append((type(mod).__name__, simkw.get('unit'), simkw.get('dt'), modkw, t, float(rep[t]), float(own)) + (('same-step',) if abs(mdt - sdt) <= 1e-12 else ()))
            if ratekey == 'cbr' and abs(mdt - sdt) > 1e-12:
                # Births divides by the population at recording time, which the run does not keep: compare the ratio reported / (count / n_alive / (units * own step)) with 1 loosely
                own = cnt[1:] / alive[1:] / (units * mdt); ratio = np.nanmedian(rep[1:] / np.where(own > 0, own, np.nan))
                if not (0.8 < ratio < 1.25): offrate.append((type(mod).__name__, simkw.get('unit'), simkw.get('dt'), modkw, 'median ratio', float(ratio), 1.0))
    bad = ctx.coq_mismatches('crude', 'Model.Prelude Model.L3_Units Gen.Gen_Time Gen.Gen_Crude Model.L3_TimePar', 'Q * Q * Q * Q * Q * Q', cterms,
                             "From Coq Require Import String.\nDefinition own_step : bool := match find (fun x => String.eqb (fst x) \"Deaths.finalize\") crude_rate_divisor_gen with Some (_, b) => b | None => false end.\n"
                             "Definition ok (c : Q * Q * Q * Q * Q * Q) : bool := let '(cnt, al, un, sdt, mdt, r) := c in Qclose ((1 # 1000000000) * (1 + r)) (crude_rate_reported own_step cnt al un sdt mdt) r.", shard=300)
    for j in bad[:3]: ctx.broke('correspondence', 'a reported crude mortality rate differs from crude_rate_reported (count / alive / (units * the step length named by the generated crude_rate_divisor_gen))', repr(cmeta[j]))
    ctx.cov['crude_rates_replayed'] = len(cterms)
    same_step = [o for o in offrate if o[-1] == 'same-step']
    offrate = [o for o in offrate if o[-1] != 'same-step']
    if same_step:
        ctx.violation(f'a crude rate of a module stepping WITH the sim is not the per-step count divided by the step length: {same_step[:4]}', dict(probe='crude-rate-same-step', cases=same_step[:8]))
    if offrate:
        ctx.violation(f'a crude rate is not the per-step count divided by the step length of the module that counted it (module, sim unit, sim dt, module time, step, reported, count / alive / (units * own step)): {offrate[:4]}',
                      dict(probe='crude-rate', cases=offrate[:8]))
    ctx.cov['oracle_evaluations'] = n


def replay(ctx, rp):
    run(ctx)
