"""
C09 -- Pausing, copying or saving a run never changes its outcome.

1. translator: Gen_Loop.v (shape pins on Loop.run resume-from-index / until test, Sim.run completion, AlreadyRun guards)
2. obligations: Props/C09.v (resume algebra for an arbitrary step function, guards, scale-at-most-once)
3. correspondence: (a) the model's run_until index vs sim.loop.index after sim.run(until=x);
   (b) THE substantive part: the proviso of the theorems ("the state handed back is the state taken") is tested on the real
       object graph: every chosen boundary k between scheduled functions x restore mode {none, deepcopy, pickle, save/load} x
       single/double pauses; copy and original both continued; results and agent states compared exactly with an uninterrupted twin
4. oracle: AlreadyRunError on re-run / re-finalize; results scaled exactly once
"""
import os, pickle, tempfile
import numpy as np
from vlib.core import Broken, qlit

IMPORTS = 'Model.Prelude Model.L4_LoopBase Gen.Gen_Loop Model.L4_Loop'


def _infected_sis(sim): return sim.diseases.sis.infected.uids


def mk_queue(seed):
    import starsim as ss, pandas as pd
    df = pd.DataFrame([dict(name='x', disease='sis', state='infected', efficacy=0.9, post_state='susceptible')])
    trt = ss.treat_num(product=ss.Tx(df), prob=0.5, max_capacity=15, eligibility=_infected_sis, name='trt')
    return ss.Sim(n_agents=4000, diseases=ss.SIS(beta=0.08, init_prev=0.08, dur_inf=ss.lognorm_ex(mean=30)), networks=ss.RandomNet(n_contacts=4), interventions=trt, dur=5, rand_seed=seed, verbose=0)


def configs(ss, thorough):
    from harness.probes import RecAnalyzer as Rec
    cf = {}
    cf['sir-random-deaths'] = lambda seed: ss.Sim(n_agents=80, diseases=ss.SIR(), networks=ss.RandomNet(), demographics=ss.Deaths(death_rate=30),
                                                  analyzers=Rec(), dur=5, rand_seed=seed, verbose=0, pop_scale=3.0)
    cf['sis-mf-pregnancy-dt'] = lambda seed: ss.Sim(n_agents=100, diseases=ss.SIS(dt=0.5), networks=[ss.MFNet(), ss.PrenatalNet()],
                                                    demographics=[ss.Pregnancy(fertility_rate=50), ss.Deaths(death_rate=10)], dur=4, rand_seed=seed, verbose=0)
    cf['days-log'] = lambda seed: ss.Sim(n_agents=80, diseases=ss.SIR(beta=ss.beta(0.05, 'day'), log=True), networks=ss.RandomNet(),
                                         unit='day', dt=1.0, start='2020-01-01', dur=10, rand_seed=seed, verbose=0)
    cf['vaccine-campaign'] = lambda seed: ss.Sim(n_agents=80, diseases=ss.SIR(), networks=ss.RandomNet(n_contacts=4),
                                                 interventions=ss.campaign_vx(years=[2002], prob=0.5, product=ss.sir_vaccine()),
                                                 dur=5, rand_seed=seed, verbose=0)
    # a long run (every distribution is called well over 100 times before the late pauses)
    cf['long-run-days'] = lambda seed: ss.Sim(n_agents=40, diseases=ss.SIS(beta=ss.beta(0.03, 'day'), dur_inf=ss.dur(10, 'day')), networks=ss.RandomNet(n_contacts=4), analyzers=Rec(),
                                              unit='day', dt=1.0, start='2020-01-01', dur=150, rand_seed=seed, verbose=0)
    # durations drawn through SciPy samplers (weibull, gamma), several times after every pause
    cf['sis-sir-scipy-durations'] = lambda seed: ss.Sim(n_agents=120, diseases=[ss.SIS(dur_inf=ss.weibull(c=2.0, scale=4.0), beta=0.15, init_prev=0.2), ss.SIR(dur_inf=ss.gamma(a=2.0, scale=2.0), beta=0.15, init_prev=0.1)],
                                                        networks=ss.RandomNet(n_contacts=4), dur=8, rand_seed=seed, verbose=0)
    cf['sis-treatment-queue'] = mk_queue      # a capacity-limited treatment queue (first come, first served): who is treated after a restore depends on the queue order surviving the copy
    cf['sis-treatment-queue-b'] = mk_queue    # the same once more with another seed: whether the queue order is history-dependent varies with the run
    if thorough:
        cf['two-diseases-erdos'] = lambda seed: ss.Sim(n_agents=80, diseases=[ss.SIR(), ss.SIS(beta=0.1)], networks=ss.ErdosRenyiNet(p=0.05),
                                                       dur=5, rand_seed=seed, verbose=0, total_pop=1000)
        cf['hiv-mf'] = lambda seed: ss.Sim(n_agents=120, diseases=ss.HIV(beta={'mf': [0.1, 0.05]}), networks=ss.MFNet(), dur=6, rand_seed=seed, verbose=0)
    return cf


def fingerprint(sim):
    """All result arrays and all agent state arrays of active agents (exact)."""
    import sciris as sc
    out = {}
    for k, v in sc.flattendict(sim.results, sep='.').items():
        if 'timevec' in k: continue
        try: out['res.' + k] = np.asarray(v, dtype=float).copy()
        except Exception: pass
    ppl = sim.people
    out['auids'] = np.asarray(ppl.auids).copy()
    for k, st in ppl.states.items():
        out['state.' + k] = np.asarray(st.raw[ppl.auids], dtype=float).copy()
    for name, net in sim.networks.items():
        if hasattr(net, 'edges'):
            for ek, ev in net.edges.items(): out[f'net.{name}.{ek}'] = np.asarray(ev, dtype=float).copy()
    for a in sim.analyzers():
        if hasattr(a, 'trace'): out['analyzer.' + a.name] = np.asarray(a.trace, dtype=float)
    return out


def diff(a, b):
    for k in a:
        if k not in b: return f'{k} missing'
        x, y = a[k], b[k]
        if x.shape != y.shape: return f'{k}: shape {x.shape} vs {y.shape}'
        if not np.array_equal(x, y, equal_nan=True):
            i = int(np.flatnonzero(~((x == y) | (np.isnan(x) & np.isnan(y))).ravel())[0])
            return f'{k}[{i}]: {x.ravel()[i]} vs {y.ravel()[i]}'
    for k in b:
        if k not in a: return f'{k} extra'
    return None


def restore(ss, sim, mode, tmpdir):
    import sciris as sc
    if mode == 'none': return sim
    if mode == 'deepcopy': return sc.dcp(sim)
    if mode == 'pickle': return pickle.loads(pickle.dumps(sim))
    if mode == 'shrunk-aside':      # a shrunken snapshot written on the side must leave the live simulation alone
        sim.save(os.path.join(tmpdir, 'aside.sim'), shrink=True)
        return sim
    if mode == 'saveload':
        fn = os.path.join(tmpdir, 'sim.sim')
        sim.save(fn)
        return ss.load(fn)
    raise ValueError(mode)


def run_to(sim, k):
    while sim.loop.index < k:
        sim.loop.run_one_step()


def finish(sim):
    sim.run()
    return fingerprint(sim)


def run(ctx):
    ctx.translate(['Gen_Loop'])
    ctx.build_props('C09')
    try:
        import starsim as ss, sciris as sc
    except Exception as E:
        raise Broken('correspondence', 'cannot import starsim', repr(E))
    rng = ctx.rng
    ctx.cov['rule'] = ('configurations x boundaries k in 0..len(plan) (quick: 0, 1, end-1, end and random interior points incl. mid-step; thorough: every boundary) x '
                       'restore mode {none, deepcopy, pickle, save/load} x single/double pause; both the restored copy and the original are continued and '
                       'compared exactly (all result arrays, all agent states of active agents, network edges, analyzer traces) with an uninterrupted twin; '
                       'non-trivial = boundary strictly inside the plan with a copying mode')
    cf = configs(ss, ctx.thorough)
    tmpdir = tempfile.mkdtemp(prefix='c09_', dir=ctx.work)
    until_terms, until_meta = [], []
    for name, mk in cf.items():
        seed = rng.randrange(1, 1000)
        try:
            base = mk(seed); base.init()
            nplan = len(base.loop.plan)
            ref = finish(base)
        except Exception as E:
            raise Broken('correspondence', f'reference run {name} failed: {type(E).__name__}: {E}')
        if name == 'long-run-days':     # a few late boundaries only (the plan has thousands of rows)
            ks = sorted(set([int(nplan * f) for f in (0.72, 0.8, 0.93)] + [nplan - 1]))
        elif ctx.thorough: ks = list(range(0, nplan + 1))
        else:
            ks = sorted(set([0, 1, nplan - 1, nplan] + [rng.randrange(2, nplan - 1) for _ in range(5)]))
        modes = ['none', 'deepcopy', 'pickle', 'saveload', 'shrunk-aside']
        for k in ks:
            for mode in (modes if not ctx.thorough else modes):
                r_ = rng if mode != 'shrunk-aside' else __import__('random').Random(ctx.seed * 131 + k)      # the added mode draws from its own stream: the other modes keep their cases
                if not ctx.thorough and mode != 'deepcopy' and r_.random() < 0.5 and k not in (0, nplan): continue
                key = dict(config=name, seed=seed, boundary=k, plan_len=nplan, mode=mode)
                try:
                    sim = mk(seed); sim.init()
                    run_to(sim, k)
                    cp = restore(ss, sim, mode, tmpdir)
                    # ordered state handed back by the restore is the state that was taken: waiting lists keep their order
                    for iv_o, iv_c in zip(sim.interventions(), cp.interventions()):
                        if hasattr(iv_o, 'queue') and [int(u) for u in iv_o.queue] != [int(u) for u in iv_c.queue]:
                            ctx.violation(f'{name}: the waiting list of {iv_o.name} comes back from a {mode} restore at boundary {k} in another order '
                                          f'({[int(u) for u in iv_o.queue][:6]} ... became {[int(u) for u in iv_c.queue][:6]} ...)', dict(key, probe='queue-order')); break
                    double = r_.random() < 0.4 and k + 2 < nplan
                    if double:
                        k2 = r_.randrange(k + 1, nplan)
                        run_to(cp, k2); cp = restore(ss, cp, mode, tmpdir); key['second_boundary'] = k2
                    f_copy = finish(cp)
                    f_orig = finish(sim) if mode not in ('none', 'shrunk-aside') else f_copy
                    if mode == 'shrunk-aside' and k == ks[-1]:
                        # ... and so must the default save of the FINISHED run (which shrinks a copy)
                        cp.save(os.path.join(tmpdir, 'done.sim')); f_after = fingerprint(cp)
                        d_ = diff(f_copy, f_after)
                        if d_: ctx.violation(f'{name}: saving the finished simulation changed the live simulation: {d_}', dict(key, probe='save-finished'))
                except Exception as E:
                    ctx.violation(f'{name}: pausing at boundary {k} with restore mode {mode} raised {type(E).__name__}: {E}', key); continue
                ctx.count(tuple(key.items()), nontrivial=(0 < k < nplan and mode != 'none')); ctx.dist('mode:' + mode); ctx.dist('double pause' if double else 'single pause')
                d = diff(ref, f_copy)
                if d: ctx.violation(f'{name}: paused at {k}/{nplan} ({mode}{", again at %d" % key.get("second_boundary") if double else ""}), resumed copy differs from uninterrupted run: {d}', key)
                d = diff(ref, f_orig)
                if d: ctx.violation(f'{name}: original continued after a {mode} copy was taken at {k}/{nplan} differs from uninterrupted run: {d}', key)
        ctx.sample(dict(kind='boundary sweep', config=name, seed=seed, plan_len=nplan, boundaries=ks))
        # until semantics: model index vs implementation index
        for _ in range(ctx.n(3, 12)):
            sim = mk(seed); sim.init()
            tv = sim.t.timevec
            numeric = sim.t.is_numeric
            if numeric:
                u = float(rng.choice(list(sim.t.yearvec[:-1]) + [sim.t.yearvec[0] - 1, 3.0, float(sim.t.yearvec[-1]) + 5]))
                sim.run(until=u)
                nowvec = [float(x) for x in sim.t.timevec] if numeric else None
                simvec = [float(x) for x in sim.t.abstvec]
                mods = []
                import checks.c08 as c08
                sv, md = c08.describe(sim, ss)
                modterm = '[' + '; '.join(f'mkMod {i} {c08.GCOQ[m[1]]} {"true" if m[2] else "false"} [' + '; '.join(qlit(x) for x in m[3]) + ']' for i, m in enumerate(md)) + ']'
                until_terms.append(f'([' + '; '.join(qlit(x) for x in sv) + f'], {modterm}, [' + '; '.join(qlit(x) for x in nowvec) + f'], {qlit(u)}, {int(sim.loop.index)}%nat, {"true" if sim.complete else "false"})')
                until_meta.append(dict(config=name, until=u, impl_index=int(sim.loop.index), complete=bool(sim.complete)))
                ctx.count(('until', name, u)); ctx.dist('until')
        # guards
        sim = mk(seed); sim.run()
        scaled = {k: np.asarray(v).copy() for k, v in sc.flattendict(sim.results, sep='.').items() if 'timevec' not in k}
        for what, fn in (('run() on a completed sim', lambda: sim.run()), ('finalize() twice', lambda: sim.finalize())):
            ctx.count(('guard', name, what)); ctx.dist('guard')
            try:
                fn(); ctx.violation(f'{name}: {what} did not raise', dict(config=name, call=what))
            except ss.AlreadyRunError:
                pass
            except Exception as E:
                ctx.violation(f'{name}: {what} raised {type(E).__name__}, not AlreadyRunError', dict(config=name, call=what))
        # a sim stepped to the end by hand and finalised must also refuse a second finalize / a late run, and stay scaled once
        for second in ('finalize', 'run'):
            sim2 = mk(seed); sim2.init()
            run_to(sim2, len(sim2.loop.plan))
            ctx.count(('guard-manual', name, second)); ctx.dist('guard')
            try:
                sim2.finalize()
            except Exception as E:
                ctx.violation(f'{name}: finalize() after stepping to the end by hand raised {type(E).__name__}: {E}', dict(config=name, call='manual+finalize')); continue
            try:
                getattr(sim2, second)()
                ctx.violation(f'{name}: {second}() after a manual run to the end + finalize() did not raise AlreadyRunError', dict(config=name, call='manual+finalize+' + second))
            except ss.AlreadyRunError:
                pass
            except Exception as E:
                ctx.violation(f'{name}: {second}() after manual run + finalize() raised {type(E).__name__}, not AlreadyRunError', dict(config=name, call='manual+finalize+' + second))
            f2 = fingerprint(sim2)
            d = diff({k: v for k, v in ref.items() if k.startswith('res.')}, {k: v for k, v in f2.items() if k.startswith('res.')})
            if d: ctx.violation(f'{name}: results after manual run + finalize() + refused {second}() differ from a plain run (scaled twice?): {d}', dict(config=name, call='manual+finalize+' + second))
        after = {k: np.asarray(v) for k, v in sc.flattendict(sim.results, sep='.').items() if 'timevec' not in k}
        for k in scaled:
            try:
                if not np.array_equal(np.asarray(scaled[k], dtype=float), np.asarray(after[k], dtype=float), equal_nan=True):
                    ctx.violation(f'{name}: result {k} changed by a refused re-run / re-finalize (scaled twice?)', dict(config=name, result=k)); break
            except Exception: pass
    okdef = '''Definition nthq (l : list Q) (i : nat) : Q := nth (Nat.min i (length l - 1)) l 0.
Definition ok (c : list Q * list modl * list Q * Q * nat * bool) : bool :=
  let '(tv, mods, nowv, u, idx, complete) := c in
  let pl := plan tv mods in
  let '(_, i) := run_until (nthq nowv) (Some u) clocks0 pl 0%nat in
  andb (Nat.eqb i idx) (Bool.eqb (Nat.eqb i (length pl)) complete).'''
    if until_terms:
        bad = ctx.coq_mismatches('until', IMPORTS, 'list Q * list modl * list Q * Q * nat * bool', until_terms, okdef, shard=2)
        for j in bad[:3]:
            ctx.broke('correspondence', f'run(until): model stop index differs from the implementation', repr(until_meta[j]))


def replay(ctx, rp):
    run(ctx)
