"""
C16 -- Per-step hazards and durations are independent of the timestep.

1. translator: Gen_Demog.v (factor branches and products of Deaths / Births / Pregnancy hazards, dt_year, routine-delivery conversion;
   shape pins on clipping, eligibility zeroing, ageing)
2. obligations: Props/C16.v
3. correspondence: the real hazard functions are called on sims initialised over a grid of (sim unit, sim dt, module unit, module dt) and
   rate forms (plain number, time parameter); the per-agent probabilities are compared in Coq with the model (death_prob, birth_prob,
   fertility_prob built on the GENERATED tails)
4. oracle on the implementation: probability applied in one step == per-year rate x step length in years (mortality, births, fertility,
   age/sex/year tables incl. unborn agents), age increments, duration / beta / waning conversions of disease parameters, routine-delivery coverage
"""
import numpy as np
import pandas as pd
from fractions import Fraction as F
from vlib.core import Broken, qlit

IMPORTS = 'Model.Prelude Model.L3_Units Gen.Gen_Time Model.L3_TimePar Gen.Gen_Demog Model.L5_Demog'
UC = {'day': 'UDay', 'week': 'UWeek', 'month': 'UMonth', 'year': 'UYear'}
UD = {'day': 1.0, 'week': 7.0, 'month': 30.4375, 'year': 365.25}


def grid(rng, n):
    out = []
    for _ in range(n):
        su = rng.choice(['year', 'year', 'day', 'week', 'month'])
        sdt = rng.choice({'year': [1.0, 0.5, 0.2, 0.25, 1 / 12, 2.0], 'day': [1.0, 7.0, 30.0], 'week': [1.0, 4.0, 0.5], 'month': [1.0, 3.0, 0.5]}[su])
        k = rng.random()
        if k < 0.5: mk = {}
        elif k < 0.8: mk = dict(dt=sdt * rng.choice([0.5, 2.0]))
        else:
            mu = rng.choice(['year', 'day', 'week', 'month']); mk = dict(unit=mu, dt=rng.choice([1.0, 2.0, 0.5]) if mu != 'day' else rng.choice([1.0, 10.0, 30.0]))
        start = 2000 if su == 'year' else '2000-01-01'
        dur = {'year': 3, 'day': 90, 'week': 20, 'month': 12}[su] * max(1.0, sdt)
        out.append((dict(unit=su, dt=sdt, start=start, dur=dur), mk))
    return out


def run(ctx):
    ctx.translate(['Gen_Time', 'Gen_Demog'])
    ctx.build_props('C16')
    try:
        import starsim as ss
    except Exception as E:
        raise Broken('correspondence', 'cannot import starsim', repr(E))
    rng = ctx.rng
    ctx.cov['rule'] = ('grid of (sim unit, sim dt) x module (unit, dt) overrides x rate forms (plain number set on the module, time parameter, default) for Deaths, Births, '
                       'Pregnancy: the real hazard functions are called and their per-agent probabilities compared with the model in Coq and with rate x step length; '
                       'age/sex/year mortality tables incl. unborn agents; ageing; disease durations / beta / waning; routine-delivery coverage; non-trivial = grid point with dt != 1 or unit != year')
    terms, metas = [], []
    for simkw, modkw in grid(rng, ctx.n(40, 800)):
        rate = rng.choice([20.0, 5.0, 150.0]); rel = rng.choice([1.0, 0.5, 2.0]); units = 1e-3
        key = dict(sim=simkw, module=modkw, rate=rate, rel=rel)
        nontriv = simkw['dt'] != 1.0 or simkw['unit'] != 'year' or bool(modkw)
        # ---------------- Deaths
        for form in ('timepar', 'number'):
            try:
                sim = ss.Sim(n_agents=12, demographics=ss.Deaths(death_rate=rate, rel_death=rel, **modkw), verbose=0, **simkw); sim.init()
            except Exception as E:
                ctx.dist(f'deaths config rejected ({type(E).__name__})'); continue
            mod = sim.demographics.deaths
            if form == 'number': mod.death_rate_data = rate
            is_tp = isinstance(mod.death_rate_data, ss.TimePar)
            p = np.atleast_1d(np.asarray(ss.Deaths.make_death_prob_fn(mod, sim, sim.people.auids), dtype=float))[0]
            dty = float(mod.t.dt) * UD[mod.t.unit] / 365.25
            want = min(1.0, max(0.0, rate * units * rel * dty))
            ctx.count(('deaths', form, repr(key)), nontrivial=nontriv); ctx.dist(f'deaths/{form}')
            if abs(p - want) > 1e-9 * max(1, want):
                w = key | dict(form=form, got=p, rate_times_step=want)
                if is_tp: w['finding_key'] = 'deaths-timepar-double-dt'
                ctx.violation(f'Deaths({form} rate {rate}/1000/yr, rel {rel}) in {simkw["unit"]}/{simkw["dt"]} module {modkw}: per-step death probability {p}, rate x step length = {want}', w)
            terms.append(f'(death_prob {"true" if is_tp else "false"} {qlit(rate)} {qlit(F(1, 1000))} {qlit(rel)} {UC[mod.t.unit]} {qlit(float(mod.t.dt))}, {qlit(p)})')
            metas.append(key | dict(what='deaths', form=form))
        # ---------------- Births
        for form in ('number', 'timepar', 'table'):
            br = rate if form == 'number' else (ss.peryear(rate) if form == 'timepar' else pd.DataFrame(dict(Year=[1990, 2000, 2030], CBR=[rate, rate, rate])))
            try:
                sim = ss.Sim(n_agents=12, demographics=ss.Births(birth_rate=br, rel_birth=rel, **modkw), verbose=0, **simkw); sim.init()
            except Exception as E:
                ctx.dist(f'births config rejected ({type(E).__name__})'); continue
            mod = sim.demographics.births
            seen = {}
            orig = np.random.binomial
            np.random.binomial = lambda n, p, size=None: (seen.__setitem__('p', float(np.asarray(p))), 0)[1]
            try: mod.get_births()
            finally: np.random.binomial = orig
            p = seen.get('p')
            is_tp = isinstance(mod.pars.birth_rate, ss.TimePar)
            dty = float(mod.t.dt) * UD[mod.t.unit] / 365.25
            want = min(1.0, max(0.0, rate * units * rel * dty))
            ctx.count(('births', form, repr(key)), nontrivial=nontriv); ctx.dist(f'births/{form}')
            if p is None or abs(p - want) > 1e-9 * max(1, want):
                ctx.violation(f'Births({form} rate {rate}, rel {rel}) in {simkw["unit"]}/{simkw["dt"]} module {modkw}: per-step birth probability {p}, rate x step length = {want}', key | dict(form=form))
            if p is not None:
                terms.append(f'(birth_prob {"true" if is_tp else "false"} {qlit(rate)} {qlit(F(1, 1000))} {qlit(rel)} {UC[mod.t.unit]} {qlit(float(mod.t.dt))}, {qlit(p)})')
                metas.append(key | dict(what='births', form=form))
        # ---------------- Pregnancy (plain-number fertility rate)
        try:
            sim = ss.Sim(n_agents=40, demographics=ss.Pregnancy(fertility_rate=rate, rel_fertility=rel, burnin=False, **modkw), verbose=0, **simkw); sim.init()
            mod = sim.demographics.pregnancy; ppl = sim.people
            fem = ppl.female.uids
            probs = np.asarray(ss.Pregnancy.make_fertility_prob_fn(mod, sim, fem), dtype=float)
            dty = float(mod.t.dt) * UD[mod.t.unit] / 365.25
            want = min(1.0, max(0.0, rate * units * rel * dty))
            ages = np.asarray(ppl.age[fem]); elig = (ages >= mod.pars.min_age) & (ages <= mod.pars.max_age) & np.asarray(mod.fecund[fem])
            ctx.count(('fertility', repr(key)), nontrivial=nontriv); ctx.dist('fertility/number')
            bad = np.flatnonzero(np.abs(probs - np.where(elig, want, 0.0)) > 1e-6 * max(1, want))
            if len(bad):
                u = int(fem[bad[0]])
                ctx.violation(f'Pregnancy(rate {rate}) in {simkw["unit"]}/{simkw["dt"]} module {modkw}: woman {u} (age {ages[bad[0]]:.1f}, eligible={bool(elig[bad[0]])}) gets conception probability {probs[bad[0]]}, expected {want if elig[bad[0]] else 0.0}', key | dict(uid=u))
            if elig.any():
                i = int(np.flatnonzero(elig)[0])
                terms.append(f'(fertility_prob {qlit(rate)} {qlit(F(1, 1000))} {qlit(rel)} {UC[mod.t.unit]} {qlit(float(mod.t.dt))} true, {qlit(float(np.float64(probs[i])))})')
                metas.append(key | dict(what='fertility'))
        except Exception as E:
            ctx.dist(f'pregnancy config rejected ({type(E).__name__})')
    okdef = '''Definition ok (c : res Q * Q) : bool := match fst c with Ok p => Qclose (1 # 1000000) p (snd c) | Err _ => false end.'''
    bad = ctx.coq_mismatches('hazards', IMPORTS, 'res Q * Q', terms, okdef, shard=120)
    for j in bad[:3]:
        ctx.broke('correspondence', f'{metas[j]}: the model hazard (generated tail) and the implementation disagree')
    if metas: ctx.sample(dict(kind='hazard grid point', **{k: str(v) for k, v in metas[0].items()}))
    ctx.guard('tables', tables, ctx, ss)
    ctx.guard('ageing_and_disease_pars', ageing_and_disease_pars, ctx, ss)
    ctx.guard('module_own_step', module_own_step, ctx, ss)
    ctx.guard('sexual_network_beta', sexual_network_beta, ctx, ss)
    ctx.guard('durations_on_own_step', durations_on_own_step, ctx, ss)
    ctx.guard('routine_delivery', routine_delivery, ctx, ss)
    ctx.guard('mixing_pools', mixing_pools, ctx, ss)


def tables(ctx, ss):
    """Age/sex/year mortality tables: the entry for the agent's age bin, sex and nearest year."""
    rows = []
    for year in (1990, 2000, 2010):
        for sex in ('Female', 'Male'):
            for age, mx in ((0, 10), (5, 20), (60, 300)):
                rows.append(dict(Time=year, Sex=sex, AgeGrpStart=age, mx=mx + (year - 1990) + (1000 if sex == 'Male' else 0)))
    df = pd.DataFrame(rows)
    for start in (1993, 2003.5, 2031):
        sim = ss.Sim(n_agents=60, demographics=[ss.Pregnancy(fertility_rate=900, burnin=False), ss.Deaths(death_rate=df)], start=start, dur=3, verbose=0, rand_seed=3)
        sim.init(); sim.run(until=sim.t.yearvec[1])
        mod = sim.demographics.deaths; ppl = sim.people
        edge = np.asarray(ppl.auids)[:8]
        ppl.age[ss.uids(edge)] = np.array([0.0, 5.0, 60.0, 4.999999, 59.999999, 5.000001, 100.0, 0.0])[:len(edge)]   # agents exactly at (and next to) the bin starts
        p = np.asarray(ss.Deaths.make_death_prob_fn(mod, sim, ppl.auids), dtype=float)
        now = float(sim.t.now('year')); ny = min((1990, 2000, 2010), key=lambda y: abs(y - now))
        ctx.count(('table', start)); ctx.dist('mortality table lookup')
        for i, u in enumerate(map(int, ppl.auids)):
            age = float(ppl.age.raw[u]); male = not bool(ppl.female.raw[u])
            b = 0 if age < 5 else (5 if age < 60 else 60)
            want = ({0: 10, 5: 20, 60: 300}[b] + (ny - 1990) + (1000 if male else 0)) * 1e-3 * float(mod.t.dt_year)
            if age < 0: want = 0.0        # the data standardisation prepends a -inf bin with rate 0 for unborn agents
            want = min(1.0, want)
            if abs(p[i] - want) > 1e-6:
                w = dict(start=start, uid=u, age=age, male=male, got=float(p[i]), table_entry=want)
                ctx.violation(f'mortality table: agent {u} (age {age:.2f}, {"male" if male else "female"}, year {now:.1f}) gets {p[i]:.5f}; the entry for its age bin / sex / nearest year gives {want:.5f}', w)
                break


def ageing_and_disease_pars(ctx, ss):
    rng = ctx.rng
    for unit, dt in (('year', 1.0), ('year', 0.25), ('day', 7.0), ('week', 1.0), ('month', 1.0)):
        sim = ss.Sim(n_agents=20, diseases=ss.SIS(dur_inf=ss.dur(10, 'day') if False else 10, waning=0.05, beta=0.1), networks=ss.RandomNet(), unit=unit, dt=dt,
                     start=2000 if unit == 'year' else '2000-01-01', dur=5 * dt, verbose=0, use_aging=True)
        sim.init()
        a0 = np.asarray(sim.people.age.raw[:20], dtype=float).copy()
        sim.run()
        a1 = np.asarray(sim.people.age.raw[:20], dtype=float)
        steps = sim.t.npts
        want = steps * dt * UD[unit] / 365.25
        ctx.count(('ageing', unit, dt)); ctx.dist('ageing')
        if np.abs((a1 - a0) - want).max() > 1e-3:
            ctx.violation(f'ageing with unit={unit}, dt={dt}: ages increased by {float((a1 - a0).mean()):.5f} over {steps} steps, step length in years x steps = {want:.5f}', dict(unit=unit, dt=dt))
        sis = sim.diseases.sis
        # waning is a rate per own unit: per-step value = w x dt (module units)
        wv = float(sis.pars.waning.values) if hasattr(sis.pars.waning, 'values') else None
        if wv is not None and abs(wv - 0.05 * float(sis.t.dt)) > 1e-12:
            ctx.violation(f'SIS.waning with unit={unit}, dt={dt}: per-step value {wv}, rate x dt = {0.05 * float(sis.t.dt)}', dict(unit=unit, dt=dt, par='waning'))
        bv = sis.pars.beta
        if hasattr(bv, 'values'):
            want_b = 1 - (1 - 0.1) ** float(sis.t.dt)
            if abs(float(bv.values) - want_b) > 1e-12:
                ctx.violation(f'SIS.beta with unit={unit}, dt={dt}: per-step value {float(bv.values)}, 1-(1-beta)^dt = {want_b}', dict(unit=unit, dt=dt, par='beta'))


def module_own_step(ctx, ss):
    """A module on its own step inside a sim that also holds modules on other steps (networks and demographics are initialised before it):
    every rate, probability and duration of the module is converted with the module's OWN step."""
    rng = ctx.rng
    for sim_dt, net_dt, dis_dt, dem_dt in ((1.0, None, 0.5, None), (1.0, None, 2.0, 0.25), (0.5, 1.0, 0.25, None), (1.0, 0.5, 0.5, 2.0), (1.0, None, 1.0, None)):
        W = dict(probe='module-own-step', sim_dt=sim_dt, network_dt=net_dt, disease_dt=dis_dt, demographics_dt=dem_dt)
        dis = ss.SIS(dt=dis_dt, beta=0.1, waning=0.05, dur_inf=ss.constant(v=ss.dur(10)))
        dis2 = ss.SIR(dt=2 * dis_dt, beta=0.2, dur_inf=ss.constant(v=ss.dur(8)))
        net = ss.RandomNet(**({} if net_dt is None else dict(dt=net_dt)))
        dem = [ss.Deaths(death_rate=ss.peryear(20), **({} if dem_dt is None else dict(dt=dem_dt))), ss.Births(birth_rate=ss.peryear(30), **({} if dem_dt is None else dict(dt=dem_dt)))]
        sim = ss.Sim(n_agents=30, dt=sim_dt, dur=8, diseases=[dis, dis2], networks=net, demographics=dem, verbose=0); sim.init()
        ctx.count(('own-step', sim_dt, net_dt, dis_dt, dem_dt), nontrivial=True); ctx.dist('module on its own step among other modules')
        for d, b0, dur0 in ((sim.diseases[0], 0.1, 10.0), (sim.diseases[1], 0.2, 8.0)):
            mdt = float(d.t.dt)
            got_b = float(d.pars.beta.values) if getattr(d.pars.beta, 'values', None) is not None else float(d.pars.beta.v)
            want_b = 1 - (1 - b0) ** mdt
            if abs(got_b - want_b) > 1e-12:
                ctx.violation(f'{d.name} with dt={mdt} in a sim with dt={sim_dt} (network dt {net_dt}): per-step transmission probability {got_b}; 1-(1-{b0})^dt = {want_b}', dict(W, module=d.name, par='beta'))
            got_d = float(np.asarray(d.pars.dur_inf.rvs(sim.people.auids[:2]), dtype=float)[0]); want_d = dur0 / mdt
            if abs(got_d - want_d) > 1e-9:
                ctx.violation(f'{d.name} with dt={mdt} in a sim with dt={sim_dt} (network dt {net_dt}): a duration of {dur0} years is {got_d} module steps; {dur0}/dt = {want_d}', dict(W, module=d.name, par='dur_inf'))
        w = sim.diseases[0].pars.waning
        if getattr(w, 'values', None) is not None and abs(float(w.values) - 0.05 * float(sim.diseases[0].t.dt)) > 1e-12:
            ctx.violation(f'sis.waning with dt={float(sim.diseases[0].t.dt)} in a sim with dt={sim_dt}: per-step value {float(w.values)}, rate x dt = {0.05 * float(sim.diseases[0].t.dt)}', dict(W, module='sis', par='waning'))
        br = sim.demographics[1].pars.birth_rate
        if getattr(br, 'values', None) is not None and abs(float(br.values) - 30 * float(sim.demographics[1].t.dt)) > 1e-9:
            ctx.violation(f'births.birth_rate (30 per year) with dt={float(sim.demographics[1].t.dt)} in a sim with dt={sim_dt}: per-step value {float(br.values)}, rate x dt = {30 * float(sim.demographics[1].t.dt)}', dict(W, module='births', par='birth_rate'))


def durations_on_own_step(ctx, ss):
    """An infection of fixed duration D years ends D years after it began, whatever the step of the disease module and of the sim."""
    for cls in ('SIR', 'SIS'):
        for sim_dt, dis_kw in ((1.0, dict(dt=0.5)), (1.0, dict(dt=2.0)), (0.5, dict(dt=1.0)), (1.0, dict(unit='month', dt=1.0)), (1.0, {})):
            W = dict(probe='duration-on-own-step', disease=cls, sim_dt=sim_dt, module=dis_kw)
            kw = dict(beta=0.0, init_prev=1.0, dur_inf=ss.constant(v=ss.dur(4, 'year')))
            if cls == 'SIS' and dis_kw: kw['dur_inf'] = ss.uniform(low=ss.dur(4, 'year'), high=ss.dur(4.0001, 'year'))      # a distribution with TWO time parameters
            if cls == 'SIR': kw['p_death'] = 0.0
            try:
                dis = getattr(ss, cls)(**kw, **dis_kw)
                sim = ss.Sim(n_agents=40, dt=sim_dt, dur=12, diseases=dis, networks=ss.RandomNet(), verbose=0); sim.run()
            except Exception as E:
                ctx.dist('duration-on-own-step rejected'); continue
            d = sim.diseases[0]; ninf = np.asarray(d.results.n_infected, dtype=float); years = np.asarray(d.t.yearvec, dtype=float) - float(d.t.yearvec[0])
            ctx.count(('dur-own-step', cls, sim_dt, repr(dis_kw)), nontrivial=True); ctx.dist('fixed duration on own step')
            cleared = years[ninf == 0]
            got = float(cleared[0]) if len(cleared) else None
            step = float(years[1] - years[0]) if len(years) > 1 else 1.0
            if got is None or not (4.0 - 1e-9 <= got <= 4.0 + step + 1e-9):
                ctx.violation(f'{cls}({dis_kw}) in a sim with dt={sim_dt}: everyone is infected at the start for a fixed 4 years; the module reports no infected agents from year {got} on (its step is {step:.4f} years)', W)


def sexual_network_beta(ctx, ss):
    """Per-step transmission probability on a sexual network (acts x dt compounding): the hazard per year must not depend on the step."""
    for spelling in ('number', 'ss.beta'):
        haz = {}
        for dt in (1.0, 0.5, 0.25, 2.0):
            B = 0.002 if spelling == 'number' else ss.beta(0.002)
            sim = ss.Sim(n_agents=300, dt=dt, dur=4 * dt, verbose=0, diseases=ss.SIS(beta={'mf': [B, B]}), networks=ss.MFNet(acts=ss.constant(40))); sim.init()
            net = sim.networks[0]
            if len(net) == 0: sim.run_one_step()
            if len(net) == 0: continue
            p = np.asarray(net.net_beta(disease_beta=sim.diseases.sis.validate_beta()['mf'][0]), dtype=float)
            haz[dt] = float(-np.log1p(-p[0]) / dt)
            ctx.count(('sexual-beta', spelling, dt), nontrivial=True); ctx.dist('sexual network beta: ' + spelling)
        want = 40 * -np.log1p(-0.002)
        for dt, h in haz.items():
            if abs(h - want) > 1e-9 * want:
                w = dict(probe='sexual-network-beta', spelling=spelling, dt=dt, hazard=h, expected=want)
                if spelling == 'ss.beta' and abs(h - dt * want) <= 1e-6 * want: w['finding_key'] = 'sexual-network-beta-double-dt'
                ctx.violation(f'MFNet with 40 acts per year and a per-act transmission probability 0.002 given as {spelling}: with dt={dt} the hazard per year on an edge is {h:.6f}; acts x -ln(1-b) = {want:.6f}', w)


def routine_delivery(ctx, ss):
    """Annual coverage converted to the step: per-step probability p_step with 1-(1-p_step)^(steps per year) = p."""
    for unit, dt, start, dur in (('year', 1.0, 2000, 4), ('year', 0.25, 2000, 4), ('year', 0.5, 2000, 4), ('day', 1.0, 0, 730), ('week', 1.0, 0, 104), ('month', 1.0, 0, 24)):
        p = 0.4
        try:
            sim = ss.Sim(n_agents=20, diseases=ss.SIR(), networks=ss.RandomNet(), unit=unit, dt=dt, start=start, dur=dur, verbose=0,
                         interventions=ss.routine_vx(start_year=2000.0, end_year=2001.0, prob=p, product=ss.sir_vaccine()))
            sim.init()
        except Exception as E:
            ctx.dist(f'routine delivery config rejected ({type(E).__name__})'); continue
        got = float(np.asarray(sim.interventions[0].prob)[0])
        dty = dt * UD[unit] / 365.25
        want = 1 - (1 - p) ** dty
        ctx.count(('routine', unit, dt)); ctx.dist('routine delivery coverage')
        if abs(got - want) > 1e-9:
            w = dict(unit=unit, dt=dt, got=got, annual_converted=want)
            if unit != 'year': w['finding_key'] = 'routine-prob-unit-blind'
            ctx.violation(f'routine delivery with unit={unit}, dt={dt}: annual coverage {p} applied as {got} per step; converted to the step length it is {want:.6f}', w)


def mixing_pools(ctx, ss):
    """The per-step transmission probability of every pool of a MixingPools container is the container's beta compounded over the container's own step,
    in the unit the beta was given in."""
    rng = ctx.rng
    grid = [(dict(unit='year', dt=1.0), dict(unit='day'), {}), (dict(unit='year', dt=0.5), {}, dict(dt=0.25)), (dict(unit='day', dt=7.0, start='2000-01-01'), dict(unit='week'), {}),
            (dict(unit='year', dt=0.25), dict(unit='year'), {}), (dict(unit='week', dt=1.0, start='2000-01-01'), dict(unit='day'), dict(dt=2.0)), (dict(unit='year', dt=1.0), {}, {})]
    for simkw, betakw, contkw in grid:
        b = rng.choice([0.01, 0.002, 0.05])
        try:
            mps = ss.MixingPools(beta=ss.beta(b, **betakw), contacts=np.array([[1.0, 2.0], [2.0, 1.0]]), src={'a': ss.AgeGroup(0, 30), 'b': ss.AgeGroup(30, None)},
                                 dst={'a': ss.AgeGroup(0, 30), 'b': ss.AgeGroup(30, None)}, **contkw)
            sim = ss.Sim(n_agents=60, diseases=ss.SIS(), networks=mps, dur=3, verbose=0, **simkw); sim.init()
        except Exception as E:
            ctx.dist(f'mixing pools config rejected ({type(E).__name__})'); continue
        m = sim.networks[0]
        bunit = betakw.get('unit', m.t.unit)
        step_in_beta_units = float(m.t.dt) * UD[m.t.unit] / UD[bunit]
        want = 1 - (1 - b) ** step_in_beta_units
        ctx.count(('mixingpools', repr(simkw), repr(betakw), repr(contkw)), nontrivial=True); ctx.dist('mixing pools beta')
        for pool in m.pools:
            got = float(np.asarray(pool.pars.beta.values))
            if abs(got - want) > 1e-9 * max(1, want):
                ctx.violation(f'MixingPools(beta={b} per {bunit}) in a {simkw["unit"]}/{simkw["dt"]} sim, container {contkw}: pool {pool.name} transmits with {got} per step; '
                              f'the beta compounded over the container step ({step_in_beta_units:.6g} {bunit}s) is {want}', dict(sim=simkw, beta=betakw, container=contkw, pool=pool.name)); break


def replay(ctx, rp):
    run(ctx)
