"""
C20 -- Interventions reach only eligible agents, on schedule, within capacity.

1. translator: Gen_Intv.v (window adjustment, end point, capacity test, vaccine factor; shape pins on every delivery method and Tx.administer)
2. obligations: Props/C20.v
3. correspondence: real routine / campaign windows vs the model's time points; recorded vaccination and screening steps replayed by vx_step /
   screen_step on the recorded eligibility, coverage vector and uniform draws; whole treat_num histories replayed by treat_run; every
   Tx.administer call replayed per agent by tx_agent
4. oracle on the implementation: at every intervention step of every run -- recipients inside the independently evaluated eligibility and the
   active set, delivery only inside the independently computed window and at every grid point of it, coverage handed to the Bernoulli filter equal
   to the configured one (annual -> step), treated <= capacity and drawn from queue + accepted, effects confined to recipients, no infection of
   susceptible recipients of a fully effective vaccine
"""
import numpy as np
from fractions import Fraction as F
from vlib.core import Broken, qlit

IMPORTS = 'Model.Prelude Gen.Gen_Arr Model.L2_People Gen.Gen_Intv Model.L5_CompartBase Model.L5_Compart Model.L5_Intv'


def dlit(x):
    """the decimal literal of a float as an exact rational (what the user wrote: 0.1 means 1/10)"""
    return F(repr(float(x)))

def qf(x):
    f = F(x) if not isinstance(x, F) else x
    return f'({f.numerator} # {f.denominator})' if f.numerator >= 0 else f'(-{-f.numerator} # {f.denominator})'

def zl(a): return '[' + '; '.join(str(int(x)) for x in a) + ']%Z'
def nl(a): return '[' + '; '.join(str(int(x)) for x in a) + ']%nat'
def bl(a): return '[' + '; '.join('true' if x else 'false' for x in a) + ']'


def expected_window(meta, yearvec):
    """independent statement of the delivery window: grid indices"""
    yv = np.asarray(yearvec, dtype=float)
    if meta['kind'] == 'routine':
        lo, hi = meta['start_year'], meta['end_year']
        if meta['dt'] >= 1: return [i for i, y in enumerate(yv) if lo - 1e-9 <= y <= hi + 1e-9]
        return [i for i, y in enumerate(yv) if lo - 1e-9 <= y < hi + 1 - 1e-9]
    return sorted(set(int(np.argmin(np.abs(yv - y))) for y in meta['years']))

def expected_coverage(meta, year, k=None):
    """coverage of the step as configured: annual coverage interpolated over the given years, converted to the step"""
    if meta['kind'] == 'routine':
        pr = np.atleast_1d(np.asarray(meta['prob'], dtype=float))
        p = pr[0] if len(pr) == 1 else float(np.interp(year, np.arange(meta['start_year'], meta['end_year'] + 1), pr))
        if meta.get('annual', True): p = 1 - (1 - p) ** meta['dt']
        return p
    pr = np.atleast_1d(np.asarray(meta['prob'], dtype=float))
    return pr[0] if len(pr) == 1 else pr[k]


def configs(ss, rng, n):
    """(label, builder(seed) -> sim, metas {intervention name -> window/coverage/product meta})"""
    from harness.intv_probe import make_classes, dx_table, tx_table
    Screen, CScreen = make_classes(ss)
    out = []
    elig_fns = {
        'all': None,
        'adults': lambda sim: sim.people.age > 30,
        'sus_uids': lambda sim: sim.diseases[0].susceptible.uids,
        'women': lambda sim: sim.people.female,
    }
    dem = lambda: [ss.Births(birth_rate=25), ss.Deaths(death_rate=25)]
    grid = [(1.0, 2000, 2010), (0.5, 2000, 2008), (0.25, 2000, 2005), (2.0, 2000, 2016), (0.1, 2000, 2003), (1 / 12, 2000, 2002)]
    for i in range(n):
        dt, y0, y1 = grid[i % len(grid)]
        ek = list(elig_fns)[rng.randrange(len(elig_fns))]
        eff = [1.0, 0.5, 0.0, 0.75][rng.randrange(4)] if i % 3 else 1.0
        form = i % 4
        span = int(y1 - y0)
        if form == 0:   # routine, explicit window
            a = y0 + rng.randrange(0, max(1, span // 2)); b = a + rng.randrange(0, max(1, span // 2))
            if dt > 1: a = y0 + 2 * ((a - y0) // 2); b = a + 2 * ((b - a) // 2)
            pr = round(rng.uniform(0.05, 0.9), 2)
            kw = dict(start_year=a, end_year=b, prob=pr); meta = dict(kind='routine', start_year=a, end_year=b, prob=pr, dt=dt, annual=True)
        elif form == 1:  # routine, years + coverage vector
            if dt > 1:
                a, b = y0, y1; pr = round(rng.uniform(0.05, 0.9), 2); kw = dict(prob=pr); meta = dict(kind='routine', start_year=a, end_year=b, prob=pr, dt=dt, annual=True)
            else:
                a = y0 + rng.randrange(0, max(1, span // 2)); k = rng.randrange(2, max(3, span - (a - y0))); b = min(y1, a + k - 1)
                yrs = list(range(a, b + 1)); pr = [round(rng.uniform(0.05, 0.9), 2) for _ in yrs]
                kw = dict(years=yrs, prob=pr); meta = dict(kind='routine', start_year=a, end_year=b, prob=pr, dt=dt, annual=True)
        elif form == 2:  # routine, per-step coverage, default window
            pr = round(rng.uniform(0.05, 0.5), 2)
            kw = dict(prob=pr, annual_prob=False); meta = dict(kind='routine', start_year=y0, end_year=y1, prob=pr, dt=dt, annual=False)
        else:            # campaign
            m = rng.randrange(1, 4); yrs = sorted(round(rng.uniform(y0, y1), 2) for _ in range(m))
            if i % 8 == 7 or (m > 1 and rng.random() < 0.5): yrs = yrs[::-1] if m > 1 else [round(y0 + 0.7 * span, 2), round(y0 + 0.2 * span, 2)]   # campaigns listed out of chronological order
            pr = [round(rng.uniform(0.1, 0.9), 2) for _ in yrs] if (rng.random() < 0.6 or i % 8 == 7) else round(rng.uniform(0.1, 0.9), 2)
            kw = dict(years=yrs, prob=pr); meta = dict(kind='campaign', years=yrs, prob=pr, dt=dt)
        meta.update(eff=eff, elig=ek)
        cls = ss.campaign_vx if meta['kind'] == 'campaign' else ss.routine_vx
        def mk(seed, cls=cls, kw=kw, eff=eff, ek=ek, dt=dt, y0=y0, y1=y1, pool=(i % 3 == 0)):
            iv = cls(product=ss.sir_vaccine(efficacy=eff), eligibility=elig_fns[ek], name='vx', **kw)
            nets = ss.MixingPool(beta=ss.beta(0.6), contacts=ss.poisson(3)) if pool else ss.RandomNet()      # every third configuration transmits through a mixing pool
            return ss.Sim(n_agents=120, diseases=ss.SIR(init_prev=0.05, beta=0.3), networks=nets, interventions=iv, demographics=dem(),
                          start=y0, stop=y1, dt=dt, rand_seed=seed, verbose=0)
        out.append((f'vx:{meta["kind"]}:form{form}:dt{dt:g}:{ek}:eff{eff:g}' + (':pool' if i % 3 == 0 else ''), mk, {'vx': meta}))
    # screening + capacity-limited treatment on SIS
    for j in range(max(2, n // 3)):
        dt, y0, y1 = grid[j % 3]
        cap = [3, None, 1, 10, 0, 2][j % 6]
        teff = [0.75, 1.0, 0.5][j % 3]
        camp = False   # campaign_screening cannot deliver at all (no coverage_dist: AttributeError) -- see DESIGN.md, observation
        a = y0 + 1; b = y1 - 1
        pr = round(rng.uniform(0.2, 0.9), 2); tpr = round(rng.uniform(0.5, 1.0), 2)
        elig_t = ['positives', 'infected', 'infected_intermittent'][j % 3]
        smeta = dict(kind='campaign', years=[a + 0.3, b], prob=pr, dt=dt) if camp else dict(kind='routine', start_year=a, end_year=b, prob=pr, dt=dt, annual=True)
        def mk(seed, dt=dt, y0=y0, y1=y1, cap=cap, teff=teff, camp=camp, a=a, b=b, pr=pr, tpr=tpr, elig_t=elig_t):
            dx = ss.Dx(dx_table('sis'), hierarchy=['positive', 'negative'])
            scr = CScreen(product=dx, prob=pr, years=[a + 0.3, b], name='scr') if camp else Screen(product=dx, prob=pr, start_year=a, end_year=b, name='scr')
            et = {'positives': lambda sim: ss.uids(sim.interventions['scr'].outcomes['positive']), 'infected': lambda sim: sim.diseases.sis.infected.uids,
                  'infected_intermittent': lambda sim: (sim.diseases.sis.infected.uids if sim.ti % 3 != 2 else ss.uids())}[elig_t]   # the rule returns nobody every third step
            trt = ss.treat_num(product=ss.Tx(tx_table('sis', teff)), prob=tpr, max_capacity=cap, eligibility=et, name='trt')
            tri = ss.routine_triage(product=ss.Dx(dx_table('sis'), hierarchy=['positive', 'negative']), prob=0.9, eligibility=lambda sim: ss.uids(sim.interventions['scr'].outcomes['positive']), name='tri')
            return ss.Sim(n_agents=150, diseases=ss.SIS(init_prev=0.3, beta=0.1), networks=ss.RandomNet(), interventions=[scr, trt, tri], demographics=dem(),
                          start=y0, stop=y1, dt=dt, rand_seed=seed, verbose=0)
        out.append((f'screen+treat:{"campaign" if camp else "routine"}:dt{dt:g}:cap{cap}:{elig_t}', mk,
                    {'scr': smeta, 'trt': dict(kind='treat', cap=cap, prob=tpr, eff=teff), 'tri': dict(kind='triage')}))
    # a clinic whose queue backs up: waiting agents are re-queued every step and recover on their own before they reach the front
    def mk_queue(seed):
        trt = ss.treat_num(product=ss.Tx(tx_table('sis', 1.0)), prob=1.0, max_capacity=5, eligibility=lambda sim: sim.diseases.sis.infected.uids, name='trt')
        return ss.Sim(n_agents=100, diseases=ss.SIS(beta=ss.beta(0.0), init_prev=0.23, dur_inf=ss.constant(v=3.5), waning=ss.rate(0.0)), networks=ss.RandomNet(n_contacts=2), interventions=[trt],
                      start=2000, dur=8, dt=1, rand_seed=seed, verbose=0)
    out.append(('treat:queue-backs-up-then-recovers', mk_queue, {'trt': dict(kind='treat', cap=5, prob=1.0, eff=1.0)}))
    # syphilis screening and treatment (the built-in products)
    def mk_syph(seed):
        scr = ss.syph_screening(product='rpr', prob=0.9, eligibility=lambda sim: sim.networks.mfnet.active(sim.people), start_year=2005, name='scr')
        bpg = ss.syph_treatment(prob=0.9, product='bpg', max_capacity=4, eligibility=lambda sim: ss.uids(sim.interventions['scr'].outcomes['positive']), name='trt')
        return ss.Sim(n_agents=300, diseases=ss.Syphilis(init_prev=0.3, beta={'mf': [0.5, 0.3], 'maternal': [0.9, 0]}), networks=[ss.MFNet(), ss.MaternalNet()],
                      demographics=[ss.Pregnancy(fertility_rate=30), ss.Deaths(death_rate=15)], interventions=[scr, bpg], start=2000, stop=2012, dt=1, rand_seed=seed, verbose=0)
    out.append(('syphilis:screen+treat', mk_syph, {'scr': dict(kind='routine', start_year=2005, end_year=2012, prob=0.9, dt=1.0, annual=True), 'trt': dict(kind='treat', cap=4, prob=0.9, eff=None)}))
    return out


def run(ctx):
    ctx.translate(['Gen_Intv', 'Gen_Demog', 'Gen_Disease', 'Gen_Arr', 'Gen_Compart'])
    ctx.build_props('C20')
    try:
        import starsim as ss
    except Exception as E:
        raise Broken('correspondence', 'cannot import starsim', repr(E))
    from harness.intv_probe import IntvRecorder
    rng = ctx.rng
    ctx.cov['rule'] = ('grid of routine / campaign x vaccination / screening / triage / treatment configurations over dt in {2, 1, 1/2, 1/4, 1/10, 1/12}, windows, coverage vectors, '
                       'eligibility rules, capacities, with births and deaths; every intervention step recorded by class-level wrappers; non-trivial = a step with recipients')
    win_terms, win_meta, camp_terms, camp_meta = [], [], [], []
    vx_terms, vx_meta, scr_terms, scr_meta, tr_terms, tr_meta, tx_terms, tx_meta, dx_terms, dx_meta = [], [], [], [], [], [], [], [], [], []
    nviol = 0
    def viol(msg, w):
        nonlocal nviol
        nviol += 1
        if nviol <= 6: ctx.violation(msg, w)
    for label, mk, metas in configs(ss, rng, ctx.n(16, 120)):
        seed = rng.randrange(1, 10**4)
        try:
            with IntvRecorder(ss) as rec:
                sim = mk(seed)
                sim.run()
        except Exception as E:
            viol(f'{label}: run raised {type(E).__name__}: {E}', dict(config=label, seed=seed)); continue
        ctx.count(('run', label, seed)); ctx.dist('run:' + label.split(':')[0])
        yearvec = np.asarray(sim.t.yearvec, dtype=float)
        W = dict(config=label, seed=seed)
        # ---------------- windows: model vs implementation, and the independent statement
        for name, meta in metas.items():
            if meta['kind'] not in ('routine', 'campaign'): continue
            iv = sim.interventions[name]
            tps = [int(round(x)) for x in iv.timepoints]
            exp = expected_window(meta, yearvec)
            got = sorted(set(t for t in tps if t < len(yearvec)))
            if got != exp:
                viol(f'{label}: {name}: delivery time points {got} differ from the configured window {exp} (years {[float(yearvec[i]) for i in got][:3]}..)', dict(W, intervention=name, meta=repr(meta)))
            if meta['kind'] == 'routine':
                i_s = int(np.flatnonzero(np.isclose(yearvec, meta['start_year']))[0]); i_e = int(np.flatnonzero(np.isclose(yearvec, meta['end_year']))[0])
                win_terms.append(f'({i_s}%Z, {i_e}%Z, {qf(dlit(meta["dt"]) if abs(meta["dt"] - round(meta["dt"], 6)) < 1e-12 else F(meta["dt"]).limit_denominator(1000))}, {zl(tps)})')
                win_meta.append(dict(W, intervention=name, meta=repr(meta), tps=tps))
            else:
                camp_terms.append(f'([{"; ".join(qlit(float(g)) for g in np.asarray(sim.timevec, dtype=float))}], [{"; ".join(qlit(float(y)) for y in meta["years"])}], {zl(tps)})')
                camp_meta.append(dict(W, intervention=name, meta=repr(meta), tps=tps))
        # ---------------- per-step oracle and replay cases
        first_vax = {}
        for ent in rec.steps:
            meta = metas.get(ent['name'], {})
            ti, n = ent['ti'], ent['n']
            Wt = dict(W, intervention=ent['name'], ti=ti)
            act = set(map(int, ent['auids']))
            recips = [int(u) for u in ent['out']]
            ctx.count((label, seed, ent['name'], ti), nontrivial=len(recips) > 0)
            ctx.dist('step:' + ent['kind'] + (':delivering' if recips else ':idle'))
            el = None if ent['eligible'] is None else [int(u) for u in ent['eligible']]
            if el is not None:
                bad = [u for u in recips if u not in set(el)]
                if bad: viol(f'{label}: {ent["name"]} at step {ti} reached agent {bad[0]}, who is not returned by the eligibility rule', Wt)
            bad = [u for u in recips if u not in act]
            if bad:
                w = dict(Wt, uid=bad[0])
                # known: check_eligibility hands on whatever the user's rule returns; a rule that returns an agent who has since died
                # (e.g. the positives of the last screening round) makes the intervention "reach" an inactive agent (the product itself skips them)
                if el is not None and bad[0] in set(el): w['finding_key'] = 'eligibility-rule-returns-inactive-agent'
                viol(f'{label}: {ent["name"]} at step {ti} reached agent {bad[0]}, who is not active' + (' (the eligibility rule itself returned this agent)' if 'finding_key' in w else ''), w)
            if ent['kind'] in ('vx', 'screen'):
                exp_w = expected_window(meta, yearvec) if meta.get('kind') in ('routine', 'campaign') else None
                cov = [f for f in ent['filters'] if f['name'] and f['name'].endswith('coverage_dist')] or ent['filters'][:1]
                if exp_w is not None:
                    if ti not in exp_w and (recips or cov):
                        viol(f'{label}: {ent["name"]} delivered at step {ti} (year {ent["year"]}), outside its window', Wt)
                    if ti in exp_w and not cov:
                        viol(f'{label}: {ent["name"]} did not deliver at step {ti} (year {ent["year"]}), inside its window', Wt)
                    if ti in exp_w and cov:
                        k = None
                        if meta['kind'] == 'campaign':
                            near = [int(np.argmin(np.abs(yearvec - y))) for y in meta['years']]; k = near.index(ti)
                        pe = expected_coverage(meta, ent['year'], k)
                        pg = cov[0]['p']
                        if pg is None or abs(float(pg) - pe) > 1e-6:   # sc.smoothinterp works to single precision
                            viol(f'{label}: {ent["name"]} at step {ti} (year {ent["year"]}) used coverage {pg}, the configured coverage of the step is {pe}', Wt)
                        if el is not None and cov[0]['uids'] is not None and sorted(map(int, cov[0]['uids'])) != sorted(el):
                            viol(f'{label}: {ent["name"]} at step {ti}: the acceptance draw ran over {len(cov[0]["uids"])} agents, the eligibility rule returns {len(el)}', Wt)
                # confinement
                fb, fa = ent['flags_before'], ent['flags_after']
                rs = set(recips)
                for dn in fb:
                    for k_, vb in fb[dn].items():
                        va = fa[dn][k_]
                        ch = np.flatnonzero(vb != va) if vb.dtype != float else np.flatnonzero(~((vb == va) | (np.isnan(vb) & np.isnan(va))))
                        bad = [int(u) for u in ch if int(u) not in rs]
                        if bad: viol(f'{label}: {ent["name"]} at step {ti} changed {dn}.{k_} of agent {bad[0]}, who received nothing', Wt)
                        if ent['kind'] == 'screen' and len(ch): viol(f'{label}: screening {ent["name"]} at step {ti} changed disease state {dn}.{k_}', Wt)
                if ent['kind'] == 'vx':
                    b, a = ent['before'], ent['after']
                    for k_ in ('vaccinated', 'doses'):
                        bad = [int(u) for u in np.flatnonzero(b[k_] != a[k_]) if int(u) not in rs]
                        if bad: viol(f'{label}: {ent["name"]} at step {ti} changed the {k_} record of non-recipient {bad[0]}', Wt)
                    for u in recips:
                        if not a['vaccinated'][u] or a['doses'][u] != b['doses'][u] + 1:
                            viol(f'{label}: {ent["name"]} at step {ti}: recipient {u} not recorded as vaccinated / dose not counted', Wt); break
                    rb, ra = fb['sir']['rel_sus'], fa['sir']['rel_sus']
                    for u in recips:
                        if ra[u] != rb[u] * (1 - meta['eff']):
                            viol(f'{label}: {ent["name"]} at step {ti}: rel_sus of recipient {u} went {rb[u]} -> {ra[u]}, efficacy {meta["eff"]}', Wt); break
                        if u not in first_vax: first_vax[u] = (ti, bool(fb['sir']['susceptible'][u]))
                    # replay case
                    if cov and cov[0]['draws'] is not None and el is not None and len(vx_terms) < ctx.n(150, 1500) and (recips or rng.random() < 0.1):
                        draws = '[' + '; '.join(f'({int(u)}%nat, {qlit(float(d))})' for u, d in zip(cov[0]['uids'], cov[0]['draws'])) + ']'
                        cells = lambda v: '[' + '; '.join('V ' + qlit(float(x)) for x in v) + ']'
                        vx_terms.append(f'({zl([int(round(x)) for x in ent["tps"]])}, [{"; ".join(qlit(float(p)) for p in ent["probs"])}], {ti}%Z, {nl(cov[0]["uids"])}, {draws}, {qlit(float(meta["eff"]))}, '
                                        f'({bl(b["vaccinated"])}, {zl(b["doses"])}, {cells(rb)}), ({nl(recips)}, {bl(a["vaccinated"])}, {zl(a["doses"])}, {cells(ra)}))')
                        vx_meta.append(Wt)
                elif cov and cov[0]['draws'] is not None and len(scr_terms) < ctx.n(60, 600):
                    draws = '[' + '; '.join(f'({int(u)}%nat, {qlit(float(d))})' for u, d in zip(cov[0]['uids'], cov[0]['draws'])) + ']'
                    scr_terms.append(f'({zl([int(round(x)) for x in ent["tps"]])}, [{"; ".join(qlit(float(p)) for p in ent["probs"])}], {ti}%Z, {nl(cov[0]["uids"])}, {draws}, {nl(recips)})')
                    scr_meta.append(Wt)
            if ent['kind'] == 'triage' and recips:
                pass
            if ent['kind'] == 'treat':
                cap = ent['cap']
                if cap is not None and cap >= 0 and len(recips) > cap:
                    viol(f'{label}: {ent["name"]} treated {len(recips)} agents at step {ti}, capacity {cap}', Wt)
                cov = [f for f in ent['filters'] if f['name'] and f['name'].endswith('coverage_dist')]
                accepted = [int(u) for u in cov[0]['accepted']] if cov else []
                pool = set(ent['queue_before']) | set(accepted)
                bad = [u for u in recips if u not in pool]
                if bad: viol(f'{label}: {ent["name"]} treated agent {bad[0]} at step {ti}, who was neither queued nor accepted', Wt)
                if len(set(recips)) != len(recips): viol(f'{label}: {ent["name"]} treated an agent twice at step {ti}', Wt)
                if cov and abs(float(cov[0]['p']) - meta.get('prob', float(cov[0]['p']))) > 1e-12:
                    viol(f'{label}: {ent["name"]} at step {ti} used acceptance probability {cov[0]["p"]}, configured {meta.get("prob")}', Wt)
                ent['_accepted'] = accepted
        # fully effective vaccine: a susceptible recipient is never infected afterwards
        if 'vx' in metas and metas['vx'].get('eff') == 1.0:
            tinf = np.asarray(sim.diseases.sir.ti_infected.raw, dtype=float)
            for u, (tv, sus) in first_vax.items():
                if sus and not np.isnan(tinf[u]) and tinf[u] >= tv:
                    viol(f'{label}: agent {u} received a fully effective vaccine at step {tv} while susceptible and was infected at step {tinf[u]}', dict(W, uid=u)); break
            ctx.count(('fullvax', label, seed), nontrivial=len(first_vax) > 0)
        # treat_num histories
        for name, meta in metas.items():
            if meta['kind'] != 'treat': continue
            hist = [e for e in rec.steps if e['name'] == name and e['kind'] == 'treat']
            if not hist: continue
            cap = hist[0]['cap']
            steps = '[' + '; '.join(f'({nl(e["_accepted"])}, {nl(e["eligible"] if e["eligible"] is not None else [])})' for e in hist) + ']'
            expt = '[' + '; '.join(nl(e['out']) for e in hist) + ']'
            tr_terms.append(f'({"None" if cap is None else f"Some {int(cap)}%Z"}, {nl(hist[0]["queue_before"])}, {steps}, {expt}, {nl(hist[-1]["queue_after"])})')
            tr_meta.append(dict(W, intervention=name, cap=cap, steps=len(hist)))
            ctx.count(('treat-history', label, seed, name), nontrivial=any(len(e['out']) for e in hist))
        # Dx.administer calls: per-agent replay (the category drawn for each state the agent is in; minimum with the default)
        for call in rec.dx_calls:
            if isinstance(call['out'], dict):
                res_of = {}
                for ci, cat in enumerate(call['hierarchy']):
                    for u in np.asarray(call['out'].get(cat, []), dtype=int): res_of.setdefault(int(u), []).append(ci)
                multi = [u for u, v in res_of.items() if len(v) != 1]
                missing = [int(u) for u in call['uids'] if int(u) not in res_of]
                extra = [u for u in res_of if u not in set(map(int, call['uids']))]
                ctx.count((label, seed, 'dx', call['ti']), nontrivial=len(call['uids']) > 0); ctx.dist('Dx.administer call')
                if multi or missing or extra:
                    viol(f'{label}: Dx.administer at step {call["ti"]}: the returned dictionary does not partition the tested agents ({len(multi)} in several categories, {len(missing)} missing, {len(extra)} not tested)', dict(W, ti=call['ti']))
                    continue
                act = np.zeros(call['n'], dtype=bool); act[call['auids']] = True
                if len(call['draws']) != len(call['states']): continue
                sample = [int(u) for u in call['uids'][:10]]
                for u in sample:
                    if len(dx_terms) >= ctx.n(300, 3000): break
                    rows = []
                    for (dn, st, flag), (arg, outv) in zip(call['states'], call['draws']):
                        argl = [int(x) for x in np.atleast_1d(arg)]
                        if u in argl: rows.append(f'(true, {int(np.atleast_1d(outv)[argl.index(u)])}%nat)')
                        else: rows.append('(false, 0%nat)')
                        if (u in argl) != bool(flag[u] and act[u]):
                            viol(f'{label}: Dx.administer at step {call["ti"]}: agent {u} {"was" if u in argl else "was not"} tested for state {dn}.{st} although its flag is {bool(flag[u])}', dict(W, ti=call['ti'], uid=u))
                    dx_terms.append(f'({call["default"]}%nat, [{"; ".join(rows)}], {res_of[u][0]}%nat)'); dx_meta.append(dict(W, ti=call['ti'], uid=u))
        # Tx.administer calls: python re-walk (assigns efficacy draws to rows) + per-agent replay
        for call in rec.tx_calls:
            cur = {dn: {k: v.copy() for k, v in call['before'][dn].items()} for dn in call['before']}
            fl = [f for f in call['filters'] if f['name'] and f['name'].endswith('efficacy_dist')]
            act = np.zeros(call['n'], dtype=bool); act[call['auids']] = True
            inu = np.zeros(call['n'], dtype=bool); inu[call['uids'][call['uids'] < call['n']]] = True
            okrows, fi = [], 0
            good = True
            for dn, st, post, eff in call['rows']:
                these = np.flatnonzero(cur[dn][st] & act & inu)
                if len(these) == 0 or post is None: okrows.append(set()); continue
                if fi >= len(fl): good = False; break
                f = fl[fi]; fi += 1
                if sorted(map(int, f['uids'])) != sorted(map(int, these)) or abs(float(f['p']) - eff) > 1e-12:
                    viol(f'{label}: Tx.administer at step {call["ti"]}: efficacy draw for row {dn}.{st} ran over {len(f["uids"])} agents with p={f["p"]}; the recipients in that state are {len(these)}, efficacy {eff}', dict(W, ti=call['ti']))
                    good = False; break
                okset = set(map(int, f['accepted'])); okrows.append(okset)
                idx = np.array(sorted(okset), dtype=int)
                cur[dn][st][idx] = False; cur[dn][post][idx] = True
            if not good: continue
            for dn in cur:
                for k_ in cur[dn]:
                    d = np.flatnonzero(cur[dn][k_] != call['after'][dn][k_])
                    if len(d):
                        who = 'recipient' if inu[d[0]] else 'NON-recipient'
                        viol(f'{label}: Tx.administer at step {call["ti"]}: {dn}.{k_} of {who} {int(d[0])} ends {bool(call["after"][dn][k_][d[0]])}, the product table gives {bool(cur[dn][k_][d[0]])}', dict(W, ti=call['ti'])); break
            # per-agent replay in Coq (one disease per table in the configurations)
            dn = call['rows'][0][0]
            rows = [(st, post) for d_, st, post, eff in call['rows'] if post is not None]
            keys = sorted(call['before'][dn])
            sample = [int(u) for u in call['uids'][:12]] + [int(u) for u in rng.sample(range(call['n']), min(4, call['n']))]
            for u in sample:
                if len(tx_terms) >= ctx.n(300, 3000): break
                oks = [u in s for s, (d_, st, post, eff) in zip(okrows, call['rows']) if post is not None]
                val = lambda dct: '[' + '; '.join(f'("{k}", {"true" if dct[k][u] else "false"})' for k in keys) + ']'
                tx_terms.append(f'({"true" if (inu[u] and act[u]) else "false"}, [{"; ".join(f"""("{a}", "{b}")""" for a, b in rows)}], {bl(oks)}, {val(call["before"][dn])}, {val(call["after"][dn])})')
                tx_meta.append(dict(W, ti=call['ti'], uid=u))
                ctx.count((label, seed, 'tx', call['ti'], u), nontrivial=bool(inu[u]))
    # Dx.administer calls are collected per run (below the loop they are replayed in Coq)
    # ---------------------------------------------------------------- Coq replays
    zeq = 'Fixpoint zl_eqb (a b : list Z) : bool := match a, b with [], [] => true | x :: a, y :: b => andb (Z.eqb x y) (zl_eqb a b) | _, _ => false end.\n' \
          'Fixpoint nl_eqb (a b : list nat) : bool := match a, b with [], [] => true | x :: a, y :: b => andb (Nat.eqb x y) (nl_eqb a b) | _, _ => false end.\n' \
          'Fixpoint bl_eqb (a b : list bool) : bool := match a, b with [], [] => true | x :: a, y :: b => andb (Bool.eqb x y) (bl_eqb a b) | _, _ => false end.\n' \
          'Fixpoint cl_eqb (a b : list cell) : bool := match a, b with [], [] => true | x :: a, y :: b => andb (cell_eqb x y) (cl_eqb a b) | _, _ => false end.\n' \
          'Definition draw_of (l : list (nat * Q)) (u : nat) : Q := match find (fun p => Nat.eqb (fst p) u) l with Some p => snd p | None => 1%Q end.\n'
    ctx.cov['replayed_in_coq'] = dict(routine_windows=len(win_terms), campaign_windows=len(camp_terms), vaccination_steps=len(vx_terms), screening_steps=len(scr_terms),
                                      treatment_histories=len(tr_terms), tx_agents=len(tx_terms))
    def report(bad, metas_, what):
        for j in bad[:3]: ctx.broke('correspondence', what, repr(metas_[j]))
    report(ctx.coq_mismatches('windows', IMPORTS, 'Z * Z * Q * list Z', win_terms,
           zeq + 'Definition ok (c : Z * Z * Q * list Z) : bool := let \'(a, b, dt, tps) := c in zl_eqb (routine_timepoints a b dt) tps.', shard=200), win_meta,
           'RoutineDelivery: the time points of the implementation differ from routine_timepoints (generated adj_factor / end_point)')
    report(ctx.coq_mismatches('campaign', IMPORTS, 'list Q * list Q * list Z', camp_terms,
           zeq + 'Definition ok (c : list Q * list Q * list Z) : bool := let \'(g, ys, tps) := c in zl_eqb (campaign_timepoints g ys) tps.', shard=50), camp_meta,
           'CampaignDelivery: the time points of the implementation differ from the nearest grid points')
    vxt = 'list Z * list Q * Z * list nat * list (nat * Q) * Q * (list bool * list Z * list cell) * (list nat * list bool * list Z * list cell)'
    report(ctx.coq_mismatches('vx', IMPORTS, vxt, vx_terms, zeq + f'''Definition ok (c : {vxt}) : bool :=
  let '(tps, probs, ti, el, dr, eff, (v, d, r), (acc, v', d', r')) := c in
  match vx_step tps probs ti el (draw_of dr) eff (mkVP v d r) with
  | Some (a, s) => andb (nl_eqb a acc) (andb (bl_eqb (vaccinated s) v') (andb (zl_eqb (doses s) d') (cl_eqb (rel_sus s) r')))
  | None => false end.''', shard=20), vx_meta, 'BaseVaccination.step: recipients / records / rel_sus differ from vx_step on the recorded eligibility, coverage and draws')
    sct = 'list Z * list Q * Z * list nat * list (nat * Q) * list nat'
    report(ctx.coq_mismatches('screen', IMPORTS, sct, scr_terms, zeq + f'''Definition ok (c : {sct}) : bool :=
  let '(tps, probs, ti, el, dr, acc) := c in match screen_step tps probs ti el (draw_of dr) with Some a => nl_eqb a acc | None => false end.''', shard=30), scr_meta,
           'BaseScreening.step: recipients differ from screen_step on the recorded eligibility, coverage and draws')
    trt_ = 'option Z * list nat * list (list nat * list nat) * list (list nat) * list nat'
    report(ctx.coq_mismatches('treat', IMPORTS, trt_, tr_terms, zeq + f'''Fixpoint nll_eqb (a b : list (list nat)) : bool := match a, b with [], [] => true | x :: a, y :: b => andb (nl_eqb x y) (nll_eqb a b) | _, _ => false end.
Definition ok (c : {trt_}) : bool :=
  let '(cap, q, steps, trs, qf) := c in let '(t, q') := treat_run cap q steps in andb (nll_eqb t trs) (nl_eqb q' qf).''', shard=10), tr_meta,
           'treat_num: treated agents per step / final queue differ from treat_run on the recorded accepted and eligible sets')
    report(ctx.coq_mismatches('dx', IMPORTS, 'nat * list (bool * nat) * nat', dx_terms,
           'Definition ok (c : nat * list (bool * nat) * nat) : bool := let \'(d, rows, r) := c in Nat.eqb (dx_agent d rows) r.', shard=300), dx_meta,
           'Dx.administer: the category of an agent differs from dx_agent (minimum of the categories drawn over its states, default otherwise)')
    ctx.cov['replayed_in_coq']['dx_agents'] = len(dx_terms)
    txt = 'bool * list (string * string) * list bool * valuation * valuation'
    report(ctx.coq_mismatches('tx', IMPORTS, txt, tx_terms, f'''From Coq Require Import String.
Open Scope string_scope.
Definition ok (c : {txt}) : bool :=
  let '(rc, rows, oks, st, ex) := c in forallb (fun k => Bool.eqb (getv (tx_agent rc rows oks st) k) (getv ex k)) (map fst st).''', shard=150), tx_meta,
           'Tx.administer: per-agent flags after the call differ from tx_agent on the recorded efficacy draws')


    return None


def replay(ctx, rp):
    run(ctx)
