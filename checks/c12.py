"""
C12 -- Infections arise only through admissible transmission events.

1. translator: Gen_Disease.v (p_transmit, comparison direction, net_beta, pool probability; shape pins on infect /
   compute_transmission / step / update_results / MixingPool.step)
2. obligations: Props/C12.v
3. correspondence: (a) kernel level: Infection.compute_transmission on generated edge lists / factors / random numbers vs the model;
   (b) run level: every Infection.infect() call of real runs is recorded (pre-state, edges, effective betas as computed by the
       implementation, the pairwise random numbers actually drawn) and replayed by the model in Coq: same (target, source, network) triples
4. oracle on the implementation: event-level admissibility over the probe data (target susceptible+active, source infectious+active,
   edge in that network and direction with positive beta, at most once), mixing-pool membership, beta monotonicity with a fixed seed
"""
import numpy as np
from vlib.core import Broken, qlit
from harness import runprobe as rp

IMPORTS = 'Model.Prelude Gen.Gen_Arr Model.L2_People Gen.Gen_Disease Model.L5_Transmit'


def kernel_level(ctx, ss):
    rng = ctx.rng
    terms = []
    vals = [0.0, 0.0, 0.5, 1.0, 1.0, 2.0, 0.25]
    for c in range(ctx.n(150, 3000)):
        n = rng.randint(2, 12); ne = rng.randint(0, 20)
        rt = np.array([rng.choice(vals) for _ in range(n)], dtype=np.float32); rs = np.array([rng.choice(vals) for _ in range(n)], dtype=np.float32)
        src = np.array([rng.randrange(n) for _ in range(ne)], dtype=int); trg = np.array([rng.randrange(n) for _ in range(ne)], dtype=int)
        eb = np.array([rng.choice([0.0, 1.0, 1.0, 0.5]) for _ in range(ne)]); beta = rng.choice([0.0, 0.125, 0.5, 1.0])
        r = np.array([rng.choice([0.0, 0.1, 0.25, 0.5, 0.9, rng.random()]) for _ in range(ne)])
        t_out, s_out = ss.Infection.compute_transmission(ss.uids(src), ss.uids(trg), rt, rs, eb * beta, r)
        ctx.count(('kernel', c), nontrivial=ne > 0); ctx.dist('kernel case')
        edges = '[' + '; '.join(f'mkEdge {int(a)} {int(b)} {qlit(float(x))}' for a, b, x in zip(src, trg, eb)) + ']'
        exp = '[' + '; '.join(f'({int(t)}, {int(s)})%nat' for t, s in zip(t_out, s_out)) + ']'
        terms.append(f'({rp.cells_f(rt)}, {rp.cells_f(rs)}, {edges}, {qlit(beta)}, [' + '; '.join(qlit(float(x)) for x in r) + f'], {exp})')
    okdef = '''Fixpoint pairs_eqb (a b : list (nat * nat)) : bool :=
  match a, b with [], [] => true | (x, y) :: a', (x', y') :: b' => andb (Nat.eqb x x') (andb (Nat.eqb y y') (pairs_eqb a' b')) | _, _ => false end.
Definition ok (c : list cell * list cell * list edge * Q * list Q * list (nat * nat)) : bool :=
  let '(rt, rs, es, beta, rands, exp) := c in
  pairs_eqb (flat_map (fun e => match e with EvHit t s => [(t, s)] | _ => [] end) (dir_events rt rs true beta es rands)) exp.'''
    bad = ctx.coq_mismatches('kernel', IMPORTS, 'list cell * list cell * list edge * Q * list Q * list (nat * nat)', terms, okdef, shard=150)
    for j in bad[:3]:
        ctx.broke('correspondence', 'compute_transmission: model (dir_events) and implementation disagree', terms[j][:1200])


def configs(ss):
    cf = {}
    cf['sir-static-random'] = lambda seed, bscale=1.0: ss.Sim(n_agents=60, diseases=ss.SIR(beta=dict(static=[0.1 * bscale, 0.03 * bscale], random=0.05 * bscale), init_prev=0.1),
                                                 networks=[ss.StaticNet(n_contacts=4), ss.RandomNet(n_contacts=3)], demographics=ss.Deaths(death_rate=30),
                                                 dur=6, rand_seed=seed, verbose=0)
    cf['sis-mf-maternal'] = lambda seed, bscale=1.0: ss.Sim(n_agents=120, diseases=ss.SIS(beta=dict(mf=[0.2 * bscale, 0.1 * bscale], prenatal=[0.5 * bscale, 0], postnatal=[0.3 * bscale, 0]), init_prev=0.2),
                                               networks=[ss.MFNet(), ss.PrenatalNet(), ss.PostnatalNet()], demographics=[ss.Pregnancy(fertility_rate=80), ss.Deaths(death_rate=15)],
                                               dur=5, dt=0.5, rand_seed=seed, verbose=0)
    cf['two-diseases-vaccine'] = lambda seed, bscale=1.0: ss.Sim(n_agents=80, diseases=[ss.SIR(beta=0.1 * bscale, init_prev=0.1), ss.SIS(beta=0.08 * bscale, init_prev=0.1)], networks=ss.RandomNet(n_contacts=4),
                                                    interventions=ss.routine_vx(start_year=2001, prob=0.5, product=ss.sir_vaccine(efficacy=0.5)), dur=5, rand_seed=seed, verbose=0)
    import networkx as nx
    cf['single-dense-net-one-direction'] = lambda seed, bscale=1.0: ss.Sim(n_agents=30, diseases=ss.SIR(beta=dict(static=[0.9 * bscale, 0]), init_prev=0.4),
                                                 networks=ss.StaticNet(graph=nx.complete_graph(30)), dur=3, rand_seed=seed, verbose=0)
    # tiny graphs at high transmissibility: one susceptible agent is reached over several edges in the same step, in every order of the target list
    cf['tiny-complete-graph'] = lambda seed, bscale=1.0: ss.Sim(n_agents=5, diseases=ss.SIS(beta=dict(static=[0.95 * bscale, 0.95 * bscale]), init_prev=0.5),
                                                 networks=ss.StaticNet(graph=nx.complete_graph(5)), dur=3, rand_seed=seed, verbose=0)
    from harness.probes import ZeroTransOfInfected
    cf['mixingpool-zero-rel-trans'] = lambda seed, bscale=1.0: ss.Sim(n_agents=80, diseases=ss.SIS(init_prev=0.3), networks=ss.MixingPool(beta=ss.beta(0.9 * bscale), contacts=ss.poisson(3)),
                                          connectors=ZeroTransOfInfected(name='zerotrans'), dur=4, rand_seed=seed, verbose=0)
    from harness.probes import ZeroSusOfEven
    cf['mixingpool-zero-rel-sus-two-diseases'] = lambda seed, bscale=1.0: ss.Sim(n_agents=80, diseases=[ss.SIS(init_prev=0.3), ss.SIR(init_prev=0.2, dur_inf=4)], networks=ss.MixingPool(beta=ss.beta(0.5 * bscale), contacts=ss.poisson(3)),
                                          connectors=ZeroSusOfEven(name='zerosus'), dur=5, rand_seed=seed, verbose=0)
    cf['mixingpool'] = lambda seed, bscale=1.0: ss.Sim(n_agents=80, diseases=ss.SIS(init_prev=0.1), networks=ss.MixingPool(beta=ss.beta(0.3 * bscale), contacts=ss.poisson(2)),
                                          demographics=ss.Deaths(death_rate=20), dur=5, rand_seed=seed, verbose=0)
    cf['mixingpool-explicit-dst-deaths'] = lambda seed, bscale=1.0: ss.Sim(n_agents=100, diseases=ss.SIS(init_prev=0.3), demographics=ss.Deaths(death_rate=150), dur=8, rand_seed=seed, verbose=0,
                                          networks=ss.MixingPool(beta=ss.beta(0.9 * bscale), contacts=ss.poisson(3), src=None, dst=ss.uids(np.arange(0, 100, 2))))
    cf['mixingpool-explicit-src-dst-deaths'] = lambda seed, bscale=1.0: ss.Sim(n_agents=100, diseases=ss.SIS(init_prev=0.3), demographics=ss.Deaths(death_rate=150), dur=8, rand_seed=seed, verbose=0,
                                          networks=ss.MixingPool(beta=ss.beta(0.9 * bscale), contacts=ss.poisson(3), src=ss.uids(np.arange(1, 100, 2)), dst=ss.uids(np.arange(0, 100, 2))))
    return cf


def admissibility(ctx, name, seed, rec):
    """The property on the recorded data of one infect() call."""
    nc, srcs, nws = rec['out']
    active = set(map(int, rec['auids']))
    key = dict(config=name, seed=seed, disease=rec['disease'], ti=rec['ti'])
    if len(set(map(int, nc))) != len(nc):
        ctx.violation(f'{name}: an agent is infected twice by {rec["disease"]} in step {rec["ti"]}', key); return
    for t, s, w in zip(map(int, nc), map(int, srcs), map(int, nws)):
        why = None
        if t not in active: why = f'target {t} is not an active agent'
        elif not rec['sus'][t]: why = f'target {t} was not susceptible'
        elif s not in active: why = f'source {s} is not an active agent'
        elif not rec['inf'][s]: why = f'source {s} was not infectious'
        elif rec['rel_sus'][t] == 0 or rec['rel_trans'][s] == 0: why = f'zero relative factor crossed (rel_trans[{s}]={rec["rel_trans"][s]}, rel_sus[{t}]={rec["rel_sus"][t]})'
        else:
            ent = rec['nets'][w]
            ok = False
            for d, (a, b) in enumerate(((ent['p1'], ent['p2']), (ent['p2'], ent['p1']))):
                if ent['gate'][d] and ent['eff'][d] is not None:
                    m = (np.asarray(a) == s) & (np.asarray(b) == t) & (ent['eff'][d] > 0)
                    if m.any(): ok = True
            if not ok: why = f'no edge {s}->{t} with positive transmissibility in network {ent["name"]}'
        if why:
            ctx.violation(f'{name}: {rec["disease"]} step {rec["ti"]}: infection of {t} from {s} via network {w} is not admissible: {why}', key | dict(target=t, source=s, network=w))
            return


def run_level(ctx, ss):
    rng = ctx.rng
    cases, metas = [], []
    pool_terms, pool_meta = [], []
    for name, mk in configs(ss).items():
        for rep in range(ctx.n(1, 6) * (30 if name == 'tiny-complete-graph' else 4 if name.startswith('mixingpool-explicit') else 1)):
            seed = rng.randrange(1, 10**4)
            try:
                sim = mk(seed); sim.init()
                probe = rp.TransProbe(ss, sim)
                sim.run()
            except Exception as E:
                raise Broken('correspondence', f'real run {name} failed: {type(E).__name__}: {E}')
            ctx.count(('run', name, seed)); ctx.dist('run:' + name)
            ninf = 0
            for rec in probe.calls:
                ninf += len(rec['out'][0])
                admissibility(ctx, name, seed, rec)
                # uninitialised-memory reads: an edge endpoint that is not active while its direction is live
                active = set(map(int, rec['auids']))
                for ent in rec['nets']:
                    if len(ent['p1']) and any(ent['gate']):
                        dang = [int(u) for u in np.concatenate([ent['p1'], ent['p2']]) if int(u) not in active]
                        if dang:
                            ctx.violation(f'{name}: network {ent["name"]} used for transmission at step {rec["ti"]} has {len(dang)} edge endpoints that are not active agents '
                                          f'(e.g. {dang[:3]}): transmission reads uninitialised array cells', dict(config=name, seed=seed, network=ent['name'], ti=rec['ti']))
                            break
                else:
                    term = rp.infect_case(rec)
                    if term is not None and (len(rec['rands']) > 0):
                        cases.append(term); metas.append(dict(config=name, seed=seed, disease=rec['disease'], ti=rec['ti'], n_new=len(rec['out'][0])))
            ctx.dist('infections observed', ninf); ctx.dist('infect() calls', len(probe.calls))
            for pc in probe.pool_calls:
                for dname, r in zip(pc['diseases'], pc['recs']):
                    st = pc['snap'][dname]
                    new, dst = set(map(int, r['new'])), set(map(int, r['dst']))
                    key = dict(config=name, seed=seed, pool=pc['pool'], ti=pc['ti'], disease=dname)
                    if not new <= dst: ctx.violation(f'{name}: mixing pool infected agents outside its destination group', key)
                    gone = [u for u in new if u not in set(map(int, pc['auids']))]
                    if gone: ctx.violation(f'{name}: mixing pool infected agent {gone[0]} at step {pc["ti"]}, who is not active any more (died earlier)', key)
                    bad = [u for u in new if not st['sus'][u]]
                    if bad: ctx.violation(f'{name}: mixing pool infected non-susceptible agents {bad[:3]}', key)
                    bad = [u for u in new if st['rel_sus'][u] == 0]
                    if bad: ctx.violation(f'{name}: mixing pool infected agents {bad[:3]} of {dname} whose relative susceptibility is 0', key)
                    if new and pc['src'] is not None and not any(st['inf'][int(u)] and st['rel_trans'][int(u)] > 0 for u in pc['src']):
                        ctx.violation(f'{name}: mixing pool produced infections although no source-group member is infectious', key)
                    ctx.dist('mixing-pool calls')
                    if np.ndim(r['p']) and pc['src'] is not None and len(r['dst']):
                        pool_terms.append('(' + ', '.join([rp.cells_bool(st['inf']), rp.cells_bool(st['sus']), rp.cells_f(st['rel_trans']), rp.cells_f(st['rel_sus']),
                                          rp.cells_f(np.nan_to_num(pc['contacts'])), qlit(pc['beta']), rp.nats(pc['src']), rp.nats(r['dst']),
                                          '[' + '; '.join(qlit(float(x)) for x in r['p']) + ']']) + ')')
                        pool_meta.append(key)
            if probe.calls: ctx.sample(dict(kind='recorded infect() call', config=name, seed=seed, ti=probe.calls[-1]['ti'], n_edges=[len(e['p1']) for e in probe.calls[-1]['nets']],
                                            new_cases=[int(x) for x in probe.calls[-1]['out'][0]][:10]))
    step = max(1, len(cases) // ctx.n(24, 400))
    sub = list(range(0, len(cases), step))
    ctx.cov['infect_calls_replayed_in_coq'] = len(sub)
    bad = ctx.coq_mismatches('infect', IMPORTS, rp.INFECT_TYPE, [cases[i] for i in sub], rp.INFECT_OK, shard=2)
    for j in bad[:3]:
        ctx.broke('correspondence', f'Infection.infect() call {metas[sub[j]]}: the model replay (same state, edges, betas, random numbers) gives different new cases')
    okdef = '''Fixpoint qs_close (a b : list Q) : bool := match a, b with [], [] => true | x :: a', y :: b' => andb (Qclose (1 # 100000) x y) (qs_close a' b') | _, _ => false end.
Definition ok (c : list cell * list cell * list cell * list cell * list cell * Q * list nat * list nat * list Q) : bool :=
  let '(inf, sus, rt, rs, con, beta, src, dst, p) := c in qs_close (pool_probs inf sus rt rs con beta src dst) p.'''
    pool_sub = pool_terms[:ctx.n(12, 200)]
    bad = ctx.coq_mismatches('pool', IMPORTS, 'list cell * list cell * list cell * list cell * list cell * Q * list nat * list nat * list Q', pool_sub, okdef, shard=4)
    for j in bad[:3]:
        ctx.broke('correspondence', f'MixingPool.step {pool_meta[j]}: acquisition probabilities differ from beta * mean(infectious*rel_trans over src) * contacts * susceptible * rel_sus')


def beta_monotone(ctx, ss):
    """Same seed, same state: the set infected in a step grows with beta (first transmission step of twin runs)."""
    rng = ctx.rng
    for name, mk in list(configs(ss).items())[:3]:
        seed = rng.randrange(1, 10**4)
        firsts = []
        for sc_ in (1.0, 1.6):
            sim = mk(seed, sc_); sim.init(); probe = rp.TransProbe(ss, sim)
            sim.run(until=sim.t.timevec[0])       # first step only
            firsts.append({r['disease']: set(map(int, r['out'][0])) for r in probe.calls if r['ti'] == 0})
        ctx.count(('mono', name, seed)); ctx.dist('beta monotonicity twin')
        for d in firsts[0]:
            if d in firsts[1] and not firsts[0][d] <= firsts[1][d]:
                ctx.violation(f'{name}: with the same seed and state, agents {sorted(firsts[0][d] - firsts[1][d])[:5]} are infected at beta but not at 1.6*beta',
                              dict(config=name, seed=seed, disease=d))


def run(ctx):
    ctx.translate(['Gen_Disease', 'Gen_Arr'])
    ctx.build_props('C12')
    try:
        import starsim as ss
    except Exception as E:
        raise Broken('correspondence', 'cannot import starsim', repr(E))
    ctx.cov['rule'] = ('kernel: compute_transmission on random edge lists (0-20 edges, 2-12 agents, zero-factor patterns, boundary random numbers) vs dir_events; '
                       'run level: every infect() call of real runs (static/random/MF/maternal networks, directional and per-network betas, vaccine-modified rel_sus, '
                       'demographic churn, mixing pool) recorded and replayed in Coq with the recorded random numbers; non-trivial = call with at least one edge')
    kernel_level(ctx, ss)
    ctx.guard('run_level', run_level, ctx, ss)
    ctx.guard('beta_monotone', beta_monotone, ctx, ss)


def replay(ctx, rp_):
    run(ctx)
