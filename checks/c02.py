"""
C02 -- Independent components never perturb each other's random streams.

1. translator: Gen_Sim.v / Gen_Dist.v (seed_gen; pins on how traces are formed and dists seeded; jump at the start of every step)
2. obligations: Props/C02.v (a sampling-only component inserted anywhere is invisible to every other component; independent components commute)
3. correspondence: the model's premise -- a distribution's stream depends only on (sha(trace), base seed, step, call) and traces of existing
   components do not change when components are added, removed or reordered -- is checked on real sims: traces and seeds of the unperturbed
   components are identical in base and perturbed sims, and are the seed_gen values (Coq)
4. oracle on the implementation: base configuration vs null perturbations (sampling-only analyzers / interventions / connectors with 1..7 own
   distributions at any list position, zero-coverage vaccination, zero-efficacy vaccine, an extra independent SIS / SIR disease without deaths,
   permutations of the disease list and of the analyzer list): results and agent states of the unperturbed modules are bit-identical
"""
import numpy as np
from vlib.core import Broken

IMPORTS = 'Model.Prelude Gen.Gen_Dist Gen.Gen_Sim Model.L6_Sim'


def run(ctx):
    ctx.translate(['Gen_Sim', 'Gen_Dist'])
    ctx.build_props('C02')
    try:
        import starsim as ss, sciris as sc
    except Exception as E:
        raise Broken('correspondence', 'cannot import starsim', repr(E))
    from harness.simruns import make_sim, fingerprint, CONFIGS, make_sampler
    rng = ctx.rng
    ctx.cov['rule'] = ('base configurations x null perturbations {sampling-only analyzer / intervention / connector with 1..7 own distributions inserted at the front or the back, '
                       'zero-coverage vaccination, zero-efficacy vaccine, extra independent SIS / SIR disease (no deaths, no connector), reversed disease list}; '
                       'compared: every result series and state array of the modules of the base configuration; non-trivial = every perturbed run')
    sterms, smeta = [], []
    nviol = 0
    def viol(msg, w):
        nonlocal nviol
        nviol += 1
        if nviol <= 8: ctx.violation(msg, w)
    bases = [k for k in CONFIGS if k not in ('ncd',)]
    def perturbations(kind, seed):
        out = []
        k = rng.randrange(2, 14)
        out.append((f'analyzer sampling {k} own dists', dict(analyzers=[make_sampler(ss, ss.Analyzer, k, 'zz_sampler')]), ['zz_sampler']))
        out.append((f'intervention sampling {k} own dists', dict(interventions=[make_sampler(ss, ss.Intervention, k, 'aa_sampler')]), ['aa_sampler']))
        out.append(('two samplers', dict(analyzers=[make_sampler(ss, ss.Analyzer, 2, 's1'), make_sampler(ss, ss.Analyzer, 5, 's2')]), ['s1', 's2']))
        out.append((f'intervention sampling {k} own dists, listed first', dict(interventions_front=[make_sampler(ss, ss.Intervention, k, 'first_sampler')]), ['first_sampler']))
        from harness.probes import RefHolderIntv, RefHolderAna, RefHolderConn
        out.append(('read-only analyzer holding references to the diseases / networks / demographics', dict(analyzers=[RefHolderAna(name='refana')]), ['refana']))
        out.append(('read-only connector holding references to the diseases / networks / demographics', dict(connectors=[RefHolderConn(name='refconn')]), ['refconn']))
        out.append(('read-only intervention holding references to the diseases / networks / demographics, listed first', dict(interventions_front=[RefHolderIntv(name='refintv')]), ['refintv']))
        # the holder is listed BEFORE the modules it refers to (interventions, analyzers, connectors that follow it)
        out.append(('read-only intervention holding references to the modules listed after it', dict(interventions_front=[RefHolderIntv(which='later', name='refintv2')]), ['refintv2'], 'reference-holder-renames-dists'))
        if 'sir' in kind or 'hiv' in kind:
            out.append(('zero-coverage vaccination', dict(interventions=[ss.routine_vx(product=ss.sir_vaccine(efficacy=0.9), prob=0.0, name='novx')]), ['novx']))
            out.append(('zero-efficacy vaccine', dict(interventions=[ss.routine_vx(product=ss.sir_vaccine(efficacy=0.0), prob=0.5, name='nullvx')]), ['nullvx']))
            out.append(('zero-coverage vaccination listed first', dict(interventions_front=[ss.routine_vx(product=ss.sir_vaccine(efficacy=0.9), prob=0.0, name='novx1')]), ['novx1']))
            out.append(('zero-efficacy vaccine listed first', dict(interventions_front=[ss.campaign_vx(product=ss.sir_vaccine(efficacy=0.0), prob=0.5, years=[2002, 2004], name='nullvx1')]), ['nullvx1']))
        nets = {'sir_mf': 'mf', 'sir_preg': 'mf', 'hiv_mf_vx': 'mf', 'sir_births': 'mf'}
        beta = {nets[kind]: [0.4, 0.3]} if kind in nets else 0.2
        if kind == 'sir_preg': beta = {'mf': [0.4, 0.3], 'maternal': [0.3, 0]}
        pk = ('mixing-pool-shared-acquire-stream',) if kind in ('sis_pool', 'sis_pools_agegroup') else ()     # one p_acquire stream is shared by all diseases of a pool (listed finding)
        out.append(('extra independent SIS', dict(diseases=[ss.SIS(name='ghostsis', beta=beta, init_prev=0.2)]), ['ghostsis']) + pk)
        out.append(('extra independent SIR without deaths', dict(diseases=[ss.SIR(name='ghostsir', beta=beta, init_prev=0.2, p_death=0)]), ['ghostsir']) + pk)
        if kind in ('sis_pool', 'sis_pools_agegroup'): out.append(('extra independent SIR without deaths, listed first', dict(diseases_front=[ss.SIR(name='ghostsir1', beta=beta, init_prev=0.2, p_death=0)]), ['ghostsir1']) + pk)
        return out
    for kind in bases:
        for rep in range(ctx.n(1, 3)):
            seed = rng.randrange(1, 10**5)
            W = dict(config=kind, seed=seed)
            try:
                base = make_sim(kind, seed); base.run()
            except Exception as E:
                viol(f'{kind}: base run raised {type(E).__name__}: {E}', W); continue
            ref = fingerprint(base)
            base_traces = {tr: int(d.seed) for tr, d in base.dists.dists.items()}
            for tr, sd in base_traces.items():
                sterms.append(f'({int(sc.sha(tr, asint=True) % 1_000_000_000)}%Z, {seed}%Z, {sd}%Z)'); smeta.append(dict(W, trace=tr))
            for name, extra, newnames, *fkey in perturbations(kind, seed):
                fkey = fkey[0] if fkey else None
                try:
                    p = make_sim(kind, seed, extra=extra); p.run()
                except Exception as E:
                    viol(f'{kind} + {name}: run raised {type(E).__name__}: {E}', dict(W, perturbation=name)); continue
                ctx.count((kind, seed, name), nontrivial=True); ctx.dist('perturbation ' + name.split(' sampling')[0])
                fp = fingerprint(p)
                skip = lambda k: any(nn in k for nn in newnames)
                d = [k for k in ref if not skip(k) and (k not in fp or fp[k] != ref[k])]
                # premise of the model: traces and seeds of the existing distributions unchanged
                pt = {tr: int(dd.seed) for tr, dd in p.dists.dists.items()}
                moved = [tr for tr in base_traces if pt.get(tr) != base_traces[tr]]
                renamed = [tr for tr in pt if any(nn in tr for nn in newnames) and '_watched_' in tr]
                if fkey == 'mixing-pool-shared-acquire-stream' and d and not moved:
                    ctx.violation(f'{kind} (seed {seed}) + {name}: `{d[0]}` of the unperturbed components differs from the base run (all diseases of a mixing pool draw from the pool\'s single acquisition stream, one call per disease)',
                                  dict(W, perturbation=name, finding_key=fkey, first_difference=d[0]))
                    continue
                if fkey and moved and len(renamed) >= len(moved):
                    # listed finding: the distributions of a module are named after the first object path that reaches them, here the path through the holder
                    ctx.violation(f'{kind} (seed {seed}) + {name}: distribution `{moved[0]}` of the base configuration is now `{renamed[0]}` with another seed' + (f'; `{d[0]}` of the unperturbed components differs from the base run' if d else ''),
                                  dict(W, perturbation=name, finding_key=fkey, moved=moved[:5], renamed=renamed[:5]))
                    continue
                if d: viol(f'{kind} (seed {seed}) + {name}: `{d[0]}` of the unperturbed components differs from the base run', dict(W, perturbation=name, first_difference=d[0]))
                if moved: ctx.broke('correspondence', f'{kind} + {name}: distribution `{moved[0]}` of the base configuration has another trace / seed in the perturbed sim', repr(dict(W, perturbation=name)))
            # order of independent diseases
            if kind in ('sir_mf', 'sis_static'):
                g1 = ss.SIS(name='d_a', beta={'mf': [0.4, 0.3]} if kind == 'sir_mf' else 0.2, init_prev=0.2); g2 = ss.SIS(name='d_b', beta={'mf': [0.2, 0.3]} if kind == 'sir_mf' else 0.1, init_prev=0.1)
                import copy
                pa = make_sim(kind, seed, extra=dict(diseases=[copy.deepcopy(g1), copy.deepcopy(g2)])); pa.run()
                pb = make_sim(kind, seed, extra=dict(diseases=[copy.deepcopy(g2), copy.deepcopy(g1)])); pb.run()
                fa, fb = fingerprint(pa), fingerprint(pb)
                ctx.count((kind, seed, 'order'), nontrivial=True); ctx.dist('perturbation order of independent diseases')
                d = [k for k in fa if k in fb and fa[k] != fb[k] and not k.startswith('state:uid')]
                if d: viol(f'{kind} (seed {seed}): listing two independent diseases in the other order changes `{d[0]}`', dict(W, perturbation='order'))
                d = [k for k in ref if k in fa and fa[k] != ref[k]]
                if d: viol(f'{kind} (seed {seed}): adding two independent diseases changes `{d[0]}` of the base components', dict(W, perturbation='two extra diseases'))
    # an independent disease that lives on its own network: the first disease has transmissibility 0 on that network (and vice versa), in every list order
    for rep in range(ctx.n(1, 3)):
        seed = rng.randrange(1, 10**5); W = dict(config='disease-with-own-network', seed=seed)
        def flu(with_mf):
            b = {'random': ss.beta(0.08)}
            if with_mf: b['mf'] = ss.beta(0)
            return ss.SIS(name='flu', beta=b, init_prev=0.05, dur_inf=ss.lognorm_ex(mean=ss.dur(8)))
        def sti(): return ss.SIS(name='sti', beta={'random': ss.beta(0), 'mf': ss.beta(0.3)}, init_prev=0.1, dur_inf=ss.lognorm_ex(mean=ss.dur(15)))
        kw = dict(n_agents=400, dur=12, rand_seed=seed, verbose=0)
        try:
            b0 = ss.Sim(diseases=[flu(False)], networks=[ss.RandomNet(n_contacts=4)], **kw); b0.run()
            ref = {k: v for k, v in fingerprint(b0).items() if 'flu' in k}
            for dorder in (0, 1):
                for norder in (0, 1):
                    ds = [flu(True), sti()][::(1 if dorder == 0 else -1)]; ns = [ss.RandomNet(n_contacts=4), ss.MFNet()][::(1 if norder == 0 else -1)]
                    p = ss.Sim(diseases=ds, networks=ns, **kw); p.run()
                    name = f'independent disease on its own network (diseases {"flu, sti" if dorder == 0 else "sti, flu"}; networks {"random, mf" if norder == 0 else "mf, random"})'
                    ctx.count(('own-network', seed, dorder, norder), nontrivial=True); ctx.dist('perturbation disease with its own network')
                    fp = fingerprint(p)
                    d = [k for k in ref if k not in fp or fp[k] != ref[k]]
                    if d: viol(f'flu on a random network (seed {seed}) + {name}: `{d[0]}` of flu differs from the run without the second disease and its network', dict(W, perturbation=name, first_difference=d[0]))
        except Exception as E:
            viol(f'disease-with-own-network: run raised {type(E).__name__}: {E}', W)
    bad = ctx.coq_mismatches('c02seeds', IMPORTS, 'Z * Z * Z', sterms, 'Definition ok (c : Z * Z * Z) : bool := let \'(o, b, s) := c in Z.eqb (seed_gen o b) s.', shard=500)
    for j in bad[:3]: ctx.broke('correspondence', 'a distribution\'s seed differs from seed_gen(sha(trace) mod 1e9, base seed)', repr(smeta[j]))
    ctx.cov['replayed_in_coq'] = dict(dist_seeds=len(sterms))


def replay(ctx, rp):
    run(ctx)
