"""
C15 -- Reported results are exact counts, sums and scalings of agent state.

1. translator: Gen_Results.v (upper bounds of the cumulative sums, prevalence expression, pop_scale/total_pop; shape pins on the
   scaling loops of Module.finalize_results / Sim.finalize and on Births/Deaths.finalize)
2. obligations: Props/C15.v
3. correspondence: recorded 'new' series of real runs are fed to the model (cum_series with the GENERATED bounds, finalize_results with the
   run's scale factor, prevalence_gen) and compared in Coq with the real result arrays of the same runs
4. oracle on the implementation: an analyzer probe recounts every disease state from the raw arrays at every step; scaled vs unscaled twin
   runs (pop_scale and total_pop forms); every cumulative series vs the running sum of its flow; births flow vs agents created;
   summarize / to_df / to_json / shrink / save+load reproduce the arrays
"""
import os, json, tempfile
import numpy as np
from vlib.core import Broken, qlit

IMPORTS = 'Model.Prelude Gen.Gen_Results Model.L5_Results'


def make_probe(ss):
    class Recount(ss.Analyzer):
        def __init__(self, **kw):
            super().__init__(**kw); self.problems = []; self.n_uid = []; self.events = {}
        def init_pre(self, sim, **kw):
            super().init_pre(sim, **kw)
            # independent count of infection events: every call of a disease's set_prognoses, stamped with the DISEASE's own clock at the call
            for dis in sim.diseases():
                if isinstance(dis, ss.Infection) and not hasattr(dis, '_c15_wrapped'):
                    orig = dis.set_prognoses; ev = self.events.setdefault(dis.name, {})
                    def wrapped(uids, *a, _orig=orig, _dis=dis, _ev=ev, **k):
                        _ev[int(_dis.ti)] = _ev.get(int(_dis.ti), 0) + len(np.unique(np.asarray(uids)))
                        return _orig(uids, *a, **k)
                    dis.set_prognoses = wrapped; dis._c15_wrapped = True
        def step(self):
            sim = self.sim; ppl = sim.people; au = np.asarray(ppl.auids); ti = int(sim.t.ti)
            on_sim_step = abs(float(self.t.abstvec[min(self.t.ti, self.t.npts - 1)]) - float(sim.t.abstvec[min(ti, sim.t.npts - 1)])) < 1e-9
            if on_sim_step: self.n_uid.append(int(ppl.uid.len_used))
            alive_n = int(np.count_nonzero(ppl.alive.raw[au]))
            if on_sim_step and sim.results.n_alive[ti] != alive_n:
                self.problems.append((ti, 'sim.n_alive', float(sim.results.n_alive[ti]), alive_n))
            for dis in sim.diseases():
                # the disease records on ITS timeline: check it when its current instant is the probe's current instant
                if abs(float(dis.t.abstvec[min(dis.t.ti, dis.t.npts - 1)]) - float(self.t.abstvec[min(self.t.ti, self.t.npts - 1)])) > 1e-9: continue
                for st in dis._disease_states:
                    want = int(np.count_nonzero(st.raw[au]))
                    got = dis.results[f'n_{st.name}'][dis.ti]
                    if got != want: self.problems.append((ti, f'{dis.name}.n_{st.name}', float(got), want))
                if isinstance(dis, ss.Infection):
                    want = np.count_nonzero(dis.infected.raw[au]) / max(alive_n, 1)
                    got = float(dis.results.prevalence[dis.ti])
                    if alive_n and abs(got - want) > 1e-12: self.problems.append((ti, f'{dis.name}.prevalence', got, want))
                    if not (0 <= got <= 1): self.problems.append((ti, f'{dis.name}.prevalence out of [0,1]', got, None))
                    want = int(np.count_nonzero(dis.ti_infected.raw[au] == dis.ti))
                    got = dis.results.new_infections[dis.ti]
                    if got != want: self.problems.append((ti, f'{dis.name}.new_infections', float(got), want))
                    want = int(self.events.get(dis.name, {}).get(int(dis.ti), 0))
                    if dis.name in self.events and got != want: self.problems.append((ti, f'{dis.name}.new_infections (infection events of this disease step)', float(got), want))
    return Recount


def configs(ss, Recount):
    cf = {}
    cf['sir-births-deaths'] = lambda seed, **kw: ss.Sim(n_agents=150, diseases=ss.SIR(p_death=0.2, init_prev=0.1), networks=ss.RandomNet(), analyzers=Recount(name='recount'),
                                                       demographics=[ss.Births(birth_rate=40), ss.Deaths(death_rate=30)], dur=10, rand_seed=seed, verbose=0, **kw)
    cf['two-diseases-dt'] = lambda seed, **kw: ss.Sim(n_agents=120, diseases=[ss.SIS(init_prev=0.2), ss.SIR(dt=0.5, init_prev=0.1)], networks=ss.RandomNet(n_contacts=4), analyzers=Recount(name='recount'),
                                                     demographics=ss.Deaths(death_rate=25), dur=8, rand_seed=seed, verbose=0, **kw)
    cf['sir-coarse-and-fine'] = lambda seed, **kw: ss.Sim(n_agents=150, diseases=[ss.SIR(name='coarse', dt=2.0, init_prev=0.1, beta=0.08), ss.SIR(name='fine', dt=0.5, init_prev=0.05, beta=0.1)], networks=ss.RandomNet(n_contacts=4),
                                                          analyzers=Recount(name='recount', dt=0.5), dur=8, rand_seed=seed, verbose=0, **kw)
    cf['sis-everyone-infected-deaths'] = lambda seed, **kw: ss.Sim(n_agents=300, diseases=ss.SIS(init_prev=1.0, beta=0.5, dur_inf=ss.lognorm_ex(mean=50)), networks=ss.RandomNet(n_contacts=4), analyzers=Recount(name='recount'),
                                                                   demographics=[ss.Deaths(death_rate=100)], dur=6, rand_seed=seed, verbose=0, **kw)
    cf['fine-disease-fine-births'] = lambda seed, **kw: ss.Sim(n_agents=100, diseases=ss.SIS(dt=0.25, init_prev=0.3, beta=0.2), networks=ss.RandomNet(n_contacts=4, dt=0.25), analyzers=Recount(name='recount', dt=0.25),
                                                     demographics=[ss.Births(birth_rate=400, dt=0.25), ss.Deaths(death_rate=50)], dur=5, rand_seed=seed, verbose=0, **kw)
    cf['pregnancy-hiv'] = lambda seed, **kw: ss.Sim(n_agents=200, diseases=ss.HIV(beta={'mf': [0.1, 0.05], 'prenatal': [0.3, 0]}), networks=[ss.MFNet(), ss.PrenatalNet()],
                                                   analyzers=Recount(name='recount'), demographics=[ss.Pregnancy(fertility_rate=60), ss.Deaths(death_rate=15)], dur=6, rand_seed=seed, verbose=0, **kw)
    cf['ncd-deaths'] = lambda seed, **kw: ss.Sim(n_agents=150, diseases=ss.NCD(), analyzers=Recount(name='recount'), demographics=[ss.Deaths(death_rate=20)], dur=8, rand_seed=seed, verbose=0, **kw)
    cf['pregnancy-burnin-fine-dt'] = lambda seed, **kw: ss.Sim(n_agents=300, networks=[ss.PrenatalNet()], analyzers=Recount(name='recount'), dt=0.25,
                                                   demographics=[ss.Pregnancy(fertility_rate=250), ss.Deaths(death_rate=15)], dur=4, rand_seed=seed, verbose=0, **kw)
    return cf


def flat_results(sim):
    import sciris as sc
    out = {}
    for k, v in sc.flattendict(sim.results, sep='.').items():
        if 'timevec' in k: continue
        try: out[k] = (bool(getattr(v, 'scale', False)), np.asarray(v, dtype=float).copy())
        except Exception: pass
    return out


def run(ctx):
    ctx.translate(['Gen_Results'])
    ctx.build_props('C15')
    try:
        import starsim as ss, sciris as sc
    except Exception as E:
        raise Broken('correspondence', 'cannot import starsim', repr(E))
    rng = ctx.rng
    Recount = make_probe(ss)
    ctx.cov['rule'] = ('real runs (SIR/SIS/HIV with births, deaths, pregnancy, a module on its own dt) with a recount probe at every step; the recorded flow series are '
                       'fed to the model (generated cumulative bounds, scaling, prevalence) and compared in Coq with the real arrays; scaled vs unscaled twins '
                       '(pop_scale in {2, 0.5, 7.25}, total_pop form); exports compared with the arrays; non-trivial = run with births or deaths')
    cum_terms, cum_meta, scale_terms, scale_meta = [], [], [], []
    tmpdir = tempfile.mkdtemp(prefix='c15_', dir=ctx.work)
    for name, mk in configs(ss, Recount).items():
        for rep in range(ctx.n(1, 6)):
            seed = rng.randrange(1, 10**4)
            key = dict(config=name, seed=seed)
            try:
                base = mk(seed); base.run()
            except Exception as E:
                ctx.violation(f'{name}: run raised {type(E).__name__}: {E}', key); continue
            ctx.count(('run', name, seed)); ctx.dist('run:' + name)
            probe = base.analyzers.recount
            for ti, what, got, want in probe.problems[:3]:
                w = key | dict(ti=ti, result=what)
                if 'prevalence out of' in what: w['finding_key'] = 'n-infected-counts-agents-who-died-this-step'      # flags of agents who died in this step are still set while the denominator counts the living
                ctx.violation(f'{name}: step {ti}: result {what} = {got}, recount from agent state gives {want}', w)
            R = flat_results(base)
            # cumulative series vs running sums (oracle) and vs the model with the generated bounds (correspondence)
            pairs = [('cum_deaths', 'new_deaths', 'cum_deaths_upper_gen')]
            for d in base.diseases():
                if isinstance(d, ss.Infection): pairs.append((f'{d.name}.cum_infections', f'{d.name}.new_infections', 'cum_infections_upper_gen'))
            for m in base.demographics():
                if f'{m.name}.cumulative' in R: pairs.append((f'{m.name}.cumulative', f'{m.name}.new', None))
            for ck, nk, bound in pairs:
                cum, new = R[ck][1], R[nk][1]
                ctx.count(('cum', name, seed, ck)); ctx.dist('cumulative series')
                if not np.array_equal(cum, np.cumsum(new)):
                    t = int(np.flatnonzero(cum != np.cumsum(new))[0])
                    w = key | dict(series=ck, ti=t, cum=float(cum[t]), running_sum=float(np.cumsum(new)[t]))
                    if ck == 'cum_deaths' and np.array_equal(cum[1:], np.cumsum(new)[:-1]) and cum[0] == 0: w['finding_key'] = 'sim-cum-deaths-lag'
                    ctx.violation(f'{name}: {ck}[{t}] = {cum[t]} but the running sum of {nk} including step {t} is {np.cumsum(new)[t]}', w)
                up = bound if bound else '(fun ti => S ti)'
                cum_terms.append(f'({up}, [' + '; '.join(qlit(float(x)) for x in new) + '], [' + '; '.join(qlit(float(x)) for x in cum) + '])')
                cum_meta.append(key | dict(series=ck))
            # births flow = agents created
            if 'births.new' in R and 'pregnancy.births' not in R and len(R['births.new'][1]) == len(probe.n_uid):
                created = np.diff([int(base.pars.n_agents)] + probe.n_uid)
                ctx.count(('births-flow', name, seed)); ctx.dist('births flow vs agents created')
                if not np.array_equal(created, R['births.new'][1]):
                    t = int(np.flatnonzero(created != R['births.new'][1])[0])
                    ctx.violation(f'{name}: births.new[{t}] = {R["births.new"][1][t]} but {created[t]} agents were created in that step', key | dict(ti=t))
            # pregnancies flow = agents conceived (burn-in conceptions happen inside step 0 and are real agents too)
            if 'pregnancy.pregnancies' in R and len(R['pregnancy.pregnancies'][1]) == len(probe.n_uid):
                created = np.diff([int(base.pars.n_agents)] + probe.n_uid)
                ctx.count(('pregnancy-flow', name, seed), nontrivial=True); ctx.dist('pregnancies flow vs agents conceived')
                if not np.array_equal(created, R['pregnancy.pregnancies'][1]):
                    t = int(np.flatnonzero(created != R['pregnancy.pregnancies'][1])[0])
                    ctx.violation(f'{name}: pregnancy.pregnancies[{t}] = {R["pregnancy.pregnancies"][1][t]} but {created[t]} agents were conceived (created) in that step', key | dict(ti=t))
            # scaled twins
            for form, val in (('pop_scale', rng.choice([2.0, 0.5, 7.25])), ('total_pop', rng.choice([1000, 12345]))):
                try:
                    tw = mk(seed, **{form: val}); tw.run()
                except Exception as E:
                    ctx.violation(f'{name}: twin run with {form}={val} raised {type(E).__name__}: {E}', key); continue
                s = float(tw.pars.pop_scale)
                want_s = val if form == 'pop_scale' else val / tw.pars.n_agents
                ctx.count(('twin', name, seed, form, val)); ctx.dist('scaled twin:' + form)
                if abs(s - want_s) > 1e-12: ctx.violation(f'{name}: {form}={val} gives pop_scale {s}, expected {want_s}', key | {form: val})
                T = flat_results(tw)
                for k, (sc_, arr) in R.items():
                    if k not in T: continue
                    intensive = any(w_ in k.split('.')[-1] for w_ in ('prevalence', 'rel_sus', 'cbr', 'cmr', 'rate', 'frac', 'mean'))     # rates, ratios, means: never scaled
                    if intensive and sc_:
                        ctx.violation(f'{name}: result {k} is a rate / ratio but is declared scalable: with {form}={val} it reads {T[k][1][-1]} instead of {arr[-1]}', key | {form: val, 'result': k}); continue
                    want = arr * s if sc_ else arr
                    if not np.allclose(T[k][1], want, rtol=1e-12, atol=0, equal_nan=True):
                        t = int(np.flatnonzero(~np.isclose(T[k][1], want, rtol=1e-12, atol=0, equal_nan=True))[0])
                        ctx.violation(f'{name}: with {form}={val} result {k}[{t}] = {T[k][1][t]}; unscaled value {arr[t]} x {"scale " + str(s) if sc_ else "1 (not scalable)"} = {want[t]}',
                                      key | {form: val, 'result': k, 'ti': t}); break
                # model: finalize_results on the unscaled arrays
                keys = [k for k in R if k in T][:12]
                scale_terms.append('(' + qlit(s) + ', [' + '; '.join(f'mkRes {"true" if R[k][0] else "false"} [' + '; '.join(qlit(float(x)) for x in np.nan_to_num(R[k][1])) + ']' for k in keys) + '], ['
                                   + '; '.join('[' + '; '.join(qlit(float(x)) for x in np.nan_to_num(T[k][1])) + ']' for k in keys) + '])')
                scale_meta.append(key | {form: val})
            # exports
            df = base.to_df()
            for k, (sc_, arr) in R.items():
                col = k.replace('.', '_')
                if col in getattr(df, 'columns', []):
                    if not np.allclose(np.asarray(df[col], dtype=float), arr, equal_nan=True):
                        ctx.violation(f'{name}: to_df column {col} differs from the result array', key | dict(result=k)); break
            js = base.to_json()
            summ = base.summary
            for k, v in summ.items():
                flat = k
                cand = [kk for kk in R if kk.replace('.', '_') == flat]
                if cand:
                    arr = R[cand[0]][1]
                    # documented rule of Sim.summarize(): keys containing 'cum_' -> last entry, everything else -> mean
                    want = arr[-1] if ('cum_' in flat) else np.mean(arr)
                    if isinstance(v, (int, float, np.floating, np.integer)) and not np.isclose(float(v), float(want), equal_nan=True):
                        ctx.violation(f'{name}: summary[{k}] = {v}, the {"last" if "cum_" in flat else "mean"} of the array is {want}', key | dict(result=k)); break
            fn = os.path.join(tmpdir, 'c15.sim')
            base.save(fn); back = ss.load(fn)
            RB = flat_results(back)
            for k in R:
                if k in RB and not np.array_equal(R[k][1], RB[k][1], equal_nan=True):
                    ctx.violation(f'{name}: result {k} changed by save + load', key | dict(result=k)); break
            shr = base.shrink(inplace=False)
            RS = flat_results(shr)
            for k in R:
                if k in RS and not np.array_equal(R[k][1], RS[k][1], equal_nan=True):
                    ctx.violation(f'{name}: result {k} changed by shrink', key | dict(result=k)); break
            ctx.dist('exports checked')
            if rep == 0: ctx.sample(dict(kind='run', config=name, seed=seed, n_alive=R['n_alive'][1].tolist()[:6], new_deaths=R['new_deaths'][1].tolist()[:6], cum_deaths=R['cum_deaths'][1].tolist()[:6]))
    okdef = '''Fixpoint qs_eqb (a b : list Q) : bool := match a, b with [], [] => true | x :: a', y :: b' => andb (Qeq_bool x y) (qs_eqb a' b') | _, _ => false end.
Definition ok (c : (nat -> nat) * list Q * list Q) : bool := let '(up, new, cum) := c in qs_eqb (cum_series up new) cum.'''
    bad = ctx.coq_mismatches('cum', IMPORTS, '(nat -> nat) * list Q * list Q', cum_terms, okdef, shard=60)
    for j in bad[:3]:
        ctx.broke('correspondence', f'cumulative series {cum_meta[j]}: the model with the generated slice bound and the implementation disagree')
    okdef = '''Fixpoint qs_close (a b : list Q) : bool := match a, b with [], [] => true | x :: a', y :: b' => andb (Qclose (1 # 1000000000) x y) (qs_close a' b') | _, _ => false end.
Fixpoint all2 (a : list result) (b : list (list Q)) : bool := match a, b with [], [] => true | x :: a', y :: b' => andb (qs_close (r_vals x) y) (all2 a' b') | _, _ => false end.
Definition ok (c : Q * list result * list (list Q)) : bool := let '(s, rs, exp) := c in all2 (finalize_results s rs) exp.'''
    bad = ctx.coq_mismatches('scale', IMPORTS, 'Q * list result * list (list Q)', scale_terms, okdef, shard=4)
    for j in bad[:3]:
        ctx.broke('correspondence', f'scaled twin {scale_meta[j]}: finalize_results of the model and the implementation disagree')


def replay(ctx, rp):
    run(ctx)
