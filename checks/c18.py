"""
C18 -- Parallel and multi-run execution equals independent serial runs.

1. translator: Gen_Sim.v -- reseed_gen from single_run (rand_seed += ind); shape pins on multi_run (replicate indices, default reseed, serial copy,
   parallel map), MultiSim.run (debug / normal / in-place), MultiSim.reduce (mean, std, quantiles, column stacking)
2. obligations: Props/C18.v
3. correspondence: the seed of each member after a multi-run equals reseed_gen base i (Coq); reduced median / quantile bounds of integer-valued
   result series equal the model's `quantile` on the members' values, the reduced mean equals qmean_of (Coq, tolerance 1e-9)
4. oracle on the implementation: each member of ss.multi_run / ss.MultiSim(...).run() -- replicate counts 1..5, worker counts, serial / parallel, in-place
   on / off, a list of different sims -- is bit-identical to the same configuration run alone with seed base + i; reduced statistics equal the
   NumPy statistics of the members and are invariant under permutation of the members
"""
import copy
import numpy as np
from fractions import Fraction as F
from vlib.core import Broken, qlit

IMPORTS = 'Model.Prelude Gen.Gen_Sim Model.L6_Sim'


def run(ctx):
    ctx.translate(['Gen_Sim', 'Gen_Dist'])
    ctx.build_props('C18')
    try:
        import starsim as ss, sciris as sc
    except Exception as E:
        raise Broken('correspondence', 'cannot import starsim', repr(E))
    from harness.simruns import make_sim, fingerprint, diff_keys, CONFIGS
    rng = ctx.rng
    ctx.cov['rule'] = ('member configurations x replicate counts {1..5} x modes {serial, parallel with 1 / 2 / 4 workers, MultiSim in-place on / off, list of different sims, debug} ; '
                       'every member compared with the standalone run of seed base + i; reduce() (median / quantiles / mean) against NumPy and the model; permutations of the members; '
                       'non-trivial = every member comparison')
    nviol = 0
    def viol(msg, w):
        nonlocal nviol
        nviol += 1
        if nviol <= 8: ctx.violation(msg, w)
    seedterms, seedmeta, qterms, qmeta, mterms, mmeta, vterms, vmeta = [], [], [], [], [], [], [], []
    kinds = ['sir_mf', 'sir_births_people', 'sis_static', 'sir_er_deaths', 'sir_preg', 'hiv_mf_vx', 'measles_day']     # configurations without global-generator users (C01)
    standalone = {}
    def alone(kind, seed):
        if (kind, seed) not in standalone:
            s = make_sim(kind, seed); s.run(); standalone[(kind, seed)] = fingerprint(s, states=False)
        return standalone[(kind, seed)]
    modes = [('serial', dict(parallel=False)), ('parallel-2', dict(parallel=True, n_cpus=2)), ('parallel-1', dict(parallel=True, n_cpus=1)), ('parallel-4', dict(parallel=True, n_cpus=4))]
    for ci in range(ctx.n(5, 21)):
        kind = kinds[ci % len(kinds)]
        base = rng.randrange(1, 10**5)
        n_runs = [3, 1, 2, 5, 4][ci % 5]
        mname, mkw = modes[ci % len(modes)]
        W = dict(config=kind, base_seed=base, n_runs=n_runs, mode=mname)
        try:
            sims = ss.multi_run(make_sim(kind, base), n_runs=n_runs, shrink=False, **mkw)
        except Exception as E:
            w_ = dict(W)
            if type(E).__name__ == 'AlreadyRunError' and mname == 'parallel-1': w_['finding_key'] = 'multi-run-with-one-cpu-reuses-the-sim'      # sc.parallelize with one CPU shares the sim object between replicates
            viol(f'{kind}: multi_run({mname}, n_runs={n_runs}) raised {type(E).__name__}: {E}', w_); continue
        if len(sims) != n_runs: viol(f'{kind}: multi_run returned {len(sims)} sims for n_runs={n_runs}', W)
        for i, s in enumerate(sims):
            ctx.count((kind, base, mname, i), nontrivial=True); ctx.dist('member of multi_run ' + mname)
            seedterms.append(f'({base}%Z, {i}%Z, {int(s.pars.rand_seed)}%Z)'); seedmeta.append(dict(W, member=i, seed=int(s.pars.rand_seed)))
            d = diff_keys(alone(kind, base + i), fingerprint(s, states=False))
            if d: viol(f'{kind}: member {i} of multi_run({mname}, n_runs={n_runs}, base seed {base}) differs from the standalone run with seed {base + i} (first difference: {d[0]})', dict(W, member=i))
    # MultiSim: in-place on/off, list of different sims, reduce
    for ci in range(ctx.n(3, 10)):
        kind = kinds[(ci + 2) % len(kinds)]
        base = rng.randrange(1, 10**5)
        inplace = bool(ci % 2)
        W = dict(config=kind, base_seed=base, inplace=inplace)
        try:
            if ci % 3 == 2:     # a list of different sims: seeds kept as given
                seeds = [base, base + 7, base + 3]
                mine = [make_sim(kind, sd) for sd in seeds]
                mine[0].label = mine[2].label = 'same label'; mine[1].label = 'other'      # labels need not be unique
                inplace = True
                msim = ss.MultiSim(mine, inplace=inplace, shrink=False); msim.run(parallel=bool(ci % 2), n_cpus=2)
                for i, (sd, s) in enumerate(zip(seeds, msim.sims)):
                    ctx.count((kind, base, 'list', i), nontrivial=True); ctx.dist('member of MultiSim(list)')
                    d = diff_keys(alone(kind, sd), fingerprint(s, states=False))
                    if d: viol(f'{kind}: sim {i} (seed {sd}) of MultiSim([..]) differs from its standalone run (first difference: {d[0]})', dict(W, member=i))
                    if inplace:
                        d = diff_keys(alone(kind, sd), fingerprint(mine[i], states=False)) if getattr(mine[i], 'results_ready', False) or mine[i].complete else ['caller object has no results']
                        if d: viol(f'{kind}: in-place MultiSim([..]) did not hand the caller\'s sim {i} the results of its run ({d[0]})', dict(W, member=i))
            else:
                n_runs = 3 + ci % 3
                msim = ss.MultiSim(make_sim(kind, base), n_runs=n_runs, inplace=inplace, shrink=False); msim.run(parallel=bool(ci % 2), n_cpus=2)
                for i, s in enumerate(msim.sims):
                    ctx.count((kind, base, 'msim', i), nontrivial=True); ctx.dist('member of MultiSim(n_runs)')
                    d = diff_keys(alone(kind, base + i), fingerprint(s, states=False))
                    if d: viol(f'{kind}: member {i} of MultiSim(n_runs={n_runs}, base seed {base}) differs from the standalone run with seed {base + i} (first difference: {d[0]})', dict(W, member=i))
        except Exception as E:
            viol(f'{kind}: MultiSim run raised {type(E).__name__}: {E}', W); continue
        # a serial run of a list with inplace=False leaves the caller's sims alone; summaries are the stated statistics of the members whatever was summarised before
        try:
            if ci % 3 == 2:
                mine2 = [make_sim(kind, sd) for sd in (base + 1, base + 2)]
                ms_ser = ss.MultiSim(mine2, inplace=False, shrink=False); ms_ser.run(parallel=False)
                ctx.count((kind, base, 'serial-list-not-inplace'), nontrivial=True); ctx.dist('serial list, not in place')
                if any(getattr(x, 'complete', False) or getattr(x, 'initialized', False) for x in mine2) or any(a is b for a in ms_ser.sims for b in mine2):
                    viol(f'{kind}: MultiSim([..], inplace=False).run(parallel=False) ran the caller\'s own sim objects (they are initialised / complete, or are the returned members)', dict(W, mode='serial-list-not-inplace'))
                for i, (sd, s_) in enumerate(zip((base + 1, base + 2), ms_ser.sims)):
                    d = diff_keys(alone(kind, sd), fingerprint(s_, states=False))
                    if d: viol(f'{kind}: serial MultiSim([..]) member {i} differs from its standalone run ({d[0]})', dict(W, member=i))
            sm1 = msim.summarize()
            fresh = [m.summarize() for m in copy.deepcopy(list(msim.sims))]
            msim.summarize(how='last'); sm2 = msim.summarize()
            ctx.count((kind, base, 'summarize'), nontrivial=True); ctx.dist('summarize')
            for k in list(sm1.keys())[:40]:
                want = float(np.mean([f[k] for f in fresh]))
                for tag, sm in (('first', sm1), ('after a non-default summary', sm2)):
                    got = float(sm[k]['mean']) if hasattr(sm[k], 'keys') else float(sm[k])
                    if not np.isclose(got, want, rtol=1e-10, atol=1e-12, equal_nan=True):
                        viol(f'{kind}: MultiSim.summarize() ({tag}) reports mean {got} for {k}; the mean of the members\' summaries is {want}', dict(W, key=k, when=tag)); break
        except Exception as E:
            viol(f'{kind}: summarize / serial list raised {type(E).__name__}: {E}', W)
        # reduced statistics
        try:
            members = list(msim.sims)
            flats = [m.results.flatten() for m in members]
            keys = [k for k in flats[0].keys() if hasattr(flats[0][k], '__len__') and not isinstance(flats[0][k], str) and k != 'timevec']
            for use_mean in (False, True):
                ms2 = ss.MultiSim(copy.deepcopy(members)); ms2.sims = copy.deepcopy(members)
                ms2.reduce(use_mean=use_mean, quantiles=None if use_mean else {'low': 0.1, 'high': 0.9})
                # reducing does not touch the members: each still holds its own results, and reducing again gives the same statistics
                for i, (mm, orig) in enumerate(zip(ms2.sims, members)):
                    dch = diff_keys(fingerprint(orig, states=False), fingerprint(mm, states=False))
                    if dch: viol(f'{kind}: reduce(use_mean={use_mean}) changed member {i} ({dch[0]})', dict(W, member=i)); break
                # the summary published by the reduction is the summary of the REDUCED series (mean; last entry for cumulative series), not that of a member
                try:
                    flat_red = sc.flattendict(ms2.results, sep='_'); summ = dict(ms2.summary)
                    how = {'n_': 'mean', 'new_': 'mean', 'cum_': 'last', 'timevec': 'last', '': 'mean'}
                    ctx.count((kind, base, 'reduced-summary', use_mean), nontrivial=True); ctx.dist('summary after reduce')
                    for k_, res_ in flat_red.items():
                        if 'timevec' in k_ or k_ not in summ: continue
                        fn = next(h for hk, h in how.items() if hk in k_)
                        arr_ = np.asarray(res_, dtype=float); want_ = float(arr_[-1]) if fn == 'last' else float(arr_.mean())
                        got_ = summ[k_]
                        if isinstance(got_, str) or not np.isclose(float(got_), want_, rtol=1e-9, atol=1e-9, equal_nan=True):
                            viol(f'{kind}: after reduce(use_mean={use_mean}) the summary reports {k_} = {got_}; the reduced series gives {want_}', dict(W, key=k_, use_mean=use_mean)); break
                except Exception as E:
                    viol(f'{kind}: summary after reduce raised {type(E).__name__}: {E}', W)
                first = {k: (np.asarray(ms2.results[k]).copy(), np.asarray(ms2.results[k].low).copy(), np.asarray(ms2.results[k].high).copy()) for k in keys[:12]}
                ms2.reduce(use_mean=use_mean, quantiles=None if use_mean else {'low': 0.1, 'high': 0.9})
                for k in keys[:12]:
                    again = (np.asarray(ms2.results[k]), np.asarray(ms2.results[k].low), np.asarray(ms2.results[k].high))
                    if not all(np.allclose(a, b, rtol=1e-12, atol=1e-12, equal_nan=True) for a, b in zip(first[k], again)):
                        viol(f'{kind}: reducing the same members a second time gives another {k}', dict(W, key=k)); break
                perm = list(range(len(members))); rng.shuffle(perm)
                ms3 = ss.MultiSim(copy.deepcopy(members)); ms3.sims = [copy.deepcopy(members[j]) for j in perm]
                ms3.reduce(use_mean=use_mean, quantiles=None if use_mean else {'low': 0.1, 'high': 0.9})
                for k in keys[:12]:
                    raw = np.array([np.asarray(f[k], dtype=float) for f in flats]).T
                    r2, r3 = ms2.results[k], ms3.results[k]
                    ctx.count((kind, base, 'reduce', use_mean, k), nontrivial=True); ctx.dist('reduce ' + ('mean' if use_mean else 'median'))
                    if use_mean:
                        best, lo, hi = raw.mean(axis=1), raw.mean(axis=1) - 2 * raw.std(axis=1), raw.mean(axis=1) + 2 * raw.std(axis=1)
                    else:
                        best, lo, hi = np.quantile(raw, 0.5, axis=1), np.quantile(raw, 0.1, axis=1), np.quantile(raw, 0.9, axis=1)
                    for nm, got, want in (('value', np.asarray(r2), best), ('low', np.asarray(r2.low), lo), ('high', np.asarray(r2.high), hi)):
                        if not np.allclose(got, want, rtol=1e-12, atol=1e-12, equal_nan=True):
                            viol(f'{kind}: reduce(use_mean={use_mean}) {k}.{nm} is not the stated statistic of the members', dict(W, key=k, stat=nm)); break
                    for nm in ('value', 'low', 'high'):
                        a = np.asarray(r2 if nm == 'value' else getattr(r2, nm)); b = np.asarray(r3 if nm == 'value' else getattr(r3, nm))
                        if not np.allclose(a, b, rtol=1e-12, atol=1e-12, equal_nan=True):
                            viol(f'{kind}: reduce(use_mean={use_mean}) {k}.{nm} changes when the members are listed in another order', dict(W, key=k, stat=nm)); break
                    # model: integer-valued series only (exact)
                    if not use_mean and np.all(raw == np.round(raw)) and len(qterms) < ctx.n(60, 400):
                        t = rng.randrange(raw.shape[0])
                        vals = '[' + '; '.join(str(int(v)) for v in raw[t]) + ']%Z'
                        for q, got in ((F(1, 2), np.asarray(r2)[t]), (F(1, 10), np.asarray(r2.low)[t]), (F(9, 10), np.asarray(r2.high)[t])):
                            qterms.append(f'({qlit(q)}, {vals}, {qlit(float(got))})'); qmeta.append(dict(W, key=k, t=t, q=str(q)))
                    # C18_quantile_monotone / C18_quantile_between: low <= median <= high, all within the members' range
                    if not use_mean:
                        v_, l_, h_ = np.asarray(r2, dtype=float), np.asarray(r2.low, dtype=float), np.asarray(r2.high, dtype=float)
                        tol_ = 1e-9 * (1 + np.abs(raw).max())
                        if np.any(l_ > v_ + tol_) or np.any(v_ > h_ + tol_) or np.any(l_ < raw.min(axis=1) - tol_) or np.any(h_ > raw.max(axis=1) + tol_):
                            viol(f'{kind}: reduce() {k}: low <= median <= high within the range of the members does not hold', dict(W, key=k, stat='ordering'))
                    if use_mean and len(vterms) < ctx.n(30, 200):
                        t = rng.randrange(raw.shape[0]); sd_ = (float(np.asarray(r2.high)[t]) - float(np.asarray(r2.low)[t])) / 4
                        vterms.append('([' + '; '.join(qlit(float(v)) for v in raw[t]) + f'], {qlit(sd_ * sd_)})'); vmeta.append(dict(W, key=k, t=t))
                    if use_mean and len(mterms) < ctx.n(40, 300):
                        t = rng.randrange(raw.shape[0])
                        mterms.append('([' + '; '.join(qlit(float(v)) for v in raw[t]) + f'], {qlit(float(np.asarray(r2)[t]))})'); mmeta.append(dict(W, key=k, t=t))
        except Exception as E:
            viol(f'{kind}: reduce raised {type(E).__name__}: {E}', W)
    # reduced statistics of INTEGER-typed member series (an integer pop_scale keeps count results int64): compared with NumPy (property) and with
    # stored_in_integer_series (qmean_of members) in Coq (model of the truncating store)
    iterms, imeta = [], []
    try:
        sd_ = rng.randrange(1, 10**4)
        msI = ss.MultiSim(ss.Sim(n_agents=300, dur=10, pop_scale=1, rand_seed=sd_, verbose=0, diseases=dict(type='sis', beta=0.1), networks=ss.RandomNet(n_contacts=4)), n_runs=4, debug=True).run()
        trunc = []
        for k in ('sis_new_infections', 'sis_n_infected'):
            raw = np.array([np.asarray(s.results.flatten()[k], dtype=float) for s in msI.sims])
            isint = all(np.issubdtype(np.asarray(s.results.flatten()[k]).dtype, np.integer) for s in msI.sims)
            for use_mean in (True, False):
                msI.reduce(use_mean=use_mean); got = np.asarray(msI.results[k], dtype=float).copy(); msI.reset()
                want = raw.mean(axis=0) if use_mean else np.median(raw, axis=0)
                ctx.count(('int-series-reduce', sd_, k, use_mean), nontrivial=True); ctx.dist('reduce of integer-typed series')
                if not np.allclose(got, want, rtol=1e-12, atol=1e-12):
                    t = int(np.argmax(np.abs(got - want))); trunc.append((k, 'mean' if use_mean else 'median', t, raw[:, t].tolist(), float(got[t]), float(want[t])))
                if use_mean and isint:
                    for t in range(raw.shape[1]):
                        iterms.append('([' + '; '.join(qlit(float(v)) for v in raw[:, t]) + f'], {qlit(float(got[t]))})'); imeta.append(dict(seed=sd_, key=k, t=t))
        if trunc:
            ctx.violation(f'reduce() of members with integer-typed series (pop_scale=1 given as an int) is not the stated statistic (series, statistic, step, members, reduced, stated): {trunc[:3]}',
                          dict(probe='integer-series-reduce', seed=sd_, cases=trunc[:6], finding_key='integer-pop-scale-truncates-reduced-statistic'))
    except Exception as E:
        viol(f'reduce of integer-typed member series raised {type(E).__name__}: {E}', dict(probe='integer-series-reduce'))
    # seeds given explicitly per replicate (iterpars) are in effect exactly as given: replicate i equals the same sim built with that seed
    try:
        kind_ = 'sir_mf'; seeds = [rng.randrange(1, 10**4), 0, rng.randrange(1, 10**4)]      # 0 is a seed like any other
        runs = ss.multi_run(make_sim(kind_, 1), n_runs=3, iterpars=dict(rand_seed=seeds), parallel=False)
        ctx.count(('iterpars-seeds', tuple(seeds)), nontrivial=True); ctx.dist('explicit seeds through iterpars')
        for i, (r, sd) in enumerate(zip(runs, seeds)):
            if int(r.pars.rand_seed) != sd:
                viol(f'multi_run(iterpars=dict(rand_seed={seeds})): replicate {i} ran with rand_seed {int(r.pars.rand_seed)}, not the {sd} it was given', dict(probe='iterpars-seeds', replicate=i, seeds=seeds)); break
            solo = make_sim(kind_, sd); solo.run()
            dk = diff_keys(fingerprint(solo, states=False), fingerprint(r, states=False))
            if dk: viol(f'multi_run(iterpars=dict(rand_seed={seeds})): replicate {i} differs from the same sim built with rand_seed={sd} ({dk[0]})', dict(probe='iterpars-seeds', replicate=i, seeds=seeds)); break
    except Exception as E:
        viol(f'multi_run with explicit per-replicate seeds raised {type(E).__name__}: {E}', dict(probe='iterpars-seeds'))
    # debug mode
    try:
        ms = ss.MultiSim(make_sim('sis_static', 5), n_runs=2, debug=True, shrink=False); ms.run()
        for i, s in enumerate(ms.sims):
            d = diff_keys(alone('sis_static', 5 + i), fingerprint(s, states=False))
            if d: viol(f'MultiSim(debug=True): member {i} differs from the standalone run', dict(mode='debug', member=i))
        ctx.count(('debug',), nontrivial=True)
    except Exception as E:
        ctx.count(('debug',)); ctx.dist('debug mode raised')
        ctx.violation(f'MultiSim(sim, n_runs=2, debug=True).run() raises {type(E).__name__}: {str(E)[:120]}: the debug mode yields no members at all', dict(mode='debug', finding_key='multisim-debug-mode-raises'))
    bad = ctx.coq_mismatches('c18seeds', IMPORTS, 'Z * Z * Z', seedterms, 'Definition ok (c : Z * Z * Z) : bool := let \'(b, i, s) := c in Z.eqb (reseed_gen b i) s.', shard=500)
    for j in bad[:3]: ctx.broke('correspondence', 'the seed of a multi-run member differs from reseed_gen base i', repr(seedmeta[j]))
    bad = ctx.coq_mismatches('c18quant', IMPORTS, 'Q * list Z * Q', qterms, 'Definition ok (c : Q * list Z * Q) : bool := let \'(q, l, r) := c in Qclose (1 # 1000000000) (quantile q l) r.', shard=200)
    for j in bad[:3]: ctx.broke('correspondence', 'a reduced quantile differs from the model quantile (linear interpolation on the sorted members)', repr(qmeta[j]))
    bad = ctx.coq_mismatches('c18mean', IMPORTS, 'list Q * Q', mterms, 'Definition ok (c : list Q * Q) : bool := let \'(l, r) := c in Qclose (1 # 1000000000) (qmean_of l) r.', shard=200)
    for j in bad[:3]: ctx.broke('correspondence', 'a reduced mean differs from qmean_of the members', repr(mmeta[j]))
    bad = ctx.coq_mismatches('c18var', IMPORTS, 'list Q * Q', vterms, 'Definition ok (c : list Q * Q) : bool := let \'(l, r) := c in Qclose ((1 # 1000000000) * (1 + r)) (qvar_of l) r.', shard=200)
    for j in bad[:3]: ctx.broke('correspondence', 'the spread of a mean reduction ((high - low) / 4, squared) differs from qvar_of the members', repr(vmeta[j]))
    bad = ctx.coq_mismatches('c18int', IMPORTS, 'list Q * Q', iterms, 'Definition ok (c : list Q * Q) : bool := let \'(l, r) := c in Qeq_bool (stored_in_integer_series (qmean_of l)) r.', shard=200)
    for j in bad[:3]: ctx.broke('correspondence', 'a mean written into an integer-typed series differs from stored_in_integer_series (qmean_of members)', repr(imeta[j]))
    ctx.cov['replayed_in_coq'] = dict(member_seeds=len(seedterms), quantiles=len(qterms), means=len(mterms), variances=len(vterms), integer_series_means=len(iterms))


def replay(ctx, rp):
    run(ctx)
