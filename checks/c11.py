"""
C11 -- Agent arrays behave as a uid-indexed map restricted to active agents.

1. translator: Gen_Arr.v (shape pins on _convert_key dispatch, __getitem__/__setitem__, values, true/false, asnew,
   comparison / logic dunders, uids set operators; growth arithmetic)
2. obligations: Props/C11.v (map semantics, derived arrays, partition, set algebra, growth; refuted integer-index clause)
3. correspondence: array-heavy operation sequences (all key kinds, comparisons, logic, true/false, reductions, interleaved with
   grow / deaths / removal) on real FloatArr / BoolArr / State attached to a real People vs the model run in Coq;
   uid set operators on random operand pairs vs the model functions
4. oracle on the implementation: dict-based reference map (the specification itself) replayed next to the real arrays
"""
import numpy as np
from vlib.core import Broken
from harness import people_ops as po
from checks import c10

WEIGHTS = dict(grow=2, request_death=1, step_die=1, remove_dead=2, tick=1, set=4, setmany=2, get=4, getint=1, values=2, cmp=4, logic=3,
               truefalse=3, reduce=2)
WEIGHTS['not'] = 2


def uid_algebra(ctx, ss):
    rng = ctx.rng
    terms, meta = [], []
    for _ in range(ctx.n(120, 3000)):
        a = [rng.randrange(25) for _ in range(rng.randint(0, 9))]; b = [rng.randrange(25) for _ in range(rng.randint(0, 9))]
        ua, ub = ss.uids(a), ss.uids(b)
        res = [list(map(int, x)) for x in (ua & ub, ua | ub, ua - ub, ua ^ ub, ua.remove(ub), ua.intersect(ub), ss.uids.cat(ua, ub), ua.unique())]
        terms.append(f'({po.nats(a)}, {po.nats(b)}, [' + '; '.join(po.nats(r) for r in res) + '])')
        meta.append((a, b)); ctx.count(('uids', tuple(a), tuple(b)), nontrivial=bool(a and b)); ctx.dist('uid set operators')
        # oracle: mathematical set operations
        sa, sb = set(a), set(b)
        for name, got, want in (('&', res[0], sa & sb), ('|', res[1], sa | sb), ('-', res[2], sa - sb), ('^', res[3], sa ^ sb)):
            if got != sorted(want):
                ctx.violation(f'ss.uids({a}) {name} ss.uids({b}) = {got}, set operation gives {sorted(want)}', dict(a=a, b=b, op=name))
    okdef = '''Definition ok (c : list nat * list nat * list (list nat)) : bool :=
  let '(a, b, rs) := c in
  match rs with
  | [r1; r2; r3; r4; r5; r6; r7; r8] =>
      andb (nats_eqb (uids_and a b) r1) (andb (nats_eqb (uids_or a b) r2) (andb (nats_eqb (uids_sub a b) r3) (andb (nats_eqb (uids_xor a b) r4)
      (andb (nats_eqb (uids_sub a b) r5) (andb (nats_eqb (uids_and a b) r6) (andb (nats_eqb (a ++ b) r7) (nats_eqb (sort_unique a) r8)))))))
  | _ => false end.'''
    bad = ctx.coq_mismatches('uidalg', po.IMPORTS, 'list nat * list nat * list (list nat)', terms, okdef, shard=200)
    for j in bad[:3]:
        ctx.broke('correspondence', f'uid set operators on {meta[j]}: model and implementation disagree')


def reference_oracle(ctx, ss):
    """The specification itself (a dict uid -> value plus the active list) replayed next to real arrays."""
    rng = ctx.rng
    for rep in range(ctx.n(25, 400)):
        n0 = rng.choice([4, 9, 15])
        sim, ppl, arrs = po.setup(ss, rng, n0)
        f, b = arrs[0], arrs[2]
        M = {u: float(f.raw[u]) for u in range(n0)}; B = {u: bool(b.raw[u]) for u in range(n0)}
        active = list(range(n0))
        for step in range(rng.randint(5, 25)):
            k = rng.random()
            key = dict(n0=n0, step=step)
            n = int(ppl.uid.len_used)
            try:
                if k < 0.15:
                    kk = rng.choice([1, 2, 5, 20]); new = ppl.grow(kk)
                    for u in map(int, new): M[u] = 2.5; B[u] = False; active.append(u)
                    op = f'grow({kk})'
                elif k < 0.25 and len(active) > 2:
                    die = rng.sample(active, rng.randint(1, 2))
                    ppl.request_death(ss.uids(die)); ppl.step_die(); ppl.remove_dead()
                    active = [u for u in active if u not in die]; op = f'kill({die})'
                elif k < 0.45:
                    us = [rng.randrange(n) for _ in range(rng.randint(1, 4))]; v = rng.randrange(-8, 40) * 0.25
                    f[ss.uids(us)] = v
                    for u in us: M[u] = v
                    op = f'f[uids({us})] = {v}'
                elif k < 0.55:
                    v = rng.random() < 0.5; sl = slice(rng.randint(0, 3), rng.randint(3, 9))
                    b[sl] = v
                    for u in active[sl]: B[u] = v
                    op = f'b[{sl}] = {v}'
                elif k < 0.65:
                    v = rng.randrange(-8, 40) * 0.25
                    f[b] = v
                    for u in active:
                        if B[u]: M[u] = v
                    op = f'f[b] = {v}'
                elif k < 0.76 and step > 1:
                    import copy as _cp, pickle as _pk
                    how = rng.choice(['deepcopy', 'pickle'])
                    sim = _cp.deepcopy(sim) if how == 'deepcopy' else _pk.loads(_pk.dumps(sim)); ppl = sim.people
                    linked = {a.name: a for a in ppl._states.values()}
                    if 'tf0' not in linked or 'tb0' not in linked:
                        ctx.violation(f'after a {how} of the sim the arrays linked to its people with link_people() are no longer registered with the copied people (registered: {sorted(linked)[:8]}...)', key | dict(op=how)); break
                    f, b = linked['tf0'], linked['tb0']
                    op = f'{how} of the sim (continue on the copy)'
                elif k < 0.80 and len(active) < n:
                    gone = [u for u in range(n) if u not in active]; us = rng.sample(gone, min(len(gone), rng.randint(1, 2)))
                    ppl.alive[ss.uids(us)] = True      # a uid-indexed write into the cells of removed agents: the active set is not touched, now or at later removals
                    op = f'alive[uids({us})] = True (removed agents)'
                else:
                    op = 'read'
            except Exception as E:
                ctx.violation(f'valid array operation {k:.2f} raised {type(E).__name__}: {E}', key); break
            ctx.dist('reference:' + op.split('(')[0].split('[')[0].strip())
            c = rng.randrange(-8, 40) * 0.25
            checks = [
                ('values', list(map(float, f.values)), [M[u] for u in active]),
                ('len', len(f), len(active)),
                ('people.auids', list(map(int, ppl.auids)), list(active)),
                ('(f > c).uids', list(map(int, (f > c).uids)), [u for u in active if M[u] > c]),
                ('(f <= c).uids', list(map(int, (f <= c).uids)), [u for u in active if M[u] <= c]),
                ('b.true()', list(map(int, b.true())), [u for u in active if B[u]]),
                ('b.false()', list(map(int, b.false())), [u for u in active if not B[u]]),
                ('(~b).uids', list(map(int, (~b).uids)), [u for u in active if not B[u]]),
                ('(b & (f > c)).uids', list(map(int, (b & (f > c)).uids)), [u for u in active if B[u] and M[u] > c]),
                ('(b | (f > c)).uids', list(map(int, (b | (f > c)).uids)), [u for u in active if B[u] or M[u] > c]),
                ('f.sum()', float(f.sum()), float(np.float32(sum(np.float32(M[u]) for u in active))) if active else 0.0),
                ('b.count()', int(b.count()), sum(1 for u in active if B[u])),
                ('f[uids(all)]', list(map(float, f[ss.uids(list(range(n)))])) if False else None, None),
            ]
            ctx.count(('ref', rep, step))
            for nm, got, want in checks:
                if want is None: continue
                if got != want:
                    ctx.violation(f'after {op}: {nm} = {got}, reference map gives {want}', key | dict(op=op)); break
            t, fl = set(map(int, b.true())), set(map(int, b.false()))
            if t & fl or (t | fl) != set(active):
                ctx.violation(f'after {op}: true() and false() do not partition the active set', key | dict(op=op))
    # unsupported keys are rejected rather than silently reinterpreted
    sim, ppl, arrs = po.setup(ss, rng, 6)
    for bad in ([1, 2], np.array([0, 1]), 1.5, 'a'):
        ctx.count(('badkey', repr(bad))); ctx.dist('reference:unsupported key')
        try:
            arrs[0][bad]
            ctx.violation(f'Arr[{bad!r}] accepted (ambiguous key must be rejected)', dict(key=repr(bad)))
        except Exception:
            pass
    # integer indexing: the property (and the class docstring) say it sees only active agents
    sim, ppl, arrs = po.setup(ss, rng, 6)
    f = arrs[0]; f[ss.uids([0, 1, 2, 3, 4, 5])] = np.array([10., 11., 12., 13., 14., 15.])
    ppl.request_death(ss.uids([0])); ppl.step_die(); ppl.remove_dead()
    got = float(f[0]); ctx.count(('intkey',)); ctx.dist('reference:integer key')
    if got != float(f.values[0]):
        ctx.violation(f'integer indexing addresses the raw array: arr[0] = {got} (agent 0, removed) while the first ACTIVE agent holds {float(f.values[0])}',
                      dict(finding_key='int-key-indexes-raw', got=got, first_active=float(f.values[0])))


def run(ctx):
    ctx.translate(['Gen_Arr'])
    ctx.build_props('C11')
    try:
        import starsim as ss
    except Exception as E:
        raise Broken('correspondence', 'cannot import starsim', repr(E))
    ctx.cov['rule'] = ('array-heavy op sequences (set/get by uids, BoolArr keys, slices, empty keys, ints; comparisons; & | ^ ~; true/false; sum/count; '
                       'interleaved grow / death / removal) on real FloatArr/BoolArr/State vs the model (outputs and final snapshot compared in Coq); '
                       'uid set operators on random operand pairs; dict-based reference map replayed next to real arrays; non-trivial = sequence with a write')
    c10.correspondence(ctx, ss, ctx.n(150, 3000), WEIGHTS, 'arrays')
    uid_algebra(ctx, ss)
    ctx.guard('reference_oracle', reference_oracle, ctx, ss)


def replay(ctx, rp):
    run(ctx)
