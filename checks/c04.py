"""
C04 -- No random-number generator state is ever used twice in a run.

1. translator: Gen_Dist.v  2. obligations: Props/C04.v
3. correspondence: (a) op histories with a heavy error stream vs the L1 model (shared with C03);
   (b) run level: every non-empty draw of whole real runs is logged as (trace, ind, state_int) by a wrapper installed at
       run time; the model recomputes the state from (history[0], ind) exactly inside Coq (state_of_ind)
4. oracle on the implementation: logged start states pairwise distinct over the run, per-distribution indices strictly
   increasing, seeds pairwise distinct, refusals raised.
"""
import numpy as np
from vlib.core import Broken
from harness import dist_ops as do
from checks import c03

IMPORTS = 'Model.Prelude Model.L0_Pcg64 Gen.Gen_Dist Model.L1_Dist'


class DrawLog:
    """Wraps ss.Dist.rvs / ss.Dist.jump for the duration of a run (no source change)."""
    def __init__(self, ss):
        self.ss = ss; self.log = []; self.clean = {}; self.in_rvs = set(); self.foreign = []
    def __enter__(self):
        ss = self.ss; outer = self
        self.orig_rvs, self.orig_jump = ss.Dist.rvs, ss.Dist.jump
        def rvs(d, n=1, reset=False):
            pre = d.state_int; ind = d.ind
            has32 = d.state['has_uint32'] if d.state else 0
            # the generator SciPy will actually sample from on the scalar path of a SciPy-backed distribution
            try:
                rs = d.dist.random_state if (d.dist is not None and hasattr(d.dist, 'random_state')) else None
                if rs is not None and d.initialized and rs is not d.rng:
                    outer.foreign.append((d.trace, int(ind), int(rs.bit_generator.state['state']['state'])))
            except Exception:
                pass
            outer.in_rvs.add(id(d))
            try:
                out = outer.orig_rvs(d, n, reset=reset)
            finally:
                outer.in_rvs.discard(id(d))
            if np.size(out) > 0 and d.initialized:
                outer.log.append((d.trace, int(ind), int(pre), int(has32), id(d), 'rvs', int(np.size(out))))
            return out
        def jump(d, to=None, delta=1, force=False):
            # direct use of d.rng since the last jump (e.g. rng.permutation in RandomNet) shows up as a changed state
            key = id(d)
            if key in outer.clean:
                cind, cst = outer.clean[key]
                if d.state_int != cst and key not in outer.in_rvs:
                    outer.log.append((d.trace, int(cind), int(cst), 0, key, 'direct-rng', -1))
            r = outer.orig_jump(d, to=to, delta=delta, force=force)
            outer.clean[key] = (int(d.ind), int(d.state_int))
            return r
        ss.Dist.rvs, ss.Dist.jump = rvs, jump
        return self
    def __exit__(self, *a):
        self.ss.Dist.rvs, self.ss.Dist.jump = self.orig_rvs, self.orig_jump


def sim_configs(ss, rng, thorough):
    cfgs = []
    def add(name, f): cfgs.append((name, f))
    add('sir-random', lambda seed: ss.Sim(n_agents=120, diseases=ss.SIR(), networks=ss.RandomNet(), dur=8, rand_seed=seed, verbose=0))
    from harness.probes import ScipyDelay
    add('user-scipy-dists', lambda seed: ss.Sim(n_agents=80, diseases=ss.SIS(), networks=ss.RandomNet(), dur=6, rand_seed=seed, verbose=0,
        interventions=[ScipyDelay(name='delay_a'), ScipyDelay(name='delay_b')]))
    from harness.probes import PreUsed
    add('pre-used-dists', lambda seed: ss.Sim(n_agents=80, diseases=ss.SIS(), networks=ss.RandomNet(), dur=9, rand_seed=seed, verbose=0, copy_inputs=False,
        interventions=[PreUsed(name='preused')]))
    add('sis-random-births-deaths', lambda seed: ss.Sim(n_agents=150, diseases=ss.SIS(), networks=ss.RandomNet(n_contacts=ss.poisson(4)),
        demographics=[ss.Births(birth_rate=30), ss.Deaths(death_rate=20)], dur=8, rand_seed=seed, verbose=0))
    add('two-diseases-two-nets-own-dt', lambda seed: ss.Sim(n_agents=100, diseases=[ss.SIR(dt=0.5), ss.SIS(beta=0.1)],
        networks=[ss.RandomNet(), ss.MFNet()], dur=6, rand_seed=seed, verbose=0))
    add('pregnancy-maternal', lambda seed: ss.Sim(n_agents=200, diseases=ss.SIS(beta=dict(random=0.05, prenatal=0.1, postnatal=0.05)),
        networks=[ss.RandomNet(), ss.PrenatalNet(), ss.PostnatalNet()], demographics=[ss.Pregnancy(fertility_rate=60), ss.Deaths(death_rate=10)],
        dur=6, dt=0.5, rand_seed=seed, verbose=0))
    add('sir-erdosrenyi-vaccine', lambda seed: ss.Sim(n_agents=100, diseases=ss.SIR(), networks=ss.ErdosRenyiNet(p=0.05),
        interventions=ss.routine_vx(start_year=2001, prob=0.3, product=ss.sir_vaccine(efficacy=0.8)), dur=6, rand_seed=seed, verbose=0))
    def two_disease_tx(seed):      # one treatment product covering two co-circulating diseases (several table rows with eligible agents in one call) + a diagnostic with several rows
        import pandas as pd
        tx = ss.Tx(pd.DataFrame([dict(name='x', disease='sis', state='infected', efficacy=0.8, post_state='susceptible'), dict(name='x', disease='sir', state='infected', efficacy=0.7, post_state='recovered')]))
        dx = ss.Dx(pd.DataFrame([('sir', s_, r_, p_) for s_, pp in (('susceptible', 0.1), ('infected', 0.8), ('recovered', 0.3)) for r_, p_ in (('positive', pp), ('negative', 1 - pp))], columns=['disease', 'state', 'result', 'probability']), hierarchy=['positive', 'negative'])
        return ss.Sim(n_agents=150, diseases=[ss.SIS(init_prev=0.3), ss.SIR(init_prev=0.3, dur_inf=8)], networks=ss.RandomNet(), dur=6, rand_seed=seed, verbose=0,
                      interventions=[ss.routine_triage(product=dx, prob=0.5, eligibility=lambda sim: sim.people.auids, name='tri'), ss.treat_num(product=tx, prob=0.8, max_capacity=40, eligibility=lambda sim: sim.diseases.sis.infected.uids.union(sim.diseases.sir.infected.uids), name='trt')])
    add('two-disease-products', two_disease_tx)
    add('days-unit-mixingpool', lambda seed: ss.Sim(n_agents=100, diseases=ss.SIS(beta=ss.beta(0.02, 'day')), networks=ss.MixingPool(),
        unit='day', dt=2.0, start='2020-01-01', dur=20, rand_seed=seed, verbose=0))
    if thorough:
        add('hiv-mf', lambda seed: ss.Sim(n_agents=200, diseases=ss.HIV(beta={'mf': [0.1, 0.05]}), networks=ss.MFNet(), dur=10, rand_seed=seed, verbose=0))
        add('cholera', lambda seed: ss.Sim(n_agents=200, diseases=ss.Cholera(), networks=ss.RandomNet(), dur=30, unit='day', dt=1.0, start='2020-01-01', rand_seed=seed, verbose=0))
        add('measles-disk', lambda seed: ss.Sim(n_agents=150, diseases=ss.Measles(), networks=ss.DiskNet(), dur=8, rand_seed=seed, verbose=0))
        add('ebola-static', lambda seed: ss.Sim(n_agents=150, diseases=ss.Ebola(), networks=ss.StaticNet(), dur=8, rand_seed=seed, verbose=0))
        add('gonorrhea-msm', lambda seed: ss.Sim(n_agents=200, diseases=ss.Gonorrhea(beta={'msm': [0.1, 0.05]}), networks=ss.MSMNet(), dur=8, rand_seed=seed, verbose=0))
        add('ncd-embedding', lambda seed: ss.Sim(n_agents=200, diseases=[ss.NCD(), ss.SIS(beta={'embedding': [0.05, 0.05]})], networks=ss.EmbeddingNet(), dur=8, rand_seed=seed, verbose=0))
    return cfgs


def run_level(ctx, ss):
    rng = ctx.rng
    cfgs = sim_configs(ss, rng, ctx.thorough)
    nseeds = ctx.n(1, 5)
    terms, where = [], []
    for name, mk in cfgs:
        for s in range(nseeds):
            seed = rng.randrange(1, 10**5)
            try:
                sim = mk(seed)
                sim.init()
                with DrawLog(ss) as L:
                    sim.run()
            except Exception as E:
                raise Broken('correspondence', f'real run {name} failed: {type(E).__name__}: {E}')
            hist0 = {id(d): (int(d.history[0]['state']['state']), int(d.history[0]['state']['inc'])) for d in sim.dists.dists.values() if d.history}
            # premises of the full-period theorem (C04_distinct_indices_distinct_states), on every real generator: odd increment, state below 2^128
            for tr, d in sim.dists.dists.items():
                if d.history:
                    st0, inc0 = int(d.history[0]['state']['state']), int(d.history[0]['state']['inc'])
                    if inc0 % 2 != 1 or not (0 <= st0 < 2**128) or type(d.rng.bit_generator).__name__ != 'PCG64':
                        ctx.broke('correspondence', f'{name}: generator of {tr} does not meet the premises of the full-period theorem (PCG64, odd increment, state < 2^128)', repr(dict(trace=tr, inc=inc0, state=st0, bitgen=type(d.rng.bit_generator).__name__)))
            # the history every jump rewinds to starts at the state of a fresh generator of the distribution's own seed
            for tr, d in sim.dists.dists.items():
                if d.history:
                    fresh = np.random.default_rng(seed=d.seed).bit_generator.state['state']
                    h0 = d.history[0]['state']
                    if int(h0['state']) != int(fresh['state']) or int(h0['inc']) != int(fresh['inc']):
                        ctx.violation(f'{name}: distribution {tr} (seed {d.seed}) jumps from a base state that is not the initial state of its own seed: it replays the stream of an earlier initialisation', dict(config=name, seed=seed, trace=tr))
            seeds = {}
            for tr, d in sim.dists.dists.items():
                if d.seed in seeds:
                    ctx.violation(f'{name}: distributions {seeds[d.seed]} and {tr} share seed {d.seed}', dict(config=name, seed=seed))
                seeds[d.seed] = tr
            ctx.count((name, seed)); ctx.dist('run:' + name); ctx.dist('logged draws', len(L.log))
            fseen = {}
            for (tr, ind, st) in L.foreign:
                if st in fseen and fseen[st] != (tr, ind):
                    ctx.violation(f'{name}: SciPy-backed distribution {tr} samples from a generator other than its own, whose state is used twice '
                                  f'({fseen[st]} and {(tr, ind)})', dict(config=name, seed=seed, first=fseen[st], second=(tr, ind), state=str(st)))
                    break
                fseen[st] = (tr, ind)
            if L.foreign and not any(v['witness'].get('config') == name for v in ctx.violations):
                tr, ind, st = L.foreign[0]
                ctx.violation(f'{name}: SciPy-backed distribution {tr} samples from a generator that is not the distribution\'s own rng (never jumped or reseeded with it)',
                              dict(config=name, seed=seed, trace=tr, ind=ind))
            # oracle on the implementation: pairwise distinct start states; per-dist strictly increasing indices
            seen = {}
            last = {}
            maxcalls = {}
            for (tr, ind, st, has32, key, kind, sz) in L.log:
                if has32:
                    ctx.violation(f'{name}: draw of {tr} starts with a buffered half word (state carried over)', dict(config=name, seed=seed, trace=tr, ind=ind))
                if st in seen:
                    ctx.violation(f'{name}: generator state used twice: {tr} at index {ind} and {seen[st][0]} at index {seen[st][1]}',
                                  dict(config=name, seed=seed, first=seen[st], second=(tr, ind), state=str(st)))
                    break
                seen[st] = (tr, ind)
                if key in last and ind <= last[key]:
                    ctx.violation(f'{name}: jump index of {tr} did not increase between draws ({last[key]} then {ind})', dict(config=name, seed=seed, trace=tr))
                    break
                last[key] = ind
                maxcalls[tr] = max(maxcalls.get(tr, 0), ind % 1000)
                if key in hist0:
                    h = hist0[key]
                    terms.append(f'(mkPcg {h[0]} {h[1]} false 0, {ind}, {st})')
                    where.append((name, seed, tr, ind))
            ctx.cov['max_calls_per_step'] = max(ctx.cov.get('max_calls_per_step', 0), max(maxcalls.values(), default=0) + 1)
            if s == 0 and name == cfgs[0][0]:
                ctx.sample(dict(kind='run-level draw log (first 6)', config=name, seed=seed, draws=[(l[0], l[1], str(l[2]), l[5]) for l in L.log[:6]]))
    # model: the state at the start of every logged draw is state_of_ind hist0 ind, computed exactly in Coq
    step = max(1, len(terms) // ctx.n(600, 6000))
    sub = list(range(0, len(terms), step))
    ctx.cov['run_level_states_checked_in_coq'] = len(sub)
    bad = ctx.coq_mismatches('runstates', IMPORTS, 'pcg * Z * Z', [terms[i] for i in sub],
                             'Open Scope Z_scope.\nDefinition ok (c : pcg * Z * Z) : bool := let \'(g, i, st) := c in p_st (state_of_ind g i) =? st.', shard=50)
    for j in bad[:3]:
        ctx.broke('correspondence', f'run-level draw of {where[sub[j]]}: generator state is not state_of_ind(history[0], ind)')


def refusals(ctx, ss):
    """The refusing behaviours, directly on the implementation."""
    sim = do.mock_sim(list(range(10)))
    def expect(name, fn, exc):
        ctx.count(('refusal', name)); ctx.dist('refusal:' + name)
        try:
            fn()
        except Exception as E:
            if type(E).__name__ != exc:
                ctx.violation(f'{name}: raised {type(E).__name__}, expected {exc}', dict(case=name))
            return
        ctx.violation(f'{name}: no exception (expected {exc})', dict(case=name))
    d = ss.random(name='u')
    expect('uninitialised draw', lambda: d.rvs(3), 'DistNotInitializedError')
    d = ss.random(name='s', auto=False).init(trace='s', seed=1, sim=sim, module=do.MockModule())
    d.jump_dt(ti=1); d.rvs(ss.uids([1, 2]))
    expect('strict non-auto second draw', lambda: d.rvs(ss.uids([1, 2])), 'DistNotReadyError')
    d.jump(); d.rvs(ss.uids([1]))      # allowed again after a jump
    d = ss.random(name='b').init(trace='b', seed=1, sim=sim, module=do.MockModule())
    d.jump_dt(ti=5)
    st = d.state_int
    expect('backward jump_dt', lambda: d.jump_dt(ti=3), 'DistSeedRepeatError')
    expect('jump to same index', lambda: d.jump(to=d.ind), 'DistSeedRepeatError')
    expect('relative jump by 0', lambda: d.jump(delta=0), 'DistSeedRepeatError')
    expect('relative jump backwards', lambda: d.jump(delta=-2), 'DistSeedRepeatError')
    if d.state_int != st or d.ind != 5000:
        ctx.violation('a refused jump changed the distribution state', dict(case='refused jump mutates'))
    d.jump_dt(ti=3, force=True)
    if d.ind != 3000: ctx.violation('forced backward jump not honoured', dict(case='forced jump'))
    d2 = ss.random(name='r').init(trace='r', seed=3, sim=sim, module=do.MockModule())
    d2.jump_dt(ti=2); a = np.asarray(d2.rvs(ss.uids([1, 2, 3]))).tolist()
    try:
        d2.jump(delta=0); b = np.asarray(d2.rvs(ss.uids([1, 2, 3]))).tolist()
        if a == b: ctx.violation(f'after jump(delta=0) the next call starts from the generator state already used: both calls return {a}', dict(case='relative jump by 0 repeats the draw', values=a))
    except Exception:
        pass
    # stride overrun: >= dt_jump_size draws in one step -> next step's jump is refused, not silently overlapped
    d = ss.random(name='o').init(trace='o', seed=1, sim=sim, module=do.MockModule())
    d.jump_dt(ti=1)
    for _ in range(d.dt_jump_size): d.rvs(ss.uids([0]))
    expect('jump_dt after exhausting the stride', lambda: d.jump_dt(ti=2), 'DistSeedRepeatError')
    # duplicate seeds are caught at init
    class Holder: pass
    h = Holder(); h.a = ss.random(name='same'); h.b = ss.random(name='same')
    def dup():
        ds = ss.Dists(h)
        ds.init(base_seed=3, sim=sim)
    # both named 'same' but traces differ (a, b) -> different seeds; force equal traces instead
    def dup2():
        d1 = ss.random(); d2 = ss.random()
        dd = ss.Dists(); dd.dists = sc_obj(a=d1, b=d2)
        d1.init(trace='x', seed=1, sim=sim); d2.init(trace='x', seed=1, sim=sim)
        dd.check_seeds()
    import sciris as sc
    sc_obj = sc.objdict
    expect('equal seeds at init', dup2, 'DistSeedRepeatError')


def run(ctx):
    ctx.translate(['Gen_Dist'])
    ctx.build_props('C04')
    try:
        import starsim as ss
    except Exception as E:
        raise Broken('correspondence', 'cannot import starsim', repr(E))
    ctx.cov['rule'] = ('(a) op histories as in C03 (error stream: uninitialised, double draw on strict non-auto, backward/same-index jumps, forced jumps, resets) '
                       'vs the L1 model; (b) whole real runs with every non-empty draw logged as (trace, ind, state_int): state recomputed exactly by the model, '
                       'start states pairwise distinct, indices strictly increasing per distribution; non-trivial = history with a non-empty draw / a run')
    c03.correspondence(ctx, ss, ctx.n(120, 3000)); ctx.log('op-level correspondence done')
    run_level(ctx, ss); ctx.log('run-level done')
    ctx.guard('refusals', refusals, ctx, ss)


def replay(ctx, rp):
    run(ctx)
