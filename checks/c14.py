"""
C14 -- Contact networks reference only live agents and honour their rules.

1. translator: Gen_Net.v (end_pairs duration step / keep test; shape pins on remove_uids, append, DynamicNetwork.step, RandomNet
   get_source/get_edges/add_pairs, SexualNetwork.available/active, MaternalNet.step/end_pairs; positional-construction flags)
2. obligations: Props/C14.v
3. correspondence: edge-list operation sequences (append with durations, end_pairs under alive patterns, remove_uids) on a real
   dynamic network inside a real sim vs the model run in Coq; RandomNet.get_source vs the model
4. oracle on the implementation: a probe placed between the network phase and transmission checks at every step of real runs, for every
   built-in network type under births / deaths / pregnancy: equal column lengths, both endpoints active, partnership eligibility and
   no concurrency, random-network half-edge counts, timed-edge lifetimes, static networks changing only through death
"""
import math
import numpy as np
from vlib.core import Broken, qlit

IMPORTS = 'Model.Prelude Gen.Gen_Net Model.L5_Net'


def op_level(ctx, ss):
    rng = ctx.rng
    terms, metas = [], []
    for c in range(ctx.n(60, 1500)):
        n = rng.choice([6, 10, 16])
        dt = rng.choice([1.0, 0.5, 0.25])
        sim = ss.Sim(n_agents=n, networks=ss.RandomNet(n_contacts=0), diseases=ss.SIS(), dt=dt, verbose=0, rand_seed=c)
        sim.init()
        net = sim.networks.randomnet; ppl = sim.people
        for k in net.meta_keys(): net.edges[k] = net.edges[k][:0]
        net.validate_uids()
        alive = [True] * n
        ops_t, log = [], []
        def edges_now():
            return [(int(a), int(b), float(be), float(d)) for a, b, be, d in zip(net.edges.p1, net.edges.p2, net.edges.beta, net.edges.dur)]
        for _ in range(rng.randint(3, 10)):
            k = rng.random()
            if k < 0.4:
                m = rng.randint(1, 5)
                p1 = [rng.randrange(n) for _ in range(m)]; p2 = [rng.randrange(n) for _ in range(m)]
                dur = [rng.choice([0.0, 0.5, 1.0, 1.5, 2.0, 3.25]) for _ in range(m)]
                net.append(p1=np.array(p1), p2=np.array(p2), beta=np.ones(m, dtype=np.float32), dur=np.array(dur, dtype=np.float32))
                ops_t.append('(NAppend [' + '; '.join(f'mkDE {a} {b} 1 {qlit(d)}' for a, b, d in zip(p1, p2, dur)) + '])'); log.append(('append', p1, p2, dur))
            elif k < 0.7:
                for u in range(n):
                    if alive[u] and rng.random() < 0.15: alive[u] = False
                ppl.alive.raw[:n] = np.array(alive)
                net.end_pairs()
                ops_t.append('(NEndPairs [' + '; '.join('true' if a else 'false' for a in alive) + f'] {qlit(dt)})'); log.append(('end_pairs', list(alive)))
            else:
                us = rng.sample(range(n), rng.randint(0, 3))
                net.remove_uids(ss.uids(us))
                ops_t.append(f'(NRemove [' + '; '.join(map(str, us)) + ']%nat)'); log.append(('remove_uids', us))
        lens = {k: len(net.edges[k]) for k in net.meta_keys()}
        if len(set(lens.values())) != 1:
            ctx.violation(f'edge columns of unequal length after {log}: {lens}', dict(ops=log)); continue
        exp = '[' + '; '.join(f'mkDE {a} {b} {qlit(be)} {qlit(d)}' for a, b, be, d in edges_now()) + ']'
        terms.append(f'([' + '; '.join(ops_t) + f'], {exp})'); metas.append(dict(n=n, dt=dt, ops=log))
        ctx.count(repr(log), nontrivial=any(o[0] == 'append' for o in log))
        for o in log: ctx.dist('netop:' + o[0])
    okdef = '''Inductive nop := NAppend (es : list dedge) | NEndPairs (alive : list bool) (dt : Q) | NRemove (us : list nat).
Definition nstep (es : list dedge) (o : nop) : list dedge :=
  match o with
  | NAppend new => append_edges es new
  | NEndPairs al dt => end_pairs (fun u => nth u al false) dt es
  | NRemove us => remove_uids es us end.
Definition de_eqb (a b : dedge) : bool := andb (Nat.eqb (d_p1 a) (d_p1 b)) (andb (Nat.eqb (d_p2 a) (d_p2 b)) (andb (Qeq_bool (d_beta a) (d_beta b)) (Qeq_bool (d_dur a) (d_dur b)))).
Fixpoint des_eqb (a b : list dedge) : bool := match a, b with [], [] => true | x :: a', y :: b' => andb (de_eqb x y) (des_eqb a' b') | _, _ => false end.
Definition ok (c : list nop * list dedge) : bool := des_eqb (fold_left nstep (fst c) []) (snd c).'''
    bad = ctx.coq_mismatches('netops', IMPORTS, 'list nop * list dedge', terms, okdef, shard=100)
    for j in bad[:3]:
        ctx.broke('correspondence', 'edge-list operation sequence on a real dynamic network: model and implementation disagree', repr(metas[j])[:1200])
    if metas: ctx.sample(dict(kind='network op sequence', **metas[0]))
    # the binary64 count-down (float_countdown / float_edge_kept over primitive floats): one edge of duration k * dt on a real network, end_pairs
    # called k + 1 times; presence after each call is compared bit for bit with the model, and with the stated duration (present iff j < k)
    from fractions import Fraction as F_
    fterms, fmetas, overrun = [], [], []
    import random as _random
    frng = _random.Random(ctx.seed * 7919 + 14)      # its own stream: the other probes keep their cases
    for dtf in [F_(1, 10), F_(1, 12), F_(1, 52), F_(1, 20), F_(1, 5), F_(1, 4), F_(1, 2), F_(1)]:
        for k in (range(1, 9) if ctx.tier != 'quick' else frng.sample(range(1, 9), 4)):
            dt = float(dtf); dur = float(k * dtf)
            sim = ss.Sim(n_agents=4, networks=ss.RandomNet(n_contacts=0), diseases=ss.SIS(), dt=dt, verbose=0, rand_seed=k)
            sim.init(); net = sim.networks.randomnet
            for kk in net.meta_keys(): net.edges[kk] = net.edges[kk][:0]
            net.append(p1=np.array([0]), p2=np.array([1]), beta=np.ones(1, dtype=np.float32), dur=np.array([dur], dtype=np.float64))
            if net.edges.dur.dtype != np.float64: continue
            ctx.count(('float-countdown', str(dtf), k)); ctx.dist('binary64 count-down')
            for j in range(1, k + 2):
                net.end_pairs(); present = len(net.edges.p1) == 1
                fterms.append(f'({j}%nat, {dur.hex()}%float, {dt.hex()}%float, {"true" if present else "false"})'); fmetas.append(dict(dt=str(dtf), k=k, calls=j, present=present))
                if present != (j < k): overrun.append((str(dtf), k, j, present))
                if not present: break
    bad = ctx.coq_mismatches('c14float', IMPORTS, 'nat * PrimFloat.float * PrimFloat.float * bool', fterms,
                             "From Coq Require Import PrimFloat.\nDefinition ok (c : nat * PrimFloat.float * PrimFloat.float * bool) : bool := let '(n, d, dt, b) := c in Bool.eqb (float_edge_kept n d dt) b.", shard=300)
    for j in bad[:3]: ctx.broke('correspondence', 'presence of a timed edge after n calls of the real end_pairs differs from float_edge_kept (binary64 count-down)', repr(fmetas[j]))
    ctx.cov['binary64_countdown_replayed'] = len(fterms)
    if overrun:
        ctx.violation(f'timed edges do not end after their stated duration k * dt (dt, k, calls of end_pairs, still present): {overrun[:6]}', dict(cases=overrun[:12], finding_key='timed-edges-float-countdown-extra-step'))
    # RandomNet.get_source
    terms = []
    for c in range(ctx.n(40, 600)):
        m = rng.randint(0, 8); inds = rng.sample(range(50), m); ns = [rng.randrange(0, 5) for _ in range(m)]
        src = ss.RandomNet.get_source(np.array(inds, dtype=np.int64), np.array(ns, dtype=np.int64)) if m else np.array([], dtype=int)
        terms.append(f'([' + '; '.join(map(str, inds)) + ']%nat, [' + '; '.join(map(str, ns)) + ']%nat, [' + '; '.join(str(int(x)) for x in src) + ']%nat)')
        ctx.count(('get_source', tuple(inds), tuple(ns))); ctx.dist('get_source')
    okdef = '''Fixpoint ns_eqb (a b : list nat) : bool := match a, b with [], [] => true | x :: a', y :: b' => andb (Nat.eqb x y) (ns_eqb a' b') | _, _ => false end.
Definition ok (c : list nat * list nat * list nat) : bool := let '(i, n, s) := c in ns_eqb (get_source i n) s.'''
    bad = ctx.coq_mismatches('getsource', IMPORTS, 'list nat * list nat * list nat', terms, okdef, shard=300)
    for j in bad[:2]: ctx.broke('correspondence', 'RandomNet.get_source: model and implementation disagree', terms[j])


def make_probe(ss):
    class NetProbe(ss.Intervention):
        """Runs in the intervention phase: after every network has stepped, before transmission."""
        def __init__(self, **kw):
            super().__init__(**kw); self.problems = []; self.sizes = {}; self.static_prev = {}
        def step(self):
            sim = self.sim; ppl = sim.people; ti = int(sim.t.ti)
            active = np.asarray(ppl.auids); aset = set(map(int, active))
            for name, net in sim.networks.items():
                if not isinstance(net, ss.Network): continue
                lens = {k: len(net.edges[k]) for k in net.meta_keys()}
                if len(set(lens.values())) > 1:
                    self.problems.append((ti, name, 'columns', f'edge columns have different lengths {lens}')); continue
                p1, p2 = np.asarray(net.edges.p1), np.asarray(net.edges.p2)
                self.sizes.setdefault(name, []).append(len(p1))
                dang = [int(u) for u in np.concatenate([p1, p2]) if int(u) not in aset]
                if dang:
                    self.problems.append((ti, name, 'dangling', f'{len(dang)} edge endpoints are not active agents (e.g. uid {dang[0]})'))
                if isinstance(net, ss.SexualNetwork) and len(p1):
                    allp = np.concatenate([p1, p2])
                    u, cnt = np.unique(allp, return_counts=True)
                    if (cnt > 1).any():
                        self.problems.append((ti, name, 'concurrency', f'agent {int(u[cnt > 1][0])} has {int(cnt.max())} concurrent partners'))
                    if not ppl.alive.raw[allp].all():
                        self.problems.append((ti, name, 'eligibility', f'partner {int(allp[~ppl.alive.raw[allp]][0])} is not alive'))
                    if type(net).__name__ in ('MFNet', 'EmbeddingNet'):
                        if ppl.female.raw[p1].any() or (~ppl.female.raw[p2]).any():
                            self.problems.append((ti, name, 'sex', 'MF pair is not male x female'))
                    if type(net).__name__ == 'MSMNet' and (ppl.female.raw[allp]).any():
                        self.problems.append((ti, name, 'sex', 'MSM pair contains a female agent'))
                if type(net).__name__ == 'StaticNet':
                    cur = set(zip(map(int, p1), map(int, p2)))
                    prev = self.static_prev.get(name)
                    if prev is not None:
                        added = cur - prev
                        lost_alive = [e for e in prev - cur if e[0] in aset and e[1] in aset]
                        if added: self.problems.append((ti, name, 'static', f'static network gained edges {list(added)[:2]}'))
                        if lost_alive: self.problems.append((ti, name, 'static', f'static network lost edge {lost_alive[0]} between two living agents'))
                    self.static_prev[name] = cur
    return NetProbe


class AppendWatch:
    """Wraps ss.Network.append for the duration of a run: eligibility of partners is checked at PAIRING time."""
    def __init__(self, ss): self.ss = ss; self.problems = []
    def __enter__(self):
        ss = self.ss; outer = self; self.orig = ss.Network.append
        def append(net, edges=None, **kwargs):
            try:
                if type(net).__name__ == 'RandomNet':
                    import sciris as sc
                    e = sc.mergedicts(edges, kwargs)
                    a1, a2 = np.asarray(e['p1'], dtype=int), np.asarray(e['p2'], dtype=int)
                    u1, c1 = np.unique(a1, return_counts=True); u2, c2 = np.unique(a2, return_counts=True)
                    d1 = dict(zip(map(int, u1), map(int, c1))); d2 = dict(zip(map(int, u2), map(int, c2)))
                    if d1 != d2:
                        bad = [u for u in set(d1) | set(d2) if d1.get(u, 0) != d2.get(u, 0)]
                        outer.problems.append((net.name, f'random network created {d1.get(bad[0], 0)} outgoing and {d2.get(bad[0], 0)} incoming half-edges for agent {bad[0]}'))
                    ppl = net.sim.people
                    elig = set(map(int, (ppl.alive & (ppl.age > 0)).uids))
                    nc = net.pars.n_contacts
                    if not isinstance(nc, ss.Dist) and float(nc) % 2 == 0:
                        want = int(float(nc) // 2)
                        wrong = [u for u in elig if d1.get(u, 0) != want]
                        if wrong: outer.problems.append((net.name, f'eligible agent {wrong[0]} received {d1.get(wrong[0], 0)} outgoing half-edges, requested {want}'))
                    extra = [u for u in d1 if u not in elig]
                    if extra: outer.problems.append((net.name, f'agent {extra[0]} (not alive or not yet born) received half-edges'))
                if isinstance(net, ss.SexualNetwork) and getattr(net, 'sim', None) is not None:
                    import sciris as sc
                    e = sc.mergedicts(edges, kwargs); ppl = net.sim.people
                    allp = np.concatenate([np.asarray(e['p1'], dtype=int), np.asarray(e['p2'], dtype=int)])
                    if len(allp):
                        okm = ppl.alive.raw[allp] & net.participant.raw[allp] & (ppl.age.raw[allp] > net.debut.raw[allp])
                        if not okm.all():
                            u = int(allp[~okm][0])
                            outer.problems.append((net.name, f'agent {u} paired while not eligible (alive={bool(ppl.alive.raw[u])}, participant={bool(net.participant.raw[u])}, '
                                                             f'age={float(ppl.age.raw[u]):.2f}, debut={float(net.debut.raw[u]):.2f})'))
                        already = set(map(int, net.edges.p1)) | set(map(int, net.edges.p2))
                        both = [int(u) for u in allp if int(u) in already]
                        if both: outer.problems.append((net.name, f'agent {both[0]} paired while already in a partnership'))
            except Exception as E:
                outer.problems.append((getattr(net, 'name', '?'), f'append watcher failed: {type(E).__name__}: {E}'))
            return outer.orig(net, edges, **kwargs)
        ss.Network.append = append
        return self
    def __exit__(self, *a): self.ss.Network.append = self.orig


def run_level(ctx, ss):
    rng = ctx.rng
    NetProbe = make_probe(ss)
    demog = {'none': lambda: [], 'births-deaths': lambda: [ss.Births(birth_rate=60), ss.Deaths(death_rate=60)],
             'pregnancy-deaths': lambda: [ss.Pregnancy(fertility_rate=80), ss.Deaths(death_rate=60)]}
    nets = {
        'random': lambda: ss.RandomNet(n_contacts=4, dur=rng.choice([0, 1.5])), 'static': lambda: ss.StaticNet(n_contacts=4),
        'erdosrenyi': lambda: ss.ErdosRenyiNet(p=0.05), 'disk': lambda: ss.DiskNet(r=0.15), 'null': lambda: ss.NullNet(),
        'mf': lambda: ss.MFNet(duration=ss.lognorm_ex(mean=3, std=1)), 'msm': lambda: ss.MSMNet(), 'embedding': lambda: ss.EmbeddingNet(duration=ss.lognorm_ex(mean=3, std=1)),
        'maternal': lambda: [ss.PrenatalNet(), ss.PostnatalNet(), ss.RandomNet(n_contacts=2)],
    }
    for nname, mknet in nets.items():
        for dname, mkd in demog.items():
            if nname == 'maternal' and dname != 'pregnancy-deaths': continue
            if not ctx.thorough and dname == 'none' and nname not in ('random', 'static'): continue
            for rep in range(ctx.n(4, 8) if nname == 'maternal' else ctx.n(1, 5)):      # deaths of a mother / child with a live maternal edge are rare: more runs
                seed = rng.randrange(1, 10**4)
                net = mknet()
                key = net[0].name if isinstance(net, list) else net.name
                betas = {n_.name: 0.05 for n_ in (net if isinstance(net, list) else [net])}
                try:
                    sim = ss.Sim(n_agents=160 if nname == 'maternal' else 80, diseases=ss.SIS(beta=betas, init_prev=0.2), networks=net, demographics=mkd(), interventions=NetProbe(name='netprobe'),
                                 dur=8, dt=rng.choice([1.0, 0.5]), rand_seed=seed, verbose=0)
                    with AppendWatch(ss) as aw:
                        sim.run()
                    for netname, what in aw.problems[:2]:
                        ctx.violation(f'{nname} network under {dname}: {what}', dict(network=netname, cls=nname, demographics=dname, seed=seed, kind='pairing'))
                except Exception as E:
                    ctx.violation(f'network {nname} with demographics {dname}: run raised {type(E).__name__}: {E}', dict(network=nname, demographics=dname, seed=seed)); continue
                ctx.count(('run', nname, dname, seed)); ctx.dist(f'run:{nname}/{dname}')
                probe = sim.interventions.netprobe
                seen = set()
                for ti, name, kind, what in probe.problems:
                    if (name, kind) in seen: continue
                    seen.add((name, kind))
                    w = dict(network=name, cls=nname, demographics=dname, seed=seed, ti=ti, kind=kind)
                    if kind == 'dangling' and nname in ('erdosrenyi', 'disk'): w['finding_key'] = f'{nname}-positional-edges'
                    ctx.violation(f'{nname} network under {dname}, step {ti}: {what}', w)
    # timed-edge lifetimes on a population without churn: n_edges[t] = per_step * min(t+1, k), k = max(1, ceil(dur/dt))
    for dur, dt, simdt in [(0, 1.0, 1.0), (1.0, 1.0, 1.0), (2.5, 1.0, 1.0), (1.0, 0.5, 0.5), (1.5, 0.5, 0.5), (3.0, 0.25, 0.25), (1.0, 0.25, 1.0), (1.5, 0.5, 0.125)]:
        # the network (and the probe) may run on their own dt, different from the sim's
        sim = ss.Sim(n_agents=40, diseases=ss.SIS(beta=0.01), networks=ss.RandomNet(n_contacts=4, dur=dur, dt=dt), interventions=NetProbe(name='netprobe', dt=dt),
                     dur=5, dt=simdt, rand_seed=1, verbose=0, use_aging=False)
        sim.run()
        sizes = sim.interventions.netprobe.sizes['randomnet']
        k = max(1, math.ceil(dur / dt - 1e-9))
        per = 40 * 2
        # edges created at initialisation have already been through one end-of-step update when step 0 transmits
        want = [per * min(t + 1, k) + (per if t < k - 1 else 0) for t in range(len(sizes))]
        ctx.count(('lifetime', dur, dt, simdt)); ctx.dist('timed-edge lifetime')
        if sizes != want:
            t = next(i for i, (a, b) in enumerate(zip(sizes, want)) if a != b)
            ctx.violation(f'RandomNet(dur={dur}, dt={dt}) in a sim with dt={simdt}: {sizes[t]} edges present at the transmission phase of step {t}; edges lasting {k} step(s) give {want[t]}',
                          dict(dur=dur, dt=dt, sizes=sizes[:8], expected=want[:8]))


def large_removal(ctx, ss):
    """remove_uids on a large persistent edge list with many agents removed at once (NumPy switches algorithms with size):
    exactly the edges with a removed endpoint disappear, the others keep their order."""
    rng = ctx.rng
    for rep in range(ctx.n(4, 30)):
        n = rng.choice([300, 500, 800]); ne = rng.choice([1500, 3000, 6000]); k = rng.choice([25, 60, 150])
        p1 = np.array([rng.randrange(n) for _ in range(ne)]); p2 = np.array([rng.randrange(n) for _ in range(ne)])
        beta = np.arange(ne, dtype=float)          # tags each edge
        net = ss.Network(p1=p1.copy(), p2=p2.copy(), beta=beta.copy())
        gone = np.array(rng.sample(range(n), k))
        net.remove_uids(ss.uids(gone))
        keep = ~(np.isin(p1, gone) | np.isin(p2, gone))
        ctx.count(('large-removal', n, ne, k), nontrivial=True); ctx.dist('large removal')
        got = np.asarray(net.edges.beta, dtype=float)
        if not np.array_equal(got, beta[keep]):
            lost = sorted(set(beta[keep]) - set(got)); kept = sorted(set(got) - set(beta[keep]))
            what = (f'{len(lost)} edges between two remaining agents were deleted (e.g. edge ({int(p1[int(lost[0])])}, {int(p2[int(lost[0])])}))' if lost
                    else f'{len(kept)} edges with a removed endpoint survived' if kept else 'the surviving edges changed order')
            ctx.violation(f'Network.remove_uids of {k} agents from {ne} edges over {n} agents: {what}', dict(n=n, n_edges=ne, n_removed=k, rep=rep))


def creation_rules(ctx, ss):
    """The rules by which networks create edges: an Erdos-Renyi network holds each possible pair with probability p (6-sigma band), a random network gives
    every agent about n_contacts contacts, a static network exactly the edges of its graph."""
    rng = ctx.rng
    for p in (0.01, 0.05, 0.2):
        n = 300; seed = rng.randrange(1, 10**4)
        sim = ss.Sim(n_agents=n, networks=ss.ErdosRenyiNet(p=p), diseases=ss.SIS(), dur=2, rand_seed=seed, verbose=0); sim.init()
        net = sim.networks[0]
        if len(net) == 0: sim.run_one_step()
        pairs = n * (n - 1) / 2; got = len(net); want = p * pairs; sd = (pairs * p * (1 - p)) ** 0.5
        ctx.count(('erdos-renyi-p', p, seed), nontrivial=True); ctx.dist('creation rule: Erdos-Renyi edge probability')
        if abs(got - want) > 6 * sd + 1:
            ctx.violation(f'ErdosRenyiNet(p={p}) on {n} agents holds {got} of the {int(pairs)} possible pairs ({got / pairs:.4f}); each pair is to be an edge with probability {p} ({want:.0f} +- {sd:.0f})', dict(probe='erdos-renyi-p', p=p, seed=seed, edges=got))
    # the pair numbers themselves: ss.utils.combine_rands on unsigned 64-bit draws vs the model (exact bits; the division in binary64 within 1e-15)
    from vlib.core import qlit as _ql
    nr = np.random.Generator(np.random.PCG64(rng.randrange(1, 10**6)))
    aa = nr.integers(0, 2**64, size=ctx.n(60, 600), dtype=np.uint64); bb = nr.integers(0, 2**64, size=len(aa), dtype=np.uint64)
    uu = np.asarray(ss.utils.combine_rands(aa, bb), dtype=float)
    terms = [f'({int(a_)}%Z, {int(b_)}%Z, {_ql(float(u_))})' for a_, b_, u_ in zip(aa, bb, uu)]
    for _ in terms: ctx.count(('combine', _[:30]))
    ctx.dist('combine_rands pairs replayed in Coq', len(terms))
    bad = ctx.coq_mismatches('c14comb', IMPORTS, 'Z * Z * Q', terms, "Definition ok (c : Z * Z * Q) : bool := let '(a, b, u) := c in Qclose (1 # 100000000000000) (combine_u64 a b) u.", shard=300)
    for j in bad[:3]: ctx.broke('correspondence', f'ss.utils.combine_rands({int(aa[j])}, {int(bb[j])}) = {float(uu[j])} differs from the model combine_u64')
    for r_ in (0.1, 0.25):      # disk network: exactly the pairs of active agents closer than r
        n = 120; seed = rng.randrange(1, 10**4)
        sim = ss.Sim(n_agents=n, networks=ss.DiskNet(r=r_), diseases=ss.SIS(), demographics=[ss.Births(birth_rate=40), ss.Deaths(death_rate=40)], dur=3, rand_seed=seed, verbose=0); sim.init()
        for stepno in range(3):
            net = sim.networks[0]; au = np.asarray(sim.people.auids)
            x = np.asarray(net.x.raw, dtype=float); y = np.asarray(net.y.raw, dtype=float)
            i1, i2 = np.triu_indices(len(au), k=1); a, b = au[i1], au[i2]
            close_ = (x[b] - x[a]) ** 2 + (y[b] - y[a]) ** 2 < r_ ** 2
            want = set(zip(a[close_].tolist(), b[close_].tolist())); got = set(zip(np.asarray(net.edges.p1).tolist(), np.asarray(net.edges.p2).tolist()))
            ctx.count(('disk-rule', r_, seed, stepno), nontrivial=True); ctx.dist('creation rule: DiskNet radius')
            if got != want:
                ctx.violation(f'DiskNet(r={r_}) at step {stepno}: {len(got - want)} edges join agents farther apart than r and {len(want - got)} pairs closer than r have no edge', dict(probe='disk-rule', r=r_, seed=seed, step=stepno)); break
            sim.run(until=sim.t.yearvec[min(stepno + 1, sim.t.npts - 1)]) if False else [sim.loop.run_one_step() for _ in range(len(sim.loop.plan) // sim.t.npts)]
    for k in (2, 4, 10):
        n = 400; seed = rng.randrange(1, 10**4)
        sim = ss.Sim(n_agents=n, networks=ss.RandomNet(n_contacts=k), diseases=ss.SIS(), dur=2, rand_seed=seed, verbose=0); sim.init()
        net = sim.networks[0]
        if len(net) == 0: sim.run_one_step()
        deg = np.bincount(np.concatenate([np.asarray(net.edges.p1), np.asarray(net.edges.p2)]), minlength=n)
        ctx.count(('random-contacts', k, seed), nontrivial=True); ctx.dist('creation rule: RandomNet contacts per agent')
        if abs(deg.mean() - k) > 0.05 * k + 1e-9:
            ctx.violation(f'RandomNet(n_contacts={k}) gives agents {deg.mean():.3f} contacts on average', dict(probe='random-contacts', k=k, seed=seed))


def run(ctx):
    ctx.translate(['Gen_Net'])
    ctx.build_props('C14')
    try:
        import starsim as ss
    except Exception as E:
        raise Broken('correspondence', 'cannot import starsim', repr(E))
    ctx.cov['rule'] = ('edge-list op sequences (append with durations, end_pairs under random deaths, remove_uids; 3-10 ops) on a real RandomNet vs the model; '
                       'run level: a probe between the network phase and transmission at every step, for every built-in network class x {no demographics, '
                       'births+deaths, pregnancy+deaths}; non-trivial = sequence with an append / a run')
    op_level(ctx, ss)
    ctx.guard('run_level', run_level, ctx, ss)
    ctx.guard('large_removal', large_removal, ctx, ss)
    ctx.guard('creation_rules', creation_rules, ctx, ss)


def replay(ctx, rp):
    run(ctx)
