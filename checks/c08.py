"""
C08 -- Each module steps exactly once per own time point, in phase order.

1. translator: Gen_Loop.v (phases of collect_funcs, Sim.modules chain, sort key, eps; shape pins on __iadd__, make_plan
   cross product, finish_step, Loop.run, Sim.run)
2. obligations: Props/C08.v
3. correspondence: for generated module sets with per-module unit/dt/start/stop the model's plan (owner, method, time)
   is compared with sim.loop.plan, then the real loop is single-stepped and (owner.ti, sim.ti) recorded before every call
   and compared with the model's executed trace (run_rows)
4. oracle on the implementation: an independently built reference schedule (every method once per own time point,
   non-decreasing time, documented phase order within an instant, clock == index of scheduled instant, final clocks)
"""
import numpy as np
from fractions import Fraction as F
from vlib.core import Broken, qlit

IMPORTS = 'Model.Prelude Model.L4_LoopBase Gen.Gen_Loop Model.L4_Loop'
METH = ['start_step', 'step', 'step_state', 'step_die', 'update_results', 'finish_step']
MCOQ = ['MStartStep', 'MStep', 'MStepState', 'MStepDie', 'MUpdateResults', 'MFinishStep']
GCOQ = {'demographics': 'GDemographics', 'networks': 'GNetworks', 'diseases': 'GDiseases', 'connectors': 'GConnectors',
        'interventions': 'GInterventions', 'analyzers': 'GAnalyzers', 'products': 'GProducts'}
PHASE_DOC = ['start_step', 'demographics', 'step_state', 'connectors', 'networks', 'interventions', 'transmission', 'step_die',
             'update_results', 'analyzers', 'finish_step']


def make_sim(ss, rng):
    """A random module set on random (mostly different) timelines."""
    from harness.probes import ProbeIntv, ProbeAna, ProbeConn
    calendar = rng.random() < 0.3
    if calendar:
        simkw = dict(unit='day', dt=rng.choice([1.0, 2.0, 7.0]), start='2020-01-01', dur=rng.choice([14, 21, 30]))
    else:
        simkw = dict(unit='year', dt=rng.choice([1.0, 1.0, 0.5, 0.25]), start=2000, dur=rng.choice([2, 3, 4, 5, 6]))
    def tkw():
        k = rng.random()
        if k < 0.35: return {}
        if k < 0.45 and not calendar and simkw['dt'] == 1.0 and simkw['dur'] % 2 == 0:
            # same NUMBER of time points as the sim but different instants (second half of the run at half the step)
            return dict(unit='year', dt=0.5, start=2000 + simkw['dur'] // 2, stop=2000 + simkw['dur'])
        dt = simkw['dt'] * rng.choice([0.5, 2.0, 1.0, 3.0])
        if calendar: dt = max(1.0, float(int(dt)))
        kw = dict(dt=dt)
        if calendar and k > 0.7: kw = dict(unit='week', dt=rng.choice([1.0, 2.0]))     # another unit on a calendar sim
        if k > 0.8 and not calendar:
            kw = dict(unit='year', dt=dt, start=2000 + rng.choice([0, 1]), stop=2000 + simkw['dur'] - rng.choice([0, 1]))
        return kw
    diseases = [ss.SIR(**tkw())]
    if rng.random() < 0.5: diseases.append(ss.SIS(**tkw()))
    networks = [ss.RandomNet(**tkw())]
    if rng.random() < 0.3: networks.append(ss.MFNet(**tkw()))
    demog = []
    if rng.random() < 0.5: demog.append(ss.Deaths(**tkw()))
    if rng.random() < 0.3: demog.append(ss.Births(**tkw()))
    intvs = [ProbeIntv(name=f'pintv{i}', **tkw()) for i in range(rng.choice([0, 1, 2]))]
    if rng.random() < 0.3 and not calendar:
        intvs.append(ss.routine_vx(start_year=2000, prob=0.1, product=ss.sir_vaccine()))
    anas = [ProbeAna(name=f'pana{i}', **tkw()) for i in range(rng.choice([0, 1, 2]))]
    conns = [ProbeConn(name='pconn', **tkw())] if rng.random() < 0.3 else []
    sim = ss.Sim(n_agents=30, diseases=diseases, networks=networks, demographics=demog, interventions=intvs, analyzers=anas,
                 connectors=conns, verbose=0, rand_seed=rng.randrange(1000), **simkw)
    return sim, simkw


def describe(sim, ss):
    """(sim abstvec, [(name, group, is_disease, abstvec)]) in the order the sim holds the modules."""
    mods = []
    for grp in ['demographics', 'networks', 'diseases', 'connectors', 'interventions', 'analyzers']:
        for m in getattr(sim, grp)():
            mods.append((m.name, grp, isinstance(m, ss.Disease), [float(x) for x in m.t.abstvec], m))
    for intv in sim.interventions():
        if getattr(intv, 'product', None) is not None and not any(intv.product is m[4] for m in mods):      # a product shared by several interventions is ONE module
            p = intv.product
            mods.append((p.name, 'products', isinstance(p, ss.Disease), [float(x) for x in p.t.abstvec], p))
    # module objects, not names, identify the owners of schedule rows: two products may share their (default) name
    seen = {}
    for i, m in enumerate(mods):
        seen[m[0]] = seen.get(m[0], 0) + 1
        if seen[m[0]] > 1: mods[i] = (f'{m[0]}#{seen[m[0]]}',) + m[1:]
    return [float(x) for x in sim.t.abstvec], mods


def reference_oracle(ctx, ss, sim, executed, label):
    """executed: list of (module name, func name, time, owner_ti, sim_ti, owner_now_index_ok)."""
    simvec, mods = describe(sim, ss)
    names = {m[0]: m for m in mods}
    # exactly once per own time point
    from collections import Counter
    cnt = Counter((e[0], e[1], round(e[2], 9)) for e in executed)
    for (mod, fn, t), c in cnt.items():
        if c != 1:
            ctx.violation(f'{label}: {mod}.{fn} invoked {c} times at t={t}', dict(config=label, module=mod, func=fn, time=t)); return
    for name, grp, isd, vec, obj in mods:
        for fn in set(e[1] for e in executed if e[0] == name):
            got = sorted(round(e[2], 9) for e in executed if e[0] == name and e[1] == fn)
            if got != sorted(round(x, 9) for x in vec):
                ctx.violation(f'{label}: {name}.{fn} invoked at {len(got)} instants, module has {len(vec)} time points',
                              dict(config=label, module=name, func=fn)); return
    # on calendar sims a module is called at the instant its own clock shows: the date of its time point lies in (previous sim date, current sim date]
    try:
        sd = [d.date().toordinal() if hasattr(d, 'date') else None for d in sim.t.datevec]
        if not sim.t.is_numeric and all(x is not None for x in sd):
            for e in executed:
                if e[0] not in names: continue
                obj = names[e[0]][4]
                md = obj.t.datevec[e[3]]
                md = md.date().toordinal() if hasattr(md, 'date') else None
                if md is None: continue
                # sim.ti is advanced at the end of each sim instant: a module instant strictly between two sim instants sees the upcoming index
                hi = sd[e[4]]; lo = sd[e[4] - 1] if e[4] >= 1 else None
                if (md > hi and e[4] < len(sd) - 1) or (lo is not None and md <= lo):
                    ctx.violation(f'{label}: {e[0]}.{e[1]} is called while the sim clock shows {sim.t.datevec[e[4]]} but the module\'s own time point {e[3]} is {obj.t.datevec[e[3]]}', dict(config=label, module=e[0], func=e[1])); return
    except Exception:
        pass
    # non-decreasing time
    for a, b in zip(executed, executed[1:]):
        if b[2] < a[2] - 1e-9:
            ctx.violation(f'{label}: executed out of time order: {a[0]}.{a[1]}@{a[2]} before {b[0]}.{b[1]}@{b[2]}', dict(config=label)); return
    # documented phase order within an instant
    def phase(e):
        mod, fn = e[0], e[1]
        if fn == 'start_step': return 0
        if fn == 'finish_step': return 10
        if fn == 'update_results': return 8
        if fn == 'step_die': return 7
        if fn == 'step_state': return 2
        grp = names[mod][1] if mod in names else None
        return {'demographics': 1, 'connectors': 3, 'networks': 4, 'interventions': 5, 'diseases': 6, 'analyzers': 9}.get(grp, 5)
    for a, b in zip(executed, executed[1:]):
        if abs(a[2] - b[2]) < 1e-9 and phase(b) < phase(a):
            ctx.violation(f'{label}: phase order violated at t={a[2]}: {a[0]}.{a[1]} ({PHASE_DOC[phase(a)]}) ran before {b[0]}.{b[1]} ({PHASE_DOC[phase(b)]})',
                          dict(config=label)); return
    # clocks denote the scheduled instant
    for e in executed:
        mod, fn, t, oti, sti = e[:5]
        vec = simvec if mod in ('sim', 'people') else names[mod][3]
        if not (0 <= oti < len(vec)) or abs(vec[oti] - t) > 1e-9:
            ctx.violation(f'{label}: at {mod}.{fn} scheduled for t={t} the module clock reads ti={oti} (time {vec[oti] if 0 <= oti < len(vec) else None})',
                          dict(config=label, module=mod, func=fn, time=t, ti=oti)); return


def run(ctx):
    ctx.translate(['Gen_Loop'])
    ctx.build_props('C08')
    try:
        import starsim as ss
    except Exception as E:
        raise Broken('correspondence', 'cannot import starsim', repr(E))
    rng = ctx.rng
    ctx.cov['rule'] = ('random module sets (1-2 diseases, 1-2 networks, 0-2 demographics, 0-3 interventions incl. one with a product, 0-2 analyzers, 0-1 connector) '
                       'with per-module dt/unit/start/stop overrides on year- and day-based sims; the model plan and executed clock trace are compared '
                       'row by row with sim.loop.plan and a single-stepped real run; non-trivial = at least one module on a timeline different from the sim')
    terms, metas = [], []
    n = ctx.n(18, 300)
    mingap = 1e9
    def forced(c):
        """calendar sims whose step is not one unit, with modules on another unit / step (always included)"""
        from harness.probes import ProbeIntv, ProbeAna
        if c == 0:
            kw = dict(unit='day', dt=2.0, start='2020-01-01', dur=28)
            return ss.Sim(n_agents=30, diseases=ss.SIR(unit='week', dt=1.0), networks=ss.RandomNet(), demographics=ss.Deaths(dt=7.0), analyzers=ProbeAna(name='pana0', dt=4.0), verbose=0, **kw), kw
        if c == 2:      # modules of the sim's own unit with whole-number steps that start later than the sim
            kw = dict(unit='day', dt=1.0, start='2020-01-01', dur=21)
            return ss.Sim(n_agents=30, diseases=ss.SIR(unit='day', dt=2.0, start='2020-01-11'), networks=ss.RandomNet(), interventions=ProbeIntv(name='pintv0', unit='day', dt=1.0, start='2020-01-05'), analyzers=ProbeAna(name='pana0', unit='day', dt=3.0, start='2020-01-04', stop='2020-01-19'), verbose=0, **kw), kw
        if c == 3:
            kw = dict(unit='week', dt=1.0, start='2020-01-01', dur=10)
            return ss.Sim(n_agents=30, diseases=ss.SIS(unit='week', dt=1.0, start='2020-01-22'), networks=ss.RandomNet(), analyzers=ProbeAna(name='pana0', unit='week', dt=2.0, start='2020-01-15'), verbose=0, **kw), kw
        if c == 4:      # two interventions, each with its own product of the same (default) name
            kw = dict(unit='year', dt=1.0, start=2000, dur=5)
            return ss.Sim(n_agents=30, diseases=ss.SIR(), networks=ss.RandomNet(), interventions=[ss.routine_vx(name='vxa', start_year=2000, prob=0.1, product=ss.sir_vaccine()), ss.routine_vx(name='vxb', start_year=2001, prob=0.2, product=ss.sir_vaccine(efficacy=0.5))], verbose=0, **kw), kw
        if c == 5:      # one product object shared by two interventions
            kw = dict(unit='year', dt=1.0, start=2000, dur=5); shared = ss.sir_vaccine()
            return ss.Sim(n_agents=30, diseases=ss.SIR(), networks=ss.RandomNet(), interventions=[ss.routine_vx(name='vxa', start_year=2000, prob=0.1, product=shared), ss.routine_vx(name='vxb', start_year=2001, prob=0.2, product=shared)], verbose=0, **kw), kw
        kw = dict(unit='week', dt=2.0, start='2020-01-01', dur=12)
        return ss.Sim(n_agents=30, diseases=ss.SIS(unit='day', dt=7.0), networks=ss.RandomNet(dt=4.0), interventions=ProbeIntv(name='pintv0', unit='week', dt=1.0), verbose=0, **kw), kw
    for c in range(n):
        try:
            sim, simkw = forced(c) if c < 6 else make_sim(ss, rng)
            sim.init()
        except Exception as E:
            ctx.dist('config rejected by constructor: ' + type(E).__name__); continue
        simvec, mods = describe(sim, ss)
        label = f'cfg{c}:' + ','.join(f'{m[0]}[{len(m[3])}]' for m in mods)
        nontriv = any(len(m[3]) != len(simvec) for m in mods)
        ctx.count(label, nontrivial=nontriv); ctx.dist('modules per sim = %d' % len(mods)); ctx.dist('timelines differ' if nontriv else 'single timeline')
        alltimes = sorted(set(round(t, 12) for m in mods for t in m[3]) | set(round(t, 12) for t in simvec))
        if len(alltimes) > 1: mingap = min(mingap, min(b - a for a, b in zip(alltimes, alltimes[1:])))
        plan = sim.loop.plan
        executed = []
        owners = {m[0]: m[4] for m in mods}
        keyof = {id(m[4]): m[0] for m in mods}
        try:
            for i in range(len(plan)):
                modname, fname, t = plan.module[i], plan.func_name[i], float(plan.time[i])
                modname = keyof.get(id(getattr(plan.func[i], '__self__', None)), modname)
                oti = sim.t.ti if modname in ('sim', 'people') else owners[modname].t.ti
                executed.append((modname, fname, t, int(oti), int(sim.t.ti)))
                sim.loop.run_one_step()
            sim.run()    # completes (index == len(plan)): finalize, clock fix-up
        except Exception as E:
            ctx.violation(f'{label}: single-stepping the real loop raised {type(E).__name__}: {E}', dict(config=label)); continue
        for name, grp, isd, vec, obj in mods:
            if obj.t.ti != len(vec) - 1:
                ctx.violation(f'{label}: after completion {name}.ti = {obj.t.ti}, final index is {len(vec)-1}', dict(config=label, module=name))
        if sim.t.ti != len(simvec) - 1:
            ctx.violation(f'{label}: after completion sim.ti = {sim.t.ti}, final index is {len(simvec)-1}', dict(config=label))
        for name, grp, isd, vec, obj in mods:
            if not any(e[0] == name for e in executed):
                ctx.violation(f'{label}: module {name} ({grp}) never appears in the schedule: none of its per-step methods is invoked', dict(config=label, module=name))
        reference_oracle(ctx, ss, sim, executed, label)
        # Coq case
        ids = {m[0]: i for i, m in enumerate(mods)}
        def ocode(nm): return -1 if nm == 'sim' else (-2 if nm == 'people' else ids[nm])
        modterm = '[' + '; '.join(f'mkMod {i} {GCOQ[m[1]]} {"true" if m[2] else "false"} [' + '; '.join(qlit(x) for x in m[3]) + ']' for i, m in enumerate(mods)) + ']'
        exp = '[' + '; '.join(f'(({ocode(e[0])})%Z, {METH.index(e[1])}%nat, {qlit(e[2])}, {e[3]}%nat, {e[4]}%nat)' for e in executed) + ']'
        terms.append(f'([' + '; '.join(qlit(x) for x in simvec) + f'], {modterm}, {exp})')
        metas.append(dict(config=label, sim=simkw, n_rows=len(executed)))
        if c == 0:
            ctx.sample(dict(kind='schedule', config=label, first_rows=executed[:8], n_rows=len(executed)))
    ctx.cov['min_gap_between_distinct_instants'] = mingap
    okdef = '''Open Scope Z_scope.
Definition ocode (o : owner) : Z := match o with OSim => -1 | OPeople => -2 | OMod i => Z.of_nat i end.
Definition mcode (m : method) : nat := match m with MStartStep => 0 | MStep => 1 | MStepState => 2 | MStepDie => 3 | MUpdateResults => 4 | MFinishStep => 5 end.
Definition rowok (x : row * nat * nat) (e : Z * nat * Q * nat * nat) : bool :=
  let '(r, oti, sti) := x in let '(oc, mc, t, eoti, esti) := e in
  andb (ocode (f_owner (r_func r)) =? oc) (andb (Nat.eqb (mcode (f_meth (r_func r))) mc) (andb (Qeq_bool (r_time r) t) (andb (Nat.eqb oti eoti) (Nat.eqb sti esti)))).
Fixpoint all2 (a : list (row * nat * nat)) (b : list (Z * nat * Q * nat * nat)) : bool :=
  match a, b with [], [] => true | x :: a', y :: b' => andb (rowok x y) (all2 a' b') | _, _ => false end.
Definition ok (c : list Q * list modl * list (Z * nat * Q * nat * nat)) : bool :=
  let '(tv, mods, exp) := c in all2 (snd (run_rows clocks0 (plan tv mods))) exp.'''
    bad = ctx.coq_mismatches('plans', IMPORTS, 'list Q * list modl * list (Z * nat * Q * nat * nat)', terms, okdef, shard=1)
    for j in bad[:3]:
        ctx.broke('correspondence', f'{metas[j]["config"]}: the model plan / clock trace and the single-stepped real loop disagree', repr(metas[j]))


def replay(ctx, rp):
    run(ctx)
