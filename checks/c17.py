"""
C17 -- Parameters are applied exactly as given or rejected, never dropped.

1. translator: Gen_Pars.v -- the type-dispatch tables of Pars.update / _update_timepar / _update_dist (every arm must be a recognised action);
   shape pins on check_key_mismatch, Module.update_pars / define_pars, Sim.__init__
2. obligations: Props/C17.v
3. correspondence: (a) the isinstance / callable facts the model assumes for each value kind are evaluated on real objects; (b) for every built-in
   module class, every parameter and every value form, the real Pars.update is run and its outcome (error class, or how the stored parameter
   was changed) compared with update_leaf evaluated in Coq
4. oracle on the implementation: supplied values are in effect after construction (constructor keywords, pars dict, nested dict, Sim-level
   module specifications) or an error was raised; unknown names are rejected at every nesting route; equivalent spellings of a configuration
   give bit-identical results; user-held module objects are neither mutated nor shared between sims unless copy_inputs=False
"""
import copy
import numpy as np
import pandas as pd
from numbers import Number
from vlib.core import Broken

IMPORTS = 'Model.Prelude Model.L6_ParsBase Gen.Gen_Pars Model.L6_Pars'


def encode(ss, sc, x):
    """the model's kind of a real value"""
    if isinstance(x, bool) or isinstance(x, Number): return 'NVNum 1'
    if isinstance(x, str): return 'NVStr "s"'
    if isinstance(x, list): return 'NVList [1; 2]%Z'
    if x is None: return 'NVNone'
    if isinstance(x, (pd.Series, pd.DataFrame)): return 'NVFrame 0'
    if isinstance(x, np.ndarray): return 'NVArr 0'
    if isinstance(x, ss.TimePar): return f'NVTimePar {"true" if isinstance(x, ss.dur) else "false"} {"true" if isinstance(x, ss.beta) else "false"} 1'
    if isinstance(x, ss.Dist):
        ft = 'None'
        try:
            p0 = x.pars[0] if len(x.pars) else None
            if isinstance(p0, ss.TimePar): ft = f'(Some {"true" if isinstance(p0, ss.dur) else "false"})'
        except Exception: pass
        return f'NVDist {"true" if isinstance(x, ss.bernoulli) else "false"} {ft} 0'
    if isinstance(x, ss.ndict): return f'NVNdict {"true" if not len(x) else "false"}'
    if isinstance(x, ss.Module): return 'NVModule 0'
    if isinstance(x, ss.Pars): return None
    if isinstance(x, dict):
        ty = x.get('type')
        return f'NVDict {"None" if ty is None else "(Some " + chr(34) + str(ty) + chr(34) + ")"} []'
    if sc.isfunc(x): return 'NVFunc 0'
    if callable(x): return None
    return 'NVOther 0'


def run(ctx):
    ctx.translate(['Gen_Pars'])
    ctx.build_props('C17')
    try:
        import starsim as ss, sciris as sc
        from starsim.parameters import atomic_classes
    except Exception as E:
        raise Broken('correspondence', 'cannot import starsim', repr(E))
    rng = ctx.rng
    ctx.cov['rule'] = ('every built-in module class x every parameter name x value forms (number, bool, list, dict, dict with type, distribution, Bernoulli, duration, rate, '
                       'function, string, None, array, frame, tuple): real Pars.update outcome vs update_leaf in Coq; constructor / pars dict / nested / Sim-level routes; unknown keys at '
                       'every route; equivalent spellings; user-held objects; non-trivial = an update that is accepted')
    # ------------------------------------------------------------ (a) class facts
    reps = dict(num=3, flt=2.5, boolean=True, s='x', lst=[1, 2], arr=np.array([1., 2.]), none=None, series=pd.Series([1]), df=pd.DataFrame(dict(a=[1])), ndict0=ss.ndict(), ndict1=ss.ndict(ss.SIR()),
                module=ss.SIR(), dur=ss.dur(3), rate=ss.rate(2), beta=ss.beta(0.1), tp=ss.time_prob(0.1), dist=ss.normal(1, 2), distdur=ss.lognorm_ex(ss.dur(3), ss.dur(1)), bern=ss.bernoulli(0.3), func=lambda x: x,
                dct=dict(a=1), dtyped=dict(type='normal', loc=1), od=sc.objdict(a=1), tup=(1, 2), st={1}, date=ss.date('2020-01-01'))
    old_tests = dict(TAtomic=lambda o: isinstance(o, atomic_classes), TPars=lambda o: isinstance(o, ss.Pars), TNdict=lambda o: isinstance(o, ss.ndict), TModule=lambda o: isinstance(o, ss.Module),
                     TTimePar=lambda o: isinstance(o, ss.TimePar), TDist=lambda o: isinstance(o, ss.Dist), TCallable=callable, TDict=lambda o: isinstance(o, dict))
    new_tests = dict(NTimePar=lambda o: isinstance(o, ss.TimePar), NFrame=lambda o: isinstance(o, (pd.Series, pd.DataFrame)), NNumber=lambda o: isinstance(o, Number), NList=lambda o: isinstance(o, list),
                     NDict=lambda o: isinstance(o, dict), NDist=lambda o: isinstance(o, ss.Dist), NFunc=sc.isfunc)
    fterms, fmeta = [], []
    for name, v in reps.items():
        enc = encode(ss, sc, v)
        if enc is None: continue
        fo = '[' + '; '.join(f'({t}, {"true" if f(v) else "false"})' for t, f in old_tests.items() if t != 'TPars') + ']'
        fn = '[' + '; '.join(f'({t}, {"true" if f(v) else "false"})' for t, f in new_tests.items()) + ']'
        fterms.append(f'({enc}, {fo}, {fn})'); fmeta.append(dict(value=name, encoded=enc))
        ctx.count(('fact', name)); ctx.dist('class facts')
    bad = ctx.coq_mismatches('parsfacts', IMPORTS, 'nv * list (otest * bool) * list (ntest * bool)', fterms,
        'From Coq Require Import String.\nOpen Scope string_scope.\nDefinition ok (c : nv * list (otest * bool) * list (ntest * bool)) : bool := let \'(x, fo, fn) := c in andb (forallb (fun p => Bool.eqb (sat_old x (fst p)) (snd p)) fo) (forallb (fun p => Bool.eqb (sat_new x (fst p)) (snd p)) fn).', shard=100)
    for j in bad[:3]: ctx.broke('correspondence', 'the isinstance / callable facts of a value kind differ between the model (sat_old / sat_new) and real objects', repr(fmeta[j]))
    # ------------------------------------------------------------ (b) differential update over all module classes
    mods = []
    for group, d in ss.find_modules().items():
        for nm, cls in d.items():
            mods.append((group, nm, cls))
    def forms():
        return dict(num=0.37, boolean=True, lst=[2, 1], dct=dict(), dtyped=dict(type='normal', loc=1, scale=2), dist=ss.normal(3, 1), bern=ss.bernoulli(0.25), dur=ss.dur(4), rate=ss.rate(0.2),
                    func=lambda self, sim, uids: np.full(len(uids), 0.5), s='text', none=None, arr=np.array([1., 2.]), frame=pd.DataFrame(dict(a=[1])), tup=(1, 2))
    uterms, umeta = [], []
    nviol = 0
    def viol(msg, w):
        nonlocal nviol
        nviol += 1
        if nviol <= 6: ctx.violation(msg, w)
    def observe(old, new, stored, fname):
        """how the stored parameter relates to the supplied value"""
        if stored is new: return 'orig'
        if stored is old:
            try:
                if isinstance(old, ss.TimePar):
                    if isinstance(new, Number) and old.v == new: return 'arg'
                    if isinstance(new, list) and old.v == new[0]: return 'star'
                    if isinstance(new, dict) and all(getattr(old, k) == v for k, v in new.items()): return 'kw'
                if isinstance(old, ss.Dist):
                    p = list(old.pars.values())
                    if isinstance(new, list) and p[:len(new)] == new: return 'star'
                    if isinstance(new, dict) and all(old.pars[k] == v for k, v in new.items()): return 'kw'
                    if len(p) and (p[0] is new or (isinstance(new, Number) and p[0] == new)): return 'arg'
            except Exception:
                pass
            return 'unchanged-object'
        if isinstance(new, dict) and new.get('type') and isinstance(stored, ss.Dist) and stored is not old: return 'made'
        try:
            if stored == new: return 'orig'
        except Exception: pass
        return 'other'
    nclass = 0
    for group, nm, cls in mods:
        try: base = cls()
        except Exception: continue
        if not hasattr(base, 'pars'): continue      # e.g. CD4_analyzer does not call Module.__init__
        nclass += 1
        names = list(base.pars.keys())
        for pname in names:
            old0 = base.pars[pname]
            eold = encode(ss, sc, old0)
            if eold is None: continue
            fs = forms()
            keys = list(fs)
            if ctx.tier == 'quick': keys = rng.sample(keys, 6)
            for fname in keys:
                new = fs[fname]
                try: mod = cls()
                except Exception: break
                old = mod.pars[pname]
                enew = encode(ss, sc, new)
                if isinstance(new, dict) and not new.get('type') and isinstance(old, ss.Dist): new = {}   # same-type dict: no keywords (always valid)
                try:
                    mod.pars.update({pname: new})
                    got = 'set:' + observe(old, new, mod.pars[pname], fname)
                except sc.KeyNotFoundError: got = 'err:key'
                except TypeError: got = 'err:type'
                except Exception as E: got = 'err:' + type(E).__name__
                ctx.count((nm, pname, fname), nontrivial=got.startswith('set')); ctx.dist('update ' + got)
                W = dict(module=nm, par=pname, form=fname, outcome=got)
                if got in ('set:unchanged-object', 'set:other'):
                    viol(f'{cls.__name__}.pars.update({pname}=<{fname}>) returned normally but the stored parameter is neither the supplied value nor re-parameterised with it ({got})', W)
                code = {'set:orig': 0, 'set:arg': 1, 'set:star': 2, 'set:kw': 3, 'set:made': 4, 'err:type': 5, 'err:key': 6}.get(got)
                if code is None:
                    if got.startswith('err:'): code = 7     # another error class raised deeper (e.g. by Dist.set): rejected, acceptable; the model must not predict "set"
                    else: continue
                uterms.append(f'({eold}, {enew}, {code}%nat)'); umeta.append(W)
    ctx.cov['module_classes'] = nclass
    okdef = '''From Coq Require Import String.
Open Scope string_scope.
Definition code_of (o : outcome) : nat := match o with
  | OSet v => match reparam v with Orig => 0 | SetArg _ => 1 | SetStar _ => 2 | SetKw _ => 3 | Made _ _ => 4 end
  | OErr ETypeError => 5 | OErr EKeyNotFound => 6 | ODelegated => 8 end%nat.
Definition ok (c : nv * nv * nat) : bool := let '(o, n, k) := c in
  let m := code_of (update_leaf (mkSV o Orig) n) in
  (* an error raised deeper (by Dist.set / TimePar.set on a re-parameterisation) is a rejection too: tolerated where the model re-parameterises *)
  orb (Nat.eqb m k) (orb (andb (orb (Nat.eqb k 7) (Nat.eqb k 5)) (andb (Nat.leb 1 m) (Nat.leb m 4))) (Nat.eqb m 8)).'''
    bad = ctx.coq_mismatches('parsupdate', IMPORTS, 'nv * nv * nat', uterms, okdef, shard=400)
    for j in bad[:3]: ctx.broke('correspondence', 'Pars.update: the outcome on a real module parameter differs from update_leaf (generated dispatch tables)', repr(umeta[j]))
    # ------------------------------------------------------------ (c) routes and unknown keys
    for group, nm, cls in mods:
        try:
            if not len(getattr(cls(), 'pars', {})): continue    # the bare Network classes take their keywords as edge data (documented), they have no parameters
        except Exception: continue
        for route in ('kwarg', 'pars'):
            bogus = 'no_such_parameter_' + nm
            try:
                cls(**{bogus: 1}) if route == 'kwarg' else cls(pars={bogus: 1})
                viol(f'{cls.__name__}({bogus}=1) via {route} was accepted: unknown parameter names must be rejected', dict(module=nm, route=route))
            except Exception:
                pass
            ctx.count(('unknown', nm, route)); ctx.dist('unknown key rejected')
    for kw, what in [(dict(no_such=1), 'Sim(no_such=1)'), (dict(pars=dict(no_such=1)), 'Sim(pars={no_such})'), (dict(diseases=dict(type='sir', no_such=1)), "Sim(diseases={type:sir,no_such})"),
                     (dict(diseases=dict(type='nonexistent')), 'Sim(diseases={type:nonexistent})'), (dict(networks=dict(type='random', n_contactz=3)), 'Sim(networks={type:random,n_contactz})'),
                     (dict(diseases=dict(beta=0.1)), 'Sim(diseases={no type})'), (dict(n_agentss=100), 'Sim(n_agentss)')]:
        try:
            s = ss.Sim(**kw, verbose=0); s.init()
            viol(f'{what} was accepted (constructed and initialised)', dict(spec=what))
        except Exception:
            pass
        ctx.count(('unknown-sim', what)); ctx.dist('unknown key rejected')
    # nested parameter dicts addressed to the modules of a populated container: applied to the named module, rejected for an unknown module name
    for grp, mods_, good, goodpar, val, badname in [('diseases', lambda: ss.ndict(ss.SIR(), ss.SIS()), 'sis', 'beta', 0.37, 'siss'), ('networks', lambda: ss.ndict(ss.RandomNet(), ss.MFNet()), 'randomnet', 'n_contacts', 7, 'measles'),
                                                    ('demographics', lambda: ss.ndict(ss.Births(), ss.Deaths()), 'deaths', 'rel_death', 0.25, 'death')]:
        try:
            sim = ss.Sim(**{grp: mods_()}, verbose=0)
            sim.pars.update({grp: {good: {goodpar: val}}})
            cur = sim.pars[grp][good].pars[goodpar]
            ok_ = (cur == val) or (isinstance(cur, ss.TimePar) and cur.v == val) or (isinstance(cur, ss.Dist) and list(cur.pars.values())[0] == val)
            ctx.count(('ndict-nested', grp), nontrivial=True); ctx.dist('nested update of a populated container')
            if not ok_: viol(f'sim.pars.update({grp}={{{good!r}: {{{goodpar!r}: {val}}}}}) is not in effect: {cur!r}', dict(route='ndict-nested', group=grp))
        except Exception as E:
            viol(f'nested update of {grp}.{good}.{goodpar} raised {type(E).__name__}: {E}', dict(route='ndict-nested', group=grp))
        try:
            sim = ss.Sim(**{grp: mods_()}, verbose=0)
            sim.pars.update({grp: {badname: {goodpar: val}}})
            viol(f'sim.pars.update({grp}={{{badname!r}: ...}}) names a module that is not in the container and was accepted silently', dict(route='ndict-unknown-module', group=grp))
        except Exception:
            pass
        ctx.count(('ndict-unknown', grp)); ctx.dist('unknown key rejected')
    # values in effect through the constructor routes
    def eff(mod, name, val):
        cur = mod.pars[name]
        if isinstance(mod, ss.Deaths) and name == 'death_rate': cur = mod.death_rate_data     # Deaths keeps the supplied rate as data and wraps it in a Bernoulli (its effect is C16's subject)
        if cur is val: return True
        if isinstance(cur, ss.TimePar) and isinstance(val, Number): return cur.v == val
        if isinstance(cur, ss.Dist) and isinstance(val, Number): return list(cur.pars.values())[0] == val
        if isinstance(cur, ss.Dist) and isinstance(val, list): return list(cur.pars.values())[:len(val)] == val
        if isinstance(cur, ss.Dist) and isinstance(val, ss.Dist): return type(cur) is type(val) and repr(dict(cur.pars)) == repr(dict(val.pars))
        if isinstance(cur, ss.TimePar) and isinstance(val, ss.TimePar): return type(cur) is type(val) and cur.v == val.v and cur.unit == val.unit
        try: return bool(cur == val)
        except Exception: return False
    for group, nm, cls in mods:
        try: base = cls()
        except Exception: continue
        if not hasattr(base, 'pars'): continue
        for pname in list(base.pars.keys()):
            old = base.pars[pname]
            cands = []
            if isinstance(old, bool): cands = [not old]
            elif isinstance(old, Number): cands = [old * 0.5 + 0.125]
            elif isinstance(old, ss.bernoulli): cands = [0.625, ss.bernoulli(0.125)]
            elif isinstance(old, ss.Dist): cands = [ss.constant(0.625)] + ([[0.5, 0.25]] if len(old.pars) >= 2 and not any(isinstance(v, ss.TimePar) for v in old.pars.values()) else [])
            elif isinstance(old, ss.TimePar) and not isinstance(old, ss.beta): cands = [type(old)(0.625)]
            elif isinstance(old, str): cands = []
            for val in cands:
                for route in ('kwarg', 'pars', 'simdict'):
                    try:
                        v2 = copy.deepcopy(val)
                        if route == 'kwarg': mod = cls(**{pname: v2})
                        elif route == 'pars': mod = cls(pars={pname: v2})
                        else:
                            if pname in ('name', 'label', 'unit', 'dt', 'type'): continue
                            s = ss.Sim(**{group: dict(type=nm, **{pname: v2})}, verbose=0); s.pars.validate() if hasattr(s.pars, 'validate') else None
                            mod = list(s.pars[group].values())[0] if hasattr(s.pars[group], 'values') else s.pars[group][0]
                    except Exception:
                        ctx.dist('route rejected'); continue
                    ctx.count(('route', nm, pname, route, type(val).__name__), nontrivial=True); ctx.dist('route ' + route)
                    if pname not in mod.pars: continue
                    if route == 'pars':
                        # the caller's dict is not consumed: a second module built from the SAME dict gets the same parameters
                        try:
                            shared = {pname: copy.deepcopy(val)}
                            m1 = cls(pars=shared); keys_after = list(shared.keys()); m2 = cls(pars=shared)
                            if keys_after != [pname]: viol(f'{cls.__name__}(pars=d) changed the caller\'s dict d (keys {keys_after} after the call, [{pname!r}] before)', dict(module=nm, par=pname, route='pars-twice'))
                            elif not eff(m2, pname, shared[pname]): viol(f'{cls.__name__}: the second module built from the same pars dict does not have {pname}={val!r} in effect: {m2.pars[pname]!r}', dict(module=nm, par=pname, route='pars-twice'))
                        except Exception:
                            pass
                    if not eff(mod, pname, v2):
                        viol(f'{cls.__name__}: {pname}={val!r} supplied through {route} is not in effect: the parameter is {mod.pars[pname]!r}', dict(module=nm, par=pname, route=route))
    # ------------------------------------------------------------ (d) equivalent spellings, user-held objects
    def res(sim):
        sim.run()
        return {k: np.asarray(v, dtype=float).tobytes() for k, v in sim.results.flatten().items() if hasattr(v, '__len__') and not isinstance(v, str)}
    def spellings(seed):
        kw = dict(n_agents=200, dur=10, rand_seed=seed, verbose=0)
        return {
            'objects': lambda: ss.Sim(diseases=ss.SIR(beta=0.07, init_prev=0.05), networks=ss.RandomNet(n_contacts=4), **kw),
            'strings+pars': lambda: ss.Sim(diseases=dict(type='sir', beta=0.07, init_prev=0.05), networks=dict(type='random', n_contacts=4), **kw),
            'pars dict': lambda: ss.Sim(pars=dict(diseases=dict(type='sir', beta=0.07, init_prev=0.05), networks=dict(type='random', n_contacts=4), **kw)),
            'class in dict': lambda: ss.Sim(diseases=dict(type=ss.SIR, beta=0.07, init_prev=0.05), networks=dict(type=ss.RandomNet, n_contacts=4), **kw),
            'lists': lambda: ss.Sim(diseases=[ss.SIR(pars=dict(beta=0.07, init_prev=0.05))], networks=[ss.RandomNet(pars=dict(n_contacts=4))], **kw),
            'mixed kwargs/pars': lambda: ss.Sim(pars=dict(n_agents=200, dur=10), diseases=ss.SIR(beta=0.07, init_prev=0.05), networks=ss.RandomNet(n_contacts=4), rand_seed=seed, verbose=0),
            'timepar spelled': lambda: ss.Sim(diseases=ss.SIR(beta=ss.beta(0.07), init_prev=ss.bernoulli(0.05)), networks=ss.RandomNet(n_contacts=ss.constant(4)), **kw),
        }
    for rep in range(ctx.n(2, 10)):
        seed = rng.randrange(1, 10**4)
        sp = spellings(seed)
        ref = None
        for name, mk in sp.items():
            try: r = res(mk())
            except Exception as E:
                viol(f'equivalent spelling `{name}` raised {type(E).__name__}: {E}', dict(spelling=name, seed=seed)); continue
            ctx.count(('spelling', name, seed), nontrivial=True); ctx.dist('spelling ' + name)
            if ref is None: ref = (name, r); continue
            diff = [k for k in ref[1] if k in r and ref[1][k] != r[k]] + [k for k in set(ref[1]) ^ set(r)]
            if diff: viol(f'spellings `{ref[0]}` and `{name}` of the same configuration give different results (first differing series: {diff[0]})', dict(spelling=name, seed=seed))
        # user-held objects
        sir = ss.SIR(beta=0.07, init_prev=0.05); net = ss.RandomNet(n_contacts=4)
        snap = (repr(sir.pars), sir.initialized, repr(net.pars))
        s1 = ss.Sim(diseases=sir, networks=net, n_agents=200, dur=10, rand_seed=seed, verbose=0); r1 = res(s1)
        ctx.count(('userobj', seed), nontrivial=True); ctx.dist('user-held objects')
        if (repr(sir.pars), sir.initialized, repr(net.pars)) != snap or getattr(sir, 'sim', None) is not None and sir.initialized:
            viol('a module object passed to ss.Sim() was mutated by the run (copy_inputs=True)', dict(seed=seed))
        if s1.diseases[0] is sir or s1.networks[0] is net: viol('the sim uses the caller\'s module object itself although copy_inputs=True', dict(seed=seed))
        s2 = ss.Sim(diseases=sir, networks=net, n_agents=200, dur=10, rand_seed=seed, verbose=0); r2 = res(s2)
        if s2.diseases[0] is s1.diseases[0]: viol('two sims built from the same module object share it', dict(seed=seed))
        if r1 != r2: viol('re-using a module object in a second sim gives different results', dict(seed=seed))
        if ref is not None and any(ref[1][k] != r1[k] for k in ref[1] if k in r1): viol('a sim built from user-held module objects differs from the equivalent spellings', dict(seed=seed))


def replay(ctx, rp):
    run(ctx)
