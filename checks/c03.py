"""
C03 -- An agent's draw depends only on seed, distribution, time, call ordinal and slot.

1. translator: Gen_Dist.v from starsim/distributions.py (stride, jump targets/guard, size-from-slots; shape pins on rvs paths)
2. obligations: Props/C03.v
3. correspondence (bit-exact): operation histories on real ss.random / ss.bernoulli objects vs the L1 model run in Coq
4. search/oracle on the implementation: the property itself for all 16 families x parameter modes (nested / permuted /
   repeated uid sets, different earlier histories), pairwise draws, and sim-level population extension by isolated agents.
"""
import numpy as np
from fractions import Fraction as F
from vlib.core import Broken
from harness import dist_ops as do

IMPORTS = 'Model.Prelude Model.L0_Pcg64 Gen.Gen_Dist Model.L1_Dist'


def correspondence(ctx, ss, n_cases, families=('random', 'bernoulli')):
    rng = ctx.rng
    terms = {f: [] for f in families}
    meta = {f: [] for f in families}
    for c in range(n_cases):
        fam = families[c % len(families)]
        n_agents = rng.choice([5, 12, 30, 60])
        slots = do.gen_slots(rng, n_agents)
        strict, auto = rng.choice([(True, True)] * 5 + [(True, False), (False, True), (False, False)])
        init = rng.random() > 0.04
        ops = do.gen_ops(rng, n_agents, rng.randint(3, 12), strict, auto)
        if not init:    # an uninitialised (strict) distribution: only draws are attempted; each must be refused
            strict = True
            ops = [o for o in ops if o[0] in ('rvs', 'rvsn')] or [('rvsn', 3, False)]
        seed = rng.randrange(0, 10**6)
        p = rng.choice([0.0, 1.0, 0.5, 0.1, 0.999]) if rng.random() < 0.4 else rng.random()
        try:
            hist0, outs, final = do.run_impl(ss, fam, seed, slots, strict, auto, ops, p=p, init=init)
        except Exception as E:
            raise Broken('correspondence', f'driving a real ss.{fam} failed: {type(E).__name__}: {E}')
        bern = (0, 0)
        if fam == 'bernoulli':
            pf = F(float(np.float32(p)))    # NumPy weak-scalar rule: float32 array < python float compares in float32
            bern = (pf.numerator, pf.denominator)
        terms[fam].append(do.case_term(hist0, strict, auto, slots, ops, outs, final, init=init, bern=bern))
        meta[fam].append(dict(family=fam, seed=seed, slots=slots, strict=strict, auto=auto, init=init, ops=ops, p=p, impl=outs, final=final))
        ctx.count((fam, seed, tuple(slots), strict, auto, repr(ops)), nontrivial=any(o[0] in ('rvs', 'rvsn') and (o[1] if o[0] == 'rvsn' else len(o[1])) for o in ops))
        for o in ops: ctx.dist('op:' + o[0])
        for r in outs: ctx.dist('result:' + (r[0] if r[0] == 'ok' else r[1]))
        ctx.dist(f'dist(strict={strict},auto={auto})')
    for fam in families:
        bad = ctx.coq_mismatches(f'ops_{fam}', IMPORTS, do.CASE_TYPE, terms[fam], do.OK_DEF, shard=20)
        for j in bad[:3]:
            m = meta[fam][j]
            ctx.broke('correspondence', f'ss.{fam} operation history: L1 model and implementation disagree', repr(m)[:1500])
            ctx.cov.setdefault('diverging_cases', []).append(m)
            ctx.guard('independence_on_history', independence_on_history, ctx, ss, m)
    if meta.get('random'):
        ctx.sample(dict(kind='op-history', **{k: meta['random'][0][k] for k in ('seed', 'slots', 'strict', 'auto', 'ops', 'impl')}))


def independence_on_history(ctx, ss, m):
    """Search step: replay a diverging history on the implementation and test the property on it directly --
    every value returned for an agent must equal the value that agent gets when drawn ALONE from a fresh
    distribution (same seed) placed at the same jump index."""
    fam, slots = m['family'], m['slots']
    def fresh():
        sim = do.mock_sim(slots)
        d = ss.random(name='d', strict=m['strict'], auto=m['auto']) if fam == 'random' else ss.bernoulli(p=m['p'], name='d', strict=m['strict'], auto=m['auto'])
        d.init(trace='harness_dist', seed=m['seed'], sim=sim, module=do.MockModule(), force=True)
        return d
    if not m.get('init', True): return
    d = fresh()
    for op in m['ops']:
        try:
            if op[0] == 'jump_dt': d.jump_dt(ti=op[1], force=op[2])
            elif op[0] == 'jump': d.jump(to=op[1], delta=op[2], force=op[3])
            elif op[0] == 'reset': d.reset(-1 if op[1] else 0)
            elif op[0] == 'rvs' and len(op[1]):
                ind = d.ind
                clean = (d.state_int == fresh_state(fresh, ind))
                r = d.rvs(ss.uids(op[1]), reset=op[2])
                if clean:
                    for i, u in enumerate(op[1]):
                        e = fresh(); e.jump(to=ind, force=True)
                        alone = e.rvs(ss.uids([u]))[0]
                        if alone != r[i]:
                            ctx.violation(f'ss.{fam}: agent {u} (slot {slots[u]}) gets {r[i]} when drawn with {len(op[1])} agents {op[1]} but {alone} when drawn alone '
                                          f'at the same jump index {ind}', dict(family=fam, seed=m['seed'], slots=slots, uids=op[1], ind=ind, history=m['ops']))
                            return
            elif op[0] == 'rvsn': d.rvs(int(op[1]), reset=op[2])
        except Exception:
            pass

def fresh_state(fresh, ind):
    e = fresh(); e.jump(to=ind, force=True); return e.state_int


def _merge(groups):
    return list(groups.items())


# ---------------------------------------------------------------------------------------------- oracle
def families(ss, sc, n_agents, base):
    """(name, constructor(mode)) for every family in ss.dist_list; base: per-uid parameter arrays."""
    def mk(cls, **pars):
        def build(mode):
            kw = {}
            for k, v in pars.items():
                arr = v
                if mode == 'scalar': kw[k] = float(arr[0]) if not isinstance(arr[0], (int, np.integer)) else int(arr[0])
                elif mode == 'callable': kw[k] = (lambda a: (lambda module, sim, uids: a[np.asarray(uids)] if isinstance(uids, np.ndarray) else a[0]))(arr)
                else: kw[k] = float(arr[0])     # array mode: the per-agent arrays are set before each call
            return cls(name='d', **kw), pars
        return build
    u = base
    return {
        'random': mk(ss.random), 'uniform': mk(ss.uniform, low=u * 2, high=u * 2 + 3),
        'normal': mk(ss.normal, loc=u * 5, scale=u + 0.5), 'lognorm_ex': mk(ss.lognorm_ex, mean=u * 3 + 1, std=u + 0.5),
        'lognorm_im': mk(ss.lognorm_im, mean=u, sigma=u / 2 + 0.2), 'expon': mk(ss.expon, scale=u * 4 + 0.5),
        'poisson': mk(ss.poisson, lam=u * 6 + 0.5), 'nbinom': mk(ss.nbinom, n=np.floor(u * 5) + 2, p=u * 0.8 + 0.1),
        'weibull': mk(ss.weibull, c=u * 2 + 0.5, scale=u + 1), 'gamma': mk(ss.gamma, a=u * 3 + 0.5, scale=u + 1),
        'constant': mk(ss.constant, v=u * 10), 'bernoulli': mk(ss.bernoulli, p=u),
        'rand_raw': mk(ss.rand_raw), 'choice': None, 'histogram': None, 'randint': None,
    }


def oracle_dists(ctx, ss, sc):
    """The property on the implementation: same (seed, dist, ti, call ordinal, slot) => same value, whatever else."""
    rng = ctx.rng
    n_agents = 40
    nrep = ctx.n(6, 40)
    for rep in range(nrep):
        slots = do.gen_slots(rng, n_agents)
        base = np.array([rng.random() for _ in range(n_agents)])
        fams = families(ss, sc, n_agents, base)
        fams['choice'] = lambda mode: (ss.choice(a=5, name='d'), {})
        fams['histogram'] = lambda mode: (ss.histogram(values=[1, 3, 2], bins=[0, 1, 5, 10], name='d'), {})
        fams['randint'] = lambda mode: (ss.randint(low=2, high=50, name='d'), {})
        seed = rng.randrange(10**6)
        ti = rng.randint(1, 30)
        for fam, build in fams.items():
            modes = ['scalar'] if fam in ('random', 'rand_raw', 'choice', 'histogram', 'randint') else ['scalar', 'array', 'callable']
            for mode in modes:
                U = rng.sample(range(n_agents), rng.randint(1, 12))
                extra = [u for u in range(n_agents) if u not in U]
                U2 = U + rng.sample(extra, rng.randint(0, len(extra)))
                rng.shuffle(U2)
                if rng.random() < 0.5: U2 = U2 + [rng.choice(U)]     # a repeat
                vals = []
                try:
                    for which, uids in enumerate((U, U2)):
                        d, pars = build(mode)
                        if rep % 2 == 1 and mode == 'scalar':
                            # the object had an earlier life (created stand-alone, initialised, used) before it was initialised for this run
                            try:
                                d.init(trace='earlier_life', seed=seed + 1 + which, sim=do.mock_sim(slots), module=do.MockModule(), force=True)
                                for _ in range(which * rng.randint(1, 3)):
                                    d.rvs(ss.uids(rng.sample(range(n_agents), rng.randint(1, n_agents)))); d.jump()
                            except Exception:
                                pass
                        d.init(trace='oracle_' + fam, seed=seed, sim=do.mock_sim(slots), module=do.MockModule(), force=True)
                        if which == 1:      # a different earlier history: other steps, other amounts drawn
                            for t0 in sorted(rng.sample(range(0, ti), min(ti, rng.randint(0, 3)))):
                                d.jump_dt(ti=t0, force=True)
                                hu = rng.sample(range(n_agents), rng.randint(1, n_agents))
                                if mode == 'array': d.set(**{k: v[np.asarray(hu)] for k, v in pars.items()})
                                d.rvs(ss.uids(hu))
                        d.jump_dt(ti=ti, force=True)
                        if mode == 'array': d.set(**{k: v[np.asarray(uids)] for k, v in pars.items()})
                        r = np.asarray(d.rvs(ss.uids(uids)))
                        vals.append(dict(zip(uids, r.tolist())) if len(set(uids)) == len(uids) else {u: r[i].item() for i, u in enumerate(uids)})
                        # within one call, a repeated uid (and any two uids sharing a slot and parameters) must agree
                        seen = {}
                        for i, u in enumerate(uids):
                            if u in seen and r[i] != seen[u] and not (r[i] != r[i]):
                                ctx.violation(f'ss.{fam} ({mode}): the same agent drawn twice in one call gets two values', dict(family=fam, mode=mode, uid=u))
                            seen[u] = r[i]
                except Exception as E:
                    ctx.cov.setdefault('oracle_errors', {})
                    ctx.cov['oracle_errors'][f'{fam}/{mode}'] = f'{type(E).__name__}: {E}'[:200]
                    ctx.violation(f'ss.{fam} ({mode} parameters): a valid per-agent draw raised {type(E).__name__}: {E}',
                                  dict(family=fam, mode=mode, seed=seed, ti=ti, slots=slots, U=U, U2=U2))
                    continue
                ctx.count(('oracle', fam, mode, seed, ti, tuple(U), tuple(U2)))
                ctx.dist(f'oracle:{fam}/{mode}')
                for u in U:
                    a, b_ = vals[0][u], vals[1][u]
                    if a != b_ and not (a != a and b_ != b_):
                        ctx.violation(f'ss.{fam} ({mode} parameters): value of agent {u} (slot {slots[u]}) at step {ti} is {a} when sampled with {len(U)} agents '
                                      f'and {b_} when sampled among {len(U2)} agents after a different earlier history',
                                      dict(family=fam, mode=mode, seed=seed, ti=ti, slots=slots, U=U, U2=U2))
                        break
    # a long earlier history (more than 1000 non-empty calls) must not matter either
    for fam in ('random', 'normal', 'bernoulli'):
        slots = list(range(20)); seed = rng.randrange(10**6); ti_end = ctx.n(1300, 2600) if not ctx.broken else 40000      # when a tie is broken the search goes far beyond any plausible history bound
        vals = []
        for busy in (False, True):
            d = {'random': lambda: ss.random(name='d'), 'normal': lambda: ss.normal(loc=1, scale=2, name='d'), 'bernoulli': lambda: ss.bernoulli(p=0.4, name='d')}[fam]()
            d.init(trace='oracle_long_' + fam, seed=seed, sim=do.mock_sim(slots), module=do.MockModule(), force=True)
            if busy:
                for t0 in range(ti_end):
                    d.jump_dt(ti=t0, force=True); d.rvs(ss.uids([t0 % 20, (t0 * 7) % 20]))
            d.jump_dt(ti=ti_end, force=True)
            vals.append(np.asarray(d.rvs(ss.uids([3, 11, 4]))).tolist())
        ctx.count(('long-history', fam, seed)); ctx.dist('oracle:long history')
        if vals[0] != vals[1]:
            ctx.violation(f'ss.{fam}: draw at step {ti_end} differs between a distribution never used before and one sampled at every earlier step: {vals[0]} vs {vals[1]}',
                          dict(family=fam, seed=seed, ti=ti_end))
    # pairwise transmission draws depend only on the two slots
    for rep in range(ctx.n(5, 40)):
        n_agents = 30
        slots = do.gen_slots(rng, n_agents)
        seed = rng.randrange(10**6); ti = rng.randint(1, 20)
        src = [rng.randrange(n_agents) for _ in range(12)]; trg = [rng.randrange(n_agents) for _ in range(12)]
        perm = list(range(12)); rng.shuffle(perm)
        keep = perm[:rng.randint(1, 12)]
        outs = []
        for s, t in ((src, trg), ([src[i] for i in keep] + [0], [trg[i] for i in keep] + [1])):
            m = ss.multi_random('source', 'target')
            for i, dd in enumerate(m.dists):
                dd.init(trace=f'oracle_multi_{i}', seed=seed, sim=do.mock_sim(slots), module=do.MockModule(), force=True)
                dd.jump_dt(ti=ti, force=True)
            outs.append(m.rvs(ss.uids(s), ss.uids(t)))
        ctx.count(('multi', seed, ti, tuple(src), tuple(trg), tuple(keep))); ctx.dist('oracle:multi_random')
        for j, i in enumerate(keep):
            if outs[0][i] != outs[1][j]:
                ctx.violation(f'multi_random: pair (slot {slots[src[i]]}, slot {slots[trg[i]]}) draws {outs[0][i]} in one call and {outs[1][j]} in another',
                              dict(seed=seed, ti=ti, slots=slots, src=src, trg=trg, keep=keep))
                break


def oracle_people_defaults(ctx, ss):
    """People-level default distributions: is a newborn's default a function of (seed, dist, step, ordinal, slot)?"""
    res = []
    for extra_births_first in (False, True):
        sim = ss.Sim(n_agents=50, diseases=ss.SIS(), networks=ss.RandomNet(), dur=5, verbose=0).init()
        sim.run(until=sim.t.yearvec[1])          # advance into the run
        if extra_births_first:
            sim.people.grow(2, new_slots=np.array([900, 901]))    # an earlier birth event with other slots
        new = sim.people.grow(1, new_slots=np.array([777]))
        res.append((bool(sim.people.female[new][0]), float(sim.people.age[new][0]), int(sim.people.female.default.ind)))
    ctx.count(('people-defaults',)); ctx.dist('oracle:people-default-dists')
    # the draw for slot 777 at the same step and call ordinal should not depend on the earlier grow call; detect via the dist index
    if res[0][2] != res[1][2]:
        # same step, same slot, but the stream position differs with the number of earlier birth events
        diff = (res[0][0] != res[1][0]) or (res[0][1] != res[1][1])
        ctx.violation('People-level default distributions (female, age) are never advanced per step: the jump index at which a newborn with a given slot '
                      f'is drawn is {res[0][2]} without and {res[1][2]} with an earlier birth event (values {"differ" if diff else "happen to coincide"}: {res[0][:2]} vs {res[1][:2]})',
                      dict(finding_key='people-default-dists-not-stepped', without=res[0], with_extra=res[1]))


def oracle_newborn_defaults(ctx, ss):
    """A module state whose default is a distribution: the value drawn for a newborn depends on its slot, not on how many agents exist.
    Two worlds with the same seed; in the second an extra isolated agent is created early, so later newborns get later uids but the same slots."""
    from harness.probes import MarkerModule, ExtraAgent
    rng = ctx.rng
    for rep in range(ctx.n(2, 10)):
        seed = rng.randrange(1, 10**4)
        worlds = []
        for extra in (False, True):
            iv = [MarkerModule(name='marker')] + ([ExtraAgent(name='extra', at=1)] if extra else [])
            sim = ss.Sim(n_agents=150, demographics=[ss.Pregnancy(fertility_rate=300, burnin=False)], interventions=iv, networks=ss.PrenatalNet(), dur=5, rand_seed=seed, verbose=0)
            sim.run()
            ppl = sim.people; n = int(ppl.uid.len_used); mk = sim.interventions.marker.marker
            born = {}
            for u in range(150, n):
                m = int(ppl.parent.raw[u])
                if m >= 0: born[(m, int(ppl.slot.raw[u]))] = float(mk.raw[u])
            worlds.append(born)
        common = set(worlds[0]) & set(worlds[1])
        ctx.count(('newborn-defaults', seed), nontrivial=len(common) > 0); ctx.dist('oracle:newborn default dists (two worlds)')
        bad = [k for k in sorted(common) if worlds[0][k] != worlds[1][k]]
        if bad:
            k = bad[0]
            ctx.violation(f'a newborn (mother {k[0]}, slot {k[1]}) gets default-distribution value {worlds[0][k]} in one world and {worlds[1][k]} in a world that merely contains one more unrelated agent: '
                          f'the draw is keyed by something other than (seed, distribution, step, call, slot) ({len(bad)} of {len(common)} newborns differ)', dict(seed=seed, mother=k[0], slot=k[1]))


def oracle_sim_extension(ctx, ss, sc):
    """Adding isolated agents leaves every original agent's infection history unchanged (slot-keyed network)."""
    rng = ctx.rng
    for rep in range(ctx.n(3, 20)):
        n = rng.choice([40, 80, 150]); k = rng.choice([1, 7, 30])
        seed = rng.randrange(1000)
        ne = 3 * n
        p1 = np.array([rng.randrange(n) for _ in range(ne)]); p2 = np.array([rng.randrange(n) for _ in range(ne)])
        keep = p1 != p2; p1, p2 = p1[keep], p2[keep]
        hist = []
        for extra in (0, k):
            class FixedNet(ss.Network):
                def step(self): pass
            net = FixedNet(p1=p1.copy(), p2=p2.copy(), beta=np.ones(len(p1)), name='fixednet')
            sir = ss.SIR(beta=0.15, init_prev=ss.bernoulli(p=0.1), p_death=0)
            sim = ss.Sim(n_agents=n + extra, diseases=sir, networks=net, dur=12, rand_seed=seed, verbose=0)
            sim.run()
            d = sim.diseases.sir
            hist.append((np.asarray(d.ti_infected.raw[:n]).copy(), np.asarray(d.ti_recovered.raw[:n]).copy()))
        ctx.count(('sim-ext', n, k, seed)); ctx.dist('oracle:sim population extension')
        for name, a, b_ in (('ti_infected', hist[0][0], hist[1][0]), ('ti_recovered', hist[0][1], hist[1][1])):
            same = (a == b_) | (np.isnan(a) & np.isnan(b_))
            if not same.all():
                u = int(np.flatnonzero(~same)[0])
                ctx.violation(f'SIR on a fixed network: adding {k} isolated agents to {n} changes {name} of original agent {u}: {a[u]} -> {b_[u]}',
                              dict(n=n, k=k, seed=seed, p1=p1.tolist(), p2=p2.tolist()))
                break


def run(ctx):
    ctx.translate(['Gen_Dist'])
    ctx.build_props('C03')
    try:
        import starsim as ss, sciris as sc
    except Exception as E:
        raise Broken('correspondence', 'cannot import starsim', repr(E))
    ctx.cov['rule'] = ('op histories (jump_dt/jump/reset/rvs(uids)/rvs(n), 3-12 ops, slot tables with repeats and gaps, strict/auto variants, '
                       'a malformed stream of backward jumps / double draws / uninitialised dists) on real ss.random and ss.bernoulli vs the Coq L1 model, '
                       'outputs compared bit-exactly (24-bit numerators), plus final ind/called/ready/state; non-trivial = history with at least one non-empty draw; '
                       'oracle: all 16 families x {scalar,array,callable} nested/permuted/repeated uid sets with different earlier histories')
    correspondence(ctx, ss, ctx.n(200, 4000)); ctx.log('correspondence done')
    ctx.guard('oracle_dists', oracle_dists, ctx, ss, sc); ctx.log('oracle_dists done')
    ctx.guard('oracle_people_defaults', oracle_people_defaults, ctx, ss); ctx.log('oracle_people_defaults done')
    ctx.guard('oracle_sim_extension', oracle_sim_extension, ctx, ss, sc); ctx.log('oracle_sim_extension done')
    ctx.guard('oracle_newborn_defaults', oracle_newborn_defaults, ctx, ss); ctx.log('oracle_newborn_defaults done')


def replay(ctx, rp):
    run(ctx)
