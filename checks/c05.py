"""
C05 -- Each distribution samples the law its parameters describe.

1. translator: Gen_Law.v -- uniform / randint / Bernoulli maps of the uniform stream (over R for the theorems, over Q for evaluation), explicit ->
   implicit lognormal parameters; shape pins on the two sampling paths of Dist.rvs, Dist.ppf, postprocess_timepar, the SciPy family and
   parameter names of every delegated family; Gen_Time.v (dur_values_gen / rate_values_gen)
2. obligations: Props/C05.v (support and quantile law of uniform, closed range of the per-agent randint path [refuting the documented half-open
   range], Bernoulli law / monotonicity / extremes, lognormal mean and variance identities, exact time-unit scaling)
3. correspondence: per-agent-path variates of uniform / randint / Bernoulli on the recorded uniform stream vs the Q twins of the generated maps (Coq)
4. oracle on the implementation, for every family of ss.dist_list: per-agent path == SciPy quantile function applied to the same-seed uniform
   stream (exact); scalar path: KS distance / moments against the SciPy reference (6 sigma); scalar and per-agent paths agree in law; callable
   parameters == array parameters; support, dtype, empty requests; Bernoulli selection monotone in p under a fixed seed; time-wrapped parameters
   scale the variates by exactly the factor, over a (unit, dt) grid
"""
import copy
import numpy as np
import scipy.stats as sps
from vlib.core import Broken, qlit

IMPORTS = 'Model.Prelude Model.L3_Units Gen.Gen_Time Gen.Gen_Law'


def families(ss, rng):
    """name -> (constructor(mode), scipy reference, support (lo, hi, hi_open), integer?)  mode: 'scalar' | 'array' | 'callable'"""
    def P(v, mode, n):
        if mode == 'scalar': return v
        arr = np.full(n, float(v))
        if mode == 'array': return arr
        return (lambda self, sim, uids: arr[np.asarray(uids)] if (uids is not None and not np.isscalar(uids)) else float(v))   # the lognormal families also call it at init, without agents
    fams = {}
    lo, hi = round(rng.uniform(-3, 2), 2), round(rng.uniform(2.5, 9), 2)
    fams['uniform'] = (lambda mode, n: ss.uniform(low=P(lo, mode, n), high=P(hi, mode, n)), sps.uniform(loc=lo, scale=hi - lo), (lo, hi, True), False)
    loc, sc_ = round(rng.uniform(-2, 5), 2), round(rng.uniform(0.5, 3), 2)
    fams['normal'] = (lambda mode, n: ss.normal(loc=P(loc, mode, n), scale=P(sc_, mode, n)), sps.norm(loc=loc, scale=sc_), (-np.inf, np.inf, True), False)
    mu, sg = round(rng.uniform(-0.5, 1.5), 2), round(rng.uniform(0.2, 0.9), 2)
    fams['lognorm_im'] = (lambda mode, n: ss.lognorm_im(mean=P(mu, mode, n), sigma=P(sg, mode, n)), sps.lognorm(s=sg, scale=np.exp(mu)), (0, np.inf, True), False)
    m, s = round(rng.uniform(1, 6), 2), round(rng.uniform(0.5, 3), 2)
    s2 = np.log(s**2 / m**2 + 1)
    fams['lognorm_ex'] = (lambda mode, n: ss.lognorm_ex(mean=P(m, mode, n), std=P(s, mode, n)), sps.lognorm(s=np.sqrt(s2), scale=m / np.sqrt(1 + s**2 / m**2)), (0, np.inf, True), False)
    sc2 = round(rng.uniform(0.3, 4), 2)
    fams['expon'] = (lambda mode, n: ss.expon(scale=P(sc2, mode, n)), sps.expon(scale=sc2), (0, np.inf, True), False)
    lam = round(rng.uniform(0.5, 9), 2)
    fams['poisson'] = (lambda mode, n: ss.poisson(lam=P(lam, mode, n)), sps.poisson(mu=lam), (0, np.inf, True), True)
    nn, pp = rng.randrange(2, 9), round(rng.uniform(0.2, 0.8), 2)
    fams['nbinom'] = (lambda mode, n: ss.nbinom(n=P(nn, mode, n), p=P(pp, mode, n)), sps.nbinom(n=nn, p=pp), (0, np.inf, True), True)
    c, sc3 = round(rng.uniform(0.7, 3), 2), round(rng.uniform(0.5, 4), 2)
    fams['weibull'] = (lambda mode, n: ss.weibull(c=P(c, mode, n), scale=P(sc3, mode, n)), sps.weibull_min(c=c, scale=sc3), (0, np.inf, True), False)
    a, sc4 = round(rng.uniform(0.7, 5), 2), round(rng.uniform(0.5, 3), 2)
    fams['gamma'] = (lambda mode, n: ss.gamma(a=P(a, mode, n), scale=P(sc4, mode, n)), sps.gamma(a=a, scale=sc4), (0, np.inf, True), False)
    il, ih = rng.randrange(-4, 3), rng.randrange(4, 12)
    fams['randint'] = (lambda mode, n: ss.randint(low=P(il, mode, n), high=P(ih, mode, n)), sps.randint(low=il, high=ih), (il, ih, True), True)
    nl_, nh_ = -rng.randrange(2, 6), rng.randrange(1, 5)
    fams['randint_negative_low'] = (lambda mode, n: ss.randint(low=P(nl_, mode, n), high=P(nh_, mode, n)), sps.randint(low=nl_, high=nh_), (nl_, nh_, True), True)
    pb = round(rng.uniform(0.1, 0.9), 2)
    fams['bernoulli'] = (lambda mode, n: ss.bernoulli(p=P(pb, mode, n)), sps.bernoulli(p=pb), (0, 1, False), True)
    cv = round(rng.uniform(-3, 3), 2)
    fams['constant'] = (lambda mode, n: ss.constant(v=P(cv, mode, n)), None, (cv, cv, False), False)
    fams['random'] = (lambda mode, n: ss.random(), sps.uniform(), (0, 1, True), False)
    return fams


def run(ctx):
    ctx.translate(['Gen_Law', 'Gen_Time'])
    ctx.build_props('C05')
    try:
        import starsim as ss, sciris as sc
    except Exception as E:
        raise Broken('correspondence', 'cannot import starsim', repr(E))
    rng = ctx.rng
    N = 20000
    ctx.cov['rule'] = ('every family of ss.dist_list x parameter modes {scalar, per-agent array, callable} x random valid parameters: exact comparison of the per-agent path with the SciPy '
                       f'quantile function on the same-seed uniform stream, KS / moment tests of {N} scalar-path variates at 6 sigma, two-sample agreement of the paths, support, dtype, empty '
                       'requests, Bernoulli monotonicity under a fixed seed, time-wrapped parameters over a (unit, dt) grid; non-trivial = every family x mode')
    sim = ss.Sim(n_agents=N, verbose=0); sim.init()
    uids = sim.people.auids
    listed = set(ss.dist_list)
    nviol = 0
    def viol(msg, w):
        nonlocal nviol
        nviol += 1
        if nviol <= 10: ctx.violation(msg, w)
    uterms, umeta, rterms, rmeta, bterms, bmeta = [], [], [], [], [], []
    for rep in range(ctx.n(1, 4)):
        fams = families(ss, rng)
        missing = listed - set(fams) - {'rand_raw', 'choice', 'delta', 'histogram', 'multi_random'}
        if missing and rep == 0: ctx.broke('correspondence', f'ss.dist_list contains families the harness does not cover: {sorted(missing)}', repr(sorted(listed)))
        for name, (mk, ref, (lo, hi, hi_open), integer) in fams.items():
            seed = rng.randrange(1, 10**6)
            out = {}
            for mode in ('scalar', 'array', 'callable'):
                if name == 'random' and mode != 'scalar': continue
                W = dict(family=name, mode=mode, seed=seed)
                try:
                    d = mk(mode, N); d.init(trace=f'c05_{name}', seed=seed, sim=sim, module=sim.people if False else None, force=True)
                    rng0 = copy.deepcopy(d.rng)
                    v = np.asarray(d.rvs(uids))
                except Exception as E:
                    w = dict(W, error=f'{type(E).__name__}: {E}'[:200])
                    if name.startswith('randint') and mode != 'scalar': w['finding_key'] = 'randint-per-agent-path'
                    viol(f'{name} with {mode} parameters raised {type(E).__name__}: {str(E)[:120]}', w); continue
                out[mode] = v
                # the same seed gives the same variates whatever happened to the process-wide generator in between
                try:
                    np.random.random(7)
                    d_again = mk(mode, N); d_again.init(trace=f'c05_{name}', seed=seed, sim=sim, force=True)
                    v_again = np.asarray(d_again.rvs(uids))
                    if not np.array_equal(v, v_again, equal_nan=True) if v.dtype.kind == 'f' else not np.array_equal(v, v_again):
                        viol(f'{name}/{mode}: the same seed gives other variates after draws from np.random: the family does not sample from its own generator', W)
                except Exception:
                    pass
                ctx.count((name, mode, seed), nontrivial=True); ctx.dist(f'{name}/{mode}')
                if len(v) != len(uids): viol(f'{name}/{mode}: {len(v)} variates for {len(uids)} agents', W); continue
                vf = v.astype(float)
                # support
                if np.any(vf < lo - 1e-9) or (np.any(vf >= hi) if hi_open and np.isfinite(hi) else np.any(vf > hi + 1e-9)):
                    w = dict(W, min=float(vf.min()), max=float(vf.max()), support=[lo, hi])
                    if name.startswith('randint') and mode != 'scalar' and vf.max() == hi: w['finding_key'] = 'randint-per-agent-path'
                    viol(f'{name}/{mode}: variates outside the support [{lo}, {hi}{")" if hi_open else "]"}: min {vf.min()}, max {vf.max()}', w)
                if integer and name != 'bernoulli' and not np.all(vf == np.round(vf)): viol(f'{name}/{mode}: non-integer variates', W)
                # per-agent path == quantile function of the same-seed uniforms
                if mode != 'scalar' and ref is not None:
                    u = rng0.random(int(np.asarray(sim.people.slot.raw[uids]).max()) + 1, dtype=ss.dtypes.float)[np.asarray(sim.people.slot.raw[uids])]
                    if name == 'bernoulli': exp = u < ref.args[0] if ref.args else u < ref.kwds['p']
                    elif name.startswith('randint'): exp = np.floor(u.astype(float) * (hi - lo) + lo)
                    else: exp = ref.ppf(u)
                    if exp is not None and not np.allclose(vf, np.asarray(exp, dtype=float), rtol=1e-6, atol=1e-9):
                        j = int(np.flatnonzero(~np.isclose(vf, np.asarray(exp, dtype=float), rtol=1e-6, atol=1e-9))[0])
                        viol(f'{name}/{mode}: variate of agent {j} is {vf[j]}, the quantile function of the family at its uniform draw {u[j]} gives {float(np.asarray(exp, dtype=float)[j])}', dict(W, agent=j))
                    # Coq twins
                    idx = rng.sample(range(len(uids)), 6)
                    if name == 'uniform':
                        for j in idx: uterms.append(f'({qlit(float(u[j]))}, {qlit(lo)}, {qlit(hi)}, {qlit(float(vf[j]))})'); umeta.append(dict(W, agent=j))
                    if name.startswith('randint'):
                        for j in idx: rterms.append(f'({qlit(float(u[j]))}, {qlit(lo)}, {qlit(hi)}, ({int(vf[j])})%Z)'); rmeta.append(dict(W, agent=j))
                    if name == 'bernoulli':
                        pbv = ref.kwds['p'] if ref.kwds else ref.args[0]
                        for j in idx: bterms.append(f'({qlit(float(u[j]))}, {qlit(pbv)}, {"true" if vf[j] else "false"})'); bmeta.append(dict(W, agent=j))
                # law of the variates (both paths): KS for continuous, mean / variance for discrete, at 6 sigma
                if ref is not None:
                    if not integer:
                        ks = sps.kstest(vf, ref.cdf).statistic
                        if ks > 6 / np.sqrt(len(vf)) * 0.5 + 1e-3 and ks > 0.05:
                            viol(f'{name}/{mode}: KS distance {ks:.4f} from the reference law {ref.dist.name}{ref.args}{ref.kwds}', dict(W, ks=float(ks)))
                        elif ks > 4 / np.sqrt(len(vf)):
                            viol(f'{name}/{mode}: KS distance {ks:.4f} from the reference law (threshold {4 / np.sqrt(len(vf)):.4f})', dict(W, ks=float(ks)))
                    mean, var = float(ref.mean()), float(ref.var())
                    if np.isfinite(mean) and np.isfinite(var):
                        se = np.sqrt(var / len(vf))
                        if abs(vf.mean() - mean) > 6 * se + 1e-9:
                            w = dict(W, sample_mean=float(vf.mean()), reference_mean=mean)
                            if name.startswith('randint') and mode != 'scalar': w['finding_key'] = 'randint-per-agent-path'
                            viol(f'{name}/{mode}: sample mean {vf.mean():.4f} vs {mean:.4f} of the reference law (6 sigma = {6 * se:.4f})', w)
                        if var > 0:
                            kurt = float(ref.stats(moments='k')) + 3 if np.isfinite(float(ref.stats(moments='k'))) else 9.0
                            sev = var * np.sqrt(max(kurt - 1, 0.5) / len(vf))
                            if abs(vf.var() - var) > 8 * sev + 1e-9:
                                w = dict(W, sample_var=float(vf.var()), reference_var=var)
                                if name.startswith('randint') and mode != 'scalar': w['finding_key'] = 'randint-per-agent-path'
                                viol(f'{name}/{mode}: sample variance {vf.var():.4f} vs {var:.4f} of the reference law', w)
                elif name == 'constant' and not np.all(vf == lo): viol(f'constant/{mode}: variates differ from the constant {lo}', W)
            # callable == array (same seed, same stream)
            if 'array' in out and 'callable' in out and not np.array_equal(out['array'], out['callable']):
                viol(f'{name}: callable parameters give other variates than the same values supplied as an array (same seed)', dict(family=name, seed=seed))
            # empty requests
            try:
                d = mk('scalar', N); d.init(trace=f'c05e_{name}', seed=seed, sim=sim, force=True)
                e1 = d.rvs(0)
                d2 = mk('scalar', N); d2.init(trace=f'c05e2_{name}', seed=seed, sim=sim, force=True)
                e2 = d2.rvs(ss.uids())
                ctx.count((name, 'empty'), nontrivial=True)
                if len(e1) != 0 or len(e2) != 0: viol(f'{name}: a size-zero request returned {len(e1)} / {len(e2)} variates', dict(family=name))
            except Exception as E:
                viol(f'{name}: a size-zero request raised {type(E).__name__}: {E}', dict(family=name))
    # Bernoulli monotone in p under a fixed seed
    for rep in range(ctx.n(5, 40)):
        seed = rng.randrange(1, 10**6); p1 = rng.uniform(0, 1); p2 = rng.uniform(p1, 1)
        sel = []
        for p in (p1, p2):
            d = ss.bernoulli(p=p); d.init(trace='c05_mono', seed=seed, sim=sim, force=True); sel.append(set(map(int, d.filter(uids))))
        ctx.count(('bern-mono', seed), nontrivial=True); ctx.dist('bernoulli monotone')
        if not sel[0] <= sel[1]: viol(f'Bernoulli selection is not monotone in p under a fixed seed: p={p1:.3f} selects agents that p={p2:.3f} does not', dict(seed=seed, p1=p1, p2=p2))
    # time-wrapped parameters: variates scaled by exactly the factor
    for unit, dt in [('year', 1.0), ('year', 0.25), ('day', 1.0), ('day', 7.0), ('week', 1.0), ('month', 0.5)][:ctx.n(4, 6)]:
        start = 2000 if unit == 'year' else '2000-01-01'
        s2 = ss.Sim(n_agents=500, unit=unit, dt=dt, start=start, dur=3, verbose=0, diseases=ss.SIS()); s2.init()
        mod = s2.diseases.sis
        for punit in ('day', 'year', 'week'):
            seed = rng.randrange(1, 10**6)
            for fam, mkd in (('normal', lambda w: ss.normal(loc=w(10), scale=w(2))), ('lognorm_ex', lambda w: ss.lognorm_ex(mean=w(10), std=w(2))), ('uniform', lambda w: ss.uniform(low=w(2), high=w(9))), ('expon', lambda w: ss.expon(scale=w(5))), ('constant (integer value)', lambda w: ss.constant(v=w(10))), ('constant', lambda w: ss.constant(v=w(2.5)))):
                try:
                    dt_ = mkd(lambda v: ss.dur(v, punit))
                    for pv in dt_.pars.values():
                        if isinstance(pv, ss.TimePar): pv.init(parent=mod.t)
                    dt_.init(trace='c05_tp', seed=seed, sim=s2, module=mod, force=True)
                    dp = mkd(lambda v: v); dp.init(trace='c05_tp', seed=seed, sim=s2, module=mod, force=True)
                    vt = np.asarray(dt_.rvs(s2.people.auids), dtype=float); vp = np.asarray(dp.rvs(s2.people.auids), dtype=float)
                    tpx = ss.dur(1, punit); tpx.init(parent=mod.t); fac = float(tpx.factor)
                except Exception as E:
                    ctx.dist('timepar config rejected'); continue
                ctx.count(('timepar', unit, dt, punit, fam), nontrivial=True); ctx.dist('time-wrapped ' + fam)
                ratio = vt / vp
                if fac is not None and not np.allclose(vt, vp * fac, rtol=1e-6, atol=1e-9):
                    viol(f'{fam} with parameters in {punit} in a {unit}/{dt} module: variates are not the plain variates x the unit factor {fac} (ratios {ratio.min():.6f}..{ratio.max():.6f})', dict(unit=unit, dt=dt, punit=punit, family=fam))
                elif fac is None and ratio.max() - ratio.min() > 1e-6 * abs(ratio.mean()):
                    viol(f'{fam} with parameters in {punit} in a {unit}/{dt} module: the variates are not a constant multiple of the plain variates', dict(unit=unit, dt=dt, punit=punit, family=fam))
    # the unit of a time-wrapped parameter may change between draws (set()): the next variates are scaled by the NEW factor
    try:
        s4 = ss.Sim(n_agents=500, unit='day', dt=7.0, start='2000-01-01', dur=3, verbose=0, diseases=ss.SIS()); s4.init(); mod4 = s4.diseases.sis
        for fam, mkd in (('normal', lambda w: ss.normal(loc=w(10), scale=w(2))), ('expon', lambda w: ss.expon(scale=w(5))), ('uniform', lambda w: ss.uniform(low=w(2), high=w(9)))):
            seed = rng.randrange(1, 10**6)
            def build(unit_):
                d = mkd(lambda v: ss.dur(v, unit_))
                for pv in d.pars.values():
                    if isinstance(pv, ss.TimePar): pv.init(parent=mod4.t)
                d.init(trace='c05_tp2', seed=seed, sim=s4, module=mod4, force=True); return d
            d = build('week'); d.rvs(s4.people.auids); d.jump(to=5, force=True)
            newp = {k: ss.dur(float(pv.v), 'year') for k, pv in d.pars.items() if isinstance(pv, ss.TimePar)}
            for pv in newp.values(): pv.init(parent=mod4.t)
            d.set(**newp)
            v2 = np.asarray(d.rvs(s4.people.auids), dtype=float)
            ref = build('year'); ref.jump(to=5, force=True); r2 = np.asarray(ref.rvs(s4.people.auids), dtype=float)
            ctx.count(('tp-reset-unit', fam), nontrivial=True); ctx.dist('time-wrapped unit changed between draws')
            if not np.allclose(v2, r2, rtol=1e-6, atol=1e-9):
                viol(f'{fam}: after its parameters were re-set from weeks to years, the variates are {v2[:2]} ...; a distribution built in years draws {r2[:2]} ... at the same state (ratio {float(np.median(v2 / r2)):.5f})', dict(family=fam, probe='tp-reset-unit'))
    except Exception as E:
        viol(f'changing the unit of a time-wrapped parameter between draws raised {type(E).__name__}: {E}', dict(probe='tp-reset-unit'))
    # a distribution-valued module parameter whose default is written in one unit, overridden by a duration without a unit (= the module's unit) or in another unit
    try:
        from harness.probes import DelayDays
        for unit, dt in [('year', 0.1), ('year', 1.0), ('week', 1.0), ('day', 2.0)]:
            kw2 = dict(start=2000, stop=2001) if unit == 'year' else dict(start='2000-01-01', stop='2000-03-01')
            for spec, vv, vunit in (('ss.dur(2)', 2.0, None), ('ss.dur(3, "week")', 3.0, 'week')):
                sx = ss.Sim(n_agents=40, unit=unit, dt=dt, interventions=DelayDays(delay=ss.dur(vv, unit=vunit) if vunit else ss.dur(vv)), verbose=0, **kw2); sx.init()
                got = np.asarray(sx.interventions[0].pars.delay.rvs(sx.people.auids), dtype=float)
                want = vv * float(ss.time_ratio(unit1=vunit or unit, dt1=1.0, unit2=unit, dt2=dt))
                ctx.count(('tp-override', unit, dt, spec), nontrivial=True); ctx.dist('time-wrapped default overridden')
                if not np.allclose(got, want, rtol=1e-9):
                    viol(f'a module parameter with default ss.constant(v=ss.days(5)) overridden by {spec} in a {unit}/{dt} module yields {np.unique(got)[:3]} steps; {spec} is {want} steps', dict(probe='tp-override', unit=unit, dt=dt, spec=spec))
    except Exception as E:
        viol(f'overriding a time-wrapped default raised {type(E).__name__}: {E}', dict(probe='tp-override'))
    # a module on its OWN step: the variates of its time-wrapped distributions are converted with the module's step, not the sim's
    try:
        for sim_kw, mod_kw in ((dict(unit='year', dt=1.0), dict(dt=0.25)), (dict(unit='day', dt=2.0, start='2000-01-01'), dict(unit='day', dt=1.0)), (dict(unit='year', dt=0.5), dict(unit='year', dt=2.0))):
            sx = ss.Sim(n_agents=300, dur=4 * sim_kw['dt'], verbose=0, networks=ss.RandomNet(), diseases=ss.SIS(dur_inf=ss.lognorm_ex(mean=ss.dur(10), std=ss.dur(2)), **mod_kw), **sim_kw); sx.init()
            mod_ = sx.diseases.sis; d_ = mod_.pars.dur_inf
            sp = ss.Sim(n_agents=300, dur=4 * sim_kw['dt'], verbose=0, networks=ss.RandomNet(), diseases=ss.SIS(dur_inf=ss.lognorm_ex(mean=10, std=2), **mod_kw), **sim_kw); sp.init()
            vt = np.asarray(d_.rvs(sx.people.auids), dtype=float); vp = np.asarray(sp.diseases.sis.pars.dur_inf.rvs(sp.people.auids), dtype=float)
            want = 1.0 / float(mod_.t.dt)      # ss.dur(10) without a unit = 10 module units = 10 / dt module steps
            ctx.count(('tp-own-step', repr(sim_kw), repr(mod_kw)), nontrivial=True); ctx.dist('time-wrapped parameters of a module on its own step')
            ratio = float(np.median(vt / vp))
            if abs(ratio - want) > 1e-6 * want:
                viol(f'SIS({mod_kw}) in a sim with {sim_kw}: lognorm_ex(mean=ss.dur(10)) yields variates {ratio:.6f} x the plain ones; the module step is {float(mod_.t.dt)} so the factor is {want:.6f}', dict(probe='tp-own-step', sim=sim_kw, module=mod_kw))
    except Exception as E:
        viol(f'time-wrapped distribution of a module on its own step raised {type(E).__name__}: {E}', dict(probe='tp-own-step'))
    # a time-wrapped callable probability is evaluated afresh at every call
    try:
        s3 = ss.Sim(n_agents=4000, dur=3, verbose=0, diseases=ss.SIS()); s3.init(); mod3 = s3.diseases.sis
        for wrap in ('time_prob', 'plain'):
            calls = dict(k=0)
            def pfun(self, sim, uids, calls=calls): return np.full(len(uids), [0.9, 0.05][min(calls['k'], 1)])
            pv = ss.time_prob(pfun, parent_dt=1.0, parent_unit='year').init(update_values=False) if wrap == 'time_prob' else pfun
            d = ss.bernoulli(p=pv); d.init(trace='c05_tpcall_' + wrap, seed=rng.randrange(1, 10**6), sim=s3, module=mod3, force=True)
            f1 = float(np.mean(d.rvs(s3.people.auids))); calls['k'] = 1; d.jump(); f2 = float(np.mean(d.rvs(s3.people.auids)))
            ctx.count(('tp-callable', wrap), nontrivial=True); ctx.dist('callable probability re-evaluated')
            if abs(f1 - 0.9) > 0.03 or abs(f2 - 0.05) > 0.03:
                viol(f'bernoulli(p={wrap} callable): the callable returned 0.9 at the first call and 0.05 at the second; observed frequencies {f1:.3f} and {f2:.3f}', dict(wrap=wrap, f1=f1, f2=f2))
    except Exception as E:
        viol(f'bernoulli with a (time-wrapped) callable probability raised {type(E).__name__}: {E}', dict(probe='tp-callable'))
    # per-agent probabilities wrapped in a time unit, with entries exactly 0 and exactly 1: never / always, like the scalar path
    try:
        s4 = ss.Sim(n_agents=900, dur=2, verbose=0, diseases=ss.SIS()); s4.init(); mod4 = s4.diseases.sis; au4 = s4.people.auids
        pvec = np.tile(np.array([0.0, 1.0, 0.4]), len(au4) // 3 + 1)[:len(au4)]
        for wrap in ('time_prob array', 'time_prob callable'):
            pv = ss.time_prob(pvec.copy(), parent_dt=1.0, parent_unit='year').init() if wrap.endswith('array') else ss.time_prob((lambda self, sim, uids: pvec[:len(uids)].copy()), parent_dt=1.0, parent_unit='year').init(update_values=False)
            d = ss.bernoulli(p=pv); d.init(trace='c05_tp01', seed=rng.randrange(1, 10**6), sim=s4, module=mod4, force=True)
            out = np.asarray(d.rvs(au4), dtype=bool)
            ctx.count(('tp-01', wrap), nontrivial=True); ctx.dist('time-wrapped per-agent probabilities with 0 and 1')
            if out[pvec == 1.0].mean() < 1.0 or out[pvec == 0.0].any():
                viol(f'bernoulli(p={wrap} with entries 0, 1, 0.4): agents with p = 1 selected with frequency {out[pvec == 1.0].mean():.3f}, agents with p = 0 with frequency {out[pvec == 0.0].mean():.3f}', dict(probe='tp-01', wrap=wrap))
    except Exception as E:
        viol(f'bernoulli with time-wrapped per-agent probabilities raised {type(E).__name__}: {E}', dict(probe='tp-01'))
    # per-agent rates converted to probabilities (rate_prob), including rates above 1 per unit: the frequency is 1 - exp(-rate x dt) as on the scalar path
    try:
        s5 = ss.Sim(n_agents=6000, dur=2, verbose=0, diseases=ss.SIS()); s5.init(); mod5 = s5.diseases.sis; au5 = s5.people.auids
        rates = np.tile(np.array([0.3, 1.0, 1.5, 3.0]), len(au5) // 4 + 1)[:len(au5)]
        for wrap in ('array', 'callable'):
            pv = ss.rate_prob(rates.copy(), parent_dt=1.0, parent_unit='year').init() if wrap == 'array' else ss.rate_prob((lambda self, sim, uids: rates[:len(uids)].copy()), parent_dt=1.0, parent_unit='year').init(update_values=False)
            d = ss.bernoulli(p=pv); d.init(trace='c05_rp', seed=rng.randrange(1, 10**6), sim=s5, module=mod5, force=True)
            out = np.asarray(d.rvs(au5), dtype=bool)
            ctx.count(('rate-prob', wrap), nontrivial=True); ctx.dist('per-agent rate_prob probabilities')
            for r in (0.3, 1.0, 1.5, 3.0):
                f = float(out[rates == r].mean()); want = 1 - np.exp(-r); sd = np.sqrt(want * (1 - want) / np.count_nonzero(rates == r))
                if abs(f - want) > 6 * sd:
                    viol(f'bernoulli(p=rate_prob {wrap} with rates 0.3, 1, 1.5, 3 per year, dt = 1 year): agents with rate {r} selected with frequency {f:.4f}; 1 - exp(-rate) = {want:.4f}', dict(probe='rate-prob', wrap=wrap, rate=r)); break
    except Exception as E:
        viol(f'bernoulli with per-agent rate_prob probabilities raised {type(E).__name__}: {E}', dict(probe='rate-prob'))
    # ---------------------------------------------------------------- discrete choice (NumPy's cdf / searchsorted, modelled in L1_Choice)
    cterms, cmeta, pterms, pmeta = [], [], [], []
    for rep in range(ctx.n(6, 30)):
        k = rng.randrange(2, 8); W = dict(family='choice', rep=rep)
        try:
            raw = [rng.choice([0.0, 0.5, 1.0, 2.0, 3.0, rng.random()]) for _ in range(k)]
            if sum(raw) == 0: raw[rng.randrange(k)] = 1.0
            pvec = np.array(raw) / sum(raw); avals = np.array(sorted(rng.sample(range(-50, 50), k)))
            if rep % 3 == 2: avals = k      # a given as the number of options
            W.update(p=[float(x) for x in pvec], a=(avals.tolist() if not np.isscalar(avals) else int(avals)))
            seed = rng.randrange(1, 10**6)
            d = ss.choice(a=avals, p=pvec); d.init(trace='c05_choice', seed=seed, sim=sim, force=True)
            g = np.random.Generator(np.random.PCG64()); g.bit_generator.state = d.rng.bit_generator.state
            slots = np.asarray(sim.people.slot.raw[uids]); u = g.random(int(slots.max()) + 1)[slots]
            v = np.asarray(d.rvs(uids)); opts = np.arange(k) if np.isscalar(avals) else avals
            ctx.count(('choice', rep), nontrivial=True); ctx.dist('choice/with p')
            if not np.all(np.isin(v, opts)): viol(f'choice: variates outside the options {opts.tolist()}', W); continue
            idxs = np.searchsorted(opts, v)
            freq = np.bincount(idxs, minlength=k) / len(v); sd = np.sqrt(np.maximum(pvec * (1 - pvec), 1e-12) / len(v))
            if np.any(np.abs(freq - pvec) > 6 * sd + 1e-9):
                j = int(np.argmax(np.abs(freq - pvec) / (6 * sd + 1e-9)))
                viol(f'choice(p={np.round(pvec, 4).tolist()}): option {j} was drawn with frequency {freq[j]:.4f} over {len(v)} agents (6 sigma = {6 * sd[j]:.4f})', dict(W, option=j, freq=float(freq[j])))
            for j in rng.sample(range(len(uids)), 8):
                cterms.append(f'([{"; ".join(qlit(float(x)) for x in pvec)}], {qlit(float(u[j]))}, {int(idxs[j])}%nat)'); cmeta.append(dict(W, agent=j, u=float(u[j]), drawn=int(v[j])))
            # the quantile method of the class itself (searchsorted side='left' on the raw cumulative sums)
            d._pars = sc.objdict(a=(np.arange(k) if np.isscalar(avals) else avals), p=pvec); uu = np.array([rng.random() for _ in range(6)])
            pv = np.asarray(d.ppf(uu))
            for j in range(len(uu)):
                pterms.append(f'([{"; ".join(qlit(float(x)) for x in pvec)}], {qlit(float(uu[j]))}, {int(np.searchsorted(opts, pv[j]))}%nat)'); pmeta.append(dict(W, u=float(uu[j]), got=int(pv[j])))
        except Exception as E:
            viol(f'choice with probabilities raised {type(E).__name__}: {str(E)[:160]}', dict(W, error=repr(E)[:200]))
    # ---------------------------------------------------------------- Coq twins
    ctx.cov['replayed_in_coq'] = dict(uniform=len(uterms), randint=len(rterms), bernoulli=len(bterms), choice=len(cterms), choice_ppf=len(pterms))
    CI = IMPORTS + ' Model.L1_Choice'
    EPS = '(1 # 1000000000000)'
    bad = ctx.coq_mismatches('c05choice', CI, 'list Q * Q * nat', cterms, f"Definition ok (c : list Q * Q * nat) : bool := let '(p, u, i) := c in Nat.eqb (choice_np_norm p u) i || Nat.eqb (choice_np_norm p (u - {EPS})) i || Nat.eqb (choice_np_norm p (u + {EPS})) i.", shard=300)
    for j in bad[:3]: ctx.violation(f"choice(p={cmeta[j]['p']}): the agent whose uniform draw is {cmeta[j]['u']} received option value {cmeta[j]['drawn']}, not the option whose probability interval contains the draw (model L1_Choice.choice_np_norm)", dict(cmeta[j], probe='choice-interval'))
    bad = ctx.coq_mismatches('c05chppf', CI, 'list Q * Q * nat', pterms, f"Definition ok (c : list Q * Q * nat) : bool := let '(p, u, i) := c in Nat.eqb (choice_ppf p u) i || Nat.eqb (choice_ppf p (u - {EPS})) i || Nat.eqb (choice_ppf p (u + {EPS})) i.", shard=300)
    for j in bad[:3]: ctx.violation(f"choice.ppf(p={pmeta[j]['p']}) at {pmeta[j]['u']} returned option value {pmeta[j]['got']}, not the option whose probability interval contains it (model L1_Choice.choice_ppf)", dict(pmeta[j], probe='choice-ppf'))
    bad = ctx.coq_mismatches('c05unif', IMPORTS, 'Q * Q * Q * Q', uterms, 'Definition ok (c : Q * Q * Q * Q) : bool := let \'(u, lo, hi, v) := c in Qclose (1 # 100000) (uniform_ppf_q_gen u lo hi) v.', shard=300)
    for j in bad[:3]: ctx.broke('correspondence', 'uniform: a per-agent variate differs from uniform_ppf_q_gen on its uniform draw', repr(umeta[j]))
    bad = ctx.coq_mismatches('c05rint', IMPORTS, 'Q * Q * Q * Z', rterms, 'Definition ok (c : Q * Q * Q * Z) : bool := let \'(u, lo, hi, v) := c in Z.eqb (Qfloor (randint_ppf_q_gen u lo hi)) v.', shard=300)
    for j in bad[:3]: ctx.broke('correspondence', 'randint: a per-agent variate differs from the integer part of randint_ppf_q_gen on its uniform draw', repr(rmeta[j]))
    bad = ctx.coq_mismatches('c05bern', IMPORTS, 'Q * Q * bool', bterms, 'Definition ok (c : Q * Q * bool) : bool := let \'(u, p, v) := c in Bool.eqb (bernoulli_q_gen u p) v.', shard=300)
    for j in bad[:3]: ctx.broke('correspondence', 'bernoulli: a per-agent outcome differs from bernoulli_q_gen on its uniform draw', repr(bmeta[j]))


def replay(ctx, rp):
    run(ctx)
