"""
C10 -- Population bookkeeping stays consistent under births and deaths.

1. translator: Gen_Arr.v (growth arithmetic of Arr.grow, death-due comparison; shape pins on People.grow /
   request_death / step_die / remove_dead / _link_state, Arr.set / init_vals)
2. obligations: Props/C10.v (invariant over all histories, dense ids, permanence and timing of deaths, balance)
3. correspondence: operation sequences (grow with/without slots incl. reallocation-forcing sizes, overlapping death
   requests, step_die, remove_dead, tick, reads/writes) on a real People vs the model run in Coq: outputs + final snapshot
   (auids, n_uid, per-array len_used / len_tot / defined cells)
4. oracle on the implementation: run-level probe (every step: dense uids, every registered state aligned, active = not died,
   balance n_alive_t = n_alive_{t-1} + created - recorded deaths) under Births/Deaths/Pregnancy with high rates
"""
import numpy as np
from vlib.core import Broken
from harness import people_ops as po

WEIGHTS = dict(grow=5, request_death=4, step_die=3, remove_dead=3, tick=2, set=1, get=1, values=1, truefalse=1)


def correspondence(ctx, ss, n_cases, weights, tag):
    rng = ctx.rng
    terms, logs = [], []
    for c in range(n_cases):
        n0 = rng.choice([3, 6, 12, 20])
        try:
            case, log, sim, ppl, arrs = po.run_sequence(ss, rng, n0, rng.randint(4, 18), weights)
        except Exception as E:
            import traceback
            raise Broken('correspondence', f'driving a real People failed: {type(E).__name__}: {E}', traceback.format_exc()[-1500:])
        terms.append(case); logs.append(dict(n0=n0, ops=log))
        ctx.count(repr(log), nontrivial=any(o[0] in ('grow', 'request_death', 'set', 'setmany') for o in log))
        for o in log: ctx.dist('op:' + o[0])
        if any(o[0] == 'grow' and o[1] >= 30 for o in log): ctx.dist('sequence with a forced reallocation')
    bad = ctx.coq_mismatches(tag, po.IMPORTS, po.CASE_TYPE, terms, po.OK_DEF, shard=25)
    for j in bad[:3]:
        ctx.broke('correspondence', 'operation sequence on a real People: model and implementation disagree (outputs or final snapshot)', repr(logs[j])[:1500])
        ctx.cov.setdefault('diverging_cases', []).append(logs[j])
    if logs: ctx.sample(dict(kind='people op sequence', **logs[0]))
    return [logs[j] for j in bad]


def make_probe(ss):
    from harness.probes import Book
    return Book


def run_level(ctx, ss):
    rng = ctx.rng
    Book = make_probe(ss)
    class Rerequest(ss.Intervention):
        """Requests deaths again for agents that died earlier (a second cause of death) and, late in the step, for a living one."""
        def __init__(self, **kw):
            super().__init__(**kw); self.gone = []
        def step(self):
            ppl = self.sim.people
            if self.gone and self.ti % 2 == 0:
                ppl.request_death(ss.uids(self.gone[:3]))
            au = ppl.auids
            if len(au) > 5: ppl.request_death(ss.uids([int(au[len(au) // 2])]))
        def finish_step(self):
            ppl = self.sim.people
            self.gone += [int(u) for u in ppl.auids[~ppl.alive.raw[ppl.auids]]][:3]
            super().finish_step()
    cfgs = {
        'rerequest-deaths': lambda seed: ss.Sim(n_agents=80, diseases=ss.SIR(), networks=ss.RandomNet(), demographics=[ss.Deaths(death_rate=60)],
                                                interventions=Rerequest(name='rerequest'), dur=10, rand_seed=seed, verbose=0),
        'births-deaths-sir': lambda seed: ss.Sim(n_agents=60, diseases=ss.SIR(p_death=0.3), networks=ss.RandomNet(),
                                                 demographics=[ss.Births(birth_rate=300), ss.Deaths(death_rate=150)], dur=12, rand_seed=seed, verbose=0),
        'pregnancy-deaths': lambda seed: ss.Sim(n_agents=120, networks=[ss.PrenatalNet(), ss.PostnatalNet()], diseases=ss.SIS(beta=dict(prenatal=0.1, postnatal=0.1)),
                                                demographics=[ss.Pregnancy(fertility_rate=200, p_maternal_death=0.2, p_neonatal_death=0.2), ss.Deaths(death_rate=80)],
                                                dur=8, dt=0.5, rand_seed=seed, verbose=0),
        'ncd-deaths-growth': lambda seed: ss.Sim(n_agents=40, diseases=ss.NCD(), demographics=[ss.Births(birth_rate=600), ss.Deaths(death_rate=40)],
                                                 networks=ss.RandomNet(), dur=10, rand_seed=seed, verbose=0),
    }
    cfgs['deaths-on-coarser-step'] = lambda seed: ss.Sim(n_agents=150, diseases=ss.SIR(p_death=0.2), networks=ss.RandomNet(), dt=0.5, dur=8, rand_seed=seed, verbose=0,
                                                         demographics=[ss.Births(birth_rate=200), ss.Deaths(death_rate=120, unit='year', dt=1.0)])
    cfgs['deaths-on-finer-step'] = lambda seed: ss.Sim(n_agents=150, diseases=ss.SIR(p_death=0.2), networks=ss.RandomNet(), dt=1.0, dur=8, rand_seed=seed, verbose=0,
                                                       demographics=[ss.Births(birth_rate=200), ss.Deaths(death_rate=120, unit='year', dt=0.5)])
    # a population scale that is not a whole number: the reported series are the agent counts times the scale, and the balance holds for the scaled series
    cfgs['scaled-2.5'] = lambda seed: ss.Sim(n_agents=80, diseases=ss.SIR(p_death=0.3), networks=ss.RandomNet(), demographics=[ss.Births(birth_rate=300), ss.Deaths(death_rate=150)],
                                             dur=10, rand_seed=seed, verbose=0, pop_scale=2.5)
    # every child of a mother who dies is requested to die from Pregnancy.finish_step, i.e. after the resolution phase of the step
    cfgs['pregnancy-neonatal-certain'] = lambda seed: ss.Sim(n_agents=300, demographics=[ss.Pregnancy(fertility_rate=300, p_neonatal_death=ss.bernoulli(p=1.0)), ss.Deaths(death_rate=150)],
                                                             dur=6, dt=0.25, rand_seed=seed, verbose=0)
    from harness.probes import MultiDose
    cfgs['copied-mid-run'] = lambda seed: ss.Sim(n_agents=60, diseases=[ss.SIR(p_death=0.3), ss.SIS()], networks=ss.RandomNet(), interventions=MultiDose(name='multidose'),
                                                 demographics=[ss.Births(birth_rate=500), ss.Deaths(death_rate=100)], dur=12, rand_seed=seed, verbose=0)
    import pickle, copy as _copy
    # log every death request on the People object itself (class-level wrapper: in place before any sim is built)
    _orig_request = ss.People.request_death
    def _logged_request(self, uids, *a, **k):
        if not hasattr(self, '_c10_requests'): self._c10_requests = []
        self._c10_requests.append((int(self.sim.ti), [int(u) for u in np.atleast_1d(np.asarray(uids))]))
        return _orig_request(self, uids, *a, **k)
    ss.People.request_death = _logged_request
    try:
        _run_level_configs(ctx, ss, cfgs, Book, rng, pickle, _copy)
    finally:
        ss.People.request_death = _orig_request


def _run_level_configs(ctx, ss, cfgs, Book, rng, pickle, _copy):
    for name, mk in cfgs.items():
        for rep in range(ctx.n(1, 6) + (3 if name == 'pregnancy-neonatal-certain' else 0)):
            seed = rng.randrange(1, 10**4)
            book = Book(name='book')
            sim = mk(seed)
            sim.pars['analyzers'] = [book]
            try:
                if name == 'copied-mid-run':      # the run continues in a copy / an unpickled sim: bookkeeping must carry over
                    sim.run(until=sim.pars.start + 4 if isinstance(sim.pars.start, (int, float)) else None) if False else sim.init()
                    for _ in range(4): sim.run_one_step()
                    sim = pickle.loads(pickle.dumps(sim)) if rep % 2 == 0 else _copy.deepcopy(sim)
                sim.run()
            except Exception as E:
                ctx.violation(f'{name}: run raised {type(E).__name__}: {E}', dict(config=name, seed=seed)); continue
            ctx.count(('run', name, seed)); ctx.dist('run:' + name)
            book = sim.analyzers[0]
            for ti, what in book.problems[:3]:
                ctx.violation(f'{name}: at step {ti}: {what}', dict(config=name, seed=seed, ti=int(ti)))
            res = sim.results
            n_alive = np.asarray(res.n_alive, dtype=float); new_deaths = np.asarray(res.new_deaths, dtype=float)
            rows = book.rows
            ctx.cov['max_n_uid'] = max(ctx.cov.get('max_n_uid', 0), rows[-1]['n_uid'])
            for a, b in zip(rows, rows[1:]):
                created = (b['n_uid'] - a['n_uid']) * float(sim.pars.pop_scale or 1.0)
                ti = b['ti']
                if abs(n_alive[ti] - b['alive_active'] * float(sim.pars.pop_scale or 1.0)) > 1e-9:
                    ctx.violation(f'{name}: step {ti}: reported n_alive {n_alive[ti]} is not the number of living agents {b["alive_active"]} x pop_scale {sim.pars.pop_scale}', dict(config=name, seed=seed, ti=ti)); break
                if n_alive[ti] != n_alive[ti - 1] + created - new_deaths[ti]:
                    w = dict(config=name, seed=seed, ti=ti, n_alive_prev=n_alive[ti - 1], created=created, new_deaths=new_deaths[ti], n_alive=n_alive[ti], late=b['late'])
                    # deaths requested after the resolution phase of the previous step (ti_dead < ti) are executed now but recorded nowhere
                    # the listed finding is the call site Pregnancy.finish_step (neonatal deaths requested after the resolution phase): only configurations with Pregnancy
                    if 'pregnancy' in name and b['late'] > 0 and n_alive[ti] == n_alive[ti - 1] + created - new_deaths[ti] - b['late']:
                        w['finding_key'] = 'late-death-request-uncounted'
                    ctx.violation(f'{name}: step {ti}: n_alive {n_alive[ti]} != previous {n_alive[ti-1]} + created {created} - recorded deaths {new_deaths[ti]}', w)
                    break


def run(ctx):
    ctx.translate(['Gen_Arr'])
    ctx.build_props('C10')
    try:
        import starsim as ss
    except Exception as E:
        raise Broken('correspondence', 'cannot import starsim', repr(E))
    ctx.cov['rule'] = ('op sequences (4-18 ops) on a real People of 3-20 agents with 5 attached arrays (const / nan / bool / callable defaults): grow (0-6, sometimes 30 to '
                       'force reallocation; explicit slots 40%), overlapping death requests, step_die, remove_dead, tick, reads/writes; model outputs and final snapshot '
                       '(auids, n_uid, len_used/len_tot/defined cells of uid, slot, alive, ti_dead and the attached arrays) compared in Coq; non-trivial = has a grow/death/write')
    correspondence(ctx, ss, ctx.n(150, 3000), WEIGHTS, 'people')
    ctx.guard('run_level', run_level, ctx, ss)


def replay(ctx, rp):
    run(ctx)
