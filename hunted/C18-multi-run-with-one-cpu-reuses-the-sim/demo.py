"""ss.multi_run(sim, n_runs=n, n_cpus=1) raises AlreadyRunError for larger n_runs (5 in the witness; 2 and 3 work): with one CPU sc.parallelize runs the jobs serially in this process WITHOUT copying
the arguments, so the replicates share one Sim object; the same call with n_cpus=2 (or parallel=False, which copies explicitly) returns n independent runs."""
import sys, warnings
import starsim as ss
warnings.filterwarnings('ignore')
def mk(): return ss.Sim(n_agents=200, dur=5, rand_seed=7, verbose=0, diseases=ss.SIR(), networks=ss.RandomNet(n_contacts=4))
bad = []
for n in (2, 3, 5):
    for ncpu in (1, 2):
        try:
            sims = ss.multi_run(mk(), n_runs=n, shrink=False, parallel=True, n_cpus=ncpu)
            print(f'n_runs={n} n_cpus={ncpu}: ok, seeds {[int(s.pars.rand_seed) for s in sims]}')
        except Exception as E:
            print(f'n_runs={n} n_cpus={ncpu}: {type(E).__name__}: {E}'); bad.append((n, ncpu))
if bad:
    print('VIOLATION: the same multi-run succeeds or fails depending on the worker count:', bad); sys.exit(1)
print('OK'); sys.exit(0)
