"""
C03 violation: the value drawn for an agent depends on whether the distribution's
parameters are supplied as scalars or as per-agent arrays (or a callable returning an
array), even when that agent's own parameter values are identical.

Dist.rvs() uses two unrelated samplers: NumPy's native sampler for scalar parameters
(make_rvs) and inverse-CDF of a float32 uniform for array parameters (ppf).  So giving
ONE other agent a different parameter value (which forces the array form) changes the
draw of EVERY agent.
"""
import sys
import numpy as np
import starsim as ss

failures = []

# ---------------------------------------------------------------- Part 1: Dist level
sim = ss.Sim(n_agents=60, rand_seed=1, diseases=ss.SIR(), networks=ss.ErdosRenyiNet(p=0.05), verbose=0).init()
mod = sim.diseases.sir
uids = ss.uids([3, 7, 20, 41])

families = dict(
    normal     = lambda v: ss.normal(loc=v, scale=2.0),
    lognorm_ex = lambda v: ss.lognorm_ex(mean=v, std=2.0),
    expon      = lambda v: ss.expon(scale=v),
    poisson    = lambda v: ss.poisson(lam=v),
    nbinom     = lambda v: ss.nbinom(n=v, p=0.5),
    weibull    = lambda v: ss.weibull(c=v),
    gamma      = lambda v: ss.gamma(a=v),
    # controls, for which the two paths agree
    uniform    = lambda v: ss.uniform(low=0.0, high=v),
    bernoulli  = lambda v: ss.bernoulli(p=v/20),
)
controls = ['uniform', 'bernoulli']

print('Part 1: same seed, same trace, same RNG position, same agents, same per-agent parameter value (10)')
for name, make in families.items():
    draws = {}
    for form in ['scalar', 'array']:
        val = 10.0 if form == 'scalar' else np.full(len(uids), 10.0)
        d = make(val)
        d.init(trace='demo_dist', seed=1, sim=sim, module=mod) # Identical identity and seed
        d.jump(to=5000)                                       # Identical time step / call ordinal
        draws[form] = np.asarray(d.rvs(uids), dtype=float)
    same = np.allclose(draws['scalar'], draws['array'], rtol=1e-5)
    print(f"  {name:10s} scalar form {np.round(draws['scalar'],4)}   array form {np.round(draws['array'],4)}   {'same' if same else 'DIFFERENT'}")
    if not same and name not in controls:
        failures.append(f'{name}: agent draws differ between scalar and array parameter forms')
    if not same and name in controls:
        print('   (unexpected: control differs)')

# ---------------------------------------------------------------- Part 2: sim level
def run(loc):
    sir = ss.SIR(init_prev=ss.bernoulli(0.1), dur_inf=ss.normal(loc=loc, scale=3.0), p_death=ss.bernoulli(0), beta=ss.beta(0.05))
    s = ss.Sim(n_agents=200, rand_seed=2, dur=30, diseases=sir, networks=ss.ErdosRenyiNet(p=0.05), verbose=0)
    s.run()
    return s

def per_agent_loc(module, sim, uids):
    """ Agent 0 gets a different mean (and is excluded from the comparison); every other agent gets exactly 10.0 """
    out = np.full(len(uids), 10.0)
    out[np.asarray(uids) == 0] = 5.0
    return out

a = run(10.0)              # Baseline: scalar parameter
b = run(per_agent_loc)     # Scenario: identical parameter for every agent except agent 0
ra = a.diseases.sir.ti_recovered.raw[:200] - a.diseases.sir.ti_infected.raw[:200]
rb = b.diseases.sir.ti_recovered.raw[:200] - b.diseases.sir.ti_infected.raw[:200]
seeds_a = np.where(a.diseases.sir.ti_infected.raw[:200] == 0)[0] # Seed infections + step-0 infections: drawn at a known position
both = [u for u in seeds_a if u != 0 and b.diseases.sir.ti_infected.raw[u] == 0]
ndiff = sum(not np.isclose(ra[u], rb[u]) for u in both)
print('\nPart 2: SIR on ErdosRenyiNet, dur_inf=ss.normal(loc=10, scale=3) vs loc=callable returning 10 for everyone but agent 0')
for u in both[:6]:
    print(f'  agent {u}: infected at ti=0 in both runs; duration of infection {ra[u]:.4f} (scalar loc) vs {rb[u]:.4f} (array loc, same value 10.0)')
print(f'  {ndiff} of {len(both)} agents infected at ti=0 in both runs have a different infectious duration; '
      f'cumulative infections {a.results.sir.cum_infections[-1]:.0f} vs {b.results.sir.cum_infections[-1]:.0f}')
if ndiff:
    failures.append(f'sim level: {ndiff}/{len(both)} agents with unchanged parameters drew a different dur_inf')

if failures:
    print('\nVIOLATION of C03:')
    for f in failures: print('  -', f)
    sys.exit(1)
print('\nNo violation observed')
sys.exit(0)
