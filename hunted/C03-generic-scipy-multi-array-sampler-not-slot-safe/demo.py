"""
C03 violation: with a generic ss.Dist wrapping a SciPy distribution whose _rvs() draws
more than one array from the generator (e.g. scipy.stats.skewnorm, exponnorm,
betabinom), the value drawn for an agent depends on which OTHER agents are requested in
the same call (through max(slot)+1, the number of variates generated).

Part 1 (sim level): SIR with dur_inf = ss.Dist(sps.skewnorm, a=4, loc=10, scale=2).
  Sim A seeds agents {5, 90}; sim B seeds agent {5} only (same seed, everything else
  equal, no transmission).  Agent 5's duration of infection must be the same in A and B.
  Control: the same with dur_inf = ss.Dist(sps.norm, loc=10, scale=2).
Part 2 (dist level): several SciPy families, draw for all agents vs for subsets.
"""
import sys
import numpy as np
import scipy.stats as sps
import starsim as ss

def run_sim(dist, seeds):
    seeds = np.array(seeds)
    def p_init(self, sim, uids):
        return np.isin(uids, seeds).astype(float)
    sir = ss.SIR(init_prev=ss.bernoulli(p=p_init), dur_inf=dist, p_death=ss.bernoulli(0), beta=ss.beta(0.0))
    sim = ss.Sim(n_agents=100, diseases=sir, networks=ss.ErdosRenyiNet(p=0.05), dur=3, verbose=0, rand_seed=1)
    sim.init()
    sir = sim.diseases.sir
    assert set(sir.infected.uids.tolist()) == set(seeds.tolist()), sir.infected.uids
    return float(sir.ti_recovered.raw[5])

def dist_level(make):
    """ Compare the draw for every agent when all 60 agents are requested vs when only a subset is """
    sim = ss.Sim(n_agents=60, diseases=ss.SIR(dur_inf=make(), beta=ss.beta(0.0)), networks=ss.ErdosRenyiNet(p=0.05), dur=3, verbose=0, rand_seed=1)
    sim.init()
    d = sim.diseases.sir.pars.dur_inf
    ind = d.ind + 1
    d.jump(to=ind, force=True)
    full = np.asarray(d.rvs(ss.uids(np.arange(60))))
    bad = []
    for sub in [[3, 7, 2], [40], list(range(10)), [59, 1]]:
        d.jump(to=ind, force=True) # Same stream position (same timestep and call ordinal)
        r = np.asarray(d.rvs(ss.uids(sub)))
        if not np.array_equal(r, full[sub]):
            bad.append(sub)
    return bad

def main():
    fail = False

    # Part 1
    for label, mk in [('sps.skewnorm', lambda: ss.Dist(sps.skewnorm, a=4, loc=10, scale=2)),
                      ('sps.norm (control)', lambda: ss.Dist(sps.norm, loc=10, scale=2))]:
        a = run_sim(mk(), [5, 90])
        b = run_sim(mk(), [5])
        print(f'dur_inf={label}: recovery time of agent 5 when seeded together with agent 90: {a:.6f}; when seeded alone: {b:.6f}')
        if a != b:
            if 'control' in label:
                print('  (unexpected: control differs)')
            else:
                print('  VIOLATION: the draw for agent 5 (same seed, dist, step, call, slot) depends on whether agent 90 is sampled in the same call')
            fail = True

    # Part 2
    fams = {
        'sps.skewnorm':  lambda: ss.Dist(sps.skewnorm, a=4, loc=10, scale=2),
        'sps.exponnorm': lambda: ss.Dist(sps.exponnorm, K=1.5, loc=10, scale=2),
        'sps.betabinom': lambda: ss.Dist(sps.betabinom, n=10, a=2, b=3),
        'sps.norm (control)': lambda: ss.Dist(sps.norm, loc=10, scale=2),
        'ss.normal (control)': lambda: ss.normal(loc=10, scale=2),
    }
    for label, mk in fams.items():
        bad = dist_level(mk)
        if bad:
            print(f'{label}: draws for requested subsets {bad} differ from the same agents\' draws when all agents are requested -> VIOLATION')
            fail = True
        else:
            print(f'{label}: subset-invariant')

    return 1 if fail else 0

if __name__ == '__main__':
    sys.exit(main())
