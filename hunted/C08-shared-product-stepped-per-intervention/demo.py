"""
C08 violation: a Product shared by two interventions is stepped TWICE per time point.

Sharing one product between several interventions is a supported use (see
tests/test_sim.py::test_shared_product and the docstrings of ss.routine_screening etc.,
which pass the same `my_prod` to several interventions). But Sim.modules lists
`intv.product` once per intervention without de-duplication, so Loop.collect_funcs()
adds the product's start_step / update_results / finish_step once per *referencing
intervention*. The product's clock therefore advances 2 (or k) indices per time point,
does not denote the scheduled instant, and ends far beyond its final index.
"""
import sys
import numpy as np
import starsim as ss


class LoggingVax(ss.sir_vaccine):
    """ The built-in SIR vaccine, plus a log of (method, sim.ti, own ti, own 'now') at every per-step call """
    def __init__(self, *args, **kwargs):
        super().__init__(*args, **kwargs)
        self.calls = []

    def _log(self, what):
        self.calls.append((what, self.sim.ti, self.ti, self.now, self.sim.now))

    def start_step(self):
        self._log('start_step')
        return super().start_step()

    def update_results(self):
        self._log('update_results')
        return super().update_results()

    def finish_step(self):
        self._log('finish_step')
        return super().finish_step()


def main():
    vax = LoggingVax(pars=dict(efficacy=0.5))
    routine1 = ss.routine_vx(name='early_small', start_year=2003, prob=0.05, product=vax)
    routine2 = ss.routine_vx(name='late_big',    start_year=2006, prob=0.50, product=vax)
    sim = ss.Sim(n_agents=200, start=2000, stop=2010, dt=1.0, diseases='sir', networks='random',
                 interventions=[routine1, routine2], verbose=0)
    sim.run()

    prod = sim.interventions[0].product
    assert prod is sim.interventions[1].product, 'setup error: product is not shared'
    npts = prod.t.npts
    problems = []

    # 1. Exactly-once: each per-step method once for each of the product's own time points
    plan = sim.loop.plan
    for meth in ['start_step', 'update_results', 'finish_step']:
        n_plan = int(((plan.module == prod.name) & (plan.func_name == meth)).sum())
        n_called = sum(1 for c in prod.calls if c[0] == meth)
        if n_called != npts:
            problems.append(f'{prod.name}.{meth}() was invoked {n_called} times ({n_plan} rows in loop.plan) but the product has {npts} time points')

    # 2. Clock denotes the scheduled instant
    bad = [c for c in prod.calls if c[0] == 'start_step' and c[3] != c[4]]
    if bad:
        what, simti, ti, now, simnow = bad[min(2, len(bad)-1)]
        problems.append(f'product clock wrong at invocation: at sim time {simnow} (sim.ti={simti}) the product reads ti={ti}, now={now} '
                        f'({len(bad)} of {sum(1 for c in prod.calls if c[0]=="start_step")} start_step calls have a wrong clock)')
    tis = [c[2] for c in prod.calls if c[0] == 'start_step']
    print('product ti seen by successive start_step() calls:', tis)

    # 3. Final clock
    if prod.ti != npts - 1:
        problems.append(f'after the run the product clock reads ti={prod.ti}, expected final index {npts-1} (npts={npts})')

    print('sim.modules names:', [m.name for m in sim.modules])
    if problems:
        print('C08 VIOLATED (shared product stepped more than once per time point):')
        for p in problems:
            print('  -', p)
        sys.exit(1)
    print('ok: shared product stepped exactly once per time point')
    sys.exit(0)


if __name__ == '__main__':
    main()
