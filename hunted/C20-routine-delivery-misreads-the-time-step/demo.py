"""
C20 violation: RoutineDelivery converts the annual coverage to a per-step probability (and
computes the end of the delivery window) with the raw number sim.pars.dt, assuming it is
"the step of this intervention, in years". It is neither when
  (a) the sim runs in another time unit (unit='month'/'week'/'day'), or
  (b) the intervention is given its own time step (ss.routine_vx(..., dt=1.0) in a dt=0.25 sim).
Exits 1 if the violation manifests.
"""
import sys
import numpy as np
import starsim as ss

N = 50_000
problems = []

LOG = [] # Module-level, since the sim works on a copy of the intervention and its product

class recorder(ss.Vx):
    """ A vaccine product with no effect that records each delivery """
    def administer(self, people, uids):
        t = self.sim.t
        LOG.append(dict(ti=t.ti, year=float(t.yearvec[t.ti]), now=str(t.now()), n=len(uids)))

def run(simkw, ivkw):
    LOG.clear()
    iv = ss.routine_vx(product=recorder(), **ivkw)
    sim = ss.Sim(n_agents=N, interventions=iv, verbose=0, **simkw)
    sim.run()
    return list(LOG)

def check(label, log, annual, step_years, start_year, end_year):
    expected = 1 - (1 - annual) ** step_years      # annual coverage converted to the step
    fracs = np.array([e['n'] / N for e in log])     # everyone is eligible, so n/N is the per-step acceptance
    years = np.array([e['year'] for e in log])
    print(f'--- {label}')
    print(f'    deliveries: {len(log)}, first at {log[0]["now"]}, last at {log[-1]["now"]}')
    print(f'    per-step acceptance: mean {fracs.mean():.4f}; expected for annual coverage {annual} and a step of {step_years:.4f} y: {expected:.4f}')
    sd = np.sqrt(expected*(1-expected)/N)
    if abs(fracs.mean() - expected) > 6*sd + 1e-4:
        problems.append(f'{label}: per-step acceptance {fracs.mean():.4f}, expected {expected:.4f} '
                        f'(cumulative over one year: {1-(1-fracs.mean())**(1/step_years):.3f} instead of {annual})')
    before = years < start_year - 1e-6
    if before.any():
        problems.append(f'{label}: {before.sum()} deliveries before start_year={start_year}, the first at {log[0]["now"]}')
    # The window is documented/implemented (for dt<1 year) as running to the end of end_year
    last_expected = end_year + 1 - step_years
    if years.max() < last_expected - 1e-6 - 0.02:
        problems.append(f'{label}: last delivery at {log[-1]["now"]} (year {years.max():.3f}); the window '
                        f'start_year={start_year}..end_year={end_year} should run through year {last_expected:.3f} as it does for a sim in years with dt<1')

# Reference: a sim in years with dt=1/12 -- this one is right
ref = run(dict(start=2000, stop=2003, dt=1/12), dict(prob=0.1, start_year=2001, end_year=2002))
check('reference: unit=year, dt=1/12', ref, 0.1, 1/12, 2001, 2002)
assert not problems, problems

# (a) the same monthly model expressed with unit='month'
log = run(dict(start='2000-01-01', stop='2003-01-01', unit='month', dt=1), dict(prob=0.1, start_year=2001, end_year=2002))
check("(a) sim unit='month', dt=1", log, 0.1, 1/12, 2001, 2002)

# (a'') weekly sim
log = run(dict(start='2000-01-01', stop='2003-01-01', unit='week', dt=1), dict(prob=0.1, start_year=2001, end_year=2002))
check("(a'') sim unit='week', dt=1", log, 0.1, 7/365, 2001, 2002)

# (a') daily sim
log = run(dict(start='2000-01-01', stop='2003-01-01', unit='day', dt=1), dict(prob=0.1, start_year=2001, end_year=2002))
check("(a') sim unit='day', dt=1", log, 0.1, 1/365, 2001, 2002)

# (b) intervention on its own yearly step in a quarterly sim
log = run(dict(start=2000, stop=2005, dt=0.25), dict(prob=0.1, dt=1.0))
check('(b) sim dt=0.25, intervention dt=1.0', log, 0.1, 1.0, 2000, 2005 - 1 + 1e-9)

# (b') intervention on a quarterly step in a yearly sim
log = run(dict(start=2000, stop=2005, dt=1.0), dict(prob=0.1, dt=0.25))
check("(b') sim dt=1, intervention dt=0.25", log, 0.1, 0.25, 2000, 2005 - 1 + 1e-9)

if problems:
    print('\nVIOLATIONS of C20 (coverage conversion / delivery window):')
    for p in problems:
        print('  *', p)
    sys.exit(1)
print('no violation')
sys.exit(0)
