"""
C10 violation: enumerating the population through the public container API
(`for person in sim.people`, `sim.people[i]`, `sim.people.person(i)`, `arr[i]` with an int)
does not give the active (not-dead) agents once anybody has died.

People.__iter__ yields people[i] for i in range(len(people)); len(people) is the number of
ACTIVE agents, but people[i] / Arr.__getitem__(int) index the RAW arrays by UID. So the
iteration returns the agents with UIDs 0..n_active-1 -- many of them dead and removed --
and never reaches the living agents with larger UIDs (in particular every newborn).
The Arr docstring promises the opposite ("If indexing by an int or slice, Arr.values is used ...
sim.people.age[999] will return an IndexError (since sim.people.age[899] is the last active agent)").
"""
import sys
import numpy as np
import starsim as ss

sim = ss.Sim(n_agents=200, dur=15, rand_seed=2, verbose=0,
             demographics=[ss.Births(birth_rate=60), ss.Deaths(death_rate=60)])
sim.run()
p = sim.people
active = set(p.auids.tolist())
assert active == set(np.nonzero(p.alive.raw[:p.n_uids])[0].tolist())  # auids really is "everybody not dead"

persons = list(p)                         # public iteration over the population
it_uids = [int(x.uid) for x in persons]
it_dead = [int(x.uid) for x in persons if not x.alive]
missed  = sorted(active - set(it_uids))

problems = []
if len(persons) != len(active):
    problems.append(f'iteration yields {len(persons)} persons, active population is {len(active)}')
if it_dead:
    problems.append(f'iteration over sim.people yields {len(it_dead)} DEAD agents (alive=False, ti_dead set), e.g. UIDs {it_dead[:8]}')
if missed:
    problems.append(f'{len(missed)} living agents are never yielded, e.g. UIDs {missed[:8]} (all agents born during the run are among them: '
                    f'{sum(u >= 200 for u in missed)} of {sum(u >= 200 for u in active)})')

# Integer indexing of a state, versus the documented behaviour
n_act = len(p)
doc_val = p.age.values[0]     # what the docstring says age[0] is (first active agent)
got_val = p.age[0]            # what it actually is (raw[0] == UID 0, who may be dead)
if not (doc_val == got_val) and not p.alive.raw[0]:
    problems.append(f'people.age[0]={got_val!r} is the age of dead agent UID 0; first active agent (UID {p.auids[0]}) has age {doc_val!r}')
try:
    v = p.age[n_act]          # docstring: IndexError, since only n_act active agents
    problems.append(f'people.age[{n_act}] (index == number of active agents) returned {v!r} instead of raising IndexError')
except IndexError:
    pass

if problems:
    print('C10 VIOLATION: the population enumerated through People.__iter__/int indexing is not the set of living agents')
    print(f'  active agents: {len(active)}, UIDs ever assigned: {p.n_uids}')
    for pr in problems:
        print('  -', pr)
    sys.exit(1)
print('OK')
sys.exit(0)
