"""
C16 violation: ss.Syphilis never converts its natural-history durations to the time step.

The parameters are documented in the source as "all specified in years"
(dur_exposed mean 1/12, dur_primary 1.5/12, dur_secondary 3.6/12, dur_latent_temp 1,
dur_latent_long 20), but they are plain distributions without time units, and
set_prognoses()/set_*_prognoses() add the sampled values directly to the time INDEX:
    self.ti_primary[uids] = ti + rr(dur_exposed)
So every stage lasts <value> STEPS, i.e. <value>*dt years.
"""
import sys
import numpy as np
import starsim as ss

def run(dt):
    syph = ss.Syphilis(beta=dict(mf=[0, 0]), init_prev=ss.bernoulli(p=0.5)) # No transmission: pure natural history
    sim = ss.Sim(n_agents=4000, diseases=syph, networks=ss.MFNet(), unit='year', dt=dt, start=2000, dur=30, verbose=0)
    sim.run()
    s = sim.diseases[0]
    lat = s.ti_tertiary.raw - s.ti_latent_long.raw  # Steps spent in long latency before tertiary disease (parameter: mean 20 years)
    lat = lat[np.isfinite(lat)]
    sec = s.ti_secondary.raw - s.ti_exposed.raw      # Not used for the verdict
    r = sim.results.syphilis
    i10 = int(round(10/dt))
    return lat.mean()*dt, len(lat), r.n_tertiary[i10], r.n_latent_long[i10]

print('Syphilis default dur_latent_long = lognorm_ex(mean=20, std=8) "in years"; no transmission, 30-year runs')
print(f'{"dt (years)":<12}{"mean years latent_long -> tertiary":<38}{"tertiary at year 10":<22}{"long-latent at year 10"}')
failures = []
for dt in [1.0, 0.5, 0.25, 1/12]:
    years, n, n_tert, n_lat = run(dt)
    ok = abs(years - 20) < 3 # generous: the lognormal mean is 20 y, n is several hundred
    print(f'{dt:<12.4f}{years:<38.2f}{n_tert:<22.0f}{n_lat:<10.0f}{"ok" if ok else "WRONG"}')
    if not ok:
        failures.append((dt, years, n_tert))

if failures:
    print('\nVIOLATION of C16: stage durations given in years are applied as numbers of steps, so they scale with dt:')
    for dt, years, n_tert in failures:
        print(f'  dt={dt:.4f}: long latency lasted {years:.2f} years on average instead of 20 (= 20*dt); {n_tert:.0f} tertiary cases after 10 years')
    sys.exit(1)
print('No violation observed')
sys.exit(0)
