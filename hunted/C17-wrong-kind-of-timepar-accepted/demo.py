"""
C17 demo 3: a duration (ss.dur) is silently accepted for parameters whose default is a
rate / probability-over-time (and vice versa).  Pars._update_dist() rejects exactly this
kind of swap ("Cannot change a duration to a non-duration vice versa"), but
Pars._update_timepar() takes any TimePar as-is, so the value is neither rejected nor
meaningful: the sim runs to completion on nonsense numbers.
"""
import sys
import numpy as np
import starsim as ss

kw = dict(n_agents=2000, dur=30, verbose=0, networks='random')
accepted = []

def attempt(label, make, run=None):
    try:
        mod = make()
    except Exception as E:
        print(f'rejected : {label:45s} -> {type(E).__name__}: {str(E)[:90]}')
        return None
    msg = ''
    if run is not None:
        try:
            msg = ' | sim ran without error: ' + run(mod)
        except Exception as E:
            print(f'rejected (late): {label:39s} -> {type(E).__name__}: {str(E)[:90]}')
            return None
    print(f'ACCEPTED : {label:45s}{msg}')
    accepted.append(label)
    return mod

# Control: the distribution updater refuses a rate where a duration is expected
attempt("SIS(dur_inf=ss.rate(10))   [dist of durations]", lambda: ss.SIS(dur_inf=ss.rate(10)))
n_control = len(accepted)

def run_sis(mod):
    s = ss.Sim(diseases=mod, **kw).run()
    d = s.diseases.sis
    return f'waning={d.pars.waning!r}, per-step multiplier (1-waning)={1 - d.pars.waning:.3g}, min immunity={float(np.nanmin(d.immunity.raw)):.3g}, max immunity={float(np.nanmax(d.immunity.raw)):.3g}'

def run_sir(mod):
    s = ss.Sim(diseases=mod, **kw).run()
    d = s.diseases.sir
    return f'beta={d.pars.beta!r}, per-step transmission "probability"={float(d.pars.beta.values):.3g}'

def run_births(mod):
    s = ss.Sim(demographics=mod, **kw).run()
    return f'birth_rate={s.demographics.births.pars.birth_rate!r}, births={float(s.results.births.cumulative[-1]):.0f}'

# The time-parameter updater takes a duration where a rate / time-probability is expected
attempt("SIS(waning=ss.dur(20))     [default ss.rate(0.05)]",    lambda: ss.SIS(waning=ss.dur(20)), run_sis)
attempt("SIR(beta=ss.dur(5))        [default ss.beta(0.1)]",     lambda: ss.SIR(beta=ss.dur(5)), run_sir)
attempt("Births(birth_rate=ss.years(3)) [default ss.peryear(20)]", lambda: ss.Births(birth_rate=ss.years(3)), run_births)
# ... and a rate where a duration is expected
attempt("Pregnancy(dur_pregnancy=ss.rate(0.75)) [default ss.years(0.75)]", lambda: ss.Pregnancy(dur_pregnancy=ss.rate(0.75)))

if n_control != 0:
    print('unexpected: the control case was accepted too')
if len(accepted) > n_control:
    print(f'\nVIOLATION: {len(accepted) - n_control} value(s) that cannot stand in for the time parameter were accepted instead of rejected')
    sys.exit(1)
print('OK: all rejected')
sys.exit(0)
