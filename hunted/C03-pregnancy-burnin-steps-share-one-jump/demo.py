"""
C03 violation: ss.Pregnancy's burn-in runs several module time steps (ti = -3, -2, -1, 0)
inside the sim's first step without ever advancing the module's random streams between
them.  The draws made for a woman who conceives at module step ti=0 (her child's slot,
the child's sex, her post-partum duration, maternal death) therefore depend on whether
some OTHER woman happened to be sampled in the earlier module steps ti<0.
"""
import sys
import numpy as np
import starsim as ss

N = 60

def make(infertile=None):
    preg = ss.Pregnancy(fertility_rate=100) # Default burn-in, default 9-month pregnancy
    sim = ss.Sim(n_agents=N, rand_seed=SEED, dt=0.25, dur=2, demographics=preg, networks=ss.MaternalNet(), verbose=0)
    sim.init()
    if infertile is not None and len(infertile):
        sim.people.age[ss.uids(infertile)] = 70.0 # Older than max_age=50: these women can no longer conceive; nobody else is touched
    return sim

def first_step(sim):
    """ Run the first sim step (which contains the burn-in) and list the conceptions """
    sim.run_one_step()
    ppl, preg = sim.people, sim.demographics.pregnancy
    out = {}
    for child in range(N, ppl.uid.len_used):
        mother = int(ppl.parent.raw[child])
        out[mother] = dict(ti=int(preg.ti_pregnant.raw[mother]), child_slot=int(ppl.slot.raw[child]),
                           child_female=bool(ppl.female.raw[child]), dur_postpartum=float(preg.dur_postpartum.raw[mother]))
    return out, preg

# Find a seed with at least one burn-in conception (ti<0) and one conception at ti=0
for SEED in range(1, 200):
    concA, pregA = first_step(make())
    early = [m for m,c in concA.items() if c['ti'] < 0]
    at0   = [m for m,c in concA.items() if c['ti'] == 0]
    if len(early) and len(at0):
        break
else:
    print('Could not find a suitable seed'); sys.exit(0)

print(f'rand_seed={SEED}, {N} agents, dt=0.25 y, ss.Pregnancy(fertility_rate=100) -> burn-in module steps ti=-3,-2,-1 then ti=0, all inside sim step 0')
print(f'Run A: women {early} conceive during burn-in (ti<0); women {at0} conceive at ti=0')

# Run B: identical, except that the women who conceived during burn-in are made too old to conceive
concB, pregB = first_step(make(infertile=early))
print(f'Run B: same seed, but women {early} are aged 70 (cannot conceive). Conceptions: ' + ', '.join(f'{m} at ti={c["ti"]}' for m,c in concB.items()))

bad = []
for m in at0:
    if m not in concB or concB[m]['ti'] != 0:
        print(f'  (woman {m} did not conceive at ti=0 in run B; skipping)')
        continue
    a, b = concA[m], concB[m]
    same = (a['child_slot'] == b['child_slot'] and a['child_female'] == b['child_female'] and np.isclose(a['dur_postpartum'], b['dur_postpartum']))
    print(f'  woman {m} (slot {m}) conceives at Pregnancy step ti=0 in both runs:')
    print(f'     run A: child slot {a["child_slot"]:4d}, child female={a["child_female"]!s:5}, dur_postpartum={a["dur_postpartum"]:.4f}')
    print(f'     run B: child slot {b["child_slot"]:4d}, child female={b["child_female"]!s:5}, dur_postpartum={b["dur_postpartum"]:.4f}   {"same" if same else "DIFFERENT"}')
    if not same:
        bad.append(m)
print(f'RNG index of choose_slots after the step: run A {pregA.choose_slots.ind}, run B {pregB.choose_slots.ind} (1000 = start of module step 0; +1 per non-empty call)')

if bad:
    print(f'\nVIOLATION of C03: for women {bad} the seed, distributions, module time step (ti=0), slot and parameters are identical in both runs,')
    print('but their draws differ because other women were (not) sampled at the earlier module steps ti<0 of the burn-in.')
    sys.exit(1)
print('No violation observed')
sys.exit(0)
