"""A per-network beta given as a TUPLE of two time parameters is accepted by Infection.validate_beta, but the object search that initialises time parameters does not
descend into tuples: the parameters stay uninitialised (values None), evaluate as false, and nothing is transmitted.  The LIST form of the same value works."""
import sys, warnings
import numpy as np, starsim as ss
warnings.filterwarnings('ignore')
res = {}
for form in ('list', 'tuple'):
    b = [ss.beta(0.5), ss.beta(0.5)] if form == 'list' else (ss.beta(0.5), ss.beta(0.5))
    sim = ss.Sim(n_agents=500, dur=5, rand_seed=1, verbose=0, diseases=ss.SIR(beta={'random': b}, init_prev=0.1), networks=ss.RandomNet()); sim.run()
    res[form] = int(sim.results.sir.cum_infections[-1]); print(form, 'cumulative infections', res[form], 'stored', sim.diseases.sir.pars.beta['random'])
if res['list'] != res['tuple']:
    print('VIOLATION: the tuple form of the same beta is accepted but not applied'); sys.exit(1)
print('OK'); sys.exit(0)
