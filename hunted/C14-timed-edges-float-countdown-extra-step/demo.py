"""
C14 violation: timed edges of DynamicNetwork subclasses (RandomNet, ErdosRenyiNet, MFNet, ...)
outlive their stated duration by one whole step for common dt values.

DynamicNetwork.end_pairs() counts the remaining duration down with repeated floating-point
subtraction (dur = dur - dt) and keeps an edge while dur > 0.  For dt = 0.1 and dur = 0.5
the count-down reaches 2.8e-17 instead of 0 after 5 steps, so the edge is still there on a
6th step (20% longer than stated); the same happens for dt=1/12 with dur=0.5, 2, 5 years,
dt=1/52 with dur=0.5, 2, 3, 5 years, dt=1/365 with dur=1 year, ...
"""
import sys
import numpy as np
import starsim as ss

class AtTransmission(ss.Intervention):
    def __init__(self):
        super().__init__()
        self.rows = []
    def step(self):
        net = self.sim.networks.randomnet
        vals = np.unique(net.edges.dur)
        self.rows.append((self.sim.ti, len(net), vals))

def persisted_steps(dt, dur, n_agents=500, n_contacts=10):
    chk = AtTransmission()
    sim = ss.Sim(n_agents=n_agents, dt=dt, dur=30*dt, verbose=0, copy_inputs=False, rand_seed=1,
                 networks=ss.RandomNet(n_contacts=n_contacts, dur=dur),
                 diseases=ss.SIS(beta=0.01), interventions=chk)
    sim.run()
    ti, n_edges, vals = chk.rows[-1] # Steady state: no births or deaths, so every step adds exactly n_agents*n_contacts/2 edges
    per_step = n_agents*n_contacts//2
    return n_edges/per_step, vals

fail = False
for dt, dur, label in [(0.25, 0.5, 'dt=0.25'), (0.1, 0.5, 'dt=0.1'), (1/12, 0.5, 'dt=1/12'), (1/12, 2, 'dt=1/12'), (1/52, 0.5, 'dt=1/52')]:
    expected = round(dur/dt)
    got, vals = persisted_steps(dt, dur)
    flag = '' if got == expected else '   <-- WRONG'
    print(f'{label:8s} dur={dur}: stated duration = {expected} steps; each edge is present at transmission on {got:g} steps{flag}')
    if got != expected:
        fail = True
        print(f'          smallest remaining "dur" among the edges still used for transmission: {vals.min():.3g} (should have been removed at 0)')

if fail:
    print('\nVIOLATION: timed edges persist one step longer than their stated duration (float count-down in DynamicNetwork.end_pairs)')
    sys.exit(1)
print('OK')
