"""
C19 violation 2: with burn-in (the default) newborns/unborn agents get the wrong age when
ss.Pregnancy has its own time step, because the burn-in "age to ti=0" correction multiplies the
*Pregnancy module's* step index by the *sim's* step length (demographics.py line 516).

Case A: yearly sim (default dt=1), Pregnancy resolved monthly (dt=1/12): babies delivered on step 0
        are 8.25 years old (9.25 after the first ageing update); still-unborn agents are 0.25..7.25 years old.
Case B: daily sim, Pregnancy on a monthly step: babies delivered on step 0 have age -0.725 years.
"""
import sys
import numpy as np
import starsim as ss

def check(sim, label):
    sim.init()
    preg = sim.demographics[0]
    ppl = sim.people
    n0 = sim.pars.n_agents
    sim.run_one_step()                                   # sim step 0 (includes the burn-in) + one ageing update of dt_year
    new = ss.uids(np.arange(n0, ppl.uid.len_used))       # everyone conceived so far
    mothers = ppl.parent[new]
    assert (mothers >= 0).all() and (mothers < n0).all()
    dty = sim.t.dt_year
    tol = 1e-3
    delivered = ~preg.pregnant[mothers]                  # mother no longer pregnant -> baby was delivered on step 0
    age_born   = ppl.age[new][delivered]
    age_unborn = ppl.age[new][~delivered]
    print(f'[{label}] sim dt = {sim.t.dt} {sim.t.unit} ({dty:.5f} y); pregnancy dt = {preg.t.dt} {preg.t.unit}; gestation = {preg.pars.dur_pregnancy}')
    print(f'   {delivered.sum()} babies delivered on step 0; ages now (after one ageing update of {dty:.4f} y): {np.unique(np.round(age_born,3))}')
    print(f'   {(~delivered).sum()} agents still unborn; ages now: {np.unique(np.round(age_unborn,3))}')
    bad = False
    # A baby delivered on step 0 entered at age ~0 and has been aged once: age must lie in [0, dt_year] (allow gestation rounding of < one pregnancy step)
    pstep_years = preg.t.dt * {'year':1.0, 'month':1/12, 'week':7/365.25, 'day':1/365.25}[preg.t.unit]
    if delivered.any() and ((age_born < -tol) | (age_born > dty + pstep_years + tol)).any():
        print(f'   VIOLATION: delivered newborns should be aged between 0 and {dty + pstep_years:.3f} y')
        bad = True
    # An unborn agent (mother still pregnant) cannot be older than one ageing update past zero
    if (~delivered).any() and (age_unborn > dty + tol).any():
        print(f'   VIOLATION: {int((age_unborn > dty + tol).sum())} unborn agents (mother still pregnant) have age up to {age_unborn.max():.3f} y')
        bad = True
    return bad

simA = ss.Sim(n_agents=5000, dt=1, start=2000, stop=2005, demographics=ss.Pregnancy(dt=1/12, fertility_rate=100), verbose=0)
simB = ss.Sim(n_agents=5000, unit='day', dt=1, start='2000-01-01', stop='2001-01-01', demographics=ss.Pregnancy(unit='month', dt=1, fertility_rate=100), verbose=0)
simC = ss.Sim(n_agents=5000, dt=1/12, start=2000, stop=2005, demographics=ss.Pregnancy(dt=1/12, fertility_rate=100), verbose=0) # control: same dt, fine

badC = check(simC, 'control: sim and Pregnancy both monthly')
badA = check(simA, 'A: yearly sim, monthly Pregnancy')
badB = check(simB, 'B: daily sim, monthly Pregnancy')
if badC:
    print('unexpected: control failed too')
if badA or badB:
    sys.exit(1)
print('no violation')
sys.exit(0)
