"""
C15 violation: ss.Gonorrhea's 'new_clearances' result is not the number of agents whose
infection cleared on that step. It counts, on every step, every agent who has *ever*
cleared (a number that keeps growing), so it exceeds the true flow many times over and
breaks the balance  n_infected[t] = n_infected[t-1] - new_clearances[t] + new_infections[t].
"""
import sys
import numpy as np
import starsim as ss

class Probe(ss.Intervention):
    """ Runs after Gonorrhea.step_state() (where clearance happens) and before Gonorrhea.step() (where infection happens) """
    def __init__(self):
        super().__init__(name='probe')
        self.inf_end_prev = None # Who was infected at the end of the previous step
        self.cleared = []
    def step(self):
        inf = self.sim.diseases.gonorrhea.infected
        now = set(inf.uids.tolist())
        if self.inf_end_prev is None:
            self.cleared.append(0)
        else:
            self.cleared.append(len(self.inf_end_prev - now)) # Infected at the end of last step, not infected after step_state
    def finish_step(self):
        super().finish_step()
        self.inf_end_prev = set(self.sim.diseases.gonorrhea.infected.uids.tolist())

probe = Probe()
sim = ss.Sim(n_agents=2000, start=2000, dur=5, dt=1/12, rand_seed=1,
             diseases=ss.Gonorrhea(beta=ss.beta(0.5)), networks=ss.RandomNet(),
             interventions=probe, verbose=0) # No births, no deaths
sim.run()

probe = sim.interventions.probe
r = sim.results.gonorrhea
rep   = np.array(r.new_clearances, dtype=int)
true  = np.array(probe.cleared, dtype=int)
n_inf = np.array(r.n_infected, dtype=int)
new_i = np.array(r.new_infections, dtype=int)
implied = n_inf[:-1] + new_i[1:] - n_inf[1:] # Clearances implied by the module's own other results, steps 1..end

print('step                      :', np.arange(1, 13))
print('reported new_clearances   :', rep[1:13])
print('agents actually cleared   :', true[1:13])
print('implied by n_infected/new :', implied[:12])
print(f'totals over the run: reported {rep.sum()}, actually cleared {true.sum()}, implied {implied.sum()}')

fail = False
if not np.array_equal(true[1:], implied):
    print('NOTE: probe and balance disagree (unexpected)')
bad = np.flatnonzero(rep[1:] != true[1:]) + 1
if len(bad):
    t = bad[-1]
    print(f'VIOLATION: new_clearances differs from the number of agents cleared on {len(bad)} of {len(rep)-1} steps; '
          f'e.g. step {t}: reported {rep[t]}, actually cleared {true[t]} (n_infected went {n_inf[t-1]} -> {n_inf[t]} with {new_i[t]} new infections)')
    fail = True
sys.exit(1 if fail else 0)
