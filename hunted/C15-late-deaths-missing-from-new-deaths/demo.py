"""
C15 violation: sim.results.new_deaths (and hence cum_deaths, and the balance
n_alive[t] = n_alive[t-1] + created[t] - new_deaths[t]) misses every death that
is requested after people.step_die() has run on the step -- which is what the
built-in ss.Pregnancy does for neonatal deaths (p_neonatal_death) in its
finish_step().  The agents are killed and removed on the next step, but no
entry of new_deaths ever counts them.

Exits 1 when the violation manifests.
"""
import sys
import numpy as np
import starsim as ss


class DeathWatch(ss.Analyzer):
    """ Independently count the agents whose alive flag was cleared on each step (they are removed at the end of the step) """
    def init_pre(self, sim):
        super().init_pre(sim)
        self.died = []
        self.n_alive = []
        self.n_created = []
        return

    def step(self):
        ppl = self.sim.people
        alive = ppl.alive.raw[ppl.auids] # Active agents = not yet removed
        self.died.append(int(np.count_nonzero(~alive)))
        self.n_alive.append(int(np.count_nonzero(alive)))
        self.n_created.append(int(ppl.uid.len_used))
        return


def run(p_neonatal):
    preg = ss.Pregnancy(fertility_rate=150, p_neonatal_death=ss.bernoulli(p=p_neonatal))
    deaths = ss.Deaths(death_rate=500)
    sim = ss.Sim(n_agents=5000, demographics=[preg, deaths], dt=1/12, dur=20, analyzers=DeathWatch(), verbose=0)
    sim.run()
    return sim


problems = []
for p_neonatal in [0.0, 1.0]:
    sim = run(p_neonatal)
    res = sim.results
    ana = sim.analyzers[0]
    ppl = sim.people
    died = np.array(ana.died)
    rep = np.array(res.new_deaths.values)
    n_created = ppl.uid.len_used
    n_removed = n_created - len(ppl.auids) # Everybody ever created minus those still active = agents actually removed
    print(f'p_neonatal_death={p_neonatal}: agents created {n_created}, agents removed {n_removed}, alive flags cleared (analyzer) {died.sum()}, '
          f'sum(new_deaths) {rep.sum():n}, cum_deaths[-1]+new_deaths[-1] {res.cum_deaths[-1] + res.new_deaths[-1]:n}, final n_alive {res.n_alive[-1]:n}')

    if rep.sum() != n_removed:
        bad = np.flatnonzero(rep != died)
        problems.append(f'p_neonatal_death={p_neonatal}: {n_removed} agents died and were removed, but sum(new_deaths) = {rep.sum():n} '
                        f'({n_removed - rep.sum():n} deaths never reported; first at step {bad[0]}: reported {rep[bad[0]]:n}, died {died[bad[0]]})')

    # Balance: everybody created is either still alive or has been reported dead
    balance = n_created - rep.sum()
    if balance != res.n_alive[-1]:
        problems.append(f'p_neonatal_death={p_neonatal}: created - sum(new_deaths) = {balance:n} but n_alive[-1] = {res.n_alive[-1]:n}')

if problems:
    print('\nC15 VIOLATED:')
    for p in problems:
        print('  -', p)
    sys.exit(1)
print('no violation')
sys.exit(0)
