"""
C15 violation: with deaths in the sim, a disease that does not clear its own
flags in step_die() (the built-in ss.SIS, ss.HIV, ss.Gonorrhea, ... -- only the
SIR family does) reports n_infected INCLUDING the agents that died on the step
(alive=False, not yet removed), while prevalence divides that by the number of
ALIVE agents.  So prevalence != infected/alive, n_infected can exceed n_alive,
and prevalence can exceed 1.

Exits 1 when the violation manifests.
"""
import sys
import numpy as np
import starsim as ss


class Truth(ss.Analyzer):
    """ Independently count living infected agents and living agents on each step """
    def init_pre(self, sim):
        super().init_pre(sim)
        self.inf_alive = []
        self.alive = []
        return

    def step(self):
        sim = self.sim
        ppl = sim.people
        dis = sim.diseases[0]
        alive = ppl.alive.raw[ppl.auids]
        infected = dis.infected.raw[ppl.auids]
        self.inf_alive.append(int(np.count_nonzero(alive & infected)))
        self.alive.append(int(np.count_nonzero(alive)))
        return


problems = []

def check(label, disease, deaths, **kw):
    sim = ss.Sim(n_agents=2000, diseases=disease, networks=ss.RandomNet(), demographics=deaths, analyzers=Truth(), dur=10, verbose=0, **kw)
    sim.run()
    scale = sim.pars.pop_scale
    res = sim.diseases[0].results
    ana = sim.analyzers[0]
    inf_alive = np.array(ana.inf_alive)
    alive = np.array(ana.alive)
    true_prev = inf_alive/alive
    prev = np.array(res.prevalence.values)
    n_inf = np.array(res.n_infected.values)
    n_alive = np.array(sim.results.n_alive.values)
    print(f'{label}:')
    print(f'   reported prevalence   : {np.round(prev, 4)}')
    print(f'   infected&alive / alive: {np.round(true_prev, 4)}')
    print(f'   reported n_infected   : {n_inf}')
    print(f'   living infected*scale : {inf_alive*scale}')
    print(f'   reported n_alive      : {n_alive}')
    if prev.max() > 1:
        problems.append(f'{label}: prevalence exceeds 1 (max {prev.max():.4f})')
    if (n_inf > n_alive).any():
        t = int(np.argmax(n_inf > n_alive))
        problems.append(f'{label}: n_infected > n_alive (step {t}: {n_inf[t]:n} infected "of" {n_alive[t]:n} alive)')
    if not np.allclose(prev, true_prev, rtol=0, atol=1e-9):
        t = int(np.argmax(np.abs(prev - true_prev)))
        problems.append(f'{label}: prevalence != infected/alive on {np.count_nonzero(np.abs(prev-true_prev)>1e-9)} of {len(prev)} steps (step {t}: reported {prev[t]:.6f}, actual {true_prev[t]:.6f})')
    if not np.array_equal(n_inf, inf_alive*scale):
        t = int(np.argmax(n_inf != inf_alive*scale))
        problems.append(f'{label}: n_infected counts dead agents (step {t}: reported {n_inf[t]:n}, living infected agents x scale = {inf_alive[t]*scale:n})')
    return

# Everybody infected for the whole run, 10%/year background mortality: prevalence must be exactly 1
check('SIS, everyone infected, Deaths(100/1000/yr)',
      ss.SIS(init_prev=ss.bernoulli(p=1.0), dur_inf=ss.constant(v=ss.dur(1000))), ss.Deaths(death_rate=100))

# Plain defaults plus population scaling
check('SIS defaults, Deaths defaults, pop_scale=10', ss.SIS(), ss.Deaths(), pop_scale=10)

# Control: SIR clears its flags in step_die, so it is consistent
n_before = len(problems)
check('control: SIR defaults, Deaths(100/1000/yr)', ss.SIR(), ss.Deaths(death_rate=100))
assert len(problems) == n_before, 'control unexpectedly failed'

if problems:
    print('\nC15 VIOLATED:')
    for p in problems:
        print('  -', p)
    sys.exit(1)
print('no violation')
sys.exit(0)
