"""
C16 violation: table-driven fertility does not apply the entry for the agent's age bin.
Pregnancy.standardize_fertility_data() appends a zero column at (largest age-bin start)+1,
which assumes single-year age bins. With any wider bins (e.g. 5-year groups 15,20,...,45, or
two groups 15 and 30) every woman more than one year past the start of the last bin gets a
per-step conception probability of 0 instead of rate*dt.
"""
import sys
import numpy as np
import pandas as pd
import starsim as ss

def check(bins, rates, dt):
    rows = [dict(Time=yr, AgeGrp=a, ASFR=r) for yr in (1990, 2030) for a, r in zip(bins, rates)]
    df = pd.DataFrame(rows)
    preg = ss.Pregnancy(fertility_rate=df, burnin=False)  # ASFR per 1000 women per year (rate_units=1e-3), ages 15-50 eligible
    sim = ss.Sim(n_agents=50000, dt=dt, start=2000, dur=10, demographics=[preg], verbose=0)
    sim.init()
    p = sim.demographics.pregnancy
    ppl = sim.people
    uids = ppl.female.uids
    age = np.asarray(ppl.age[uids])
    prob = np.asarray(ss.Pregnancy.make_fertility_prob_fn(p, sim, uids))
    # Expected: entry of the age bin the woman falls in (bins are left edges), converted to the step; 0 outside [min_age, max_age]
    idx = np.digitize(age, bins) - 1
    exp = np.where((age >= p.pars.min_age) & (age <= p.pars.max_age) & (idx >= 0), np.array(rates)[np.clip(idx, 0, None)], 0) * 1e-3 * p.t.dt_year
    wrong = np.abs(prob - exp) > 1e-6
    # And what it does to a run
    sim.run()
    births_per_year = p.results.births.sum() / (p.t.npts * p.t.dt_year)
    return age, prob, exp, wrong, births_per_year

bad = False
for bins, rates in [([15, 20, 25, 30, 35, 40, 45], [60, 180, 220, 180, 120, 60, 20]),
                    ([15, 30], [150, 100])]:
    for dt in [1.0, 0.25]:
        age, prob, exp, wrong, bpy = check(bins, rates, dt)
        print(f'age bins {bins}, rates {rates} per 1000/yr, dt={dt}:')
        if wrong.any():
            bad = True
            a = age[wrong]
            print(f'   {wrong.sum()} of {len(age)} women get the wrong per-step probability; their ages span {a.min():.1f}-{a.max():.1f}')
            print(f'   observed prob (all identical): {np.unique(prob[wrong])}, expected {np.unique(np.round(exp[wrong], 6))}')
            print(f'   expected conceptions per step at t0 {exp.sum():.1f}, applied {prob.sum():.1f}; births/yr in a 10-year run: {bpy:.0f}')
        else:
            print('   ok')
        last = bins[-1]
        in_last = (age >= last + 1) & (age <= 50)
        print(f'   women aged {last+1}-50 (last bin): mean applied prob {prob[in_last].mean():.5f}, table says {rates[-1]*1e-3*dt:.5f}')

if bad:
    print('\nVIOLATION: women older than (start of last age bin)+1 year get fertility 0 instead of the last bin\'s rate x dt')
    sys.exit(1)
print('ok')
