"""
C11 violation: the augmented forms of the ss.uids set operators (&=, |=, -=, ^=)
do NOT perform set algebra. ss.uids overrides __and__/__or__/__sub__/__xor__ but
not __iand__/__ior__/__isub__/__ixor__, so Python picks np.ndarray's in-place
ELEMENTWISE bitwise/arithmetic operators. When the two operands have the same
length (or the right operand has length 1) the result is silently wrong -- it can
even contain negative "identifiers" -- instead of the mathematical set result.
"""
import sys
import operator as op
import numpy as np
import starsim as ss

sim = ss.Sim(n_agents=12, networks=None, diseases=None, dur=2, verbose=0)
sim.init()
ppl = sim.people

bad = []

def check(sym, binop, iop, setop, a_list, b_list):
    a = ss.uids(a_list); b = ss.uids(b_list)
    expected = sorted(setop(set(a_list), set(b_list)))
    binary = binop(ss.uids(a_list), b)           # a <op> b   (works)
    try:
        inplace = iop(a, b)                       # a <op>= b
        got = inplace.tolist()
    except Exception as e:                        # different lengths -> broadcast error
        got = f'{type(e).__name__}: {e}'
    ok_bin = sorted(binary.tolist()) == expected
    ok_inp = (not isinstance(got, str)) and sorted(got) == expected
    print(f'a={a_list} b={b_list}:  a {sym} b -> {binary.tolist()}   a {sym}= b -> {got}   set answer {expected}')
    if ok_bin and not ok_inp:
        bad.append(f'a {sym}= b gave {got}, but a {sym} b (and set algebra) gives {expected}')

cases = [
    ('&', op.and_, op.iand, set.intersection),
    ('|', op.or_,  op.ior,  set.union),
    ('-', op.sub,  op.isub, set.difference),
    ('^', op.xor,  op.ixor, set.symmetric_difference),
]
for sym, binop, iop, setop in cases:
    check(sym, binop, iop, setop, [0, 2, 3], [2, 3, 4])   # equal lengths: silent
    check(sym, binop, iop, setop, [4, 6, 7], [6])         # length-1 operand: silent broadcast

# A realistic use: drop the already-treated agents from an eligibility list, then use it to index an Arr
eligible = ss.uids([5, 6, 7])
treated  = ss.uids([5, 6, 9])
reference = eligible - treated            # uids([7])
eligible -= treated                       # user expects the same thing
print(f'eligible - treated = {reference.tolist()};   eligible -= treated -> {eligible.tolist()}')
vals_ref = ppl.age[reference]
vals_got = ppl.age[eligible]              # silently addresses agents 0, 0 and 10 (negative ids wrap around)
print('ages via reference :', vals_ref)
print('ages via in-place  :', vals_got)
if eligible.tolist() != reference.tolist():
    bad.append(f'eligible -= treated gave identifiers {eligible.tolist()} instead of {reference.tolist()}, and indexing an Arr with it silently read other agents')

if bad:
    print('\nVIOLATION (C11: identifier-set algebra must match mathematical set operations):')
    for b in bad:
        print('  -', b)
    sys.exit(1)
print('no violation')
sys.exit(0)
