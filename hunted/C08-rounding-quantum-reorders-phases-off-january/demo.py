"""
C08 violation: date-based sim in (default) year units that starts on a date other than 1 January
and uses a timestep that is not a multiple of 1e-6 years (e.g. dt=1/12, 1/52, 1/365).

The sim's loop times are round(k*dt, 6); each module's loop times are
round(round(start_year + k*dt, 6) - round(start_year, 6), 6). These differ by exactly +-1e-6
(= ss.options.time_eps) at many steps -- and make_plan() uses exactly time_eps*func_order to encode
the phase order, so a module that is 1e-6 "late" is shifted by one whole phase slot and its functions
tie with the next phase's function owned by sim/people. The ties are broken by floating-point noise,
so on some steps people.step_die (death resolution) runs BEFORE disease.step (transmission), and
people.finish_step before the modules' finish_step, although all of them belong to the same instant.

Exits 1 if the violation manifests.
"""
import sys
import numpy as np
import starsim as ss

sim = ss.Sim(n_agents=100, start='2020-03-01', dur=2, dt=1/12, diseases='sis', networks='random', verbose=0)
sim.run()

sis = sim.diseases[0]
assert np.array_equal(sim.t.yearvec, sis.t.yearvec), 'sim and module have the same own time vector here'
diff = sis.t.abstvec - sim.t.abstvec
print('module own time vector == sim own time vector:', np.array_equal(sim.t.yearvec, sis.t.yearvec))
print('module loop time - sim loop time, distinct values:', np.unique(np.round(diff, 9)))

# Reconstruct the executed schedule: k-th occurrence of a function is that owner's k-th time point
df = sim.loop.to_df()
years = {'sim': sim.t.yearvec, 'people': sim.t.yearvec}
for mod in sim.modules:
    years[mod.name] = mod.t.yearvec
counters = {}
executed = []
for module, label, order in zip(df.module, df.func_label, df.func_order):
    k = counters.get(label, 0); counters[label] = k + 1
    executed.append((years[module][k], k, order, label))

benign = ('start_step', 'update_results')
problems = []
for a, b in zip(executed[:-1], executed[1:]):
    if b[0] < a[0]:
        problems.append(f'time goes backwards: {a[3]}@{a[0]} then {b[3]}@{b[0]}')
    elif b[0] == a[0] and b[2] < a[2]:
        problems.append(f'step {a[1]} (t={a[0]}): {a[3]} (phase #{a[2]}) ran before {b[3]} (phase #{b[2]})')

serious = [p for p in problems if 'step_die' in p or 'finish_step' in p]
print(f'{len(problems)} phase-order breaks, of which {len(serious)} involve death resolution / end of step:')
for p in (serious + [p for p in problems if p not in serious])[:12]:
    print('  -', p)

if problems:
    print('C08 VIOLATED: within one instant the functions did not run in the documented phase order')
    sys.exit(1)
print('No violation observed')
sys.exit(0)
