"""
C11 violation: comparisons / predicate ufuncs with a NumPy operand on the LEFT of an agent
array (np scalar < arr, ndarray == arr, np.isnan(arr), np.less(arr, v), arr.mean() < arr ...)
do not yield a BoolArr. They yield the *source* class (e.g. FloatArr) holding booleans, so the
result cannot be combined logically, has no .uids, cannot be used as an index key, and is
silently mis-read as the integers 0/1 by ss.uids() and by the uid set operators.
Exits 1 when the violation manifests.
"""
import sys
import numpy as np
import starsim as ss

x = ss.FloatArr('x', default=lambda n: np.arange(n) * 1.0)   # value of uid k is k
ppl = ss.People(10, extra_states=[x])
sim = ss.Sim(people=ppl, copy_inputs=False, verbose=0)
sim.init()
# Make the active set non-trivial: remove uids 0,1 and add 2 new agents (uids 10, 11; x = 0, 1)
ppl.alive[ss.uids([0, 1])] = False
ppl.remove_dead()
ppl.grow(2)

active = [int(u) for u in ppl.auids]
ref = {u: float(x.raw[u]) for u in active}            # reference uid -> value map on active agents
lo, hi = np.float64(3), np.float64(7)                 # thresholds as NumPy scalars (e.g. taken from a pars array)
expect_gt = [u for u in active if lo < ref[u]]        # {4..9}
expect_band = [u for u in active if lo < ref[u] < hi] # {4,5,6}

problems = []
def check(label, fn, expected):
    try:
        got = fn()
        got = [int(v) for v in got]
        if got != expected:
            problems.append(f'{label}: WRONG RESULT {got}, expected {expected}')
    except Exception as e:
        problems.append(f'{label}: raised {type(e).__name__}: {str(e)[:110]} (expected {expected})')

# Sanity: the mirrored spellings work and agree with the reference
assert [int(v) for v in (x > lo).uids] == expect_gt
assert [int(v) for v in ((x < hi) & (x > lo)).uids] == expect_band

# 1. Same comparison with the NumPy scalar on the left
r = lo < x
print('type(lo < x) =', type(r).__name__, '; type(x > lo) =', type(x > lo).__name__)
check('(lo < x).uids', lambda: (lo < x).uids, expect_gt)
check('x[lo < x] (mask as index key)', lambda: x[lo < x], [ref[u] for u in expect_gt])
check('((lo < x) & (x < hi)).uids', lambda: ((lo < x) & (x < hi)).uids, expect_band)
check('(~(lo < x)).uids', lambda: (~(lo < x)).uids, [u for u in active if not lo < ref[u]])
# 2. silent mis-reading of the mask as identifiers 0/1
check('ss.uids(lo < x)', lambda: ss.uids(lo < x), expect_gt)
check('ss.uids([2,3,8,9]) & (lo < x)', lambda: ss.uids([2, 3, 8, 9]) & (lo < x), [8, 9])
# 3. other everyday spellings that take the same path
check('(x.mean() < x).uids', lambda: (x.mean() < x).uids, [u for u in active if np.mean(list(ref.values())) < ref[u]])
check('(~np.isnan(x)).uids', lambda: (~np.isnan(x)).uids, active)
check('(x.values.copy() == x).uids (ndarray on left)', lambda: (x.values.copy() == x).uids, active)

if problems:
    print(f'VIOLATION of C11 ({len(problems)} checks failed):')
    for p in problems:
        print('  -', p)
    sys.exit(1)
print('no violation')
sys.exit(0)
