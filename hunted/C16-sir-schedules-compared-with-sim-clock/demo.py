"""
C16 violation: ss.SIR on its own time step (dt or unit different from the sim's)
keeps agents infected for a calendar time that depends on the ratio of the two steps.

SIR.set_prognoses() schedules recovery/death in MODULE steps (ti = self.t.ti, and
dur_inf is converted to the module's step), but SIR.step_state() compares those
times with the SIM's step counter (sim.ti).  ss.SIS, which uses self.ti in both
places, is run next to it as a control.
"""
import sys
import numpy as np
import sciris as sc
import starsim as ss

DUR = 4.0 # Duration of infection in years (constant, so that there is no sampling noise at all)

def time_to_clear(cls, modkw):
    """ Everyone is infected at t=0 for exactly DUR years, no transmission, no death: when are they all recovered? """
    kw = dict(init_prev=ss.bernoulli(p=1.0), beta=ss.beta(0), dur_inf=ss.constant(v=ss.dur(DUR, unit='year')))
    if cls is ss.SIR:
        kw['p_death'] = ss.bernoulli(p=0)
    dis = cls(**kw, **modkw)
    sim = ss.Sim(n_agents=200, diseases=dis, networks='random', unit='year', dt=1.0, start=2000, dur=20, verbose=0)
    sim.run()
    res = sim.results[dis.name]
    n_inf = np.array(res.n_infected)
    years = sim.diseases[0].t.yearvec
    cleared = np.nonzero(n_inf == 0)[0]
    t_clear = years[cleared[0]] - years[0] if len(cleared) else np.inf
    return t_clear, sim.diseases[0].t.dt_year

configs = [
    dict(),                        # Same step as the sim (1 year): control
    dict(dt=0.5),                  # Half-year module step in a 1-year sim
    dict(dt=2.0),                  # Two-year module step in a 1-year sim
    dict(unit='month', dt=1.0),    # Monthly module in a yearly sim
]

failures = []
print(f'Sim: unit=year, dt=1. Every agent infected at t=0 with dur_inf = exactly {DUR} years; beta=0, p_death=0.')
print(f'{"module":<8}{"module step":<28}{"years until nobody is infected":<34}expected')
for cls in [ss.SIS, ss.SIR]:
    for modkw in configs:
        t_clear, dt_year = time_to_clear(cls, modkw)
        ok = abs(t_clear - DUR) <= dt_year + 1e-6 # Allow one module step of discretisation
        flag = 'ok' if ok else 'WRONG'
        print(f'{cls.__name__:<8}{str(modkw):<28}{t_clear:<34.3f}{DUR} +/- {dt_year:.3f}  {flag}')
        if not ok:
            failures.append((cls.__name__, modkw, t_clear))

if failures:
    print('\nVIOLATION of C16: the duration of infection (a parameter in years) depends on the module/sim step ratio:')
    for name, modkw, t_clear in failures:
        print(f'  {name}({modkw}) in a dt=1-year sim: infection lasted {t_clear} years instead of {DUR}')
    sys.exit(1)
print('No violation observed')
sys.exit(0)
