"""
C09 violation 1: modules that draw from NumPy's *global* RNG (np.random.* / sc.randround)
make a paused run's continuation depend on state that is not part of the Sim.
  A) copy a paused sim, continue the copy, then continue the original -> the original
     no longer matches the uninterrupted run (copy and original are not independent)
  B) save a paused sim, load + resume it in two fresh processes -> neither matches the
     uninterrupted run, and the two resumed runs do not even match each other
  C) same as (A) with no demographics at all, only RandomNet(n_contacts=5) (sc.randround)
Exits 1 if any of these manifests.
"""
import os, sys, json, subprocess, tempfile
import numpy as np
import starsim as ss

def results(sim):
    return {k: np.array(v, dtype=float) for k, v in sim.results.flatten().items()}

def differing(a, b):
    return [k for k in a if a[k].shape != np.shape(b[k]) or not np.array_equal(a[k], np.array(b[k], dtype=float), equal_nan=True)]

def make_births():
    # demographics=True is the documented shortcut for ss.Births() + ss.Deaths()
    return ss.Sim(n_agents=500, diseases='sis', networks='random', demographics=True, dur=20, verbose=0)

def make_oddnet():
    return ss.Sim(n_agents=500, diseases='sir', networks=ss.RandomNet(n_contacts=5), dur=20, verbose=0)

failed = False

# ---------- A and C: copy + original continued independently ----------
for label, make in [('A: Births (demographics=True)', make_births), ('C: RandomNet(n_contacts=5)', make_oddnet)]:
    ref = results(make().run())
    sim = make()
    sim.run(until=2005)       # pause
    cp = sim.copy()           # deep copy of the paused run
    cp.run()                  # continue the copy ...
    sim.run()                 # ... then continue the original
    d_copy = differing(ref, results(cp))
    d_orig = differing(ref, results(sim))
    print(f'[{label}] copy differs from uninterrupted run in: {d_copy[:4]}')
    print(f'[{label}] original differs from uninterrupted run in: {d_orig[:4]}')
    if d_copy or d_orig:
        k = (d_orig or d_copy)[0]
        print(f'    e.g. {k}: uninterrupted={ref[k][-5:]}  resumed original={results(sim)[k][-5:]}')
        failed = True

# ---------- B: save, then load + resume in fresh processes ----------
ref = results(make_births().run())
sim = make_births()
sim.run(until=2005)
tmpdir = tempfile.mkdtemp(prefix='c09_v1_', dir=os.path.dirname(os.path.abspath(__file__)))
fn = os.path.join(tmpdir, 'paused.sim')
sim.save(fn)
child = ("import sys, json, numpy as np, starsim as ss\n"
         "sim = ss.load(sys.argv[1]); sim.run()\n"
         "print('JSON' + json.dumps({k: np.array(v, dtype=float).tolist() for k,v in sim.results.flatten().items()}))\n")
outs = []
for rep in range(2):
    p = subprocess.run([sys.executable, '-c', child, fn], capture_output=True, text=True,
                       env=dict(os.environ, PYTHONWARNINGS='ignore'))
    line = [l for l in p.stdout.splitlines() if l.startswith('JSON')]
    if not line:
        print('child failed:', p.stderr[-500:]); continue
    outs.append(json.loads(line[0][4:]))
    d = differing(ref, outs[-1])
    print(f'[B: save/load in fresh process #{rep}] differs from uninterrupted run in: {d[:4]}')
    if d: failed = True
if len(outs) == 2:
    same = outs[0] == outs[1]
    print(f'[B] the two resumed-from-the-same-file runs agree with each other: {same}')
    if not same: failed = True

if failed:
    print('\nVIOLATION: pausing + copying/saving changed the outcome of the run (global NumPy RNG is used by Births.get_births, RandomNet.add_pairs, ...)')
    sys.exit(1)
print('no violation observed')
