"""
C06 violation: NumPy-side arithmetic on a TimePar (ndarray * timepar, np.float64 * timepar,
np.multiply / np.minimum / any ufunc) does not rescale the parameter consistently.

`timepar * array` goes through TimePar.__mul__ and rescales the base value v (then re-derives
values).  `array * timepar` goes through BaseArr.__array_ufunc__, which computes on .values and
wraps the result with self.asnew(result): the new TimePar carries the NEW .values but the OLD
.v / unit.  Its two representations disagree, and every later re-derivation (.to(), *, /, set(),
init(), update_cached()) silently throws the operation away.
"""
import sys
import numpy as np
import starsim as ss

fails = []
arr = np.array([1.0, 2.0])

# A 2-year duration living in a module whose step is 1 day
x = ss.dur(2, 'year').init(parent_unit='day', parent_dt=1.0)

right = x * arr     # TimePar.__mul__
left  = arr * x     # ndarray.__mul__ -> BaseArr.__array_ufunc__

print('x * arr ->', repr(right))
print('arr * x ->', repr(left))

# 1. Multiplication must commute: same quantity in the parameter's own unit
if not np.allclose(np.broadcast_to(left.v, arr.shape), right.v):
    fails.append(f'arr*x has base value v={left.v!r} (years) but x*arr has v={right.v!r}')

# 2. values / step-length must equal the quantity in its own unit (values = v*factor)
if not np.allclose(left.values, np.asarray(left.v) * left.factor):
    fails.append(f'arr*x is internally inconsistent: values={left.values} days but v*factor={np.asarray(left.v)*left.factor} days')

# 3. Converting the product back to years must give [2, 4] years
back = left.to('year')
if not np.allclose(back.v, [2.0, 4.0]):
    fails.append(f'(arr*x).to("year") = {back.v!r} years, expected [2. 4.]')

# 4. Multiplying by one must be the identity
same = left * 1
if not np.allclose(same.values, left.values):
    fails.append(f'(arr*x)*1 has values {same.values}, but arr*x has values {left.values}')

# 5. Same with an explicit ufunc, and with a rate
r = ss.rate(4, 'year').init(parent_unit='day', parent_dt=1.0)
prod = np.multiply(arr, r)
if not np.allclose(prod.to('year').v, [4.0, 8.0]):
    fails.append(f'np.multiply(arr, rate(4/yr)).to("year") = {prod.to("year").v!r}, expected [4. 8.]')

# 6. A NumPy scalar on the left gives a bare float in parent-step units, a Python float gives a TimePar
a = 2.0 * x
b = np.float64(2.0) * x
if type(a) is not type(b):
    fails.append(f'2.0*x is {type(a).__name__} ({a!r}) but np.float64(2.0)*x is {type(b).__name__} ({b!r})')

if fails:
    print('\nVIOLATION of C06 (arithmetic on time parameters rescales consistently):')
    for f in fails:
        print('  -', f)
    sys.exit(1)
print('OK: no violation')
sys.exit(0)
