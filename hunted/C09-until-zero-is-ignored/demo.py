"""
C09 violation 2: the stop time 0 is silently ignored (Loop.run tests `if until and ...`).
For a sim whose time axis starts at 0 (start=0 is used in Starsim's own tests/tutorials):
  * sim.run(until=0) does not stop after the first timestep -- it runs the whole simulation
    to completion and finalises it, so the "resume" raises AlreadyRunError
  * sim.run_one_step() called at t=0 (documented as "run a single sim step") runs *every*
    timestep, leaving the sim fully stepped but un-finalised
Exits 1 if this manifests.
"""
import sys
import starsim as ss

def make():
    return ss.Sim(n_agents=200, start=0, stop=10, dt=1.0, unit='unitless', diseases='sir', networks='random', verbose=0)

failed = False

# Reference behaviour for a non-zero stop time: stops once sim.now > until
s = make(); s.run(until=1)
print(f'run(until=1): stopped at ti={s.t.ti} (now={s.now}), complete={s.complete}   <- as expected, paused')

# Stop time 0
s = make(); s.run(until=0)
print(f'run(until=0): stopped at ti={s.t.ti} (now={s.now}), complete={s.complete}, results_ready={s.results_ready}')
if s.complete:
    failed = True
    print('   -> the stop time was ignored: the whole simulation ran and was finalised (expected: pause with ti=1)')
    try:
        s.run()
    except ss.AlreadyRunError as E:
        print(f'   -> resuming the "paused" run raises AlreadyRunError: {E}')

# run_one_step at t=0
s = make(); s.init()
s.run_one_step()
print(f'run_one_step() at t=0: ti={s.t.ti} of npts={s.t.npts}, loop index {s.loop.index}/{len(s.loop.plan)}, complete={s.complete}')
if s.t.ti != 1:
    failed = True
    print('   -> a single "step" executed every timestep of the simulation (expected ti=1)')

if failed:
    print('\nVIOLATION: a run cannot be paused at stop time 0 / after the first step of a start=0 simulation')
    sys.exit(1)
print('no violation observed')
