"""
C15 violation: when a module that causes deaths runs on a finer time step than the sim
(e.g. ss.Deaths(dt=0.25) or ss.HIV(dt=0.25) in a sim with dt=1), its death flow
('deaths.new' / 'deaths.cumulative', 'hiv.new_deaths') counts the same agent more than
once, so it exceeds the number of agents actually removed from the population.
"""
import sys
import numpy as np
import starsim as ss

fail = False

# --- Case 1: background deaths on a quarterly step, sim on a yearly step; no other cause of death
n = 5000
sim = ss.Sim(n_agents=n, start=2000, dur=10, dt=1, rand_seed=1,
             demographics=ss.Deaths(dt=0.25, death_rate=100), verbose=0)
sim.run()
r = sim.results
removed   = int(n - r.n_alive[-1])            # Agents actually removed (no births)
sim_total = int(r.new_deaths.sum())           # Deaths carried out by People.step_die()
mod_total = int(r.deaths.new.sum())
mod_cum   = int(r.deaths.cumulative[-1])
print(f'[Deaths(dt=0.25), sim dt=1] agents removed: {removed}; sim.new_deaths total: {sim_total}; '
      f'deaths.new total: {mod_total}; deaths.cumulative[-1]: {mod_cum}')

# Per sim step: the deaths requested on the module steps in (t-1, t] are all carried out at sim step t
inds = sim.demographics.deaths.match_time_inds() # Not used for the check, only to show the timelines differ
mod_t = np.array(sim.demographics.deaths.t.abstvec)
sim_t = np.array(sim.t.abstvec)
per_step = np.array([r.deaths.new[(mod_t > (sim_t[k-1] if k else -np.inf) + 1e-9) & (mod_t <= sim_t[k] + 1e-9)].sum() for k in range(len(sim_t))], dtype=int)
print('  deaths.new summed per sim step :', per_step)
print('  sim.new_deaths (agents removed) :', np.array(r.new_deaths, dtype=int))
if mod_total != removed or mod_cum != removed:
    print(f'  VIOLATION: the only cause of death reports {mod_total} deaths (cumulative {mod_cum}), but {removed} agents were removed')
    fail = True

# --- Case 2: HIV on a quarterly step, sim on a yearly step; HIV is the only cause of death
sim = ss.Sim(n_agents=n, start=2000, dur=10, dt=1, rand_seed=1,
             diseases=ss.HIV(dt=0.25, init_prev=ss.bernoulli(p=0.5), p_death=ss.rate(0.3)),
             networks=ss.RandomNet(), verbose=0)
sim.run()
r = sim.results
removed   = int(n - r.n_alive[-1])
hiv_total = int(r.hiv.new_deaths.sum())
print(f'[HIV(dt=0.25), sim dt=1] agents removed: {removed}; sim.new_deaths total: {int(r.new_deaths.sum())}; hiv.new_deaths total: {hiv_total}')
if hiv_total != removed:
    print(f'  VIOLATION: HIV is the only cause of death and reports {hiv_total} deaths, but {removed} agents were removed')
    fail = True

# --- Control: same modules on the sim's own step are consistent
sim = ss.Sim(n_agents=n, start=2000, dur=10, dt=1, rand_seed=1, demographics=ss.Deaths(death_rate=100), verbose=0)
sim.run()
print(f'[control: Deaths on the sim step] agents removed: {int(n - sim.results.n_alive[-1])}; deaths.new total: {int(sim.results.deaths.new.sum())}')

sys.exit(1 if fail else 0)
