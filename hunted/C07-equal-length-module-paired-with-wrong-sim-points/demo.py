"""
C07 violation: Module.match_time_inds() treats "same number of time points" as
"same timeline". A module that has its own start and dt, and that happens to have
as many points as the sim, is mapped 1:1 onto the sim's indices instead of onto the
sim instants that its own times denote. Deaths.finalize() and Pregnancy.finalize() use this mapping to pick the population
denominator, so the crude death/birth rates are computed against the population of
the wrong years.
"""
import sys
import numpy as np
import sciris as sc
import starsim as ss

sim = ss.Sim(
    n_agents=2000, start=2000, stop=2010, dt=1.0, unit='year', rand_seed=1, verbose=0,
    demographics=[
        ss.Births(birth_rate=80), # On the sim's timeline; only here to make the population grow
        ss.Deaths(death_rate=10, start=2005, stop=2010, dt=0.5), # Own start and dt: 2005, 2005.5, ..., 2010 = 11 points
    ],
)
sim.run()
births = sim.demographics.deaths # The module under test

st, mt = sim.t, births.t
print(f'sim    timeline: npts={st.npts}, years={st.yearvec}')
print(f'deaths timeline: npts={mt.npts}, years={mt.yearvec}')
print(f'deaths abstvec (sim elapsed-time axis): {mt.abstvec}')

# What the module uses to map its own points onto the sim's points
inds = births.match_time_inds()
used = np.arange(st.npts)[inds] # Resolve Ellipsis/indices into explicit sim indices
correct = sc.findnearest(st.abstvec, mt.abstvec) # Sim index nearest to each module instant

print(f'match_time_inds() returned: {inds!r}')
print(f'sim years actually paired with the module points: {st.yearvec[used]}')
print(f'sim years nearest to the module points (correct): {st.yearvec[correct]}')

fail = False
mismatch = np.abs(st.abstvec[used] - mt.abstvec)
if len(used) != mt.npts or mismatch.max() > st.dt/2 + 1e-9:
    print(f'VIOLATION: module point at year {mt.yearvec[mismatch.argmax()]} is paired with sim year '
          f'{st.yearvec[used][mismatch.argmax()]} ({mismatch.max()} {st.unit}s away; should be <= dt/2 = {st.dt/2})')
    fail = True

# Consequence in a published result: the CMR denominator is the population of 2000..2010, not of 2005..2010 (the n_alive > 0 guard leaves the raw count where n_alive is 0, not relevant here)
n_alive = sim.results.n_alive.values
new = births.results.new.values
units = births.pars.rate_units * sim.t.dt_year
ok = new > 0 # Avoid 0/0 where no deaths happened
implied_denominator = np.full(len(new), np.nan)
implied_denominator[ok] = new[ok] / (births.results.cmr.values[ok] * units)
print(f'n_alive by sim year            : {n_alive}')
print(f'denominator used for deaths.cmr: {np.round(implied_denominator, 1)}')
print(f'denominator at the right times : {n_alive[correct]}')
if not np.allclose(implied_denominator[ok], n_alive[correct][ok]):
    print('VIOLATION: deaths.cmr was computed against n_alive at the wrong sim instants')
    fail = True

sys.exit(1 if fail else 0)
