"""
C06 violation: arithmetic on TimePars is not rescaled consistently. `x + c` / `x - c`
add c in *parent timestep* units (to x.values), whereas `x += c` / `x -= c` add c in the
parameter's *own* units (to x.v). So `y = x + 1` and `x += 1` disagree whenever the
conversion factor is not 1.
"""
import sys
import numpy as np
import starsim as ss

bad = []
def check(label, make):
    x = make()
    plus = x + 1           # Binary add
    minus = x - 1
    y = make(); y += 1     # In-place add
    z = make(); z -= 1
    print(f'{label}: values={x.values}')
    print(f'    x + 1  -> {plus}      x += 1 -> values {y.values} (v={y.v})')
    print(f'    x - 1  -> {minus}     x -= 1 -> values {z.values} (v={z.v})')
    if not np.isclose(plus, y.values):
        bad.append(f'{label}: x+1={plus} but after x+=1 x.values={y.values}')
    if not np.isclose(minus, z.values):
        bad.append(f'{label}: x-1={minus} but after x-=1 x.values={z.values}')

check('dur(3 weeks), parent=day dt=1', lambda: ss.dur(3, 'week').init(parent_unit='day', parent_dt=1.0))
check('rate(14/week), parent=day dt=1', lambda: ss.rate(14, 'week').init(parent_unit='day', parent_dt=1.0))
check('dur(3 years), parent=year dt=0.1', lambda: ss.dur(3, 'year').init(parent_unit='year', parent_dt=0.1))

if bad:
    print('VIOLATION:')
    for b in bad: print('   ', b)
    sys.exit(1)
print('OK')
sys.exit(0)
