"""
C16 violation: ss.NCD converts its time-to-death ("prognosis", a Weibull with
c=ss.years(2), scale=5, i.e. a mean of about 4.43 YEARS) to time steps twice.

The distribution carries a time parameter, so Dist.rvs() already returns the
duration in module steps (years / dt).  NCD.step() then divides by self.t.dt again:
    self.ti_dead[new_cases] = ti + sc.randround(prog_years / self.t.dt)
so the calendar time from becoming affected to death is (mean 4.43 y) / dt.
"""
import sys
import numpy as np
import starsim as ss

expected = 5 * 0.886227 # Mean of Weibull(c=2, scale=5), in years

def mean_years_to_death(dt):
    ncd = ss.NCD(initial_risk=ss.bernoulli(p=1.0), dur_risk=ss.constant(v=ss.dur(2))) # Default prognosis
    sim = ss.Sim(n_agents=5000, diseases=ncd, unit='year', dt=dt, start=2000, dur=80, verbose=0)
    sim.run()
    ncd = sim.diseases[0]
    steps = ncd.ti_dead.raw - ncd.ti_affected.raw # Steps from becoming affected to the scheduled NCD death
    steps = steps[np.isfinite(steps)]
    n_dead_by_10y = int(np.sum(np.array(sim.results.ncd.new_deaths)[:int(round(10/dt))+1]))
    return steps.mean()*dt, len(steps), n_dead_by_10y

failures = []
print(f'NCD default prognosis = ss.weibull(c=ss.years(2), scale=5): mean {expected:.2f} years from affected to death')
print(f'{"dt (years)":<12}{"mean years affected -> death":<32}{"NCD deaths within 10 y of start (of 5000, onset at 2 y)"}')
for dt in [1.0, 0.5, 0.25, 2.0]:
    years, n, dead10 = mean_years_to_death(dt)
    ok = abs(years - expected) < 0.1*expected + dt/2 # 10% plus half a step for rounding
    print(f'{dt:<12}{years:<32.2f}{dead10:<10}{"ok" if ok else "WRONG"}')
    if not ok:
        failures.append((dt, years))

if failures:
    print('\nVIOLATION of C16: the time from onset to death (a parameter in years) scales with 1/dt:')
    for dt, years in failures:
        print(f'  dt={dt}: mean {years:.2f} years instead of {expected:.2f}  (ratio {years/expected:.2f}, 1/dt = {1/dt:.2f})')
    sys.exit(1)
print('No violation observed')
sys.exit(0)
