"""
C05 violation: ss.lognorm_ex / ss.lognorm_im cannot be used with callable (per-agent) parameters in a real Sim.

The callable signature documented by Starsim is f(module, sim, uids). For every other family (e.g. ss.normal)
the callable is only invoked from rvs(), with the UIDs being sampled. For the two lognormal families the callable
is ALSO invoked during Dist.init() (i.e. during sim.init()), with uids=None, so any ordinary callable such as
lambda self, sim, uids: sim.people.age[uids] raises before a single variate is drawn.

Exits 1 if the violation manifests, 0 otherwise.
"""
import sys
import traceback
import numpy as np
import starsim as ss

def age_mean(self, sim, uids):
    """ Per-agent mean duration of infection: 5 + age/10 (an ordinary callable parameter) """
    return 5.0 + sim.people.age[uids] / 10.0

def try_dist(label, dist):
    """ Use the distribution as the SIR duration of infection, initialise the sim, and sample for all agents """
    try:
        sim = ss.Sim(n_agents=5000, diseases=ss.SIR(dur_inf=dist), networks='random', verbose=0)
        sim.init()
        d = sim.diseases.sir.pars.dur_inf
        uids = sim.people.auids
        rvs = d.rvs(uids)
        expected = 5.0 + sim.people.age[uids] / 10.0
        err = abs(rvs.mean() - expected.mean())
        print(f'  {label}: OK, sample mean {rvs.mean():.3f} vs expected mean {expected.mean():.3f}')
        return err < 0.2
    except Exception as E:
        tb = [l.strip() for l in traceback.format_exc().splitlines() if 'distributions.py' in l]
        print(f'  {label}: FAILED with {type(E).__name__}: {E}')
        for l in tb[-5:]:
            print(f'      {l}')
        return False

print('Callable per-agent parameter f(module, sim, uids) = 5 + age[uids]/10, used in a real ss.Sim:')
ok_control = try_dist('ss.normal(loc=f, scale=0.5)      [control]', ss.normal(loc=age_mean, scale=0.5))
ok_ex      = try_dist('ss.lognorm_ex(mean=f, std=0.5)            ', ss.lognorm_ex(mean=age_mean, std=0.5))
ok_im      = try_dist('ss.lognorm_im(mean=f, sigma=0.1)          ', ss.lognorm_im(mean=lambda self, sim, uids: np.log(5.0 + sim.people.age[uids]/10.0), sigma=0.1))

if ok_control and not (ok_ex and ok_im):
    print('\nVIOLATION: the lognormal families cannot be sampled with callable parameters (the callable is invoked '
          'with uids=None during Dist.init), although the same callable works for ss.normal.')
    sys.exit(1)
print('\nNo violation observed.')
sys.exit(0)
