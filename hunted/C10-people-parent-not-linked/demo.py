"""
C10 violation: the core per-agent array People.parent is never linked to the People
object, so its "active agents" view is not aligned with the active population.
After conceptions + deaths, len(people.parent) != len(people), people.parent.values
covers dead agents and never-allocated padding slots, and boolean queries on it
(.isnan.uids / .notnan.uids) return UIDs of dead agents and of agents that were never created.
"""
import sys
import numpy as np
import starsim as ss

sim = ss.Sim(n_agents=500, dur=20, rand_seed=1, verbose=0,
             demographics=[ss.Pregnancy(fertility_rate=200), ss.Deaths(death_rate=50)])
sim.run()
p = sim.people
n_uids = p.n_uids                      # number of identifiers ever assigned
alive_raw = p.alive.raw[:n_uids]

problems = []

# Reference: the other two core index arrays and every ordinary state agree with the active population
assert len(p.uid) == len(p.slot) == len(p.age) == len(p) == len(p.auids)

# 1. Length / values view
if len(p.parent) != len(p):
    problems.append(f'len(people.parent)={len(p.parent)} but len(people)={len(p)} (n_uids ever assigned={n_uids})')
if len(p.parent.values) != len(p.age.values):
    problems.append(f'people.parent.values has {len(p.parent.values)} entries, people.age.values has {len(p.age.values)}')
if not np.array_equal(np.asarray(p.parent.auids), np.asarray(p.auids)):
    problems.append('people.parent.auids is not people.auids (parent.people is %r)' % (p.parent.people,))

# 2. "Who has a parent?" -> should be alive, existing agents only (this is what e.g. (people.age<5).uids gives)
children = p.parent.notnan.uids
dead_children = children[(children < n_uids)]
dead_children = dead_children[~alive_raw[dead_children]]
if len(dead_children):
    problems.append(f'people.parent.notnan.uids contains {len(dead_children)} dead agents, e.g. {dead_children[:5].tolist()}')

# 3. "Who has no parent?" -> must never contain identifiers that were never assigned
orphans = p.parent.isnan.uids
ghosts = orphans[orphans >= n_uids]
if len(ghosts):
    problems.append(f'people.parent.isnan.uids contains {len(ghosts)} UIDs >= n_uids={n_uids} (never created), e.g. {ghosts[:5].tolist()}')
dead_orphans = orphans[orphans < n_uids]
dead_orphans = dead_orphans[~alive_raw[dead_orphans]]
if len(dead_orphans):
    problems.append(f'people.parent.isnan.uids contains {len(dead_orphans)} dead agents')

if problems:
    print('C10 VIOLATION: People.parent is not aligned with the active population')
    for pr in problems:
        print('  -', pr)
    sys.exit(1)
print('OK: people.parent is aligned')
sys.exit(0)
