"""
C07 violation: with a calendar (date) start and the duration form (dur=...), in unit
'month' or 'year', the stop date is computed as start + round(dur * mean_unit_days) days,
while the grid advances by calendar months/years.  Whenever the calendar span is longer
than the mean span, stop falls one day short of the final grid point and the timeline
loses its last point: a "1 year" sim starting 2000-01-01 has a single time point.
"""
import sys
import starsim as ss

bad = False
cases = [
    # (kwargs, expected last date, expected npts)
    (dict(unit='year',  start='2000-01-01', dur=1,  dt=1), '2001-01-01', 2),
    (dict(unit='year',  start='2000-01-01', dur=10, dt=1), '2010-01-01', 11),
    (dict(unit='month', start='2001-01-01', dur=1,  dt=1), '2001-02-01', 2),
    (dict(unit='month', dur=12),                           '2001-01-01', 13),  # all defaults: start is the date 2000-01-01
    (dict(unit='month', dur=24),                           '2002-01-01', 25),
]
for kw, exp_last, exp_npts in cases:
    sim = ss.Sim(n_agents=10, verbose=0, **kw).init()
    t = sim.t
    last = ss.date(t.datevec[-1])
    ok = (t.npts == exp_npts) and (last == ss.date(exp_last))
    print(f'{kw}: stop={t.stop} npts={t.npts} last={last} tvec[-1]={t.tvec[-1]} len(n_alive)={len(sim.results.n_alive)} '
          f'| expected npts={exp_npts}, last={exp_last}  {"ok" if ok else "VIOLATION"}')
    bad |= not ok

# Same durations with a numeric start, or in day/week units, do include the end point
for kw, exp_npts in [(dict(unit='year', start=2000, dur=1), 2), (dict(unit='month', start=2000, dur=12), 13),
                     (dict(unit='week', dur=12), 13), (dict(unit='day', dur=12), 13)]:
    t = ss.Sim(n_agents=10, verbose=0, **kw).init().t
    print(f'reference {kw}: npts={t.npts} tvec[-1]={t.tvec[-1]} (expected {exp_npts})')

if bad:
    print('VIOLATION: start + dur is a grid point (dur is a whole multiple of dt) but is not part of the timeline; '
          'the elapsed-time vector ends at dur-dt instead of dur')
    sys.exit(1)
print('OK')
sys.exit(0)
