"""
C13 violation: Cholera schedules recovery BEFORE the infection it recovers from.

Cholera.set_prognoses() schedules the onset of infection as ti_infected = ti + dur_exp2inf,
but schedules recovery from the time of EXPOSURE: ti_recovered = ti_exposed + dur_symp2rec
(or dur_asymp2rec), using an independent draw. Whenever the recovery duration is shorter than
the incubation draw, ti_recovered < ti_infected: the agent is moved exposed -> recovered
before its infection has started (it is never 'infected' at all), i.e. recovery without infection.
"""
import sys
import numpy as np
import starsim as ss

class arrow_check(ss.Analyzer):
    """ Track, per agent, whether it was ever seen 'infected', and who is recovered before their scheduled infection onset """
    def __init__(self, **kwargs):
        super().__init__(**kwargs)
        self.ever_infected = None
        self.early = [] # (step, n agents recovered although their ti_infected is still in the future)
    def step(self):
        sim = self.sim
        d = sim.diseases.cholera
        if self.ever_infected is None:
            self.ever_infected = np.zeros(len(d.infected.raw), dtype=bool)
        self.ever_infected[:] |= d.infected.raw[:len(self.ever_infected)]
        alive = sim.people.alive.uids
        early = d.recovered[alive] & (d.ti_infected[alive] > d.ti)
        if early.any():
            self.early.append((sim.ti, int(early.sum())))

sim = ss.Sim(
    n_agents=2000, unit='day', dt=1, start='2020-01-01', dur=60, rand_seed=1, verbose=0,
    diseases=ss.Cholera(p_death=0), # no deaths, no births: a closed population, every case must recover
    networks='random',
    analyzers=arrow_check(),
)
sim.run()

d = sim.diseases.cholera
ana = sim.analyzers[0]
u = sim.people.auids
sched_bad = u[d.ti_recovered[u] < d.ti_infected[u]]                     # schedule: recovery precedes infection
rec = u[d.recovered[u]]
never_inf = rec[~ana.ever_infected[rec] & (d.ti_recovered[rec] < d.ti_infected[rec])] # recovered, never seen in the infected compartment, and not merely because onset and recovery fell within one step

fail = False
if len(sched_bad):
    fail = True
    i = sched_bad[0]
    print(f'VIOLATION (schedule): {len(sched_bad)} of {int(d.ti_exposed.notnan.sum())} cases have ti_recovered < ti_infected, '
          f'e.g. uid {i}: ti_exposed={d.ti_exposed[i]:.2f}, ti_infected={d.ti_infected[i]:.2f}, ti_recovered={d.ti_recovered[i]:.2f}')
if ana.early:
    fail = True
    ti, n = max(ana.early, key=lambda r: r[1])
    print(f'VIOLATION (state): on {len(ana.early)} steps agents are already "recovered" while their infection onset is still in the future (e.g. {n} agents at step {ti})')
if len(never_inf):
    fail = True
    print(f'VIOLATION (arrows): {len(never_inf)} of {len(rec)} recovered agents were never in the infected compartment at any step (exposed -> recovered)')
if not fail:
    print('OK: recovery never precedes infection')
sys.exit(1 if fail else 0)
