"""
C20 violation: CampaignDelivery maps every campaign year to the NEAREST sim time point
(sc.findnearest) without checking that the year lies inside the simulated period. A campaign
scheduled for a year the sim never reaches (or that precedes the sim start) is silently delivered
on the last (first) step of the sim. RoutineDelivery rejects the same input with
"Years must be within simulation start and end dates".
Exits 1 if the violation manifests.
"""
import sys
import numpy as np
import starsim as ss

LOG = []
class recorder(ss.Vx):
    def administer(self, people, uids):
        LOG.append((self.sim.ti, float(self.sim.t.yearvec[self.sim.ti]), len(uids)))

problems = []

def run(cls, years, **kw):
    LOG.clear()
    iv = cls(years=years, **kw)
    sim = ss.Sim(n_agents=5000, start=2000, stop=2010, dt=1, diseases=ss.SIR(), networks='random', interventions=iv, verbose=0)
    sim.run()
    return sim, list(LOG)

# 1. A campaign planned for 2050 in a sim that stops in 2010
sim, log = run(ss.campaign_vx, 2050, product=recorder(), prob=0.5)
print('campaign_vx(years=2050), sim 2000-2010 -> deliveries (ti, year, n):', log)
for ti, year, n in log:
    if abs(year - 2050) > 0.5:
        problems.append(f'campaign_vx(years=2050): {n} agents vaccinated in {year:.0f}, 40 years before the configured campaign year')

# 2. A campaign dated before the start of the sim
sim, log = run(ss.campaign_vx, [1990, 2005], product=recorder(), prob=[0.5, 0.5])
print('campaign_vx(years=[1990, 2005]) -> deliveries:', log)
for ti, year, n in log:
    if min(abs(year - 1990), abs(year - 2005)) > 0.5:
        problems.append(f'campaign_vx(years=[1990, 2005]): {n} agents vaccinated in {year:.0f}, which is not a campaign year')

# 3. The effect is real: a fully effective sir_vaccine "for 2050" protects people in 2010
iv = ss.campaign_vx(years=2050, product=ss.sir_vaccine(efficacy=1.0), prob=1.0)
sim = ss.Sim(n_agents=5000, start=2000, stop=2010, dt=1, diseases=ss.SIR(), networks='random', interventions=iv, verbose=0)
sim.run()
n_vacc = int(sim.interventions[0].vaccinated.count())
n_protected = int((sim.diseases.sir.rel_sus == 0).count())
print(f'sir_vaccine campaign for 2050: vaccinated by 2010 = {n_vacc}, agents with rel_sus=0 = {n_protected}')
if n_vacc > 0:
    problems.append(f'campaign_vx(years=2050, sir_vaccine): {n_vacc} agents vaccinated (rel_sus=0 for {n_protected}) inside a sim that ends in 2010')

# 4. For comparison, routine delivery refuses the same window
try:
    ss.Sim(n_agents=100, start=2000, stop=2010, dt=1, interventions=ss.routine_vx(product=recorder(), prob=0.5, start_year=2050, end_year=2051), verbose=0).run()
    print('routine_vx(start_year=2050): ran')
except ValueError as e:
    print('routine_vx(start_year=2050) raises ValueError:', e)

if problems:
    print('\nVIOLATIONS of C20 (delivery outside the configured campaign time):')
    for p in problems: print('  *', p)
    sys.exit(1)
print('no violation')
