"""
C15 violation: for the built-in diseases that have an incubation (exposed) stage
-- ss.Measles, ss.Ebola, ss.Cholera -- the reported new_infections and
cum_infections are 0 on every step of the run, although (nearly) the whole
population acquires the infection.  For Cholera the module's own new_deaths /
cum_deaths are likewise 0 although agents die of cholera.

Exits 1 when the violation manifests.
"""
import sys
import numpy as np
import starsim as ss

N = 2000
problems = []


class Acquired(ss.Analyzer):
    """ Independently count, on every step, the agents that stopped being susceptible and the agents that died """
    def init_pre(self, sim):
        super().init_pre(sim)
        self.new_acq = []   # agents that left 'susceptible' for the infection this step
        self.new_dead = []  # agents whose alive flag was cleared this step (not yet removed)
        self.prev_sus = None
        return

    def step(self):
        sim = self.sim
        dis = sim.diseases[0]
        ppl = sim.people
        n = ppl.uid.len_used
        sus = dis.susceptible.raw[:n].copy()
        alive = ppl.alive.raw[:n]
        if self.prev_sus is None:
            prev = np.ones(n, dtype=bool) # Everyone starts susceptible
        else:
            prev = self.prev_sus
        left = prev & ~sus & alive # Dead agents also have the flag cleared (step_die), so keep the living ones: these acquired the infection
        # Agents that acquired the infection and died on the same step would be missed; impossible here (death needs >= 1 incubation period)
        self.new_acq.append(int(np.count_nonzero(left)))
        self.new_dead.append(int(np.count_nonzero(~alive[ppl.auids])))
        self.prev_sus = sus | ~alive # Do not count the dead again
        return


def check(cls, **dis_kw):
    name = cls.__name__
    sim = ss.Sim(n_agents=N, unit='day', dt=1, dur=60, diseases=cls(**dis_kw), networks=ss.RandomNet(),
                 analyzers=Acquired(), verbose=0)
    sim.run()
    dis = sim.diseases[0]
    ana = sim.analyzers[0]
    res = dis.results
    acquired = np.array(ana.new_acq)
    rep_new = np.array(res.new_infections.values)
    rep_cum = np.array(res.cum_infections.values)
    print(f'{name}: agents that acquired the infection (independent count) = {acquired.sum()}, '
          f'sum(new_infections) = {rep_new.sum():n}, cum_infections[-1] = {rep_cum[-1]:n}, '
          f'n_susceptible first/last = {res.n_susceptible[0]:n}/{res.n_susceptible[-1]:n}')
    if not np.array_equal(rep_new, acquired):
        bad = np.flatnonzero(rep_new != acquired)
        problems.append(f'{name}: new_infections differs from the number of agents that acquired the infection on {len(bad)} of {len(acquired)} steps '
                        f'(e.g. step {bad[0]}: reported {rep_new[bad[0]]:n}, actual {acquired[bad[0]]}); reported total {rep_new.sum():n}, actual total {acquired.sum()}')
    if rep_cum[-1] != acquired.sum():
        problems.append(f'{name}: cum_infections[-1] = {rep_cum[-1]:n} but {acquired.sum()} agents acquired the infection')
    if 'new_deaths' in res:
        dead = np.array(ana.new_dead)
        print(f'{name}: agents that died (only cause: {name}) = {dead.sum()}, sim.new_deaths total = {sim.results.new_deaths.sum():n}, '
              f'{name.lower()}.new_deaths total = {res.new_deaths.sum():n}, {name.lower()}.cum_deaths[-1] = {res.cum_deaths[-1]:n}')
        if res.new_deaths.sum() != dead.sum():
            problems.append(f'{name}: module new_deaths total {res.new_deaths.sum():n} but {dead.sum()} agents died of it (sim.new_deaths total {sim.results.new_deaths.sum():n})')
    return


check(ss.Measles)
check(ss.Ebola)
check(ss.Cholera, p_death=ss.bernoulli(p=0.2))

if problems:
    print('\nC15 VIOLATED:')
    for p in problems:
        print('  -', p)
    sys.exit(1)
print('no violation')
sys.exit(0)
