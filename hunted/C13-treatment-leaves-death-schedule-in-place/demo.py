"""
C13 violation: SIR + generic treatment product (ss.Tx). A successful treatment moves an agent
infected -> recovered, but the death that SIR.set_prognoses() scheduled (ti_dead) is neither cancelled
nor gated on the agent still being infected: SIR.step_state() requests death for every agent with
ti_dead <= ti. Cured agents therefore die "of SIR" days later while in the recovered compartment
(recovered -> disease death is not an arrow of the model). Exits 1 when the violation manifests.
"""
import sys
import numpy as np
import pandas as pd
import starsim as ss

df = pd.DataFrame(dict(name=['cure'], disease=['sir'], state=['infected'], efficacy=[1.0], post_state=['recovered']))
tx = ss.Tx(df, name='cure')
treat = ss.treat_num(product=tx, prob=1.0, max_capacity=None, eligibility=lambda sim: sim.diseases.sir.infected.uids)

class track(ss.Analyzer):
    def __init__(self):
        super().__init__()
        self.prev_rec = None; self.prev_inf = None
        self.rec_then_died = []; self.inf_then_died = 0
    def step(self):
        sir = self.sim.diseases.sir; ppl = self.sim.people; ti = self.sim.ti
        if self.prev_rec is not None:
            n = len(self.prev_rec)
            sir_death_now = (ppl.ti_dead.raw[:n] == ti) & (sir.ti_dead.raw[:n] <= ti) & ~ppl.alive.raw[:n]
            for u in np.nonzero(sir_death_now & self.prev_rec)[0]:
                self.rec_then_died.append((int(u), ti, float(sir.ti_infected.raw[u]), float(sir.ti_dead.raw[u])))
            self.inf_then_died += int((sir_death_now & self.prev_inf).sum())
        self.prev_rec = sir.recovered.raw.copy(); self.prev_inf = sir.infected.raw.copy()

sim = ss.Sim(n_agents=3000, dur=40, diseases=ss.SIR(p_death=ss.bernoulli(p=0.3), init_prev=ss.bernoulli(p=0.2)),
             networks=ss.RandomNet(), interventions=[treat], analyzers=track(), verbose=0)
sim.run()
az = sim.analyzers[0]
print(f'total deaths in run: {int(sim.results.new_deaths.sum())} (no background mortality; all are SIR deaths)')
print(f'died while infected: {az.inf_then_died}; died of SIR while in the RECOVERED compartment (cured earlier by the Tx product): {len(az.rec_then_died)}')
for u, ti, tinf, tdead in az.rec_then_died[:5]:
    print(f'  uid {u}: infected at ti={tinf:.0f}, cured by Tx (recovered=True on the previous step), killed by sir.ti_dead={tdead:.2f} at ti={ti}')
if az.rec_then_died:
    print('VIOLATION: agents moved recovered -> dead through the SIR death schedule after successful treatment')
    sys.exit(1)
print('no violation')
sys.exit(0)
