"""
C18 violation: in-place updating does not reach the caller's sims
(a) when MultiSim(..., initialize=True) is used, and
(b) on any MultiSim.run() after the first (e.g. a staged run with run_args=dict(until=...)).
In both cases MultiSim.sims has already been replaced by copies, and the in-place
update is applied to those copies instead of the objects the caller passed in.
"""
import sys
import numpy as np
import starsim as ss

def make(seed):
    return ss.Sim(n_agents=500, start=2000, dur=20, rand_seed=seed, verbose=0,
                  diseases=dict(type='sis', beta=0.1), networks='random')

def same(a, b):
    fa, fb = a.results.flatten(), b.results.flatten()
    return set(fa) == set(fb) and all(np.array_equal(fa[k], fb[k], equal_nan=True) for k in fa)

if __name__ == '__main__':
    n = 3
    alone = [make(1 + i).run() for i in range(n)]
    bad = []

    # Control: plain in-place run does update the caller's objects
    mine = [make(1 + i) for i in range(n)]
    ss.MultiSim(mine, inplace=True, debug=True).run()
    assert all(s.complete and same(s, a) for s, a in zip(mine, alone)), 'control failed'

    # (a) initialize=True
    mine = [make(1 + i) for i in range(n)]
    msim = ss.MultiSim(mine, inplace=True, initialize=True, debug=True)
    msim.run()
    ok_msim = all(same(s, a) for s, a in zip(msim.sims, alone))
    ok_mine = [bool(s.complete and s.results_ready and same(s, a)) for s, a in zip(mine, alone)]
    print(f'(a) initialize=True: msim.sims correct={ok_msim}; caller objects updated={ok_mine}')
    if not all(ok_mine):
        bad.append('initialize=True: caller\'s sims were not updated in place (still un-run)')

    # (b) second run() of the same MultiSim (staged run)
    mine = [make(1 + i) for i in range(n)]
    msim = ss.MultiSim(mine, inplace=True, debug=True)
    msim.run(run_args=dict(until=2010))
    stage1 = [int(s.t.ti) for s in mine]
    msim.run()
    ok_msim = all(s.complete and same(s, a) for s, a in zip(msim.sims, alone))
    ok_mine = [bool(s.complete and s.results_ready and same(s, a)) for s, a in zip(mine, alone)]
    print(f'(b) staged: caller ti after stage 1={stage1}; after stage 2 ti={[int(s.t.ti) for s in mine]}, '
          f'complete={[s.complete for s in mine]}; msim.sims correct={ok_msim}')
    if not all(ok_mine):
        bad.append('second run(): caller\'s sims keep the stage-1 state; only msim.sims holds the final results')

    if bad:
        print('VIOLATION of C18 (in-place updating):')
        for b in bad:
            print('  -', b)
        sys.exit(1)
    print('ok')
    sys.exit(0)
