"""
C06 violation: ss.rate_prob with an integer-dtype array returns all zeros instead of
1 - exp(-rate*dt), because the result is written into an integer copy of the input.
"""
import sys
import numpy as np
import starsim as ss

rates = [1, 2, 3] # per year
bad = []
for unit, dt in [('year', 1.0), ('year', 0.5), ('month', 1.0)]:
    step_years = ss.time_ratio(unit, dt, 'year', 1.0)
    expected = 1 - np.exp(-np.array(rates, dtype=float) * step_years)

    scalars = np.array([ss.rate_prob(r, 'year').init(parent_unit=unit, parent_dt=dt).values for r in rates])
    farr = ss.rate_prob(np.array(rates, dtype=float), 'year').init(parent_unit=unit, parent_dt=dt).values
    iarr = ss.rate_prob(np.array(rates), 'year').init(parent_unit=unit, parent_dt=dt).values # Integer array: a perfectly legal way to write [1,2,3]

    print(f'parent unit={unit}, dt={dt}: expected {expected}')
    print(f'   scalars     -> {scalars}')
    print(f'   float array -> {farr}')
    print(f'   int array   -> {iarr} (dtype {iarr.dtype})')
    assert np.allclose(scalars, expected) and np.allclose(farr, expected)
    if not np.allclose(iarr, expected, atol=1e-9):
        bad.append((unit, dt, iarr.tolist()))

# Same thing through .to()
conv = ss.rate_prob(np.array([1, 2, 3]), 'year').to('month').v
print('rate_prob(int array, "year").to("month").v ->', conv)

if bad:
    print(f'VIOLATION: rate_prob on an integer array does not equal 1-exp(-rate*dt): {bad}')
    sys.exit(1)
print('OK')
sys.exit(0)
