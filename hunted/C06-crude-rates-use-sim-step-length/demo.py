"""
C06 violation: Births / Deaths convert their per-step counts to the reported annual crude rates
(cbr, cmr) with the step length of the SIM (sim.t.dt_year), not the step length of the module that
produced the counts.  Births and Deaths declare unit='year', so in any sim with unit='day' (or
'week', 'month') they run on their own 1-year step; the counts per (yearly) module step are then
divided by the sim's dt_year = 1/365.25 and the reported rates are ~365x the input rates.
"""
import sys
import numpy as np
import starsim as ss

np.random.seed(1) # Births draws from the global generator
birth_rate = 20   # per 1000 per year
death_rate = 10   # per 1000 per year

births = ss.Births(birth_rate=birth_rate)
deaths = ss.Deaths(death_rate=death_rate)
sim = ss.Sim(n_agents=20_000, unit='day', dt=1.0, dur=3*365, demographics=[births, deaths], rand_seed=1, verbose=0)
sim.run()

b = sim.demographics.births
d = sim.demographics.deaths
print(f'sim step:    unit={sim.t.unit}, dt={sim.t.dt}, dt_year={sim.t.dt_year:.6f}')
print(f'births step: unit={b.t.unit}, dt={b.t.dt}, dt_year={b.t.dt_year:.6f}, npts={b.t.npts}')

new_births = np.array(sim.results.births.new)
new_deaths = np.array(sim.results.deaths.new)
cbr = np.array(sim.results.births.cbr)
cmr = np.array(sim.results.deaths.cmr)
n_alive = np.array(sim.results.n_alive)[d.match_time_inds()]
print('new births per (yearly) module step:', new_births)
print('reported cbr (per 1000 per year):  ', cbr)
print('new deaths per (yearly) module step:', new_deaths)
print('reported cmr (per 1000 per year):  ', cmr)

# What the per-step counts actually amount to, per 1000 per year, using the module's own step length
true_cbr = new_births / b.t.dt_year / n_alive * 1000
true_cmr = new_deaths / d.t.dt_year / n_alive * 1000
print('births/(module step in years)/alive*1000:', true_cbr)
print('deaths/(module step in years)/alive*1000:', true_cmr)

fails = []
if not np.allclose(cbr, true_cbr, rtol=0.05):
    fails.append(f'reported cbr {cbr.round(1)} is {np.mean(cbr/true_cbr):.1f}x the rate implied by the counts ({true_cbr.round(1)}; input rate {birth_rate})')
if not np.allclose(cmr, true_cmr, rtol=0.05):
    fails.append(f'reported cmr {cmr.round(1)} is {np.mean(cmr/true_cmr):.1f}x the rate implied by the counts ({true_cmr.round(1)}; input rate {death_rate})')

if fails:
    print('\nVIOLATION of C06 (a per-step quantity divided by the step length must give the quantity in its own unit):')
    for f in fails:
        print('  -', f)
    sys.exit(1)
print('OK: no violation')
sys.exit(0)
