"""
C18: MultiSim.reduce() / .mean() / .median() raise ValueError as soon as one module
runs on its own time step (a supported feature), so no reduced statistics exist.
"""
import sys
import numpy as np
import starsim as ss

if __name__ == '__main__':
    sim = ss.Sim(n_agents=300, dur=10, dt=1.0, rand_seed=1, verbose=0,
                 diseases=ss.SIS(beta=0.1, dt=0.5),  # disease on a half-year step, sim and network on a yearly step
                 networks='random')
    msim = ss.MultiSim(sim, n_runs=3, debug=True).run()
    lens = {k: len(v) for k, v in msim.sims[0].results.flatten().items()}
    print('members ran fine; result lengths:', lens)
    failures = []
    for name, call in [('reduce()', lambda: msim.reduce()), ('mean()', lambda: msim.mean()), ('median()', lambda: msim.median())]:
        try:
            call()
            key = 'sis_new_infections'
            raw = np.array([s.results.flatten()[key].values for s in msim.sims], dtype=float)
            exp = raw.mean(0) if name == 'mean()' else np.median(raw, 0)
            if not np.allclose(np.array(msim.results[key].values, dtype=float), exp):
                failures.append(f'{name}: wrong statistic')
            msim.reset()
        except Exception as E:
            failures.append(f'{name}: {type(E).__name__}: {E}')
    if failures:
        print('VIOLATION: reduced statistics cannot be computed for members with a module on its own time step:')
        for f in failures:
            print('  ', f)
        sys.exit(1)
    print('ok')
    sys.exit(0)
