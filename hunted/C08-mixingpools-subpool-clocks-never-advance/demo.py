"""
C08 violation: the MixingPool modules created by ss.MixingPools (a built-in network/route, used as in
its own docstring example) are real ss.Module instances with their own Time object (own time vector,
own ti), they are registered with People and they ARE stepped on every step of the container -- but they
are not part of sim.modules, so the loop never schedules their start_step / update_results / finish_step.
Consequences:
  * their clock never advances: at every invocation of pool.step() pool.ti == 0 and pool.now is the
    start of the sim, instead of the scheduled instant;
  * after the run their clock reads 0 instead of the final index (npts-1);
  * if the container is given its own timestep (ss.MixingPools(dt=...)), the pools keep the sim's time
    vector (npts points) but are stepped only on the container's (fewer) time points.

Exits 1 if the violation manifests.
"""
import sys
import numpy as np
import starsim as ss

def run(container_dt=None):
    records = []
    def everyone(sim):
        """ A callable src/dst, as documented for MixingPool(s); also records the clocks """
        mps = sim.networks['mixingpools']
        pool = mps.pools[0]
        records.append(dict(pool_ti=pool.ti, pool_now=pool.now, cont_ti=mps.ti, cont_now=mps.now, sim_ti=sim.ti))
        return sim.people.auids

    kw = {} if container_dt is None else dict(dt=container_dt)
    mps = ss.MixingPools(diseases='sis', beta=ss.beta(0.1), src={'all': everyone}, dst={'all': None}, contacts=[[2.0]], **kw)
    sim = ss.Sim(n_agents=300, start=2000, dur=10, dt=0.5, diseases='sis', networks=mps, verbose=0)
    sim.run()
    return sim, records

problems = []

# Case 1: default -- container on the sim's timestep
sim, records = run()
mps = sim.networks['mixingpools']
pool = mps.pools[0]
print(f'pool is an ss.Module: {isinstance(pool, ss.Module)}; own npts={pool.t.npts}; in sim.modules: {any(m is pool for m in sim.modules)}')
print('clocks seen inside pool.step() (first 4):', records[:4])
bad = [r for r in records if r['pool_ti'] != r['cont_ti'] or r['pool_now'] != r['cont_now']]
if bad:
    problems.append(f"in {len(bad)} of {len(records)} invocations of pool.step() the pool's own clock did not denote the scheduled "
                    f"instant, e.g. pool.ti={bad[-1]['pool_ti']} pool.now={bad[-1]['pool_now']} while container/sim ti={bad[-1]['cont_ti']} now={bad[-1]['cont_now']}")
for m in [mps] + list(mps.pools):
    print(f'  after run: {m.name:20s} ti={m.t.ti} (npts={m.t.npts})')
    if m.t.ti != m.t.npts - 1:
        problems.append(f'after completion the clock of module "{m.name}" reads ti={m.t.ti}, not the final index {m.t.npts-1}')

# Case 2: container with its own timestep
sim2, records2 = run(container_dt=2.0)
mps2 = sim2.networks['mixingpools']
pool2 = mps2.pools[0]
print(f'container dt=2: container npts={mps2.t.npts}, pool npts={pool2.t.npts}, pool.step() invoked {len(records2)} times')
if len(records2) != pool2.t.npts:
    problems.append(f'with MixingPools(dt=2.0): pool has {pool2.t.npts} own time points (dt={pool2.t.dt}) but step() was invoked {len(records2)} times')

if problems:
    print('\nC08 VIOLATED:')
    for p in problems:
        print('  -', p)
    sys.exit(1)
print('No violation observed')
sys.exit(0)
