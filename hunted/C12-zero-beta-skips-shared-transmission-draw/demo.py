"""
C12 violation: the set infected in a step is NOT monotone in beta at the beta==0 boundary.

Two sims are identical (same seed, same people, same initial infections, same network
edges) except that the disease's beta on network 'a' is 0 in sim A and 0.001 in sim B
(beta on network 'b' is 0.1 in both). Raising a beta can only add transmission
opportunities, so infected(A) must be a subset of infected(B). It is not: most agents
infected in A are not infected in B, because Infection.infect() skips the RNG draw for
any network/direction whose beta is falsy, which shifts the auto-jumping trans_rng stream
used for every later network/direction in the same step.
"""
import sys
import numpy as np
import starsim as ss

def one_step(beta_a, directional=False):
    if directional: # one network, the two directions of the same edges
        nets = ss.RandomNet(name='a', n_contacts=4)
        beta = {'a': [beta_a, ss.beta(0.1)]}
    else:           # two networks
        nets = [ss.RandomNet(name='a', n_contacts=4), ss.RandomNet(name='b', n_contacts=4)]
        beta = {'a': beta_a, 'b': ss.beta(0.1)}
    sir = ss.SIR(beta=beta, init_prev=0.2, p_death=0)
    sim = ss.Sim(n_agents=500, networks=nets, diseases=sir, rand_seed=3, verbose=0)
    sim.init()
    d = sim.diseases.sir
    before = set(d.infected.uids.tolist())
    sim.run_one_step()
    after = set(d.infected.uids.tolist())
    edges = {k: (np.array(n.edges.p1), np.array(n.edges.p2)) for k, n in sim.networks.items()}
    return before, after - before, edges

def same_edges(e1, e2):
    return all(np.array_equal(e1[k][0], e2[k][0]) and np.array_equal(e1[k][1], e2[k][1]) for k in e1)

bad = False
for directional in [False, True]:
    label = 'directional beta [b0,b1] on one network' if directional else 'per-network beta on two networks'
    s0, A, eA = one_step(0, directional)                 # beta_a = 0
    s1, B, eB = one_step(ss.beta(0.001), directional)    # beta_a = 0.001  (> 0)
    s2, C, eC = one_step(ss.beta(0.002), directional)    # beta_a = 0.002  (control: > 0.001)
    assert s0 == s1 == s2, 'initial infections differ (unexpected)'
    assert same_edges(eA, eB) and same_edges(eA, eC), 'network edges differ (unexpected)'
    print(f'--- {label}')
    print(f'  same initial infected set ({len(s0)}) and identical network edges in all runs')
    print(f'  beta_a=0     : {len(A)} new infections')
    print(f'  beta_a=0.001 : {len(B)} new infections; infected at beta_a=0 but NOT at beta_a=0.001: {len(A - B)}')
    print(f'  beta_a=0.002 : {len(C)} new infections; infected at 0.001 but not at 0.002 (control): {len(B - C)}')
    if len(A - B):
        bad = True
        print('  VIOLATION: raising beta from 0 to 0.001 removed infections:', sorted(A - B)[:10], '...')

if bad:
    print('FAIL: infected set does not grow monotonically with beta (C12)')
    sys.exit(1)
print('OK')
sys.exit(0)
