"""
C07 violation: sim.to_df() (Results.to_df(descend=True)) decides that all result
series share the sim's timeline whenever they merely have the same LENGTH. A module
with its own start/dt whose number of points equals the sim's gets its result series
exported against the sim's time vector, so every row pairs a value with an instant
that is not the instant the value belongs to.
"""
import sys
import numpy as np
import starsim as ss

sim = ss.Sim(
    n_agents=1000, start=2000, stop=2010, dt=1.0, unit='year', rand_seed=1, verbose=0, networks='random',
    diseases=ss.SIS(start=2005, stop=2010, dt=0.5, init_prev=0.2), # Own timeline: 2005, 2005.5, ..., 2010 = 11 points, like the sim's 2000..2010
)
sim.run()
sis = sim.diseases.sis
res = sim.results.sis.n_infected

print(f'sim timeline : {sim.t.yearvec}')
print(f'sis timeline : {sis.t.yearvec}')
print(f'sis.n_infected result: len={len(res)}, own timevec={res.timevec}')

df = sim.to_df()
print(f'type(sim.to_df()) = {type(df).__name__}')
fail = False
if hasattr(df, 'columns') and 'sis_n_infected' in df.columns:
    print(df[['timevec', 'n_alive', 'sis_n_infected']])
    exported_time = np.array(df['timevec'], dtype=float)
    if not np.array_equal(exported_time, np.array(res.timevec, dtype=float)):
        i = int(np.argmax(exported_time != res.timevec))
        print(f'VIOLATION: sim.to_df() labels sis_n_infected[{i}]={res.values[i]} with time {exported_time[i]}, '
              f'but that entry belongs to the module time {res.timevec[i]}; '
              f'the exported time column is {exported_time}, the series\' own timeline is {res.timevec}')
        fail = True
else:
    print('sim.to_df() kept the module results separate (correct)')

# Control: if the module has a different number of points the export is kept separate and correctly labelled
sim2 = ss.Sim(n_agents=1000, start=2000, stop=2010, dt=1.0, unit='year', rand_seed=1, verbose=0, networks='random',
              diseases=ss.SIS(start=2005, stop=2010, dt=0.25, init_prev=0.2)).run()
df2 = sim2.to_df()
print(f'control (21 module points vs 11 sim points): type={type(df2).__name__}, sis timevec head={list(df2["sis"]["timevec"][:3])}')

sys.exit(1 if fail else 0)
