"""
C01 violation: reseeding an already-initialised Sim (ss.MultiSim / ss.multi_run / ss.single_run)
silently has no effect. The replicates carry pars.rand_seed = 1, 2, 3 but all of them reuse the
random streams of seed 1, so (a) sims with different seeds are bit-identical and (b) a replicate
labelled rand_seed=2 differs from a directly built Sim with the same parameters and rand_seed=2.

No module with a known global-RNG defect is used (SIS + MFNet + Pregnancy + Deaths).
Exits 1 when the violation manifests.
"""
import sys
import numpy as np
import starsim as ss


def make(seed):
    return ss.Sim(n_agents=500, dur=15, dt=0.5, rand_seed=seed, verbose=0,
                  diseases=ss.SIS(beta=dict(mf=[0.3, 0.2])), networks=ss.MFNet(),
                  demographics=[ss.Pregnancy(fertility_rate=30), ss.Deaths(death_rate=10)])


def series(sim):
    flat = sim.results.flatten()
    return {k: np.asarray(v) for k, v in flat.items() if np.asarray(v).dtype != object}


def same(a, b):
    return all(np.array_equal(a[k], b[k], equal_nan=True) for k in a)


def dist_seeds(sim):
    return {k: d.seed for k, d in sim.dists.dists.items()}


if __name__ == '__main__':
    # Reference: directly built sims with seeds 1 and 2
    ref1 = make(1).run()
    ref2 = make(2).run()
    assert not same(series(ref1), series(ref2)), 'sanity: seeds 1 and 2 should differ when built directly'

    # A user initialises the base sim (e.g. to inspect sim.people) and then asks for replicates
    base = make(1)
    base.init()
    msim = ss.MultiSim(base, n_runs=3, debug=True, shrink=False)  # debug=True: run serially (same outcome in parallel)
    msim.run()
    seeds = [int(s.pars.rand_seed) for s in msim.sims]
    print('replicate pars.rand_seed values :', seeds)

    bad = []
    r = [series(s) for s in msim.sims]
    if same(r[0], r[1]) and same(r[0], r[2]):
        bad.append('replicates with rand_seed=1,2,3 have bit-identical result series (the seed change changed no stream)')
    if dist_seeds(msim.sims[0]) == dist_seeds(msim.sims[1]):
        bad.append('every Dist in the rand_seed=2 replicate still has the seed it was given for rand_seed=1')
    if seeds[1] == 2 and not same(r[1], series(ref2)):
        bad.append('replicate with pars.rand_seed=2 differs from ss.Sim(<same pars>, rand_seed=2).run()')
        k = 'sis_n_infected'
        print('direct   seed=2', k, series(ref2)[k][:12])
        print('multisim seed=2', k, r[1][k][:12])
        print('direct   seed=1', k, series(ref1)[k][:12])

    # Same thing through the functional interface
    sims = ss.multi_run(base, n_runs=2, parallel=False, shrink=False)
    if int(sims[1].pars.rand_seed) == 2 and same(series(sims[0]), series(sims[1])):
        bad.append('ss.multi_run(initialised_sim): replicate 1 (rand_seed=2) identical to replicate 0 (rand_seed=1)')

    if bad:
        print('C01 VIOLATED:')
        for b in bad:
            print('  -', b)
        sys.exit(1)
    print('no violation')
    sys.exit(0)
