"""
C07 violation: a date-based timeline in unit='year' whose start is not 1 January is
built by adding dt to the *fractional year* of the start date.  The fraction of a year
that a calendar date represents depends on whether the year is a leap year, so
(a) start + k years does not come back to the same calendar date (dates wander by a day,
    spacing between consecutive points is not one calendar year), and
(b) the stop date start + N years, given explicitly, converts to a smaller year number than
    start_year + N, so the final grid point is dropped.
"""
import sys
import starsim as ss

bad = False
cases = [
    # start, stop, dt, expected dates
    ('2004-12-31', '2006-12-31', 1, ['2004-12-31', '2005-12-31', '2006-12-31']),
    ('2000-03-01', '2010-03-01', 1, [f'{y}-03-01' for y in range(2000, 2011)]),
    ('2001-07-01', '2004-07-01', 1, ['2001-07-01', '2002-07-01', '2003-07-01', '2004-07-01']),
]
for start, stop, dt, exp in cases:
    sim = ss.Sim(n_agents=10, verbose=0, unit='year', start=start, stop=stop, dt=dt).init()
    t = sim.t
    got = [d.strftime('%Y-%m-%d') for d in t.datevec]
    ok = got == exp
    print(f'start={start} stop={stop} dt={dt} year: npts={t.npts} (expected {len(exp)}), len(n_alive)={len(sim.results.n_alive)}')
    print('   dates   :', got)
    print('   expected:', exp)
    if t.npts != len(exp):
        print(f'   VIOLATION: last grid point {exp[-1]} == stop is missing; timeline ends at {got[-1]}')
    wrong = [(g, e) for g, e in zip(got, exp) if g != e]
    if wrong:
        print(f'   VIOLATION: {len(wrong)} grid dates are not start + k calendar years, e.g. got {wrong[0][0]} expected {wrong[0][1]}')
    bad |= not ok

# Reference: the same spans starting on 1 January are fine
t = ss.Sim(n_agents=10, verbose=0, unit='year', start='2000-01-01', stop='2010-01-01', dt=1).init().t
print('reference 2000-01-01..2010-01-01: npts', t.npts, 'last', t.datevec[-1])

sys.exit(1 if bad else 0)
