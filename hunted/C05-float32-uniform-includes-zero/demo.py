"""
C05 violation: the uniform base draws used for (a) all per-agent (array/callable) parameter sampling via ppf()
and (b) all Bernoulli trials are 24-bit float32 numbers k/2**24, k = 0..2**24-1. The value 0.0 therefore
occurs with probability 2**-24 = 6e-8 per draw (not ~0), which gives

  (a) ss.normal with per-agent parameters returns -inf (norm.ppf(0)) about once per 1.7e7 draws, i.e. outside
      the support of the normal law, while the scalar-parameter path (rng.normal) never does; and
  (b) ss.bernoulli(p) succeeds with probability 2**-24 for EVERY 0 < p < 2**-24, e.g. p=1e-10 succeeds
      ~600x too often.

Runs a 2,000,000-agent sim object (init only) and draws for all agents over up to 60 time steps (fixed seed).
Exits 1 if the violation manifests, 0 otherwise.  (~15 s)
"""
import sys
import numpy as np
import starsim as ss

N = 2_000_000
STEPS = 60
P_TINY = 1e-10

class Holder(ss.Intervention):
    """ A module that just owns the distributions """
    def __init__(self):
        super().__init__()
        self.define_pars(
            per_agent = ss.normal(loc=lambda self, sim, uids: sim.people.age[uids], scale=1.0), # Callable => ppf path
            scalar    = ss.normal(loc=30.0, scale=1.0), # Scalar => rng.normal path
            rare      = ss.bernoulli(p=P_TINY),
        )
    def step(self):
        pass

sim = ss.Sim(n_agents=N, interventions=Holder(), verbose=0, dur=STEPS+10)
sim.init()
pars = sim.interventions[0].pars
uids = sim.people.auids

n_inf_agent = 0
n_inf_scalar = 0
n_success = 0
first = None
for ti in range(STEPS):
    r1 = pars.per_agent.rvs(uids)
    r2 = pars.scalar.rvs(uids)
    b  = pars.rare.rvs(uids)
    bad = ~np.isfinite(r1)
    if bad.any() and first is None:
        first = (ti, uids[bad], r1[bad])
    n_inf_agent  += bad.sum()
    n_inf_scalar += (~np.isfinite(r2)).sum()
    n_success    += b.sum()
    for d in [pars.per_agent, pars.scalar, pars.rare]: # What the sim loop does at the end of each step
        d.jump_dt(ti+1)

draws = N*STEPS
print(f'{draws:,} draws per distribution (N={N:,} agents x {STEPS} steps)')
print(f'ss.normal, callable loc (per-agent/ppf path): {n_inf_agent} non-finite variates; first: {first}')
print(f'ss.normal, scalar loc   (rng.normal path)   : {n_inf_scalar} non-finite variates')
exp_success = draws*P_TINY
print(f'ss.bernoulli(p={P_TINY}): {n_success} successes; expected {exp_success:.4f} '
      f'(P[>=1 success] = {1-np.exp(-exp_success):.4f}); 2**-24 * draws = {draws*2.0**-24:.2f}')

violated = False
if n_inf_agent > 0 and n_inf_scalar == 0:
    print('VIOLATION (a): per-agent normal sampling returned -inf, which is outside the support of the normal law '
          'and never produced by the scalar path.')
    violated = True
if n_success >= 3: # P(>=3 | p=1e-10, 1.2e8 draws) ~ 3e-7
    print(f'VIOLATION (b): bernoulli(p={P_TINY}) succeeded {n_success} times; the effective probability is 2**-24 '
          f'(~{2.0**-24:.2e}) for every 0 < p < 2**-24.')
    violated = True
sys.exit(1 if violated else 0)
