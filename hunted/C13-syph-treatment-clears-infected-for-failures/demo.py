"""
C13 violation: after ss.syph_treatment, living agents are in NO compartment of the
susceptible/infected partition while still sitting in (and progressing through, and
transmitting from) a syphilis stage.

syph_treatment.step() sets syphilis.infected = False for EVERYONE the product was administered
to, including those for whom the treatment product (Tx 'bpg', efficacy 0.95) failed and those in
a state the product does not treat (exposed). Those agents keep primary/secondary/latent/... = True
and susceptible = False, but infected = False.
"""
import sys
import numpy as np
import starsim as ss

STAGES = ['exposed', 'primary', 'secondary', 'latent_temp', 'latent_long', 'tertiary']

class si_check(ss.Analyzer):
    def __init__(self, **kwargs):
        super().__init__(**kwargs)
        self.rows = []
        self.n_transmitted = 0
    def step(self):
        sim = self.sim
        d = sim.diseases.syphilis
        alive = sim.people.alive.uids
        S = d.susceptible[alive]; I = d.infected[alive]
        staged = np.zeros(len(alive), dtype=bool)
        for s in STAGES:
            staged |= getattr(d, s)[alive]
        neither = ~S & ~I & ~d.congenital[alive]       # in no compartment of the S/I partition
        staged_not_inf = staged & ~I                   # in a disease stage but not 'infected'
        if neither.any() or staged_not_inf.any():
            self.rows.append((sim.ti, int(neither.sum()), int(staged_not_inf.sum()), int((staged_not_inf & d.infectious[alive]).sum())))

syph = ss.Syphilis(beta=dict(mf=[0.25, 0.15]), init_prev=ss.bernoulli(p=0.3))
treat = ss.syph_treatment(
    product='bpg', prob=0.5,
    eligibility=lambda sim: sim.diseases.syphilis.infected.uids, # offer treatment to the currently infected
)
sim = ss.Sim(
    n_agents=5000, start=2000, dur=15, dt=1, rand_seed=1, verbose=0,
    diseases=syph, networks=ss.MFNet(), interventions=treat, analyzers=si_check(),
)
sim.run()

rows = sim.analyzers[0].rows
if rows:
    print(f'VIOLATION: on {len(rows)} steps living agents are neither susceptible nor infected although they are in a syphilis stage')
    for ti, n_neither, n_staged, n_infectious in rows[:5]:
        print(f'  step {ti}: {n_neither} living agents with susceptible=False and infected=False; {n_staged} in a stage with infected=False, of which {n_infectious} still count as infectious (transmitting)')
    sys.exit(1)
else:
    print('OK: every living agent is susceptible xor infected, and staged <=> infected')
    sys.exit(0)
