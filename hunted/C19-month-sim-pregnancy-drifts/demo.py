"""
C19 demo: in a sim with unit='month', ss.Pregnancy(unit='month') and the maternal networks are
nominally on exactly the same monthly step as the sim, yet ageing / deaths (done by People on the
sim's clock) and pregnancy/network updates (done on the modules' clock) are interleaved irregularly:
between two consecutive Pregnancy steps agents age by 0 or by 2 months, newborns are delivered with
a negative age, and postnatal edges join a mother to a child that is still 'unborn' by age.
Exits 1 if the violation manifests.
"""
import sys
import numpy as np
import starsim as ss

class Watch(ss.Analyzer):
    """ Runs on the same (inherited, monthly) clock as every other module """
    def __init__(self, **kw):
        super().__init__(**kw)
        self.prev_age = None
        self.dages = []          # age increment of agent 0 between consecutive module steps
        self.neg_age_deliveries = []  # (ti, mother, child, child_age)
        self.postnatal_unborn = []    # (ti, mother, child, child_age)
        self.was_pregnant = None
    def step(self):
        sim = self.sim; ppl = sim.people; preg = sim.demographics[0]
        n = ppl.uid.len_used
        age = ppl.age.raw[:n].copy()
        if self.prev_age is not None:
            self.dages.append(float(age[0] - self.prev_age[0]))
        self.prev_age = age
        P = preg.pregnant.raw[:n].copy(); PP = preg.postpartum.raw[:n]; child = preg.child_uid.raw[:n]
        if self.was_pregnant is not None:
            m0 = len(self.was_pregnant)
            delivered = np.where(self.was_pregnant & ~P[:m0] & PP[:m0] & ppl.alive.raw[:m0])[0]
            for m in delivered:
                c = int(child[m])
                if age[c] < -1e-4:
                    self.neg_age_deliveries.append((preg.ti, int(m), c, float(age[c])))
        self.was_pregnant = P
        post = sim.networks[1].edges
        for m, c, b in zip(post.p1, post.p2, post.beta):
            if b > 0 and age[c] < -1e-4:
                self.postnatal_unborn.append((preg.ti, int(m), int(c), float(age[c])))

sim = ss.Sim(
    n_agents=2000, unit='month', dt=1, dur=36, rand_seed=1, verbose=0,
    demographics=[ss.Pregnancy(unit='month', fertility_rate=300, dur_postpartum=ss.constant(ss.dur(6, 'month')))],
    networks=[ss.PrenatalNet(), ss.PostnatalNet()],
    analyzers=[Watch()],
)
sim.run()
w = sim.analyzers[0]
preg = sim.demographics[0]
print('sim unit/dt        :', sim.t.unit, sim.t.dt, ' pregnancy unit/dt:', preg.t.unit, preg.t.dt, ' prenatal net unit/dt:', sim.networks[0].t.unit, sim.networks[0].t.dt)
print('sim clock (people) :', np.asarray(sim.t.abstvec[:7], dtype=float))
print('pregnancy clock    :', np.asarray(preg.t.abstvec[:7]))
dt_year = sim.t.dt_year
d = np.array(w.dages)
print(f'expected age increment per step: {dt_year:.5f} years')
print('observed age increments of agent 0 between consecutive Pregnancy/network steps:', np.round(d[:14], 4))
bad_age = np.abs(d - dt_year) > 1e-4
print(f'steps with wrong age increment: {bad_age.sum()} of {len(d)}')
print(f'deliveries where the newborn still has negative age: {len(w.neg_age_deliveries)}; first few: {w.neg_age_deliveries[:3]}')
print(f'active postnatal edges to a child of negative age  : {len(w.postnatal_unborn)}; first few: {w.postnatal_unborn[:3]}')
if bad_age.any() or w.neg_age_deliveries or w.postnatal_unborn:
    print('VIOLATION of C19: ageing does not advance by one step length per (identically configured) module step; newborns are delivered at negative age')
    sys.exit(1)
print('no violation observed')
sys.exit(0)
