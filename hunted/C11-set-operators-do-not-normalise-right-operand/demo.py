"""
C11 violation: ss.uids set operators with an operand that is not already an
ss.uids / ndarray of ints / BoolArr.

ss.uids() itself accepts Python sets (documented in the CHANGELOG) and lists, but
the set operators hand the raw operand straight to np.setdiff1d / intersect1d /
union1d / setxor1d without normalising it through ss.uids():

 * a Python ``set`` operand: ``a - {2, 9}`` SILENTLY removes nothing (NumPy turns the
   set into a 0-d object array), while ``a & s``, ``a | s``, ``a ^ s`` raise TypeError;
 * an empty list / empty float array operand (``a | []``, ``a & []``, ``a ^ []``):
   the result is an ss.uids object of dtype float64, which can no longer be used
   to index an Arr (IndexError), although the set result is mathematically trivial.
"""
import sys
import numpy as np
import starsim as ss

sim = ss.Sim(n_agents=12, networks=None, diseases=None, dur=2, verbose=0)
sim.init()
ppl = sim.people
bad = []

a = ss.uids([0, 2, 3, 9])
s = {2, 9, 10}

# 1. Python set operand (ss.uids(s) is supported, so a set is a recognised way to hold identifiers)
ref = a - ss.uids(s)
got = a - s
print(f'a - ss.uids(s) = {ref.tolist()}    a - s = {got.tolist()}    a.remove(s) = {a.remove(s).tolist()}')
if sorted(got.tolist()) != sorted(set(a.tolist()) - s):
    bad.append(f'uids([0,2,3,9]) - {{2,9,10}} silently returned {got.tolist()} (nothing removed); set difference is {sorted(set(a.tolist()) - s)}')
for sym, f, setf in [('&', lambda x, y: x & y, set.intersection), ('|', lambda x, y: x | y, set.union), ('^', lambda x, y: x ^ y, set.symmetric_difference)]:
    exp = sorted(setf(set(a.tolist()), s))
    try:
        r = f(a, s)
        if sorted(r.tolist()) != exp:
            bad.append(f'a {sym} set gave {r.tolist()}, expected {exp}')
        print(f'a {sym} s = {r.tolist()}')
    except Exception as e:
        print(f'a {sym} s raised {type(e).__name__}: {e}')
        bad.append(f'a {sym} {{2,9,10}} raised {type(e).__name__} although a {sym} ss.uids({{2,9,10}}) = {exp}')

# 2. Empty list / empty default-dtype array operand
for label, empty in [('[]', []), ('np.array([])', np.array([]))]:
    for sym, f, exp in [('|', lambda x, y: x | y, [0, 2, 3, 9]), ('^', lambda x, y: x ^ y, [0, 2, 3, 9]), ('&', lambda x, y: x & y, [])]:
        r = f(a, empty)
        msg = f'a {sym} {label} -> {type(r).__name__} dtype={r.dtype} {r.tolist()}'
        if r.dtype.kind != 'i':
            try:
                ppl.age[r]
                msg += '  (indexing ok)'
            except Exception as e:
                msg += f'  -> people.age[result] raises {type(e).__name__}: {e}'
                bad.append(f'a {sym} {label} returned ss.uids of dtype {r.dtype}; people.age[result] raises {type(e).__name__}')
        print(msg)

if bad:
    print('\nVIOLATION (C11: identifier-set algebra must match mathematical set operations for all operand pairs):')
    for b in bad:
        print('  -', b)
    sys.exit(1)
print('no violation')
sys.exit(0)
