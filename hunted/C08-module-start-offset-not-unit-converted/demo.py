"""
C08 violation: module on its own unit with a later numeric start is scheduled at the wrong instants.

Sim: numeric time axis in days, start=0, stop=100, dt=1.
Module W: unit='week', start=2, stop=10  (own time vector: weeks 2,3,...,10)
Module D: unit='day',  start=14, stop=70, dt=7 (the same instants expressed in days)
Module Z: unit='week', start=0, stop=10  (weeks 0..10; its points 2..10 are the same instants again)

Time.make_abstvec() converts the module's *steps* into sim units (x7) but adds the start offset
`self.start - sim.t.start` WITHOUT converting it, so W is run on sim days 2, 9, ..., 58 instead of
14, 21, ..., 70: when W's own clock reads "week 2" the sim is at day 2, and its last point "week 10"
is executed at day 58.  (Related: if the module's dt is a Python int, e.g. dt=2, the same code raises
a UFuncTypeError because the integer tvec is multiplied/offset in place by a float.)
"""
import sys
import numpy as np
import starsim as ss


class Rec(ss.Analyzer):
    def __init__(self, **kwargs):
        super().__init__(**kwargs)
        self.log = []
    def step(self):
        self.log.append((float(self.sim.now), int(self.ti), float(self.now)))  # (sim day, own index, own clock in own units)


def main():
    W = Rec(name='W', unit='week', start=2,  stop=10)
    D = Rec(name='D', unit='day',  start=14, stop=70, dt=7.0)
    Z = Rec(name='Z', unit='week', start=0,  stop=10)
    sim = ss.Sim(n_agents=50, unit='day', start=0, stop=100, dt=1.0, diseases='sir', networks='random',
                 analyzers=[W, D, Z], verbose=0)
    sim.run()
    W, D, Z = [sim.analyzers[k] for k in 'WDZ']

    days = {k: [r[0] for r in m.log] for k, m in zip('WDZ', [W, D, Z])}
    print('W (unit=week, start=2, stop=10): own clock', [r[2] for r in W.log])
    print('   executed on sim days         ', days['W'])
    print('D (unit=day, start=14, stop=70, dt=7) executed on sim days', days['D'])
    print('Z (unit=week, start=0, stop=10): own clock -> sim day', {r[2]: r[0] for r in Z.log})

    problems = []
    week = ss.time_ratio('week', 1.0, 'day', 1.0)  # 7 days
    wrong = [(clock, day) for (day, ti, clock) in W.log if abs(day - clock*week) > 1e-9]
    if wrong:
        clock, day = wrong[0]
        problems.append(f'W: own clock reads week {clock:g} (= day {clock*week:g} of the sim axis) but the step was executed at sim day {day:g}; '
                        f'{len(wrong)} of {len(W.log)} invocations are at the wrong instant')
    if days['W'] != days['D']:
        problems.append(f'W and D describe the same instants (weeks 2..10 == days 14..70) but run on different days: {days["W"]} vs {days["D"]}')
    zmap = {r[2]: r[0] for r in Z.log}
    incons = [(c, d, zmap[c]) for (d, ti, c) in W.log if c in zmap and zmap[c] != d]
    if incons:
        c, d, dz = incons[0]
        problems.append(f'inconsistent unit handling: "week {c:g}" is sim day {dz:g} for module Z (start=0) but sim day {d:g} for module W (start=2)')
    if W.log and W.log[-1][0] != 70.0:
        problems.append(f'W: final point (week 10 = day 70) executed at sim day {W.log[-1][0]:g}')

    # The configuration from the ss.Time docstring (time.py:289): "absvec ... e.g. [366, 373, 380, ...] if
    # sim-start=2001, start=2002, sim-unit='day', unit='week'"
    class RecY(Rec):
        def step(self):
            self.log.append((float(self.sim.t.now('year')), int(self.ti), float(self.t.now('year'))))
    sim2 = ss.Sim(n_agents=50, unit='day', start=2001, stop=2400, dt=1.0, diseases='sir', networks='random',
                  analyzers=RecY(name='doc', unit='week', start=2002, stop=2005), verbose=0)
    sim2.run()
    doc = sim2.analyzers[0]
    print('docstring example: module abstvec =', doc.t.abstvec, '(docstring says [366, 373, 380, ...])')
    simyear, ti, modyear = doc.log[0]
    if abs(simyear - modyear) > 0.01:
        problems.append(f'docstring example: the module\'s own clock reads year {modyear:.4f} at its first step, which is executed when the sim clock reads year {simyear:.4f} '
                        f'(abstvec={doc.t.abstvec.tolist()}, ss.Time docstring promises [366, 373, 380, ...])')

    # Related crash in the same code path: integer dt
    try:
        ss.Sim(n_agents=50, unit='day', start=0, stop=100, dt=1.0, diseases='sir', networks='random',
               analyzers=Rec(name='W2', unit='week', start=0, stop=10, dt=2), verbose=0).init()
    except Exception as E:
        print(f'(related) unit="week", start=0, stop=10, dt=2 (int) cannot even be scheduled: {type(E).__name__}: {str(E)[:120]}')

    if problems:
        print('C08 VIOLATED (module clock does not denote the scheduled instant):')
        for p in problems: print('  -', p)
        sys.exit(1)
    print('ok')
    sys.exit(0)


if __name__ == '__main__':
    main()
