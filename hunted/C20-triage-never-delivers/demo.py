"""
C20 violation: routine_triage / campaign_triage never deliver anything.
BaseTriage.step tests `self.sim.t in self.timepoints`, where sim.t is the sim's ss.Time object
(not the integer step sim.ti), so the test is False on every step and deliver() is never called:
with coverage prob=1.0 and a non-empty eligible set on every step inside the window, zero agents
are triaged. Exits 1 if the violation manifests.
"""
import sys
import numpy as np
import starsim as ss
from starsim.diseases.syphilis import load_syph_dx

CALLS = dict(triage=[], fixed=[])

class logging_dx(ss.Dx):
    """ The standard syphilis 'rst' diagnostic, recording every administration """
    def __init__(self, key):
        rst = load_syph_dx()['rst']
        super().__init__(rst.df, hierarchy=rst.hierarchy)
        self.key = key
    def administer(self, uids, **kw):
        CALLS[self.key].append((self.sim.ti, len(uids)))
        return super().administer(uids, **kw)

class fixed_triage(ss.routine_triage):
    """ Same as routine_triage but testing the integer step, as the screening/vaccination classes do """
    def step(self):
        self.outcomes = {k: np.array([], dtype=int) for k in self.product.hierarchy}
        if self.sim.ti in self.timepoints:
            return self.deliver()
        return ss.uids()

ELIG = [] # number of agents the eligibility rule returned on each step
def screened_pos(sim): # the rule from the routine_triage docstring
    out = ss.uids(sim.interventions['screening'].outcomes['positive'])
    out = out[sim.people.alive[out]] if len(out) else out
    ELIG.append((sim.ti, len(out)))
    return out

def make(triage):
    syph = ss.Syphilis(beta=dict(mf=[0.25, 0.15]), init_prev=ss.bernoulli(p=0.3))
    screening = ss.syph_screening(product='rpr', prob=0.9, start_year=2000, name='screening', eligibility=lambda sim: sim.people.auids)
    return ss.Sim(n_agents=2000, start=1995, stop=2005, dt=1/12, diseases=syph, networks=ss.MFNet(), interventions=[screening, triage], verbose=0)

# Positive control: with the step test corrected, the same configuration triages people every month
sim = make(fixed_triage(product=logging_dx('fixed'), eligibility=lambda sim: ss.uids(sim.interventions['screening'].outcomes['positive']), prob=1.0, annual_prob=False, start_year=2000, name='triage'))
sim.run()
n_fixed = sum(n for ti, n in CALLS['fixed'])
print(f'corrected triage: {len(CALLS["fixed"])} delivery rounds, {n_fixed} tests administered')

# The shipped classes
problems = []
for label, triage in [
    ('routine_triage', ss.routine_triage(product=logging_dx('triage'), eligibility=screened_pos, prob=1.0, annual_prob=False, start_year=2000, name='triage')),
    # (campaign_triage is left out of this witness: like campaign_screening it has no coverage distribution and raises AttributeError once it tries to deliver)
]:
    CALLS['triage'].clear(); ELIG.clear()
    sim = make(triage)
    sim.run()
    tri = sim.interventions['triage']
    scr = sim.results.screening
    n_pos_in_window = int(np.sum(scr.n_dx))
    n_triaged = sum(n for ti, n in CALLS['triage'])
    print(f'{label}: timepoints {tri.timepoints[:3]}..., screening positives over the run = {n_pos_in_window}, '
          f'eligibility rule evaluated {len(ELIG)} times, tests administered by triage = {n_triaged}')
    if n_pos_in_window > 0 and n_triaged == 0 and n_fixed > 0:
        problems.append(f'{label}(prob=1.0): 0 agents triaged on every step of its window although screening produced {n_pos_in_window} positives '
                        f'(the eligibility rule was not even evaluated: {len(ELIG)} calls); "sim.t in timepoints" = {sim.t in tri.timepoints}')

if problems:
    print('\nVIOLATIONS of C20 (triage acceptance is not governed by the configured coverage -- it is always zero):')
    for p in problems: print('  *', p)
    sys.exit(1)
print('no violation')
