"""
C11 violation (writing): whole-array in-place updates of an agent array do not
behave like the reference map.

 * ``arr += 1`` / ``arr *= 2`` / ``boolarr |= other`` / ``np.add(arr, 1, out=arr)``
   crash with RecursionError (infinite recursion in BaseArr.__array_ufunc__, which
   unwraps the inputs but not the ``out=(arr,)`` tuple, so NumPy dispatches straight
   back to the same method).
 * mutating ndarray methods/functions forwarded by BaseArr.__getattr__ --
   ``arr.fill(v)``, ``arr.sort()``, ``np.put(arr, ..)``, ``np.add.at(arr, ..)`` --
   act on the temporary copy returned by the ``values`` property and are therefore
   SILENT NO-OPS: no error, and the array is unchanged.

The equivalent uid/slice-keyed forms (``arr[:] = arr[:] + 1``) work, and the class
docstring says 'Arr objects can be used interchangeably with NumPy arrays'.
"""
import sys
import numpy as np
import starsim as ss


class Aging(ss.Module):
    """ A module a user might plausibly write: scale a per-agent modifier once per step """
    def __init__(self):
        super().__init__()
        self.define_states(ss.FloatArr('rel_sus', default=1.0))
    def step(self):
        self.rel_sus *= 0.5      # whole-array in-place update of a state
        return

bad = []

# 1. In a running sim
try:
    sim = ss.Sim(n_agents=20, networks=None, diseases=None, demographics=Aging(), dur=3, verbose=0)
    sim.run()
    print('sim with "self.rel_sus *= 0.5" ran; rel_sus =', sim.demographics[0].rel_sus.values[:3])
except RecursionError as e:
    print('sim with "self.rel_sus *= 0.5" in step() crashed: RecursionError:', str(e)[:60])
    bad.append('module step doing "self.rel_sus *= 0.5" on a FloatArr state crashes the sim with RecursionError')

# 2. Directly on People arrays, against a reference map
sim = ss.Sim(n_agents=10, networks=None, diseases=None, dur=2, verbose=0)
sim.init()
ppl = sim.people
ppl.request_death(ss.uids([2, 5])); ppl.step_die(); ppl.remove_dead()
ref = {int(u): float(ppl.age.raw[u]) for u in ppl.auids}   # reference map uid -> value over active agents

def same_as_ref():
    return np.allclose(ppl.age.values, [ref[int(u)] for u in ppl.auids])

for label, stmt in [
    ('people.age += 1',                 lambda: ppl.age.__iadd__(1)),
    ('np.add(people.age, 1, out=people.age)', lambda: np.add(ppl.age, 1, out=ppl.age)),
    ('people.female |= people.alive',   lambda: ppl.female.__ior__(ppl.alive)),
]:
    try:
        stmt()
        print(label, '-> ok')
    except RecursionError as e:
        print(label, '-> RecursionError')
        bad.append(f'{label} raises RecursionError (reference map: every active value + 1 / or-ed)')

for label, stmt, update in [
    ('people.age.fill(7.0)',            lambda: ppl.age.fill(7.0),            lambda: ref.update({u: 7.0 for u in ref})),
    ('np.put(people.age, [0], 1000.)',  lambda: np.put(ppl.age, [0], 1000.0), lambda: ref.update({int(ppl.auids[0]): 1000.0})),
    ('np.add.at(people.age, [0], 5.)',  lambda: np.add.at(ppl.age, [0], 5.0), lambda: ref.update({int(ppl.auids[0]): ref[int(ppl.auids[0])] + 5.0})),
]:
    stmt()          # no exception
    update()        # what the reference map (and a NumPy array) would now hold
    if not same_as_ref():
        print(label, '-> returned without error but the array is unchanged:', ppl.age.values[:4], '...')
        bad.append(f'{label} is a silent no-op (writes to a temporary copy of the active values)')
        ref = {int(u): float(ppl.age.raw[u]) for u in ppl.auids}  # resync for the next check
    else:
        print(label, '-> ok')

# The keyed form works, showing what was expected
before = ppl.age.values.copy()
ppl.age[:] = ppl.age[:] + 1
assert np.allclose(ppl.age.values, before + 1)
print('people.age[:] = people.age[:] + 1 -> ok (this is what "people.age += 1" should do)')

if bad:
    print('\nVIOLATION (C11: writing to agent arrays must give the same result as the reference map):')
    for b in bad:
        print('  -', b)
    sys.exit(1)
print('no violation')
sys.exit(0)
