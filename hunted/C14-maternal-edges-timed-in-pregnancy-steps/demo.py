"""
C14 violation: maternal (prenatal/postnatal) timed edges use the Pregnancy module's
time index to compute their end, but MaternalNet compares that end with the network's
OWN time index.  As soon as Pregnancy runs on a different timestep from the network
(e.g. yearly sim, monthly Pregnancy -- or monthly sim, yearly Pregnancy) the edges do
not last for their stated duration (dur_pregnancy = 0.75 years).
"""
import sys
import numpy as np
import starsim as ss

DUR_PREG = 0.75  # years (Pregnancy default)


class Monitor(ss.Intervention):
    """ Runs after all network steps and before transmission; records each prenatal edge """
    def __init__(self):
        super().__init__()
        self.first_seen = {}
        self.too_long = []   # edge still transmitting long after its stated duration
        self.too_short = []  # edge already inactive well inside its stated duration

    def step(self):
        sim = self.sim
        now = sim.t.now('year')
        dt = sim.t.dt_year
        net = sim.networks['prenatalnet']
        e = net.edges
        for p1, p2, beta in zip(e.p1.tolist(), e.p2.tolist(), e.beta.tolist()):
            key = (p1, p2)
            self.first_seen.setdefault(key, now)
            elapsed = now - self.first_seen[key]
            age_child = float(sim.people.age.raw[p2])
            if beta > 0 and elapsed > DUR_PREG + 2*dt and age_child > dt:  # generous slack: two whole sim steps
                self.too_long.append((sim.ti, key, round(elapsed, 2), round(age_child, 2)))
            if beta == 0 and elapsed < DUR_PREG - 2*dt and age_child < -dt:
                self.too_short.append((sim.ti, key, round(elapsed, 2), round(age_child, 2)))


def run(sim_dt, preg_kw, dur):
    sim = ss.Sim(
        n_agents=500, start=2000, dur=dur, dt=sim_dt, rand_seed=1, verbose=0,
        networks=[ss.RandomNet(), ss.PrenatalNet()],
        demographics=[ss.Pregnancy(fertility_rate=80, burnin=False, **preg_kw)],
        diseases=ss.SIS(beta=dict(random=0.05, prenatal=1.0), init_prev=0.2),
        interventions=Monitor(),
    )
    sim.run()
    return sim.interventions[0]


fail = False

# Control: same timestep everywhere -> no violation
m = run(1/12, {}, dur=5)
print(f'control (sim dt=1/12, Pregnancy default): too_long={len(m.too_long)} too_short={len(m.too_short)} edges={len(m.first_seen)}')
assert not m.too_long and not m.too_short, 'control unexpectedly failed'

# Case A: yearly sim, Pregnancy on a monthly step
m = run(1.0, dict(dt=1/12), dur=10)
print(f'A (sim dt=1y, Pregnancy dt=1/12y): {len(m.too_long)} (step, edge) records where a prenatal edge with beta>0 '
      f'is still used for transmission >2 steps after its 0.75y duration, child already born; e.g. (ti,(mother,child),years since creation,child age): {m.too_long[-3:]}')
if m.too_long: fail = True

# Case B: monthly sim, Pregnancy on a yearly step
m = run(1/12, dict(dt=1.0), dur=5)
print(f'B (sim dt=1/12y, Pregnancy dt=1y): {len(m.too_short)} (step, edge) records where a prenatal edge is already switched off (beta=0) '
      f'although created <0.75y ago and the child is still unborn; e.g. {m.too_short[:3]}')
if m.too_short: fail = True

if fail:
    print('VIOLATION: prenatal timed edges do not persist for their stated duration when Pregnancy has its own timestep')
    sys.exit(1)
print('no violation observed')
sys.exit(0)
