"""
C19 violation 3: when ss.Pregnancy runs on its own time step, the death of an unborn child is never
reconciled with the mother's pregnancy state.  Pregnancy.finish_step() looks for deaths with
`people.ti_dead <= self.ti`, but people.ti_dead is written in *sim* steps (People.request_death uses sim.ti)
while self.ti is the *Pregnancy module's* step index.  With the module defaults (unit='year') inside a
weekly sim, an embryo that dies stays registered as the woman's current pregnancy: she remains `pregnant`
with a dead child, her child_uid/parent links point at a dead agent, and a year later she "delivers" it
(counted as a birth, becomes post-partum).
"""
import sys
import numpy as np
import starsim as ss

def run(sim_kw, preg_kw, death_kw, label):
    sim = ss.Sim(n_agents=3000, demographics=[ss.Pregnancy(fertility_rate=150, **preg_kw), ss.Deaths(death_rate=100, **death_kw)], verbose=0, **sim_kw)
    sim.init()
    preg, deaths = sim.demographics[0], sim.demographics[1]
    ppl = sim.people
    print(f'[{label}] sim step {sim.t.dt} {sim.t.unit}; Pregnancy step {preg.t.dt} {preg.t.unit}; Deaths step {deaths.t.dt} {deaths.t.unit}')
    n_bad_steps = 0; example = None; dead_deliveries = 0
    prev_pregnant_dead_child = set()
    while sim.ti < sim.t.npts:
        sim.run_one_step()
        pw = preg.pregnant.uids                              # living women flagged pregnant
        child = ss.uids(preg.child_uid[pw].astype(int))
        dead = ~ppl.alive[child]                             # ...whose unborn child is dead (and already removed from the population)
        # women who were pregnant with a dead child and have now "delivered" it
        ppw = set(preg.postpartum.uids.tolist())
        dead_deliveries += len(prev_pregnant_dead_child & ppw)
        prev_pregnant_dead_child = set(pw[dead].tolist())
        if dead.any():
            n_bad_steps += 1
            if example is None or dead.sum() > example[1]:
                w = pw[dead][0]; c = child[dead][0]
                example = (sim.ti-1, int(dead.sum()), len(pw), int(w), int(c), float(ppl.ti_dead[ss.uids(c)]), preg.ti)
    print(f'   steps with a living woman "pregnant" with a dead child: {n_bad_steps} of {sim.t.npts}')
    if example:
        ti, nd, npw, w, c, tid, pti = example
        print(f'   e.g. after sim step {ti}: {nd} of {npw} pregnant women carry a dead child; woman {w} -> child {c} died at sim step {tid:.0f}, '
              f'pregnant={bool(preg.pregnant[ss.uids(w)])}')
        print(f'   women who went on to "deliver" an already-dead child and became post-partum: {dead_deliveries}')
    return n_bad_steps > 0

ctrl = run(dict(unit='year', dt=1/12, start=2000, stop=2003), {}, {}, 'control: everything on the sim step (monthly)')
bad  = run(dict(unit='day', dt=7, start='2000-01-01', stop='2003-01-01'), {}, {}, 'weekly sim, Pregnancy and Deaths with their default (yearly) step')
if ctrl: print('unexpected: control failed')
if bad:
    print('VIOLATION: pregnancy state / mother-child links inconsistent with the death of the unborn child')
    sys.exit(1)
print('no violation'); sys.exit(0)
