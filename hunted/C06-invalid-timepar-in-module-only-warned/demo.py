"""An out-of-range time parameter handed to a module is not rejected: Module.init_time initialises it with die=False, the ValueError becomes a warning,
the parameter keeps values=None, evaluates as false, and the disease silently never transmits."""
import sys, warnings
import numpy as np, starsim as ss
warnings.filterwarnings('ignore')
bad = []
for label, beta in (('ss.beta(1.5)', ss.beta(1.5)), ('ss.beta(-0.2)', ss.beta(-0.2))):
    try:
        sim = ss.Sim(n_agents=400, dur=5, verbose=0, diseases=ss.SIR(beta=beta, init_prev=0.1), networks=ss.RandomNet()); sim.run()
    except Exception as E:
        print(f'{label}: rejected with {type(E).__name__}'); continue
    b = sim.diseases.sir.pars.beta
    print(f'{label}: accepted; run completed; new infections after seeding = {int(sim.results.sir.cum_infections[-1] - sim.results.sir.cum_infections[0])}; stored values = {b.values}')
    bad.append(label)
if bad:
    print('VIOLATION: invalid probabilities were accepted (not rejected) inside a module:', bad); sys.exit(1)
print('OK'); sys.exit(0)
