"""
C03 violation (disease-module level): ss.Syphilis.set_congenital() assigns congenital
birth outcomes with birth_outcomes.rvs(len(state_uids)) -- a count-based (positional)
draw -- and hands the i-th variate to the i-th agent.  The outcome drawn for a given
unborn agent therefore depends on which other agents are in the same call and on their
order, not on the agent's slot.

We initialise a normal Syphilis + Pregnancy + MFNet + MaternalNet sim, mark 20 mothers
as having active (primary) syphilis, and call the public method
syph.set_congenital(unborn_uids, mother_uids) three times from the same RNG position
(same seed, same distribution, same timestep, same call ordinal):
  1. for all 20 mother/child pairs
  2. for the last 15 pairs only
  3. for all 20 pairs in reversed order
and compare the outcome category assigned to each child.
"""
import sys
import numpy as np
import starsim as ss

KEYS = ['ti_miscarriage', 'ti_nnd', 'ti_stillborn', 'ti_congenital']

def main():
    syph = ss.Syphilis(beta=dict(mf=[0.25, 0.15], maternal=[0.99, 0]), init_prev=ss.bernoulli(p=0.1))
    sim = ss.Sim(n_agents=200, diseases=syph, networks=[ss.MFNet(), ss.MaternalNet()],
                 demographics=ss.Pregnancy(fertility_rate=20), dur=5, verbose=0, rand_seed=1)
    sim.init()
    syph = sim.diseases.syphilis

    mothers  = ss.uids(np.arange(10, 30))
    children = ss.uids(np.arange(110, 130))
    syph.primary[mothers] = True # Mothers have active syphilis
    dist = syph.pars.birth_outcomes['active']
    pos = dist.ind + 1 # A fixed RNG position (i.e. fixed timestep and call ordinal)

    def outcome(u):
        out = [k[3:] for k in KEYS if not np.isnan(getattr(syph, k).raw[u])]
        return out[0] if out else 'healthy'

    def run(order):
        for k in KEYS:
            getattr(syph, k).raw[:] = np.nan
        dist.jump(to=pos, force=True)
        syph.set_congenital(children[order], mothers[order])
        return {int(c): outcome(c) for c in children[order]}

    full = run(np.arange(20))
    sub  = run(np.arange(5, 20))
    rev  = run(np.arange(20)[::-1])

    diff_sub = [c for c in sub if sub[c] != full[c]]
    diff_rev = [c for c in rev if rev[c] != full[c]]
    print('Outcome per child, all 20 pairs      :', full)
    print('Outcome per child, last 15 pairs only:', sub)
    print('Outcome per child, reversed order    :', rev)
    print(f'Children whose outcome changed when 5 other children were left out of the call: {diff_sub}')
    print(f'Children whose outcome changed when the call order was reversed: {diff_rev}')
    if diff_sub or diff_rev:
        print('VIOLATION: with the same seed, distribution, timestep, call ordinal and slot, a child\'s congenital outcome depends on '
              'which other agents are sampled in the same call and on their order (positional birth_outcomes.rvs(len(state_uids))).')
        return 1
    print('No violation observed')
    return 0

if __name__ == '__main__':
    sys.exit(main())
