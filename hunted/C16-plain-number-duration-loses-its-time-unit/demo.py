"""
C16 violation: a duration set with a plain number (ss.SIR(dur_inf=10), the form used in the
README / tutorials / tests) loses the time unit of the module's default
(dur_inf = ss.lognorm_ex(mean=ss.dur(6))), so the infection lasts 10 STEPS, not 10 years.
The same call keeps the unit for beta (beta=0.1 stays ss.beta(0.1)), so only the duration
changes when dt changes.
"""
import sys
import numpy as np
import starsim as ss

def mean_dur_years(dt, **dur_kw):
    sir = ss.SIR(beta=0.1, init_prev=0.5, p_death=0, **dur_kw)
    sim = ss.Sim(n_agents=20000, dt=dt, dur=20, diseases=sir, networks=ss.RandomNet(n_contacts=0), verbose=0)
    sim.init()
    d = sim.diseases.sir
    inf = d.infected.uids
    dur_steps = np.asarray(d.ti_recovered[inf] - d.ti_infected[inf])
    beta_is_timepar = isinstance(d.pars.beta, ss.TimePar)
    mean_par = d.pars.dur_inf.pars['mean']
    # Also run, and see what fraction of the initial cases has recovered 5 years in
    sim.run()
    i5 = int(round(5/dt))
    frac_rec_5y = d.results.n_recovered[i5] / len(inf)
    return float(dur_steps.mean()*d.t.dt_year), beta_is_timepar, mean_par, float(frac_rec_5y)

bad = False
print('form                      dt    mean infectious period (years)   beta kept unit?   recovered by year 5')
for label, kw in [('dur_inf=10', dict(dur_inf=10)),
                  ('dur_inf=[10, 1]', dict(dur_inf=[10, 1])),
                  ('dur_inf=dict(mean=10)', dict(dur_inf=dict(mean=10))),
                  ('dur_inf=ss.dur(10) [ref]', dict(dur_inf=ss.dur(10)))]:
    for dt in [1.0, 0.5, 0.25]:
        m, beta_tp, mean_par, f5 = mean_dur_years(dt, **kw)
        print(f'{label:25s} {dt:4.2f}   {m:8.3f}   (mean par = {mean_par!r})   {beta_tp}   {f5:.3f}')
        if abs(m - 10) > 0.5:
            bad = True

if bad:
    print('\nVIOLATION: with dur_inf given as a plain number the mean infectious period is 10*dt years '
          '(10, 5, 2.5 years for dt = 1, 0.5, 0.25) instead of 10 years for every dt; '
          'beta given as a plain number in the same call keeps its time unit.')
    sys.exit(1)
print('ok')
