"""
C14 violation: MFNet / EmbeddingNet compare agents' AGE IN YEARS with the network's
dt expressed in the network's OWN unit when deciding whose eligibility to (re)draw.

MFNet.step() calls self.set_network_states(upper_age=self.t.dt), meant as "agents that
entered the population during the last step".  self.t.dt is in the module's unit, so in a
day-based sim with monthly steps (unit='day', dt=30) upper_age is 30 *years*: participation
and debut age of everybody younger than 30 are re-drawn on every step.  Paired agents are
therefore non-participating / pre-debut when the network is used for transmission, and the
requested participation rate is not honoured for the under-30s.
"""
import sys
import numpy as np
import starsim as ss

P_PART = 0.2

class AtTransmission(ss.Intervention):
    """ Runs after Network.step() and before Disease.step() """
    def __init__(self):
        super().__init__()
        self.worst = (0, 0, 0)
        self.ever = set()
        self.flips_young = 0
        self.flips_old = 0
        self.prev = None
    def step(self):
        sim = self.sim
        ppl = sim.people
        net = sim.networks.mfnet
        ends = np.concatenate([net.edges.p1, net.edges.p2])
        nonpart = int((~net.participant.raw[ends]).sum())
        predebut = int((ppl.age.raw[ends] <= net.debut.raw[ends]).sum())
        if nonpart + predebut > self.worst[1] + self.worst[2] or self.worst[0] == 0:
            self.worst = (len(ends), nonpart, predebut)
        self.ever |= set(ends.tolist())
        cur = net.participant.raw[:len(ppl.age.raw)].copy()
        if self.prev is not None:
            changed = cur != self.prev
            age = ppl.age.raw
            self.flips_young += int((changed & (age >= 1) & (age < 30)).sum()) # at least one year old: not "new arrivals"
            self.flips_old   += int((changed & (age >= 30)).sum())
        self.prev = cur

def run(unit, dt, dur, mean_dur):
    chk = AtTransmission()
    sim = ss.Sim(n_agents=3000, unit=unit, dt=dt, dur=dur, rand_seed=2, verbose=0, copy_inputs=False,
                 networks=ss.MFNet(participation=ss.bernoulli(p=P_PART), duration=ss.lognorm_ex(mean=mean_dur, std=mean_dur/10)),
                 diseases=ss.SIS(beta=0.01), interventions=chk)
    sim.run()
    age = sim.people.age.raw
    ever = np.zeros(len(age), dtype=bool); ever[list(chk.ever)] = True
    young = (age >= 20) & (age < 30)
    old = (age >= 30) & (age < 50)
    return chk, ever[young].mean(), ever[old].mean()

fail = False
for label, kw in [('unit=year, dt=1/12 (reference)', dict(unit='year', dt=1/12, dur=10, mean_dur=2)),
                  ('unit=day,  dt=30            ', dict(unit='day',  dt=30,   dur=3600, mean_dur=720))]:
    chk, ever_young, ever_old = run(**kw)
    print(f'{label}: participation flag changed {chk.flips_young} times for agents aged 1-30 and {chk.flips_old} times for agents aged 30+;')
    print(f'    worst step: {chk.worst[1]} non-participating and {chk.worst[2]} pre-debut endpoints among {chk.worst[0]} paired endpoints at transmission;')
    print(f'    ever paired: {ever_young:.0%} of 20-30 year olds vs {ever_old:.0%} of 30-50 year olds (participation={P_PART})')
    if chk.flips_young > 0 or chk.worst[1] > 0:
        fail = True

if fail:
    print('\nVIOLATION: MFNet re-draws eligibility of everyone younger than dt "years" (dt taken in the network unit), '
          'so ineligible agents are paired at transmission time and participation is not honoured')
    sys.exit(1)
print('OK')
