"""
C18: MultiSim.summarize(method='median') (documented: 'median' -> [median, min, max],
optional quantiles) raises TypeError for every input: the quantiles are passed to
np.quantile() as a dict instead of as its values.
"""
import sys
import numpy as np
import starsim as ss

if __name__ == '__main__':
    sim = ss.Sim(n_agents=300, dur=10, rand_seed=1, verbose=0, diseases=dict(type='sis', beta=0.1), networks='random')
    msim = ss.MultiSim(sim, n_runs=4, debug=True).run()
    mean = msim.summarize(method='mean')  # control: works
    print('summarize(method="mean") works, e.g. sis_cum_infections:', dict(mean['sis_cum_infections']))
    failures = []
    for label, kw in [('default quantiles', dict()), ('quantiles=[0.1, 0.9]', dict(quantiles=[0.1, 0.9])), ('quantiles={"lo":0.1,"hi":0.9}', dict(quantiles={'lo': 0.1, 'hi': 0.9}))]:
        try:
            out = msim.summarize(method='median', **kw)
            vals = np.array([s.summarize()['sis_cum_infections'] for s in msim.sims])
            entry = out['sis_cum_infections']
            if 'median' in entry and not np.isclose(entry['median'], np.median(vals)):
                failures.append(f'{label}: median {entry["median"]} != {np.median(vals)}')
        except Exception as E:
            failures.append(f'{label}: {type(E).__name__}: {E}')
    if failures:
        print('VIOLATION: MultiSim.summarize(method="median") does not produce the median/quantile summary:')
        for f in failures:
            print('  ', f)
        sys.exit(1)
    print('ok')
    sys.exit(0)
