"""
C02 violation: a MixingPool uses ONE shared bernoulli (p_acquire) for every disease it serves,
drawing from it once per disease per step.  The k-th disease in the list therefore gets the k-th
sub-stream, so the epidemic of a disease depends on which other (independent) diseases are present
and on their list order.

Takes starsim from PYTHONPATH.  Exits 1 when the violation manifests.
"""
import sys
import numpy as np
import starsim as ss

def make_sis():
    return ss.SIS(name='sis', beta=ss.beta(0.0), init_prev=ss.bernoulli(p=0.05))

def make_other():
    # An independent disease: no deaths, no connector, never touches 'sis'
    return ss.SIR(name='sir', beta=ss.beta(0.0), init_prev=ss.bernoulli(p=0.05), p_death=ss.bernoulli(p=0.0))

def make_pools():
    groups = lambda: {'young': ss.AgeGroup(0, 30), 'old': ss.AgeGroup(30, None)}
    return ss.MixingPools(beta=ss.beta(0.3), contacts=[[2.0, 0.5], [0.5, 2.0]], src=groups(), dst=groups())

def run(order, plural=False):
    makers = dict(sis=make_sis, sir=make_other)
    diseases = [makers[k]() for k in order]
    if plural:
        mp = make_pools() # ss.MixingPools: a grid of MixingPool objects (the documented example form)
    else:
        mp = ss.MixingPool(beta=ss.beta(0.3), contacts=ss.poisson(lam=3)) # diseases=None -> all infections in the sim
    sim = ss.Sim(n_agents=500, dur=20, diseases=diseases, networks=mp, rand_seed=1, verbose=0)
    sim.run()
    sis = sim.diseases.sis
    n = sim.people.uid.len_used
    return dict(
        n_infected     = np.array(sim.results.sis.n_infected),
        new_infections = np.array(sim.results.sis.new_infections),
        ti_infected    = np.array(sis.ti_infected.raw[:n]),
        infected       = np.array(sis.infected.raw[:n]),
    )

alone  = run(['sis'])
after  = run(['sis', 'sir'])   # independent disease listed after SIS
before = run(['sir', 'sis'])   # same independent disease listed before SIS

def same(a, b):
    return all(np.array_equal(a[k], b[k], equal_nan=True) for k in a)

print('SIS n_infected, alone          :', alone['n_infected'][:10])
print('SIS n_infected, [sis, sir]     :', after['n_infected'][:10])
print('SIS n_infected, [sir, sis]     :', before['n_infected'][:10])

bad = []
if not same(alone, after):  bad.append('adding an independent SIR after SIS changed the SIS epidemic')
if not same(alone, before): bad.append('adding an independent SIR before SIS changed the SIS epidemic')
if not same(after, before): bad.append('swapping the list order of two independent diseases changed the SIS epidemic')

# Same thing with ss.MixingPools; there the sub-pools' dists are additionally never jumped per step
# (the sub-pools are not in sim.modules), so even a disease listed AFTER sis shifts the stream
p_alone = run(['sis'], plural=True)
p_after = run(['sis', 'sir'], plural=True)
print('MixingPools: SIS n_infected, alone     :', p_alone['n_infected'][:10])
print('MixingPools: SIS n_infected, [sis, sir]:', p_after['n_infected'][:10])
if not same(p_alone, p_after): bad.append('ss.MixingPools: adding an independent SIR AFTER SIS changed the SIS epidemic')

if bad:
    print('VIOLATION of C02:')
    for b in bad: print('  -', b)
    n_diff = int(np.sum(~((alone['ti_infected'] == before['ti_infected']) | (np.isnan(alone['ti_infected']) & np.isnan(before['ti_infected'])))))
    print(f'  agents whose SIS infection time differs (alone vs [sir, sis]): {n_diff} of {len(alone["ti_infected"])}')
    sys.exit(1)
print('no violation observed')
sys.exit(0)
