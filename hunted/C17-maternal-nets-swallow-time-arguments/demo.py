"""
C17 violation: the built-in network classes that forward **kwargs to
ss.Network.__init__ (MaternalNet, PrenatalNet, PostnatalNet, NullNet, and the
Network / DynamicNetwork / SexualNetwork bases) silently swallow the standard
module time arguments (dt, unit, start, stop) and any misspelled keyword. They
are stored as bogus 0-d "edge" arrays; the module's ss.Time never sees them, so
the network runs on the sim's step. Every other built-in module either applies
these arguments (e.g. ss.RandomNet(unit='month', dt=1)) or raises on unknown
names (e.g. ss.RandomNet(lable='x')).
"""
import sys
import starsim as ss

problems = []
kw = dict(n_agents=1000, start=2000, dur=10, unit='year', verbose=0, diseases='sir')

def make_sim(extra_net):
    return ss.Sim(demographics=ss.Pregnancy(fertility_rate=50), networks=['random', extra_net], **kw)

# Control: a network class that uses update_pars() honours the time arguments...
ctrl = make_sim(ss.RandomNet(name='r2', unit='month', dt=1)).run()
c = ctrl.networks.r2
print(f'[control] RandomNet(unit="month", dt=1): t.unit={c.t.unit}, t.dt={c.t.dt}, npts={c.t.npts}')
# ...and rejects unknown names
try:
    ss.RandomNet(lable='x')
    print('[control] RandomNet(lable="x") accepted?!')
except Exception as E:
    print(f'[control] RandomNet(lable="x") rejected: {type(E).__name__}')

# Test 1: instance specification
try:
    net = ss.MaternalNet(unit='month', dt=1, lable='Mother-child')
    sim = make_sim(net).run()
    m = sim.networks.maternalnet
    print(f'[test 1] MaternalNet(unit="month", dt=1, lable=...): accepted; t.unit={m.t.unit}, t.dt={m.t.dt}, npts={m.t.npts}, '
          f'edge keys={list(m.edges.keys())}, n_edges={len(m.edges.p1)}')
    if (m.t.unit, m.t.dt) != ('month', 1):
        problems.append(f'MaternalNet(unit="month", dt=1) accepted, but the network runs with unit={m.t.unit!r}, dt={m.t.dt} ({m.t.npts} steps instead of {c.t.npts}); the values ended up as edge arrays {[k for k in m.edges.keys() if k in ("unit","dt")]}')
    if 'lable' in m.edges:
        problems.append('misspelled keyword "lable" accepted by MaternalNet (stored as an edge array) instead of being rejected')
except Exception as E:
    print(f'[test 1] rejected: {type(E).__name__}: {E}')

# Test 2: dict specification through the Sim
try:
    sim = make_sim(dict(type='prenatal', unit='month', dt=1)).run()
    m = sim.networks.prenatalnet
    print(f'[test 2] networks=dict(type="prenatal", unit="month", dt=1): accepted; t.unit={m.t.unit}, t.dt={m.t.dt}, npts={m.t.npts}')
    if (m.t.unit, m.t.dt) != ('month', 1):
        problems.append(f'dict(type="prenatal", unit="month", dt=1) accepted, but the network runs with unit={m.t.unit!r}, dt={m.t.dt}')
except Exception as E:
    print(f'[test 2] rejected: {type(E).__name__}: {E}')

if problems:
    print('\nVIOLATION of C17 (parameters neither applied nor rejected):')
    for p in problems: print('  -', p)
    sys.exit(1)
print('No violation observed')
sys.exit(0)
