"""
C08 violation: the integration plan looks up each function's time vector by the *name string*
of its owner (Loop.__iadd__ / collect_abs_tvecs), not by the owner itself.  Two modules of
different types that carry the same name are accepted silently (names are only checked for
uniqueness within one module type, and People.add_module() only objects if the first module
has states), and then BOTH are scheduled on the time vector of whichever comes last in
sim.modules.  The same mechanism lets a module that happens to be called "people" hijack the
schedule of People.step_die / update_results / finish_step (the latter ages the agents).

Case A: an intervention (dt=2 years) and an analyzer (dt=0.5 years) both named 'screening'.
Case B: an analyzer named 'people' with dt=0.5 in a sim with dt=1.
"""
import sys
import numpy as np
import starsim as ss


class Recorder:
    """ Mixin: log (sim.now, own ti, own now) on every per-step call """
    def _rec(self, what):
        if not hasattr(self, 'calls'): self.calls = []
        self.calls.append((what, self.sim.now, self.ti, self.now))
    def start_step(self):
        self._rec('start_step'); return super().start_step()
    def step(self):
        self._rec('step')
    def finish_step(self):
        self._rec('finish_step'); return super().finish_step()

class MyIntv(Recorder, ss.Intervention): pass
class MyAna(Recorder, ss.Analyzer): pass


def report_module(mod, problems, tag):
    npts = mod.t.npts
    for meth in ['start_step', 'step', 'finish_step']:
        n = sum(1 for c in mod.calls if c[0] == meth)
        if n != npts:
            problems.append(f'{tag}: {type(mod).__name__} "{mod.name}" (dt={mod.t.dt}, {npts} own time points) had {meth}() invoked {n} times')
    tis = [c[2] for c in mod.calls if c[0] == 'step']
    if tis != list(range(npts)):
        problems.append(f'{tag}: {type(mod).__name__} "{mod.name}" clock at successive step() calls = {tis[:8]}...{tis[-1]} (own time vector has indices 0..{npts-1})')
    if mod.ti != npts - 1:
        problems.append(f'{tag}: {type(mod).__name__} "{mod.name}" final ti={mod.ti}, expected {npts-1}')


def case_a(problems):
    intv = MyIntv(name='screening', dt=2.0)   # should step at 2000, 2002, ..., 2010 -> 6 points
    ana  = MyAna(name='screening', dt=0.5)    # should step at 2000, 2000.5, ..., 2010 -> 21 points
    sim = ss.Sim(n_agents=100, start=2000, stop=2010, dt=1.0, diseases='sir', networks='random',
                 interventions=intv, analyzers=ana, verbose=0)
    sim.run()  # No error, no warning
    intv, ana = sim.interventions[0], sim.analyzers[0]
    print(f'Case A: intervention tvec has {intv.t.npts} points, analyzer tvec has {ana.t.npts} points; '
          f'loop.abs_tvecs keys = {list(sim.loop.abs_tvecs.keys())}')
    report_module(intv, problems, 'A')
    report_module(ana, problems, 'A')


def case_b(problems):
    kw = dict(n_agents=100, start=2000, stop=2010, dt=1.0, diseases='sir', networks='random', use_aging=True, verbose=0)
    out = {}
    for name in ['snapshot', 'people']: # Control run with an innocuous name, then the same analyzer called "people"
        sim = ss.Sim(analyzers=MyAna(name=name, dt=0.5), **kw)
        sim.init()
        age0 = np.array(sim.people.age.values).copy()
        sim.run()
        plan = sim.loop.plan
        n_die = int((plan.func_label == 'people.step_die').sum()) # step_die exists only on People
        aged = float(np.mean(np.array(sim.people.age.values) - age0))
        out[name] = (n_die, aged, sim.t.npts)
        print(f'Case B: analyzer named "{name}" (dt=0.5): People.step_die scheduled {n_die} times for a sim with {sim.t.npts} time points; '
              f'mean ageing over the run = {aged:.2f} years')
    n_die, aged, npts = out['people']
    if n_die != npts:
        problems.append(f'B: People.step_die()/update_results()/finish_step() are scheduled {n_die} times (on the dt=0.5 grid of the analyzer named "people") but the sim has {npts} time points')
    if abs(aged - out['snapshot'][1]) > 1e-6:
        problems.append(f'B: agents aged {aged:.2f} years during the run instead of {out["snapshot"][1]:.2f} (People.finish_step ran {n_die} times instead of {npts})')


def main():
    problems = []
    case_a(problems)
    case_b(problems)
    if problems:
        print('C08 VIOLATED (schedule keyed by module name, not by module):')
        for p in problems: print('  -', p)
        sys.exit(1)
    print('ok')
    sys.exit(0)

if __name__ == '__main__':
    main()
