"""
C11 violation: the ss.uids set operators are only defined for an ss.uids LEFT operand. With a plain
integer ndarray or list on the left and an ss.uids on the right (ids & u, ids | u, ids - u, ids ^ u),
Python/NumPy dispatch to ndarray.__and__/__or__/__sub__/__xor__ (or the inherited ndarray.__rand__...
for a list), i.e. element-wise bitwise/arithmetic operations on the identifier VALUES, and NumPy's
subclass rules still label the result as ss.uids. Plain arrays of identifiers are produced by the public
API itself (Network.find_contacts(), People.grow(0), arr.uids.to_numpy(), np.unique(...) etc.).
Exits 1 when the violation manifests.
"""
import sys, operator
import numpy as np
import starsim as ss

problems, silent = [], 0
ops = {'&': (operator.and_, set.intersection), '|': (operator.or_, set.union),
       '-': (operator.sub, set.difference), '^': (operator.xor, set.symmetric_difference)}

def check(label, lhs, rhs, sym):
    global silent
    f, setf = ops[sym]
    expected = sorted(setf(set(int(v) for v in lhs), set(int(v) for v in rhs)))
    ref = sorted(int(v) for v in f(ss.uids(lhs), rhs))           # uids on the left: correct
    assert ref == expected, (label, ref, expected)
    try:
        got = f(lhs, rhs)
        gotl = sorted(int(v) for v in np.asarray(got).ravel())
        if gotl != expected:
            silent += 1
            problems.append(f'{label}: {type(lhs).__name__} {sym} ss.uids -> {type(got).__name__}({np.asarray(got).tolist()}), expected set result {expected}')
    except Exception as e:
        problems.append(f'{label}: {type(lhs).__name__} {sym} ss.uids raised {type(e).__name__}: {str(e)[:80]} (expected {expected})')

# 1. Realistic: identifiers returned by the public Network.find_contacts() are a plain ndarray
sim = ss.Sim(n_agents=60, networks=ss.RandomNet(n_contacts=4), diseases=ss.SIS(), verbose=0, rand_seed=1).init()
net = sim.networks.randomnet
index_case = ss.uids([7])
contacts = net.find_contacts(index_case)          # plain np.ndarray of identifiers
print('find_contacts ->', type(contacts).__name__, contacts)
check('contacts minus index case', contacts, index_case, '-')
sus = sim.diseases.sis.susceptible.uids
same_len = sus[:len(contacts)]
check('contacts that are susceptible', contacts, same_len, '&')

# 2. Systematic: all four operators, ndarray and list on the left
a = [1, 2, 3, 7]; b = ss.uids([2, 3, 4, 9])
for sym in ops:
    check('ndarray lhs', np.array(a), b, sym)
    check('list lhs', list(a), b, sym)
    check('ndarray lhs, 1-element rhs', np.array(a), ss.uids([2]), sym)
    check('ndarray lhs, different length', np.array(a), ss.uids([2, 3]), sym)

if problems:
    print(f'VIOLATION of C11: {len(problems)} operand pairs wrong ({silent} silently, rest by exception):')
    for p in problems: print('  -', p)
    sys.exit(1)
print('no violation'); sys.exit(0)
