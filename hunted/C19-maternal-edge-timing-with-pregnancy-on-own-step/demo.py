"""
C19 violation 1: prenatal / postnatal contact edges are not active for current pregnancies
when ss.Pregnancy runs on a different time step than the maternal networks.

ss.Pregnancy hard-codes unit='year' in its parameters, so in any sim whose unit is
'day', 'week' or 'month' (or whenever the user gives Pregnancy its own dt) the module
runs on its own time step.  It writes edge start/end/dur in *its own* step index, but
MaternalNet.step()/end_pairs() compare them with the *network's* step index.
"""
import sys
import numpy as np
import starsim as ss

sim = ss.Sim(
    n_agents=2000, unit='day', dt=7, start='2000-01-01', stop='2001-06-30',
    demographics=ss.Pregnancy(fertility_rate=150),       # no deaths at all, default Pregnancy settings
    networks=[ss.PrenatalNet(), ss.PostnatalNet()],
    verbose=0,
)
sim.init()
preg = sim.demographics[0]
pre  = sim.networks['prenatalnet']
post = sim.networks['postnatalnet']
ppl  = sim.people
print(f'sim step: {sim.t.dt} {sim.t.unit}; pregnancy step: {preg.t.dt} {preg.t.unit}; prenatal net step: {pre.t.dt} {pre.t.unit}')

worst = None
n_bad_steps = 0
n_bad_pp = 0
while sim.ti < sim.t.npts:
    sim.run_one_step()
    pregnant_now = set(preg.pregnant.uids.tolist())                    # women currently pregnant (nobody dies in this sim)
    active = pre.edges.beta > 0
    with_active_edge = set(pre.edges.p1[active].tolist())
    missing = pregnant_now - with_active_edge                          # pregnant, but no active prenatal edge
    extra   = with_active_edge - pregnant_now                          # active prenatal edge, but not pregnant
    if missing or extra:
        n_bad_steps += 1
        if worst is None or len(missing) > worst[1]:
            worst = (sim.ti-1, len(missing), len(extra), len(pregnant_now))
    pp_now = set(preg.postpartum.uids.tolist())
    pp_active = set(post.edges.p1[post.edges.beta > 0].tolist())
    if pp_now - pp_active:
        n_bad_pp += 1

print(f'steps on which active prenatal edges != current pregnancies: {n_bad_steps} of {sim.t.npts}')
print(f'steps on which a post-partum mother has no active postnatal edge: {n_bad_pp} of {sim.t.npts}')
if worst:
    ti, nm, ne, npreg = worst
    print(f'e.g. after sim step {ti}: {npreg} women pregnant, {nm} of them have NO active prenatal edge, {ne} active edges belong to non-pregnant women')
    print('prenatal edge table (note start/end are in Pregnancy-module steps = years, network ti is in weeks):')
    print(pre.to_df().head(5))
    print('VIOLATION: prenatal edges are not active exactly for current pregnancies')
    sys.exit(1)
print('no violation')
sys.exit(0)
