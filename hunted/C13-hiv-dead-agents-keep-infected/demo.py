"""
C13 violation: HIV resolves disease deaths (HIV.step_state -> people.request_death) but has no step_die(),
so agents who died of HIV keep infected=True. They are still counted in n_infected on the step they die
(after deaths were resolved), which pushes hiv prevalence above 1, and their flag stays set forever.
SIR in the same setting is shown as the control. Exits 1 when the violation manifests.
"""
import sys
import numpy as np
import starsim as ss

class dead_check(ss.Analyzer):
    """ Runs after people.step_die(): counts agents that are dead but still hold a compartment """
    def __init__(self, dname, comps):
        super().__init__()
        self.dname = dname; self.comps = comps; self.n_dead_holding = 0; self.first = None
    def step(self):
        d = self.sim.diseases[self.dname]
        ppl = self.sim.people
        au = ppl.auids # Agents who died this step are still active here
        dead = ~ppl.alive.raw[au]
        held = sum(getattr(d, c).raw[au].astype(int) for c in self.comps)
        n = int((dead & (held > 0)).sum())
        self.n_dead_holding += n
        if n and self.first is None:
            self.first = (self.sim.ti, n)

def run(disease, comps):
    sim = ss.Sim(n_agents=2000, dur=30, diseases=disease, networks=ss.RandomNet(),
                 analyzers=dead_check(disease.name, comps), verbose=0)
    sim.run()
    d = sim.diseases[disease.name]
    dead_uids = np.nonzero(~sim.people.alive.raw)[0]
    still = int(sum(getattr(d, c).raw[dead_uids].astype(int) for c in comps).astype(bool).sum())
    return sim, len(dead_uids), still

sim_s, nd_s, still_s = run(ss.SIR(p_death=ss.bernoulli(p=0.5), init_prev=ss.bernoulli(p=0.3)), ['susceptible', 'infected', 'recovered'])
print(f'SIR (control): {nd_s} deaths, dead agents holding a compartment at analyzer time: {sim_s.analyzers[0].n_dead_holding}, at end of run: {still_s}, max prevalence {sim_s.results.sir.prevalence.max():.3f}')

sim_h, nd_h, still_h = run(ss.HIV(beta=ss.beta(0.5), init_prev=ss.bernoulli(p=0.9)), ['susceptible', 'infected'])
az = sim_h.analyzers[0]
prev = sim_h.results.hiv.prevalence
print(f'HIV: {nd_h} deaths, dead agents holding a compartment at analyzer time: {az.n_dead_holding} (first at {az.first}), at end of run: {still_h}, max prevalence {prev.max():.4f}')

if az.n_dead_holding > 0 or still_h > 0:
    print(f'VIOLATION: {still_h} of {nd_h} agents who died still have hiv.infected=True; '
          f'hiv.n_infected counts agents that died on that step, so prevalence reaches {prev.max():.4f} (> 1 on {(prev>1).sum()} steps)')
    sys.exit(1)
print('no violation')
sys.exit(0)
