"""
C07 violation: in a date-based sim with unit='month', modules that share the sim's
own timeline (same unit, dt, start, stop, identical datevec) are NOT placed on the
sim's elapsed-time axis at the sim's grid points, so the integration loop runs
module steps before/after the sim step of the same calendar date.
"""
import sys
import numpy as np
import starsim as ss

class Probe(ss.Intervention):
    """ Lives on the sim's own timeline; records which sim step it sees when it steps """
    def __init__(self, **kw):
        super().__init__(**kw)
        self.seen = []
    def step(self):
        self.seen.append((self.ti, self.sim.ti, str(self.t.now('date')), str(self.sim.t.now('date'))))

probe = Probe()
sim = ss.Sim(n_agents=100, unit='month', start='2000-01-01', stop='2001-01-01', dt=1,
             diseases='sir', networks='random', interventions=probe, verbose=0)
sim.init()

bad = False
st = sim.t
print('sim  dates  :', [str(d) for d in st.datevec[:5]], '...')
print('sim  abstvec:', st.abstvec[:5], '...', st.abstvec[-1])
for mod in sim.modules:
    mt = mod.t
    same_dates = len(mt.datevec) == len(st.datevec) and all(a == b for a, b in zip(mt.datevec, st.datevec))
    same_abs = same_dates and np.allclose(mt.abstvec, st.abstvec, atol=1e-9)
    print(f'{mod.name:10s} unit={mt.unit} dt={mt.dt} same dates as sim: {same_dates}; abstvec: {mt.abstvec[:5]} ... {mt.abstvec[-1]}')
    if same_dates and not same_abs:
        bad = True
        print(f'  -> VIOLATION: {mod.name} has the sim\'s calendar timeline but sits at different elapsed times '
              f'(max offset {np.abs(mt.abstvec - st.abstvec).max():.6f} months; last point {mt.abstvec[-1]} is beyond the sim end {st.abstvec[-1]})')

# Consequence 1: order of the integration plan
df = sim.loop.to_df()
labels = df.func_label.tolist()
i_sir2 = [i for i, (l, t) in enumerate(zip(df.func_label, df.time)) if l == 'sir.step'][2]   # sir's step for 2000-03-01
i_sim2 = [i for i, l in enumerate(labels) if l == 'sim.start_step'][2]                      # sim's step for 2000-03-01
i_fin1 = [i for i, l in enumerate(labels) if l == 'sim.finish_step'][1]                     # sim finishing 2000-02-01
i_sir1 = [i for i, l in enumerate(labels) if l == 'sir.step'][1]                            # sir's step for 2000-02-01
if i_sir2 < i_sim2:
    bad = True
    print(f'VIOLATION: plan runs sir.step for 2000-03-01 (t={df.time[i_sir2]}) BEFORE sim.start_step of 2000-03-01 (t={df.time[i_sim2]})')
if i_sir1 > i_fin1:
    bad = True
    print(f'VIOLATION: plan runs sir.step for 2000-02-01 (t={df.time[i_sir1]}) AFTER sim.finish_step of 2000-02-01 (t={df.time[i_fin1]})')

# Consequence 2: when the module steps, the sim is on a different step / date
sim.run()
probe = sim.interventions[0]  # the sim works on a copy of the inputs
mism = [s for s in probe.seen if s[0] != s[1]]
print('probe (own ti, sim ti, own date, sim date) for first steps:', probe.seen[:4])
if mism:
    bad = True
    print(f'VIOLATION: on {len(mism)} of {len(probe.seen)} steps the module stepped while the sim was at a different step, e.g. {mism[0]}')

if bad:
    sys.exit(1)
print('OK: modules on the sim timeline share the sim elapsed-time axis')
sys.exit(0)
