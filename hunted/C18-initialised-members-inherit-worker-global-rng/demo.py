"""
C18 violation: members of a MultiSim given as a list of already-initialised sims
(each with its own seed, reseed=False) do not reproduce the stand-alone runs, and
their results change with the worker count, when any module draws from NumPy's
global random stream (RandomNet with a non-even / distribution-valued n_contacts
via sc.randround, ss.Births via np.random.binomial, non-leaky sir_vaccine).
"""
import sys
import numpy as np
import starsim as ss

def make(seed):
    return ss.Sim(n_agents=600, start=2000, dur=20, rand_seed=seed, verbose=0,
                  diseases=ss.SIS(beta=0.1),
                  networks=ss.RandomNet(n_contacts=ss.poisson(4)))

def flat(sim):
    return {k: np.array(v) for k, v in sim.results.flatten().items()}

def ndiff(a, b):
    fa, fb = flat(a), flat(b)
    return [k for k in fa if not np.array_equal(fa[k], fb[k], equal_nan=True)]

if __name__ == '__main__':
    n = 4
    key = 'sis_cum_infections'

    # Each simulation run alone: initialise, then run (identical to a plain .run())
    alone = [make(1 + i).init().run() for i in range(n)]
    plain = [make(1 + i).run() for i in range(n)]
    assert all(not ndiff(a, b) for a, b in zip(alone, plain)), 'init()+run() should equal run()'
    print('alone       :', [int(flat(s)[key][-1]) for s in alone])

    out = {}
    for label, kw in [('n_cpus=1', dict(n_cpus=1)), ('n_cpus=2', dict(n_cpus=2)),
                      ('n_cpus=4', dict(n_cpus=4)), ('debug', dict(debug=True))]:
        sims = [make(1 + i).init() for i in range(n)]  # pre-initialised members, e.g. to inspect sim.people
        msim = ss.MultiSim(sims, **kw).run()
        out[label] = msim.sims
        print(f'{label:12s}:', [int(flat(s)[key][-1]) for s in msim.sims])

    bad = []
    for label, sims in out.items():
        mism = [i for i, (a, b) in enumerate(zip(alone, sims)) if ndiff(a, b)]
        if mism:
            bad.append(f'{label}: members {mism} differ from the same sims run alone')
    wc = [i for i in range(n) if ndiff(out['n_cpus=1'][i], out['n_cpus=4'][i])]
    if wc:
        bad.append(f'members {wc} differ between n_cpus=1 and n_cpus=4')

    if bad:
        print('VIOLATION of C18:')
        for b in bad:
            print('  -', b)
        sys.exit(1)
    print('ok')
    sys.exit(0)
