"""
C09 violation: after a paused MultiSim run (run_args=dict(until=...)) the user's original Sim
objects and msim.sims[i] are two *different* Sim objects that share every internal object
(people, loop, results, t, modules) but carry separate `complete` / `results_ready` flags.
Finishing one handle therefore does not mark the other as complete, and the "already run" guard
is bypassed: the finished simulation is finalised a second time (results multiplied by pop_scale
twice, ti decremented twice, summary recomputed from the doubly-scaled results).
"""
import sys
import numpy as np
import starsim as ss

def make(seed):
    return ss.Sim(n_agents=200, total_pop=50_000, rand_seed=seed, diseases='sir', networks='random',
                  demographics=[ss.Deaths(death_rate=20)], verbose=0)

# Reference: uninterrupted runs
refs = [make(1).run(), make(2).run()]

# Paused MultiSim run (documented: "use run_args to pass arguments to sim.run()"; inplace=True is the default)
s1, s2 = make(1), make(2)
msim = ss.MultiSim([s1, s2], debug=True) # debug=True -> serial, same behaviour with multiprocessing
msim.run(run_args=dict(until=2010))

m1 = msim.sims[0]
print(f'after pause: s1 is msim.sims[0]? {s1 is m1};  share people? {s1.people is m1.people};  share results? {s1.results is m1.results};  share loop? {s1.loop is m1.loop}')

# The user finishes the first sim through their own handle ("modified in place") ...
s1.run()
ok_first = np.array_equal(s1.results.n_alive.values, refs[0].results.n_alive.values)
print(f's1 finished: complete={s1.complete}, results_ready={s1.results_ready}, ti={s1.t.ti}, matches uninterrupted run: {ok_first}')
print(f'msim.sims[0] now: complete={m1.complete}, results_ready={m1.results_ready}, loop.index={m1.loop.index}/{len(m1.loop.plan)}')

# ... and later finishes the whole MultiSim
problems = []
try:
    msim.run()
except ss.sim.AlreadyRunError as E:
    print('msim.run() refused (this would be acceptable):', E)
else:
    r = msim.sims[0]
    ref = refs[0]
    ratio = float(r.results.n_alive[-1]) / float(ref.results.n_alive[-1])
    print(f'msim.run() did NOT refuse. msim.sims[0].results.n_alive[-1] = {float(r.results.n_alive[-1]):.0f}, '
          f'uninterrupted = {float(ref.results.n_alive[-1]):.0f}, ratio = {ratio:.1f} (pop_scale = {ref.pars.pop_scale:.1f})')
    print(f'ti after completion: {r.t.ti} (uninterrupted: {ref.t.ti});  summary n_alive: {r.summary["n_alive"]:.0f} vs {ref.summary["n_alive"]:.0f}')
    if not np.array_equal(r.results.n_alive.values, ref.results.n_alive.values):
        problems.append('msim.sims[0] results differ from the uninterrupted run (scaled twice)')
    if r.t.ti != ref.t.ti:
        problems.append(f'ti decremented twice: {r.t.ti} != {ref.t.ti}')
    # The second sim, which was only ever continued once, should be (and is) fine
    print('second sim matches uninterrupted run:', np.array_equal(msim.sims[1].results.n_alive.values, refs[1].results.n_alive.values))

# Variant: finishing through the aliased handle directly corrupts the user's own (already finalised) sim as well
a, b = make(1), make(2)
ms = ss.MultiSim([a, b], debug=True)
ms.run(run_args=dict(until=2010))
a.run()
before = float(a.results.n_alive[-1])
try:
    ms.sims[0].run()
except ss.sim.AlreadyRunError:
    pass
after = float(a.results.n_alive[-1])
print(f'variant: finished sim `a` had n_alive[-1]={before:.0f}; after ms.sims[0].run() it reads {after:.0f}')
if after != before:
    problems.append('an already-finalised sim had its results rescaled in place by running its alias')

if problems:
    print('\nVIOLATION:')
    for p in problems: print('  -', p)
    sys.exit(1)
print('no violation')
sys.exit(0)
