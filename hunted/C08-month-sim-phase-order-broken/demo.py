"""
C08 violation: in a date-based sim whose unit is 'month' (the default start for unit='month'
is the date '2000-01-01', and docs/tutorials/tut_buildsim.ipynb uses exactly this form), the
sim/people functions are scheduled on the nominal grid 0,1,2,... (months) while EVERY module --
even one with the same unit and dt as the sim -- is scheduled at (calendar days since start)/30.4375.
The same calendar instant therefore gets two different loop times, so the phase order inside one
instant is broken (death resolution / people results / sim.finish_step run either before all of
the module work or after all of it, alternating from month to month), and when a module steps,
the sim clock frequently denotes a different instant from the module's clock.

Exits 1 if the violation manifests.
"""
import sys
import numpy as np
import starsim as ss

records = []

class Probe(ss.Intervention):
    """ Records the module clock and the sim clock whenever it is stepped """
    def step(self):
        sim = self.sim
        records.append(dict(mod_ti=self.ti, mod_now=str(self.now), sim_ti=sim.ti, sim_now=str(sim.now)))

# The configuration from the tutorial (tut_buildsim): monthly timestep, dates for start/stop
sim = ss.Sim(n_agents=200, start='2020-01-01', stop='2021-01-01', unit='month',
             diseases='sis', networks='random', interventions=Probe(), verbose=0)
sim.run()

problems = []

# (1) Module clock vs sim clock at the time the module is stepped
for r in records:
    if r['mod_ti'] != r['sim_ti'] or r['mod_now'] != r['sim_now']:
        problems.append(f"probe.step(): module clock ti={r['mod_ti']} ({r['mod_now']}) but sim clock ti={r['sim_ti']} ({r['sim_now']})")

# (2) Phase order within one instant, from the executed plan
df = sim.loop.to_df()
sis = sim.diseases[0]
dates = {'sim': sim.t.datevec, 'people': sim.t.datevec}
for mod in sim.modules:
    dates[mod.name] = mod.t.datevec
counters = {}
executed = []  # (position, date, func_order, label)
for pos, (module, label, order) in enumerate(zip(df.module, df.func_label, df.func_order)):
    k = counters.get(label, 0)
    counters[label] = k + 1
    executed.append((pos, dates[module][k], order, label))

n_phase = 0
for a, b in zip(executed[:-1], executed[1:]):
    if b[1] < a[1]:
        problems.append(f'time goes backwards: {a[3]} for {a[1]} is followed by {b[3]} for {b[1]}')
    elif b[1] == a[1] and b[2] < a[2]:
        n_phase += 1
        if n_phase <= 6:
            problems.append(f'phase order broken on {a[1]}: {a[3]} (phase #{a[2]}) ran before {b[3]} (phase #{b[2]})')
if n_phase > 6:
    problems.append(f'... {n_phase} phase-order breaks in total')

print('sim  abstvec:', sim.t.abstvec[:5])
print('sis  abstvec:', sis.t.abstvec[:5], '(same unit, same dt, same dates as the sim)')
print('sim  dates  :', [str(d) for d in sim.t.datevec[:5]])
print('sis  dates  :', [str(d) for d in sis.t.datevec[:5]])

if problems:
    print(f'\nC08 VIOLATED ({len(problems)} findings):')
    for p in problems[:25]:
        print('  -', p)
    sys.exit(1)
else:
    print('No violation observed')
    sys.exit(0)
