"""
C17 violation: unknown keys inside a nested distribution-parameter dict are
silently accepted and silently ignored (never rejected, never in effect).

  ss.SIR(init_prev=dict(prob=0.5))        # typo for p=0.5
  ss.RandomNet(n_contacts=dict(val=2))    # typo for v=2

Both construct and run without any error or warning; the simulation uses the
default values (p=0.01, v=10) and the supplied value is dropped.
"""
import sys
import warnings
import numpy as np
import starsim as ss

problems = []
n = 4000

def build_and_run(label, **simkw):
    """ Return (sim, exception) """
    try:
        with warnings.catch_warnings(record=True) as w:
            warnings.simplefilter('always')
            sim = ss.Sim(n_agents=n, dur=2, verbose=0, **simkw)
            sim.run()
        msgs = [str(x.message) for x in w if 'prob' in str(x.message) or 'val' in str(x.message)]
        return sim, None, msgs
    except Exception as E: # Rejection is the acceptable outcome
        print(f'[{label}] rejected with {type(E).__name__}: {E}')
        return None, E, []

# Case 1: module keyword route, bernoulli parameter
sim, err, msgs = build_and_run('SIR(init_prev=dict(prob=0.5))',
    diseases=ss.SIR(init_prev=dict(prob=0.5), beta=0), networks='random')
if err is None:
    frac = sim.results.sir.n_infected[0] / n
    pars = dict(sim.diseases.sir.pars.init_prev.pars)
    print(f'[case 1] accepted; init_prev dist pars = {pars}; initial infected fraction = {frac:.4f}; related warnings = {msgs}')
    if abs(frac - 0.5) > 0.05:
        problems.append(f'case 1: init_prev=dict(prob=0.5) accepted without error but initial prevalence is {frac:.4f} (default 0.01 still in effect)')

# Case 2: dict module specification + nested dict route
sim, err, msgs = build_and_run("diseases=dict(type='sir', p_death=dict(prob=1.0))",
    diseases=dict(type='sir', init_prev=0.5, p_death=dict(prob=1.0), beta=0, dur_inf=1), networks='random', )
if err is None:
    sir = sim.diseases.sir
    n_doomed = int(np.isfinite(sir.ti_dead.raw[:n]).sum())
    n_inf0 = int(sim.results.sir.n_infected[0])
    print(f'[case 2] accepted; p_death dist pars = {dict(sir.pars.p_death.pars)}; {n_doomed} of {n_inf0} initial cases scheduled to die')
    if n_doomed < 0.9*n_inf0:
        problems.append(f'case 2: p_death=dict(prob=1.0) accepted without error but only {n_doomed}/{n_inf0} infections are fatal (default p=0.01 still in effect)')

# Case 3: ss.constant parameter of a network
sim, err, msgs = build_and_run('RandomNet(n_contacts=dict(val=2))',
    diseases='sir', networks=ss.RandomNet(n_contacts=dict(val=2)))
if err is None:
    net = sim.networks.randomnet
    mean_contacts = 2*len(net.edges.p1)/n  # RandomNet makes n_contacts/2 edges per agent
    print(f'[case 3] accepted; n_contacts dist pars = {dict(net.pars.n_contacts.pars)}; edges per agent*2 = {mean_contacts:.2f}')
    if abs(mean_contacts - 2) > 0.5:
        problems.append(f'case 3: n_contacts=dict(val=2) accepted without error but network has ~{mean_contacts:.1f} contacts per agent (default v=10 still in effect)')

# Control: the correctly-spelled key works, and an unknown key at module level IS rejected
sim, err, _ = build_and_run('control', diseases=ss.SIR(init_prev=dict(p=0.5), beta=0), networks='random')
print(f'[control] init_prev=dict(p=0.5) -> initial infected fraction {sim.results.sir.n_infected[0]/n:.4f}')
try:
    ss.SIR(init_prevv=0.5)
    print('[control] module-level unknown key accepted?!')
except Exception as E:
    print(f'[control] module-level unknown key rejected as expected: {type(E).__name__}')

if problems:
    print('\nVIOLATION of C17 (parameter neither applied nor rejected):')
    for p in problems:
        print('  -', p)
    sys.exit(1)
print('No violation observed')
sys.exit(0)
