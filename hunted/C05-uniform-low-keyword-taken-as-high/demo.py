"""
C05 violation: ss.uniform(low=x) (keyword argument, high left at its documented default of 1.0) does not
sample U(x, 1): the constructor silently re-interprets the explicitly named lower bound as the UPPER bound
and resets low to 0, so the variates follow U(0, x).  For a negative x the "bounds" even come out reversed.
The same happens through ss.make_dist(dict(type='uniform', low=x)) and therefore through parameter dicts.
Dist.set(low=x) on an existing ss.uniform() does the documented thing, so the two routes disagree.

Exits 1 if the violation manifests, 0 otherwise.
"""
import sys
import numpy as np
import starsim as ss

n = 100_000
violated = False

def check(label, dist, low, high):
    global violated
    rvs = dist.rvs(n)
    lo, hi = min(low, high), max(low, high)
    frac_in = np.mean((rvs >= lo) & (rvs <= hi))
    exp_mean = (low+high)/2
    ok = frac_in == 1.0 and abs(rvs.mean() - exp_mean) < 0.01*(hi-lo)
    print(f'{label:55s} pars={dict(dist.pars)}  range=[{rvs.min():.4f}, {rvs.max():.4f}]  mean={rvs.mean():.4f}  '
          f'documented: U({low}, {high}), mean {exp_mean:.4f}  -> {"ok" if ok else "WRONG"}')
    if not ok:
        violated = True

print('Docstring: ss.uniform(low, high): "low: the lower bound (default 0.0); high: the upper bound (default 1.0)"\n')
check("ss.uniform(low=0.5, high=1.0)   [control]",      ss.uniform(low=0.5, high=1.0, strict=False), 0.5, 1.0)
check("ss.uniform().set(low=0.5)       [control]",      (lambda d: (d.set(low=0.5), d)[1])(ss.uniform(strict=False)), 0.5, 1.0)
check("ss.uniform(low=0.5)",                            ss.uniform(low=0.5, strict=False), 0.5, 1.0)
check("ss.uniform(low=-1.0)",                           ss.uniform(low=-1.0, strict=False), -1.0, 1.0)
check("ss.make_dist(dict(type='uniform', low=0.5))",    ss.make_dist(dict(type='uniform', low=0.5, strict=False)), 0.5, 1.0)

if violated:
    print('\nVIOLATION: a uniform distribution created with only the keyword "low" samples U(0, low) instead of the '
          'documented U(low, 1.0).')
    sys.exit(1)
print('\nNo violation observed.')
sys.exit(0)
