"""
C03 violation: distributions of the pools inside ss.MixingPools are never jumped to
the current timestep, so what an agent draws at step t depends on how many
(non-empty) draws were made in EARLIER steps.

Two sims, same seed, same agents.  The only difference is the pools' source group in
steps 0-2:
  A: src = currently susceptible agents (nobody infectious -> acquisition probability
     is 0 for everyone, but p_acquire is still sampled once per step)
  B: src = no agents (MixingPool.step returns before sampling)
From step 3 on, src = everybody in both sims.  Nobody can be infected in steps 0-2 in
either sim and nobody recovers (dur_inf=1000), so when step 3 starts both sims are in
exactly the same state: same seed, same distribution, same timestep, first call of the
step, same slots, same per-agent probabilities.  Property C03 therefore demands the
same draws, hence the same new infections at step 3.
"""
import sys
import numpy as np
import starsim as ss

K = 3 # First step in which the source group is "everybody"

def make(mode, container=True):
    def src(sim):
        if sim.ti < K:
            if mode == 'B':
                return ss.uids() # Nobody: the pool's step() returns without drawing
            return sim.diseases.sir.susceptible.uids # Nobody infectious: p=0 for all, but the draw happens
        return sim.people.auids
    if container:
        net = ss.MixingPools(diseases='sir', beta=ss.beta(0.3), src={'all':src}, dst={'all':None}, contacts=[[1.0]])
    else: # Control: the very same pool used directly as a network
        net = ss.MixingPool(diseases='sir', beta=ss.beta(0.3), src=src, dst=None, contacts=ss.poisson(lam=1.0))
    sir = ss.SIR(init_prev=ss.bernoulli(0.2), dur_inf=ss.constant(1000), p_death=ss.bernoulli(0))
    sim = ss.Sim(n_agents=200, diseases=sir, networks=net, dur=8, verbose=0, rand_seed=3)
    sim.init()
    return sim

def run_pair(container):
    out = {}
    for mode in ['A', 'B']:
        sim = make(mode, container)
        sir = sim.diseases.sir
        pool = sim.networks[0].pools[0] if container else sim.networks[0]
        for t in range(K):
            sim.run_one_step()
        pre = dict(infected=sir.infected.raw.copy(), sus=sir.susceptible.raw.copy(), eff=pool.eff_contacts.raw.copy(),
                   slot=sim.people.slot.raw.copy(), ti=sim.ti, ind=pool.p_acquire.ind)
        sim.run_one_step() # Step K
        new = np.flatnonzero(sir.ti_infected.raw == K)
        out[mode] = dict(pre=pre, new=new)
    return out

def main():
    res = run_pair(container=True)
    a, b = res['A'], res['B']
    same_pre = all(np.array_equal(a['pre'][k], b['pre'][k]) for k in ['infected', 'sus', 'eff', 'slot']) and a['pre']['ti'] == b['pre']['ti'] == K
    print(f'State at the start of step {K} identical in A and B (infected, susceptible, eff_contacts, slots): {same_pre}')
    print(f'RNG jump index of pools[0].p_acquire at the start of step {K}: A={a["pre"]["ind"]}, B={b["pre"]["ind"]} (a module-owned dist would be at {1000*(K+1)} in both)')
    print(f'New infections at step {K}, sim A: {a["new"].tolist()}')
    print(f'New infections at step {K}, sim B: {b["new"].tolist()}')

    ctrl = run_pair(container=False)
    ctrl_ok = np.array_equal(ctrl['A']['new'], ctrl['B']['new'])
    print(f'Control (same pool passed directly as ss.MixingPool, which is a sim module): identical new infections = {ctrl_ok}, jump index A={ctrl["A"]["pre"]["ind"]}, B={ctrl["B"]["pre"]["ind"]}')

    if not same_pre:
        print('Demo precondition failed (states differ before the step); cannot conclude')
        return 2
    if not np.array_equal(a['new'], b['new']):
        print('VIOLATION: same seed, distribution, timestep, call ordinal, slots and per-agent probabilities, but different draws: '
              'they depend on how many draws were made in earlier steps (MixingPools pool dists are never jump_dt-ed).')
        return 1
    print('No violation observed')
    return 0

if __name__ == '__main__':
    sys.exit(main())
