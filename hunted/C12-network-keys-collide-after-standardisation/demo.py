"""
C12 violation: infections cross a network whose configured beta is zero.

Two RandomNet instances cannot share the default name 'randomnet', so one is given the
name 'random'. Both names are legal and distinct in sim.networks, but
ss.standardize_netkey() maps both to 'random', so Infection.validate_beta() collapses
the two per-network betas into a single betamap entry (the last one wins) and silently
applies it to BOTH networks. Here the network named 'random' is configured with beta=0
and is the only network that has any edges (the other has n_contacts=0), so no
infection can be admissible -- yet transmission happens at the other network's beta.
"""
import sys
import numpy as np
import starsim as ss

net_zero = ss.RandomNet(name='random', n_contacts=4)   # configured beta = 0 (see below)
net_pos  = ss.RandomNet(n_contacts=0)                  # default name 'randomnet'; beta = 0.5 but NO edges
beta = {'random': 0, 'randomnet': ss.beta(0.5)}
sir = ss.SIR(beta=beta, init_prev=0.1, p_death=0)
sim = ss.Sim(n_agents=500, networks=[net_zero, net_pos], diseases=sir, rand_seed=1, verbose=0, dur=5)
sim.init()

d = sim.diseases.sir
print('network names       :', list(sim.networks.keys()))
print('configured beta     :', beta)
print('betamap actually used:', d.validate_beta())

seeds = set(d.infected.uids.tolist())
sim.run()
total_new = int(d.results.new_infections[:].sum()) - len(seeds)
n_edges_pos = int(sim.networks['randomnet'].results.n_edges[:].sum())
print(f"edges ever present in 'randomnet' (beta 0.5): {n_edges_pos}")
print(f"new infections (all necessarily via 'random', configured beta=0): {total_new}")

if total_new > 0:
    print("FAIL: infections were transmitted over a network whose transmissibility is zero (C12)")
    sys.exit(1)
print('OK')
sys.exit(0)
