"""
C14 violation: RandomNet does not give every eligible agent as many half-edges as its
(rounded) requested contacts when the n_contacts distribution can produce a negative
draw for SOME OTHER agent (e.g. n_contacts=ss.normal(4, 2), a natural choice for
"about 4 +/- 2 contacts").  A negative request for agent k silently eats half-edges
that belong to the agents listed before k.
"""
import sys
import numpy as np
import starsim as ss


class RecordingRandomNet(ss.RandomNet):
    """ Unmodified RandomNet; only records the (already rounded) per-agent request passed to get_edges """
    def get_edges(self, inds, n_contacts):
        self.last_inds = np.array(inds)
        self.last_req = np.array(n_contacts)
        return super().get_edges(inds, n_contacts)


class Check(ss.Intervention):
    def __init__(self):
        super().__init__()
        self.bad = []
    def step(self):
        net = self.sim.networks[0]
        inds, req = net.last_inds, net.last_req
        want = np.maximum(req, 0) # an agent that asked for <=0 contacts should simply get none
        out = np.bincount(np.asarray(net.edges.p1), minlength=inds.max()+1)[inds]
        inc = np.bincount(np.asarray(net.edges.p2), minlength=inds.max()+1)[inds]
        wrong = (out != want) | (inc != want)
        wrong_nonneg = wrong & (req >= 0)
        if wrong_nonneg.any():
            ex = [(int(u), int(w), int(o), int(i)) for u, w, o, i in zip(inds[wrong_nonneg][:4], want[wrong_nonneg][:4], out[wrong_nonneg][:4], inc[wrong_nonneg][:4])]
            self.bad.append((self.sim.ti, int((req < 0).sum()), int(wrong_nonneg.sum()), ex))


sim = ss.Sim(n_agents=2000, dur=5, rand_seed=3, verbose=0,
             networks=RecordingRandomNet(n_contacts=ss.normal(loc=4, scale=2)), # dur=0: edges are rebuilt every step
             diseases=ss.SIS(), interventions=Check())
sim.run()
bad = sim.interventions[0].bad
for ti, nneg, nwrong, ex in bad:
    print(f'step {ti}: {nneg} agents drew a negative request; {nwrong} OTHER agents (request >= 0) got the wrong number of half-edges; '
          f'e.g. (uid, requested, outgoing, incoming) = {ex}')
if bad:
    print('VIOLATION: eligible agents with a valid (non-negative) rounded request did not receive exactly that many outgoing/incoming half-edges')
    sys.exit(1)
print('no violation observed')
sys.exit(0)
