"""
C14 violation: MSMNet re-draws participation (and debut age) for EVERY male on EVERY step.

MSMNet.step() calls self.set_network_states() with no upper_age, so the
"participant" flag and the debut age of every male are re-sampled on each step
(MFNet only does this for newly arrived agents, via upper_age=dt). Consequences
seen at the moment the network is used for transmission:
  * men who are currently paired are flagged non-participating / pre-debut;
  * the requested participation rate (default 10%) is not honoured: because a fresh
    10% of the unpartnered men is recruited on every step, most men end up partnered.
"""
import sys
import numpy as np
import starsim as ss

P_PART = 0.1

class AtTransmission(ss.Intervention):
    """ Interventions run after Network.step() and before Disease.step() (transmission) """
    def __init__(self):
        super().__init__()
        self.rows = []
        self.ever = set()
        self.flips = 0
        self.prev = None
    def step(self):
        sim = self.sim
        ppl = sim.people
        net = sim.networks.msmnet
        ends = np.concatenate([net.edges.p1, net.edges.p2])
        nonpart = int((~net.participant.raw[ends]).sum())
        predebut = int((ppl.age.raw[ends] <= net.debut.raw[ends]).sum())
        self.ever |= set(ends.tolist())
        n_male = int(ppl.male.sum())
        adult = np.asarray((ppl.male & (ppl.age > 25)).uids)  # nowhere near entering the population
        cur = (net.participant.raw[adult].copy(), net.debut.raw[adult].copy(), adult)
        if self.prev is not None:
            self.flips += int((self.prev[0] != cur[0]).sum())
        self.prev = cur
        self.rows.append((sim.ti, len(ends), nonpart, predebut, len(np.unique(ends))/n_male, len(self.ever)/n_male))

chk = AtTransmission()
sim = ss.Sim(n_agents=2000, dur=10, dt=1/12, rand_seed=1, verbose=0, copy_inputs=False,
             networks=ss.MSMNet(participation=ss.bernoulli(p=P_PART)),
             diseases=ss.SIS(beta=0.05), interventions=chk)
sim.run()

print('ti  paired_endpoints  nonparticipating  pre-debut  frac_males_paired  frac_males_ever_paired')
for r in chk.rows[::12] + [chk.rows[-1]]:
    print('%3d %10d %15d %12d %14.3f %18.3f' % r)
print(f'participation flag of men older than 25 changed {chk.flips} times between consecutive steps')

last = chk.rows[-1]
worst_nonpart = max(r[2] for r in chk.rows)
bad = worst_nonpart > 0 or last[5] > 3*P_PART or chk.flips > 0
if bad:
    print(f'\nVIOLATION: with participation={P_PART}, up to {worst_nonpart} endpoints of MSMNet edges were '
          f'non-participating agents when the network was used for transmission; {last[4]:.0%} of men are paired '
          f'at the end and {last[5]:.0%} were paired at some point (expected at most about {P_PART:.0%}).')
    sys.exit(1)
print('OK: MSMNet honours participation')
