"""
C10 violation: a per-agent state declared as an integer ss.Arr (the form the FloatArr
docstring recommends: "If you really want an integer array, you can use the default Arr
class instead") cannot survive array regrowth. It initialises and runs fine while the
population does not grow, but the first birth that forces Arr.grow() to re-allocate with
spare capacity executes set_nan() with nan=None on an int array -> TypeError in the middle
of People.grow(), leaving the identifier space and the state arrays mutually inconsistent.
"""
import sys
import numpy as np
import starsim as ss

class VisitCounter(ss.Intervention):
    """ Counts how many steps each agent has been seen -- a per-agent integer state """
    def __init__(self, **kwargs):
        super().__init__(**kwargs)
        self.define_states(ss.Arr('n_visits', dtype=ss.dtypes.int, default=0))
    def step(self):
        self.n_visits[self.sim.people.auids] += 1

# 1. Without births (no regrowth) the very same module is accepted and works
sim0 = ss.Sim(n_agents=100, dur=5, verbose=0, demographics=ss.Deaths(death_rate=100), interventions=VisitCounter())
sim0.run()
assert sim0.interventions[0].n_visits.raw.dtype == np.int64 and sim0.interventions[0].n_visits.values.max() == 6

# 2. With births the first regrowth fails
sim = ss.Sim(n_agents=100, dur=5, verbose=0, rand_seed=1,
             demographics=[ss.Births(birth_rate=100), ss.Deaths(death_rate=100)], interventions=VisitCounter())
sim.init()
try:
    sim.run()
except Exception as E:
    p = sim.people
    st = sim.interventions[0].n_visits
    lens = {k: s.len_used for k, s in p.states.items()}
    print('C10 VIOLATION: integer per-agent state breaks on array regrowth')
    print(f'  - at sim.ti={sim.ti}, People.grow() raised {type(E).__name__}: {E}')
    print(f'  - identifier space now has n_uids={p.n_uids}, but len(people.auids)={len(p.auids)} '
          f'(initial 100; the {p.n_uids-100} new identifiers were allocated but never became active agents)')
    print(f'  - len_used per registered state after the failure: {lens}')
    print(f'  - n_visits.len_used={st.len_used}, len(raw)={len(st.raw)}; the {len(st.raw)-st.len_used} spare slots could not be filled because nan={st.nan!r} for an int array')
    if len(set(lens.values())) > 1:
        print(f'  - registered states no longer share one length: {sorted(set(lens.values()))}')
    sys.exit(1)
print('OK: run finished, final n_visits max =', sim.interventions[0].n_visits.values.max())
sys.exit(0)
