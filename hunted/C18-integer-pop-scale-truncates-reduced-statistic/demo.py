"""
C18: MultiSim.reduce()/mean()/median() silently truncate the reduced statistics to
integers when the members' results are integer arrays, which happens whenever the
user gives an integer pop_scale (e.g. pop_scale=10 or pop_scale=1).
"""
import sys
import numpy as np
import starsim as ss

def make(pop_scale):
    return ss.Sim(n_agents=500, dur=20, pop_scale=pop_scale, rand_seed=1, verbose=0,
                  diseases=dict(type='sis', beta=0.1), networks='random')

def check(pop_scale):
    msim = ss.MultiSim(make(pop_scale), n_runs=4, debug=True).run()
    bad = []
    for key in ['sis_new_infections', 'sis_n_infected', 'n_alive']:
        raw = np.array([np.array(s.results.flatten()[key].values, dtype=float) for s in msim.sims])  # members x time
        msim.reduce(use_mean=True)
        got_mean = np.array(msim.results[key].values, dtype=float)
        msim.reset()
        msim.reduce()  # median, 10%/90% quantiles
        got_med = np.array(msim.results[key].values, dtype=float)
        msim.reset()
        exp_mean, exp_med = raw.mean(axis=0), np.median(raw, axis=0)
        for name, got, exp in [('mean', got_mean, exp_mean), ('median', got_med, exp_med)]:
            err = np.abs(got - exp).max()
            if err > 1e-9:
                i = int(np.argmax(np.abs(got - exp)))
                bad.append(f'pop_scale={pop_scale!r} {key} {name}: reduced[{i}]={got[i]} but members {raw[:, i].tolist()} have {name} {exp[i]} (max abs error {err})')
    return bad

if __name__ == '__main__':
    bad_float = check(10.0) + check(1.0)  # control: float scale factor is exact
    bad_int = check(10) + check(1)        # same models, integer scale factor
    print('float pop_scale: ', 'exact' if not bad_float else bad_float)
    if bad_int:
        print('VIOLATION: reduced statistics are not the mean/median of the members when pop_scale is an int:')
        for b in bad_int:
            print('  ', b)
        sys.exit(1)
    print('ok: reduced statistics equal the members\' mean/median')
    sys.exit(0)
