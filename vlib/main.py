import sys, os, argparse, importlib, json, traceback
from vlib import core

def main():
    ap = argparse.ArgumentParser()
    ap.add_argument('pid', nargs='?')
    ap.add_argument('--tier', default=os.environ.get('VERIF_TIER', 'quick'))
    ap.add_argument('--replay')
    ap.add_argument('--translate-all', action='store_true')
    a = ap.parse_args()
    if a.translate_all:
        from translator import targets
        rc = 0
        for g in targets.all_names():
            try:
                text, _ = targets.generate(g, core.REPO)
                p = os.path.join(core.TH, 'Gen', g + '.v')
                os.makedirs(os.path.dirname(p), exist_ok=True)
                old = open(p).read() if os.path.exists(p) else None
                if old != text: open(p, 'w').write(text)
                print('generated', p)
            except Exception as E:
                print('TRANSLATOR FAILED', g, E); rc = 1
        sys.exit(rc)
    pid = a.pid.upper()
    tier = a.tier if a.tier in ('quick', 'thorough') else 'quick'
    seed = int(os.environ.get('VERIF_SEED', '0') or 0)
    ctx = core.Ctx(pid, tier, seed, a.replay)
    try:
        mod = importlib.import_module('checks.' + pid.lower())
        if a.replay:
            mod.replay(ctx, json.load(open(a.replay)))
        else:
            mod.run(ctx)
        ctx.run_finding_demos()
    except core.Broken as B:
        ctx.broken.append(B)
        ctx.log(f'{B.kind.upper()} BROKEN: {B.what}\n{B.detail}')
    except Exception as E:
        tb = traceback.format_exc()
        ctx.broke('harness', f'check crashed: {type(E).__name__}: {E}', tb[-3000:])
    sys.exit(ctx.finish())

if __name__ == '__main__':
    main()
