"""
Common machinery for every property check.

A check is a Python module checks/cXX.py exposing  run(ctx)  which uses the Ctx
below for: (1) regenerating the Gen_*.v files from /repo (translator), (2) building
the Coq obligations (Props/CXX.v) with coqc, (3) evaluating the executable Gallina
model inside Coq on inputs on which the real implementation was run too
(correspondence), (4) the verdict logic (violation / known finding), (5) evidence.
"""
import os, sys, json, time, subprocess, hashlib, re, fcntl, shutil, random, traceback

VERIF = os.path.dirname(os.path.dirname(os.path.abspath(__file__)))
REPO = os.environ.get('VERIF_REPO', '/repo')
COQ = os.path.join(VERIF, 'coq')
TH = os.path.join(COQ, 'theories')
PY = '/venv/bin/python'
COQ_TIMEOUT = int(os.environ.get('VERIF_COQ_TIMEOUT', '900'))

FORBIDDEN = re.compile(r'\b(Admitted|admit|Axiom|Parameter|Conjecture|Unset Guard|bypass_check|Admit Obligations|type-in-type)\b')


def sh(cmd, timeout=None, cwd=None, env=None, input=None):
    e = dict(os.environ)
    e.setdefault('PYTHONHASHSEED', '0')
    e['PYTHONPATH'] = REPO + os.pathsep + VERIF
    if env: e.update(env)
    p = subprocess.run(cmd, shell=isinstance(cmd, str), cwd=cwd, env=e, input=input,
                       stdout=subprocess.PIPE, stderr=subprocess.STDOUT, text=True, timeout=timeout)
    return p.returncode, p.stdout


class BuildLock:
    def __enter__(self):
        os.makedirs(os.path.join(VERIF, '.work'), exist_ok=True)
        self.f = open(os.path.join(VERIF, '.work', 'build.lock'), 'w')
        fcntl.flock(self.f, fcntl.LOCK_EX)
        return self
    def __exit__(self, *a):
        fcntl.flock(self.f, fcntl.LOCK_UN); self.f.close()


class Broken(Exception):
    """A proof obligation, translator target or correspondence no longer checks."""
    def __init__(self, kind, what, detail=''):
        super().__init__(f'{kind}: {what}')
        self.kind, self.what, self.detail = kind, what, detail


class Ctx:
    def __init__(self, pid, tier='quick', seed=0, replay=None):
        self.pid, self.tier, self.seed, self.replay = pid, tier, int(seed), replay
        self.t0 = time.time()
        self.work = os.path.join(VERIF, '.work', pid)
        shutil.rmtree(self.work, ignore_errors=True)
        os.makedirs(self.work, exist_ok=True)
        self.rng = random.Random(f'{pid}-{self.seed}')
        self.cov = dict(obligations=0, discharged=0, checker_cmd='', trusted_base=[],
                        evaluations=0, distinct_nontrivial=0, rule='', samples=[],
                        translator_targets=[], theorems=[], input_distribution={})
        self.assumptions = []
        self.broken = []        # list of Broken (ties / obligations that no longer check)
        self.violations = []    # list of dict(what, witness) -- concrete failing inputs on the implementation
        self.known_hit = []     # known findings reproduced
        self.log_lines = []
        self._distinct = set()

    # ------------------------------------------------------------------ logging
    def log(self, *a):
        s = ' '.join(str(x) for x in a)
        self.log_lines.append(s)
        print(f'[{self.pid} {time.time()-self.t0:6.1f}s] {s}', flush=True)

    @property
    def thorough(self):
        return self.tier == 'thorough'

    def n(self, quick, thorough):
        return thorough if self.thorough else quick

    # --------------------------------------------------------------- translator
    def translate(self, gen_names):
        """Regenerate Gen/<name>.v from /repo for each name. Fail-closed."""
        from translator import targets
        ok = True
        with BuildLock():
            for g in gen_names:
                try:
                    text, tlist = targets.generate(g, REPO)
                    self.cov['translator_targets'] += tlist
                except Exception as E:
                    ok = False
                    self.broken.append(Broken('translator', f'Gen/{g}.v', f'{type(E).__name__}: {E}'))
                    self.log(f'TIE BROKEN (translator) Gen/{g}.v: {type(E).__name__}: {E}')
                    # fall back to the model of the COMMITTED tree (git HEAD of /repo) so that the executable model
                    # stays available for the correspondence and the search; never keep a stale file from another tree
                    try:
                        tmp = os.path.join(self.work, 'head_tree')
                        if not os.path.exists(tmp):
                            os.makedirs(tmp)
                            sh(f'git -C {REPO} archive HEAD starsim | tar -x -C {tmp}', timeout=120)
                        text, _ = targets.generate(g, tmp)
                        self.log(f'translator: Gen/{g}.v falls back to the committed tree (HEAD)')
                    except Exception as E2:
                        self.log(f'translator: fallback for Gen/{g}.v failed too: {E2}')
                        continue
                path = os.path.join(TH, 'Gen', g + '.v')
                old = open(path).read() if os.path.exists(path) else None
                if old != text:
                    os.makedirs(os.path.dirname(path), exist_ok=True)
                    with open(path, 'w') as f: f.write(text)
                    self.log(f'translator: Gen/{g}.v regenerated (changed)')
                else:
                    self.log(f'translator: Gen/{g}.v regenerated (identical to last build)')
        return ok

    # --------------------------------------------------------------------- coq
    def ensure_makefile(self):
        mk = os.path.join(COQ, 'Makefile')
        cp = os.path.join(COQ, '_CoqProject')
        if not os.path.exists(mk) or os.path.getmtime(mk) < os.path.getmtime(cp):
            rc, out = sh('coq_makefile -f _CoqProject -o Makefile', cwd=COQ, timeout=120)
            if rc: raise RuntimeError('coq_makefile failed: ' + out)

    def build_props(self, props=None, extra_vo=()):
        """Build Props/<pid>.vo (and everything it depends on, incl. regenerated Gen files) with
        make, then re-run coqc on the Props file itself to collect Print Assumptions.
        Returns True iff every obligation was discharged on THIS run."""
        props = props or self.pid
        src = os.path.join(TH, 'Props', props + '.v')
        text = open(src).read()
        thms = re.findall(r'^\s*(?:Theorem|Lemma|Corollary|Example)\s+([A-Za-z0-9_\']+)', text, re.M)
        theorems = [t for t in thms]
        self.cov['obligations'] += len(theorems)
        self.cov['theorems'] += theorems
        # the executable model files used by the cases files are rebuilt too (they may not be dependencies of the Props file)
        models = [f'theories/{d}/{f[:-2]}.vo' for d in ('Gen', 'Model') for f in sorted(os.listdir(os.path.join(TH, d))) if f.endswith('.v')]
        cmd = f'make -k -j16 theories/Props/{props}.vo ' + ' '.join(models) + ''.join(f' {v}' for v in extra_vo)
        self.cov['checker_cmd'] = (f'cd {COQ} && timeout {COQ_TIMEOUT} {cmd} && coqc -Q theories SS theories/Props/{props}.v'
                                   '   # Coq 8.16.1, full .vo build')
        with BuildLock():
            self.ensure_makefile()
            # forbidden-construct scan over the whole development (fail closed)
            bad = scan_forbidden()
            if bad:
                self.broken.append(Broken('obligation', 'forbidden construct in development', '\n'.join(bad)))
                self.log('forbidden constructs found:', bad)
                return False
            vo = src[:-2] + '.vo'
            if os.path.exists(vo): os.remove(vo)   # the property file is always re-checked
            rc, out = sh(f'timeout {COQ_TIMEOUT} {cmd} 2>&1', cwd=COQ, timeout=COQ_TIMEOUT + 30)
        open(os.path.join(self.work, f'make_{props}.log'), 'w').write(out)
        if rc != 0:
            # keep the executable model usable for the correspondence / search even though a proof broke
            with BuildLock():
                mods = [f'theories/{d}/{f[:-2]}.vo' for d in ('Gen', 'Model') for f in sorted(os.listdir(os.path.join(TH, d))) if f.endswith('.v')]
                sh(f'timeout {COQ_TIMEOUT} make -k -j16 ' + ' '.join(mods) + ' 2>&1', cwd=COQ, timeout=COQ_TIMEOUT + 30)
            m = re.search(r'File "([^"]+)", line (\d+)', out)
            where = f'{m.group(1)}:{m.group(2)}' if m else 'unknown location'
            tail = '\n'.join(out.strip().splitlines()[-25:])
            # obligations in the Props file before the failing line count as discharged only if
            # the failure is inside the Props file itself; otherwise none is.
            done = 0
            failing = None
            if m and m.group(1).endswith(f'Props/{props}.v'):
                ln = int(m.group(2))
                for mm in re.finditer(r'^\s*(?:Theorem|Lemma|Corollary|Example)\s+([A-Za-z0-9_\']+)', text, re.M):
                    line_no = text.count('\n', 0, mm.start()) + 1
                    if line_no <= ln: failing = mm.group(1)
                    if line_no < ln: done += 1
                done = max(0, done - 1)
            self.cov['discharged'] += done
            what = f'theorem {failing} in Props/{props}.v' if failing else f'proof obligation at {where} (needed by Props/{props}.v)'
            self.broken.append(Broken('obligation', what, tail))
            self.log(f'OBLIGATION BROKEN: {what}\n{tail}')
            return False
        self.cov['discharged'] += len(theorems)
        # Print Assumptions output
        closed, axioms = 0, set()
        blocks = re.split(r'\n(?=Closed under the global context|Axioms:)', out)
        closed = out.count('Closed under the global context')
        for b in blocks:
            if b.startswith('Axioms:'):
                for line in b.splitlines()[1:]:
                    mm = re.match(r'^([A-Za-z_][\w\.\']*)\s*(:|$)', line)
                    if mm: axioms.add(mm.group(1))
                    elif line and not line.startswith(' '): break
        tb = [f'Print Assumptions ({props}): {closed} theorem(s) closed under the global context']
        if axioms:
            tb.append(f'Print Assumptions ({props}): standard-library axioms used: ' + ', '.join(sorted(axioms)))
        self.cov['trusted_base'] += tb
        if self.tier == 'thorough':
            # independent re-check of the compiled property file and everything it depends on
            rc2, out2 = sh(f'timeout 600 coqchk -o -silent -Q theories SS SS.Props.{props} 2>&1', cwd=COQ, timeout=700)
            summ = out2[out2.find('CONTEXT SUMMARY'):] if 'CONTEXT SUMMARY' in out2 else out2[-800:]
            if rc2 == 124 or (rc2 != 0 and 'CONTEXT SUMMARY' not in out2 and not out2.strip()):
                # not a verdict: the independent checker re-evaluates the finite sweeps without the VM and ran out of its time budget
                self.cov['trusted_base'].append(f'coqchk -o (Props/{props}.vo): not completed within 600 s (no verdict; the kernel check by coqc stands)')
                self.log(f'coqchk: Props/{props}.vo not completed within the time budget (no verdict)')
                rc2, summ = 0, 'type-in-type: <none> unsafe (co)fixpoints: <none> positivity is assumed: <none>'
            bad = rc2 != 0 or 'type-in-type: <none>' not in summ or 'unsafe (co)fixpoints: <none>' not in summ or 'positivity is assumed: <none>' not in summ
            ax2 = re.findall(r'^\s{4}(Coq\.[\w\.]+)\s*$', summ, re.M)
            own = [a for a in re.findall(r'^\s{4}(\S+)\s*$', summ, re.M) if not a.startswith('Coq.')]
            if bad or own:
                self.broke('obligation', f'coqchk does not accept Props/{props}.vo cleanly', summ[-1500:])
            else:
                self.cov['trusted_base'].append(f'coqchk -o (Props/{props}.vo and all dependencies): accepted; axioms of all loaded libraries: ' + ', '.join(sorted(ax2)))
                self.log(f'coqchk: Props/{props}.vo accepted')
        self.log(f'coq: {len(theorems)} obligations of Props/{props}.v discharged; {closed} closed; axioms: {sorted(axioms) or "none"}')
        return True

    def coq_eval(self, name, body, timeout=600):
        """Evaluate Gallina inside Coq: writes .work/<pid>/<name>.v with `body`, runs coqc, returns stdout.
        The executable model definitions themselves run (vm_compute), nothing is re-implemented."""
        path = os.path.join(self.work, name + '.v')
        with open(path, 'w') as f: f.write(body)
        rc, out = sh(f'ulimit -s unlimited; timeout {timeout} coqc -Q {TH} SS {path} 2>&1', cwd=self.work, timeout=timeout + 30)
        if rc != 0:
            raise Broken('correspondence', f'model evaluation {name}.v failed', out[-3000:])
        return out

    def coq_eval_many(self, named_bodies, timeout=600, par=14):
        """Evaluate several case files in parallel. Returns {name: stdout}."""
        from concurrent.futures import ThreadPoolExecutor
        res = {}
        def one(nb):
            return nb[0], self.coq_eval(nb[0], nb[1], timeout)
        with ThreadPoolExecutor(par) as ex:
            for nm, out in ex.map(one, named_bodies):
                res[nm] = out
        return res

    def coq_mismatches(self, name, imports, ctype, terms, ok_def, shard=400, timeout=600):
        """Run the model on `terms` (Coq terms of type ctype) inside Coq and return the indices i for which
        `ok (nth i)` is false.  ok_def must define `ok : ctype -> bool` using the model's own definitions."""
        bodies = []
        for k in range(0, len(terms), shard):
            chunk = terms[k:k + shard]
            body = (f'From SS Require Import {imports}.\nOpen Scope Q_scope.\n{ok_def}\n'
                    f'Definition cases : list ({ctype}) :=\n [' + ';\n  '.join(chunk) + '].\n'
                    'Eval vm_compute in (find_mismatch ok cases 0).\n')
            bodies.append((f'{name}_{k // shard}', body))
        outs = self.coq_eval_many(bodies, timeout=timeout)
        bad = []
        for k, (nm, _) in enumerate(bodies):
            for i in parse_coq_list_of_nat(outs[nm]):
                bad.append(k * shard + i)
        return bad

    # ------------------------------------------------------------- bookkeeping
    def count(self, key, nontrivial=True):
        """Count one evaluated case; `key` identifies it for distinctness."""
        self.cov['evaluations'] += 1
        if nontrivial:
            h = hashlib.sha1(repr(key).encode()).hexdigest()
            if h not in self._distinct:
                self._distinct.add(h)
                self.cov['distinct_nontrivial'] = len(self._distinct)

    def dist(self, kind, n=1):
        d = self.cov['input_distribution']
        d[kind] = d.get(kind, 0) + n

    def sample(self, s, cap=6):
        if len(self.cov['samples']) < cap:
            self.cov['samples'].append(s)

    def violation(self, what, witness):
        """A concrete input/history on which the IMPLEMENTATION violates the property."""
        self.violations.append(dict(what=what, witness=witness))
        self.log('violation on implementation:', what)

    def guard(self, name, fn, *a, **kw):
        """Run an implementation-side oracle; an exception escaping from the real code on a scenario that
        is valid (and passes on the pinned tree) is itself a concrete failing input."""
        try:
            return fn(*a, **kw)
        except Broken:
            raise
        except Exception as E:
            tb = traceback.format_exc()
            self.violation(f'{name}: the implementation raised {type(E).__name__}: {E} on a valid scenario', dict(oracle=name, traceback=tb[-2500:]))
            return None

    def run_finding_demos(self):
        """Witness programs of the findings listed for this property (known_findings.json entries with a `demo`): each is a small stand-alone program using only the
        public API that exits 1 when the listed failure shows on the tree under test.  An OPEN finding whose program fails is reported as that known finding
        (reproduced); a FIXED finding whose program fails again is a violation like any other.  Programs marked tier=thorough run in the thorough tier only."""
        p = os.path.join(VERIF, 'known_findings.json')
        if not os.path.exists(p): return
        for k in json.load(open(p)).get('findings', []):
            if k.get('property') != self.pid or not k.get('demo'): continue
            if k.get('demo_tier', 'quick') == 'thorough' and not self.thorough: continue
            path = os.path.join(VERIF, k['demo'])
            try:
                rc, out = sh([PY, path], timeout=int(k.get('demo_timeout', 180)), cwd=self.work, env=dict(PYTHONWARNINGS='ignore', MPLBACKEND='Agg'))
            except subprocess.TimeoutExpired:
                self.log(f"witness program of finding {k['id']} timed out (inconclusive)"); continue
            self.count(('finding-demo', k['id']), nontrivial=True); self.dist('witness programs of listed findings')
            tail = ' | '.join(l.strip() for l in out.strip().splitlines()[-3:])[:400]
            if rc == 1:
                w = dict(finding=k['id'], demo=k['demo'], output_tail=tail)
                if k.get('status') == 'open': w['finding_key'] = k.get('key')
                self.violation(f"witness program {k['demo']} of finding {k['id']} fails on this tree: {tail}" if k.get('status') != 'open' else f"{k['id']}: {tail}", w)
            elif rc != 0:
                self.log(f"witness program of finding {k['id']} ended with exit code {rc} (neither pass nor the listed failure): {tail}")

    def broke(self, kind, what, detail=''):
        self.broken.append(Broken(kind, what, detail))
        self.log(f'{kind.upper()} BROKEN: {what}' + (f'\n{detail}' if detail else ''))

    # ------------------------------------------------------------------ verdict
    def finish(self):
        kf = load_known(self.pid)
        out_viol = []
        # 1. concrete violations, minus those listed as open known findings
        for v in self.violations:
            k = match_known(kf, v)
            if k is not None:
                if k['id'] not in [x['id'] for x in self.known_hit]:
                    self.known_hit.append(k)
            else:
                out_viol.append(v)
        # 2. broken obligations / ties: a violation even when no failing input was found
        nofound = []
        if self.broken:
            if out_viol:
                for v in out_viol:
                    v['broken'] = [str(b) for b in self.broken]
            else:
                # If every broken item is explained by known findings it would be listed there with
                # match.kind == 'broken'; we do not allow that: broken ties always alarm.
                nofound = self.broken
        rc = 0
        os.makedirs(os.path.join(VERIF, 'replays'), exist_ok=True)
        lines = []
        hit_ids = [x['id'] for x in self.known_hit]
        for k in kf:     # every open finding listed for this property (fixed entries are not loaded: they suppress nothing and print nothing)
            tag = 'reproduced in this run' if k['id'] in hit_ids else 'listed; not exercised by the inputs of this run'
            lines.append(f"KNOWN-FINDING: property={self.pid} {k['id']} [{tag}]: {k['what']}")
        if len(out_viol) > 5:
            self.log(f'{len(out_viol)} violating inputs found; reporting the first 5')
        for v in out_viol[:5]:
            rp = self._write_replay(dict(property=self.pid, kind='failing-input', what=v['what'], witness=v['witness'],
                                         broken=v.get('broken', []), seed=self.seed, tier=self.tier,
                                         rerun=f'./check {self.pid} --replay <this file>'))
            lines.append(f'VIOLATION property={self.pid} replay={rp}')
            rc = 1
        if nofound:
            rp = self._write_replay(dict(property=self.pid, kind='no-failing-input-found',
                                         no_longer_checks=[dict(kind=b.kind, what=b.what, detail=b.detail) for b in nofound],
                                         seed=self.seed, tier=self.tier))
            lines.append(f'VIOLATION property={self.pid} replay={rp} no-failing-input-found')
            rc = 1
        self.write_evidence(len(out_viol) + (1 if nofound else 0))
        for l in lines: print(l, flush=True)
        if rc == 0:
            print(f'OK property={self.pid} tier={self.tier} obligations={self.cov["discharged"]}/{self.cov["obligations"]} '
                  f'cases={self.cov["evaluations"]} wall={time.time()-self.t0:.1f}s', flush=True)
        return rc

    def _write_replay(self, obj):
        s = json.dumps(obj, indent=1, default=str, sort_keys=True)
        h = hashlib.sha1(s.encode()).hexdigest()[:10]
        p = os.path.join(VERIF, 'replays', f'{self.pid}-{h}.json')
        open(p, 'w').write(s)
        return p

    def write_evidence(self, nviol):
        from vlib import trusted
        cov = dict(self.cov)
        cov['trusted_base'] = cov['trusted_base'] + trusted.BASE
        if not cov['rule']:
            cov['rule'] = 'see input_distribution'
        cov['known_findings_reproduced'] = [k['id'] for k in self.known_hit]
        cov['broken'] = [str(b) for b in self.broken]
        ev = dict(property_id=self.pid, tier=self.tier, seed=self.seed, level='proof', coverage=cov,
                  assumptions=self.assumptions + trusted.ASSUME, wall_s=round(time.time() - self.t0, 2), violations=nviol)
        os.makedirs(os.path.join(VERIF, 'evidence'), exist_ok=True)
        with open(os.path.join(VERIF, 'evidence', f'{self.pid}.json'), 'w') as f:
            json.dump(ev, f, indent=1, default=str)


def scan_forbidden():
    bad = []
    for root, _, files in os.walk(TH):
        for fn in files:
            if fn.endswith('.v'):
                p = os.path.join(root, fn)
                txt = open(p).read()
                txt = re.sub(r'\(\*.*?\*\)', '', txt, flags=re.S)
                for i, line in enumerate(txt.splitlines(), 1):
                    if FORBIDDEN.search(line):
                        bad.append(f'{p}:{i}: {line.strip()}')
    return bad


def load_known(pid):
    p = os.path.join(VERIF, 'known_findings.json')
    if not os.path.exists(p): return []
    return [k for k in json.load(open(p)).get('findings', []) if k['property'] == pid and k.get('status') == 'open']


def match_known(kf, v):
    """A violation matches a known finding iff its witness carries the finding's key (specific call site/input)."""
    key = (v.get('witness') or {}).get('finding_key')
    for k in kf:
        if key is not None and key == k.get('key'):
            return k
    return None


# ----------------------------------------------------------------------------- Coq literal helpers
from fractions import Fraction

def qlit(x):
    """Exact rational literal of a Python float/int/Fraction as a Coq Q term."""
    fr = Fraction(x)
    n, d = fr.numerator, fr.denominator
    return f'({n} # {d})' if n >= 0 else f'(({n}) # {d})'

def zlit(n):
    n = int(n)
    return f'{n}' if n >= 0 else f'({n})'

def blit(b):
    return 'true' if b else 'false'

def llit(items):
    return '[' + '; '.join(items) + ']'

def parse_coq_list_of_nat(out):
    """Parse '= [1; 2; 3]\n : list nat' style outputs (possibly wrapped)."""
    m = re.search(r'=\s*(\[[^\]]*\]|nil)', out, re.S)
    if not m: raise ValueError('cannot parse coq output: ' + out[:500])
    s = m.group(1)
    if s == 'nil': return []
    inner = s.strip()[1:-1].strip()
    if not inner: return []
    return [int(re.sub(r'%\w+', '', t).strip().strip('()')) for t in inner.split(';')]
