"""Trusted base reproduced in every evidence file (DESIGN.md section 3.3)."""
BASE = [
 'Coq 8.16.1 kernel via coqc (full .vo build through coq_makefile/make; no -vos/-vok); vm_compute for model evaluation in cases files and finite witnesses; no native_compute',
 'No Axiom/Parameter/Conjecture/Admitted/admit, no guard/positivity/universe switches anywhere in /verif/coq (scanned on every run; a hit fails the check)',
 'Translator /verif/translator/py2coq.py + targets.py (Python ast -> Gallina; Python float literals become the exact rational of their decimal text; shape pins compare ASTs)',
 'Correspondence harness: generators, in-Coq comparison (Qclose tolerances), Python drivers of the real starsim objects under /verif/checks and /verif/harness',
 'No extraction is used: the executable model runs inside Coq (vm_compute) on generated cases files',
 'Modelled, not verified: CPython 3.12, NumPy 2.5.3, SciPy 1.18.1, pandas 3.0.6, numba 0.67.0, sciris 3.3.0 and every library call listed in the property section of DESIGN.md',
]
ASSUME = [
 'binary64/binary32 rounding of the implementation is compared to exact rational model values within the stated tolerance',
]
