(* C07 -- Every accepted time specification yields a consistent timeline.  Statements only. *)
From SS Require Import Model.Prelude Model.L3_Units Gen.Gen_Time Model.L3_Timeline Proofs.P_Timeline Proofs.P_Calendar.
From Coq Require Import List QArith.

(* numeric / unitless grids over exact rationals: start exact, uniform spacing dt, strictly increasing,
   one entry per step, ends at the last grid point not after stop *)
Theorem C07_grid_starts_at_start : forall s dt n, (0 <= n)%Z -> nth 0 (grid s dt n) 0 == s.
Proof. exact grid_first. Qed.
Print Assumptions C07_grid_starts_at_start.
Theorem C07_grid_uniform_spacing : forall s dt n i, (S i < Z.to_nat (n + 1))%nat ->
  nth (S i) (grid s dt n) 0 - nth i (grid s dt n) 0 == dt.
Proof. exact grid_uniform. Qed.
Print Assumptions C07_grid_uniform_spacing.
Theorem C07_grid_strictly_increasing : forall s dt n i, 0 < dt -> (S i < Z.to_nat (n + 1))%nat ->
  nth i (grid s dt n) 0 < nth (S i) (grid s dt n) 0.
Proof. exact grid_increasing. Qed.
Print Assumptions C07_grid_strictly_increasing.
Theorem C07_grid_ends_at_last_point_not_after_stop : forall start stop dt, 0 < dt -> start <= stop ->
  let n := n_steps start stop dt in
  (0 <= n)%Z /\ length (incl_range start stop dt) = Z.to_nat (n + 1) /\
  start + inject_Z n * dt <= stop /\ stop < start + inject_Z n * dt + dt.
Proof. exact incl_range_end. Qed.
Print Assumptions C07_grid_ends_at_last_point_not_after_stop.

(* calendar arithmetic, for EVERY day number (one 400-year era swept by the VM, lifted to all integers by era periodicity):
   civil <-> day-count round trip, month in 1..12, day within the length of its month (leap rule included) *)
Theorem C07_civil_roundtrip_every_day : forall z,
  let '(y, m, d) := civil_from_days z in days_from_civil y m d = z /\ (1 <= m <= 12)%Z /\ (1 <= d <= month_len y m)%Z.
Proof. exact civil_roundtrip_all. Qed.
Print Assumptions C07_civil_roundtrip_every_day.

(* the year representation (sc.datetoyear) is strictly increasing from every day to the next *)
Theorem C07_year_representation_increasing_every_day : forall z, date_to_year (z + ord_epoch) < date_to_year (z + 1 + ord_epoch).
Proof. exact date_to_year_increasing_all. Qed.
Print Assumptions C07_year_representation_increasing_every_day.
Example C07_calendar_nonvacuous : civil_from_days 19782 = (2024, 2, 29)%Z /\ month_len 2024 2 = 29%Z /\ month_len 1900 2 = 28%Z /\ civil_from_days (-719468) = (0, 3, 1)%Z /\ civil_from_days 47541 = (2100, 3, 1)%Z.
Proof. repeat split; reflexivity. Qed.

(* calendar grids: exact spacing of `step` whole days, start exact, never past stop *)
Theorem C07_calendar_grid_spacing : forall u start stop dt i d1 d2, (0 < day_step u dt)%Z ->
  nth_error (tl_dates (calendar_timeline u start stop dt)) i = Some d1 ->
  nth_error (tl_dates (calendar_timeline u start stop dt)) (S i) = Some d2 ->
  (d2 - d1 = day_step u dt)%Z /\ (d2 <= stop)%Z.
Proof. exact calendar_grid_spacing. Qed.
Print Assumptions C07_calendar_grid_spacing.
Theorem C07_calendar_grid_start : forall u start stop dt d, (0 < day_step u dt)%Z ->
  nth_error (tl_dates (calendar_timeline u start stop dt)) 0 = Some d -> d = start.
Proof. exact calendar_grid_start. Qed.
Print Assumptions C07_calendar_grid_start.

(* date and elapsed-time representations agree when a step is a whole number of days (partial: forced hypothesis) ... *)
Theorem C07_whole_day_steps_agree_partial : forall u k, has_units u = true -> (0 < k)%Z -> (u = UDay \/ u = UWeek) ->
  inject_Z (day_step u (inject_Z k)) == inject_Z k * unit_q u.
Proof. exact day_step_whole. Qed.
Print Assumptions C07_whole_day_steps_agree_partial.
(* ... and drift apart otherwise: dt = 1.5 weeks steps the dates by 10 days while elapsed time advances 10.5 days *)
Theorem C07_fractional_weeks_refuted :
  let tl := calendar_timeline UWeek (ord_of 2021 1 1) (ord_of 2021 3 1) (3 # 2) in
  (nth 3 (tl_dates tl) 0 - nth 0 (tl_dates tl) 0 = 30)%Z /\ nth 3 (tl_tvec tl) 0 * unit_q UWeek == (63 # 2).
Proof. exact fractional_weeks_drift_refuted. Qed.
Print Assumptions C07_fractional_weeks_refuted.

(* a module on the sim's own timeline is placed on the sim's own elapsed-time vector *)
Theorem C07_same_timeline_same_axis : forall u tv s, Forall2 Qeq (abstvec_numeric u u tv s s) (map round6 tv).
Proof. exact abstvec_same_timeline. Qed.
Print Assumptions C07_same_timeline_same_axis.

Example C07_nonvacuous :
  tl_npts (numeric_timeline UYear 2000 (20003 # 10) (1 # 10)) = 4%nat /\
  tl_npts (calendar_timeline UDay (ord_of 2020 2 27) (ord_of 2020 3 5) 2) = 4%nat /\
  civil_of_ord (nth 1 (tl_dates (calendar_timeline UDay (ord_of 2020 2 27) (ord_of 2020 3 5) 2)) 0%Z) = (2020, 2, 29)%Z.
Proof. vm_compute. repeat split; reflexivity. Qed.

(* clauses that the faithful model REFUTES (each is a listed finding whose witness program replays the same input on the implementation) *)
Theorem C07_year_grid_from_mid_year_date_refuted :
  let tl := year_calendar_timeline (ord_of 2004 12 31) (ord_of 2006 12 31) 1 in tl_npts tl = 2%nat /\ last (tl_dates tl) 0%Z <> ord_of 2006 12 31.
Proof. exact year_grid_mid_year_refuted. Qed.
Theorem C07_date_start_plus_one_year_refuted : tl_npts (year_calendar_timeline (ord_of 2000 1 1) (ord_of 2000 1 1 + 365) 1) = 1%nat.
Proof. exact date_start_plus_year_refuted. Qed.
Theorem C07_module_start_offset_not_converted_refuted : abstvec_numeric UWeek UDay [0; 1; 2]%Q 2 0 = [2.000000; 9.000000; 16.000000]%Q.
Proof. exact start_offset_not_converted_refuted. Qed.
Theorem C07_month_sim_module_axis_refuted :
  abstvec_days [ord_of 2000 1 1; ord_of 2000 2 1; ord_of 2000 3 1] (ord_of 2000 1 1) UMonth <> tvec_of 3 1.
Proof. exact month_sim_module_axis_refuted. Qed.
Print Assumptions C07_year_grid_from_mid_year_date_refuted. Print Assumptions C07_date_start_plus_one_year_refuted.
Print Assumptions C07_module_start_offset_not_converted_refuted. Print Assumptions C07_month_sim_module_axis_refuted.
