(* C20 -- Interventions reach only eligible agents, on schedule, within capacity.  Statements only.
   The window adjustment (adj_factor_gen), end point (end_point_gen), capacity test (use_all_gen) and vaccine factor (vx_factor_gen)
   are REGENERATED from starsim/interventions.py and diseases/sir.py (Gen/Gen_Intv.v); the step functions of Model/L5_Intv.v follow the
   shape-pinned bodies of the delivery classes. *)
From SS Require Import Model.Prelude Gen.Gen_Arr Model.L2_People Gen.Gen_Intv Gen.Gen_Disease Model.L5_Transmit Model.L5_CompartBase Model.L5_Compart
  Model.L5_Intv Proofs.P_Transmit Proofs.P_Intv Gen.Gen_Demog Proofs.P_DemogR.
From Coq Require Import QArith List ZArith String Reals.
Local Open Scope list_scope.
Local Open Scope Z_scope.

(* ---- 1. schedule: routine windows.  Every routine time point lies in [start_year, end_year + 1) -- and in [start_year, end_year]
        when dt >= 1 --; no grid point of [start_year, end_year] is skipped; for dt = 1/k the final year is covered to its last step *)
Theorem C20_routine_window_inside : forall y0 dt is_ ie i, (0 < dt)%Q -> In i (routine_timepoints is_ ie dt) ->
  (year_at y0 dt is_ <= year_at y0 dt i)%Q /\ (year_at y0 dt i < year_at y0 dt ie + 1)%Q /\ ((1 <= dt)%Q -> (year_at y0 dt i <= year_at y0 dt ie)%Q).
Proof. exact routine_window_sound. Qed.
Print Assumptions C20_routine_window_inside.
Theorem C20_routine_window_complete : forall dt is_ ie i, (0 < dt)%Q -> is_ <= i <= ie -> In i (routine_timepoints is_ ie dt).
Proof. exact routine_window_complete. Qed.
Print Assumptions C20_routine_window_complete.
Theorem C20_routine_final_year : forall k is_ ie i, 2 <= Z.pos k -> is_ <= i <= ie + Z.pos k - 1 <-> In i (routine_timepoints is_ ie (1 # k)).
Proof. exact routine_final_year_covered. Qed.
Print Assumptions C20_routine_final_year.
(* campaign: each requested year is served at the grid point nearest to it *)
Theorem C20_campaign_nearest : forall grid y, grid <> [] ->
  (nearest_idx grid y < List.length grid)%nat /\
  exists g, nth_error grid (nearest_idx grid y) = Some g /\ forall j h, nth_error grid j = Some h -> (Qabs (g - y) <= Qabs (h - y))%Q.
Proof. exact nearest_is_nearest. Qed.
Print Assumptions C20_campaign_nearest.
(* the gate: nothing is delivered outside the time points; inside, the coverage used is the entry of the step; no index error when the coverage
   vector is as long as the window *)
Theorem C20_gate_closed_outside_window : forall tps probs ti, step_gate tps probs ti = Closed <-> delivers tps ti = false.
Proof. exact gate_closed_iff. Qed.
Theorem C20_gate_coverage_of_the_step : forall tps probs ti p, step_gate tps probs ti = Open p -> exists i, nth_error tps i = Some ti /\ nth_error probs i = Some p.
Proof. exact gate_open_prob. Qed.
Theorem C20_gate_never_out_of_range : forall tps probs ti, List.length probs = List.length tps -> step_gate tps probs ti <> IndexErr.
Proof. exact gate_total. Qed.
Print Assumptions C20_gate_closed_outside_window. Print Assumptions C20_gate_coverage_of_the_step. Print Assumptions C20_gate_never_out_of_range.

(* ---- 2. acceptance: a Bernoulli filter over the eligible agents: recipients are eligible agents whose draw is below the coverage;
        coverage 0 reaches nobody, coverage 1 everybody, and raising the coverage only adds recipients *)
Theorem C20_accept_spec : forall d p us u, In u (accept d p us) <-> In u us /\ (d u < p)%Q.
Proof. exact accept_in. Qed.
Theorem C20_accept_zero : forall d p us, (p <= 0)%Q -> (forall u, 0 <= d u)%Q -> accept d p us = [].
Proof. exact accept_zero. Qed.
Theorem C20_accept_all : forall d p us, (1 <= p)%Q -> (forall u, d u < 1)%Q -> accept d p us = us.
Proof. exact accept_all. Qed.
Theorem C20_accept_monotone : forall d p p' us u, (p <= p')%Q -> In u (accept d p us) -> In u (accept d p' us).
Proof. exact accept_mono. Qed.
Print Assumptions C20_accept_spec. Print Assumptions C20_accept_zero. Print Assumptions C20_accept_all. Print Assumptions C20_accept_monotone.
(* annual coverage converted to the step (over R): compounding the per-step probability over a year gives the annual one *)
Theorem C20_annual_coverage_converted : forall p dt, (0 <= p < 1)%R -> (0 < dt)%R -> (1 - Rpower (1 - routine_prob_gen p dt) (/ dt) = p)%R.
Proof. exact routine_compounds. Qed.
Print Assumptions C20_annual_coverage_converted.

(* ---- 3. vaccination: recipients are eligible, inside the window, accepted at the step's coverage; effects are confined to them *)
Theorem C20_vx_nothing_outside_window : forall tps probs ti el d eff s, delivers tps ti = false -> vx_step tps probs ti el d eff s = Some ([], s).
Proof. exact vx_outside_window. Qed.
Theorem C20_vx_recipients : forall tps probs ti el d eff s acc s', vx_step tps probs ti el d eff s = Some (acc, s') ->
  forall u, In u acc -> In u el /\ In ti tps /\ exists i p, nth_error tps i = Some ti /\ nth_error probs i = Some p /\ (d u < p)%Q.
Proof. exact vx_recipients. Qed.
Theorem C20_vx_effects_confined : forall tps probs ti el d eff s acc s', vx_step tps probs ti el d eff s = Some (acc, s') -> forall u,
  get_raw (rel_sus s') u = (if mem u acc then scale (vx_factor_gen eff) (get_raw (rel_sus s) u) else get_raw (rel_sus s) u) /\
  nth_error (vaccinated s') u = option_map (fun x => if mem u acc then true else x) (nth_error (vaccinated s) u) /\
  nth_error (doses s') u = option_map (fun x => if mem u acc then x + 1 else x) (nth_error (doses s) u).
Proof. exact vx_effect. Qed.
Theorem C20_full_vaccine_makes_uninfectable : forall tps probs ti el d eff s acc s' inf sus rel_trans au nets rands res t src i,
  (eff == 1)%Q -> vx_step tps probs ti el d eff s = Some (acc, s') -> In t acc ->
  NoDup au -> (forall x, In x au -> (x < List.length rel_trans)%nat) -> (forall x, In x au -> (x < List.length (rel_sus s'))%nat) -> rands_nonneg rands ->
  infect inf sus rel_trans (rel_sus s') au nets rands = Some res -> ~ In (t, src, i) res.
Proof. exact vx_blocks_infection. Qed.
Print Assumptions C20_vx_nothing_outside_window. Print Assumptions C20_vx_recipients. Print Assumptions C20_vx_effects_confined.
Print Assumptions C20_full_vaccine_makes_uninfectable.

(* ---- 4. capacity-limited treatment, for every history of accepted / still-eligible sets *)
Theorem C20_capacity_never_exceeded : forall c steps, 0 <= c -> forall q,
  Forall (fun tr => Z.of_nat (List.length tr) <= c) (fst (treat_run (Some c) q steps)).
Proof. exact treat_run_capacity. Qed.
Theorem C20_treated_are_eligible_and_were_accepted : forall cap steps q k tr u, nth_error (fst (treat_run cap q steps)) k = Some tr -> In u tr ->
  (exists a st, nth_error steps k = Some (a, st) /\ In u st) /\
  (In u q \/ exists j a st, (j <= k)%nat /\ nth_error steps j = Some (a, st) /\ In u a).
Proof. exact treat_run_sources. Qed.
Theorem C20_treated_once_per_step_and_leave_queue : forall cap q a st,
  NoDup (fst (treat_step cap q a st)) /\ forall u, In u (fst (treat_step cap q a st)) -> ~ In u (snd (treat_step cap q a st)).
Proof. intros cap q a st. split; [exact (treat_nodup cap q a st)|exact (treated_leave_queue cap q a st)]. Qed.
Theorem C20_queue_is_fifo : forall cap q, match cap with Some c => 0 <= c | None => True end -> exists r, q = candidates cap q ++ r.
Proof. exact candidates_prefix. Qed.
Theorem C20_untreated_keep_their_place : forall cap q a st u, In u (snd (treat_step cap q a st)) <-> In u (q ++ a) /\ ~ In u (fst (treat_step cap q a st)).
Proof. exact queue_after_in. Qed.
Print Assumptions C20_capacity_never_exceeded. Print Assumptions C20_treated_are_eligible_and_were_accepted.
Print Assumptions C20_treated_once_per_step_and_leave_queue. Print Assumptions C20_queue_is_fifo. Print Assumptions C20_untreated_keep_their_place.

(* ---- 5. treatment product: effects confined to recipients whose efficacy draw succeeded, per the product table *)
Theorem C20_tx_nonrecipients_untouched : forall rows oks st, tx_agent false rows oks st = st.
Proof. exact tx_nonrecipient. Qed.
Theorem C20_tx_failed_treatment_changes_nothing : forall rows oks st b, (forall o, In o oks -> o = false) -> tx_agent b rows oks st = st.
Proof. exact tx_all_fail. Qed.
Theorem C20_tx_row_effect : forall a b st ok, tx_agent true [(a, b)] [ok] st = if andb (getv st a) ok then setv (setv st a false) b true else st.
Proof. exact tx_single_row. Qed.
Theorem C20_tx_other_flags_untouched : forall rows oks st rc k, (forall r, In r rows -> fst r <> k /\ snd r <> k) -> getv (tx_agent rc rows oks st) k = getv st k.
Proof. exact tx_other_flags. Qed.
Print Assumptions C20_tx_nonrecipients_untouched. Print Assumptions C20_tx_failed_treatment_changes_nothing.
Print Assumptions C20_tx_row_effect. Print Assumptions C20_tx_other_flags_untouched.

(* ---- 6. diagnostic product: the result of an agent is the minimum (best-ranked) category drawn over the states it is in, the default otherwise;
        the returned dictionary partitions the tested agents *)
Theorem C20_dx_result_in_hierarchy : forall default rows, (dx_agent default rows <= default)%nat.
Proof. exact dx_result_in_hierarchy. Qed.
Theorem C20_dx_untested_state_default : forall default rows, (forall r, In r rows -> fst r = false) -> dx_agent default rows = default.
Proof. exact dx_no_state_default. Qed.
Theorem C20_dx_result_is_minimum : forall default rows,
  (forall r, In r rows -> fst r = true -> (dx_agent default rows <= snd r)%nat) /\
  (dx_agent default rows = default \/ exists r, In r rows /\ fst r = true /\ dx_agent default rows = snd r).
Proof. intros default rows. split; [intros r; apply dx_lower_bound|apply dx_attained]. Qed.
Theorem C20_dx_dictionary_partitions : forall res u k, In u (dx_group k res) <-> In (u, k) res.
Proof. intros res u k. split; [apply dx_groups_sound|apply dx_groups_partition]. Qed.
Print Assumptions C20_dx_result_in_hierarchy. Print Assumptions C20_dx_untested_state_default. Print Assumptions C20_dx_result_is_minimum. Print Assumptions C20_dx_dictionary_partitions.

(* ---- non-vacuity: concrete windows, a queue history with capacity 2, a full vaccine *)
Example C20_window_dt1 : routine_timepoints 2 4 1 = [2; 3; 4].
Proof. vm_compute. reflexivity. Qed.
Example C20_window_dt_half : routine_timepoints 4 8 (1 # 2) = [4; 5; 6; 7; 8; 9].
Proof. vm_compute. reflexivity. Qed.
Example C20_window_dt2 : routine_timepoints 1 2 2 = [1; 2].
Proof. vm_compute. reflexivity. Qed.
Example C20_campaign : campaign_timepoints [2000; 2000 + (1 # 2); 2001; 2001 + (1 # 2); 2002]%Q [2001 + (2 # 5); 2000]%Q = [3; 0].
Proof. vm_compute. reflexivity. Qed.
Example C20_queue_history : treat_run (Some 2) [] [([5; 3; 9]%nat, [3; 5; 9]%nat); ([7]%nat, [9; 7]%nat); ([]%nat, [9; 7]%nat)]
  = ([[3; 5]%nat; [7; 9]%nat; []], []).
Proof. vm_compute. reflexivity. Qed.
Example C20_blocked_head_of_queue : treat_run (Some 1) [] [([5; 3]%nat, [3]%nat); ([]%nat, [3]%nat)] = ([[]; []], [5; 3]%nat).
Proof. vm_compute. reflexivity. Qed.
Example C20_full_vaccine : option_map (fun r => rel_sus (snd r))
  (vx_step [3] [1%Q] 3 [0; 2]%nat (fun _ => 1 # 2) 1 (mkVP [false; false; false] [0; 0; 0] [V 1; V 1; V (3 # 4)])) = Some [V 0; V 1; V (0 # 4)].
Proof. vm_compute. reflexivity. Qed.
Example C20_dx_example : dx_agent 2 [(true, 1); (false, 0); (true, 2)]%nat = 1%nat /\ dx_agent 2 [(false, 0)]%nat = 2%nat.
Proof. vm_compute. split; reflexivity. Qed.
