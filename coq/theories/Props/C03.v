(* C03 -- An agent's draw depends only on seed, distribution, time (jump index), call ordinal and slot.
   Statements only; proofs are `exact` of lemmas in Proofs/P_Dist.v about the L1 Dist machine whose
   formulas (stride, targets, guard, size-from-slots) are REGENERATED from starsim/distributions.py. *)
From SS Require Import Model.Prelude Model.L0_Pcg64 Gen.Gen_Dist Model.L1_Dist Proofs.P_Dist.
From Coq Require Import ZArith List.
Open Scope Z_scope.

(* k-th value is the same whatever the number of values drawn: drawing a full prefix is stable *)
Theorem C03_prefix_stable : forall n m g k dflt, (k < n)%nat -> (k < m)%nat ->
  nth k (fst (rand_f32 n g)) dflt = nth k (fst (rand_f32 m g)) dflt.
Proof. exact rand_f32_prefix. Qed.
Print Assumptions C03_prefix_stable.

(* one call: every requested agent gets the stream value at ITS slot, from the call's start state *)
Theorem C03_rvs_pointwise : forall d sl reset d' vals, all_nonneg sl ->
  do_rvs d (Some sl) 0 reset = Ok (d', vals) -> vals = map (unif (d_cur d)) sl.
Proof. exact do_rvs_pointwise. Qed.
Print Assumptions C03_rvs_pointwise.

(* hence: independent of which other agents are sampled, their order, repeats, population size *)
Theorem C03_agent_value_independent_of_others : forall d sl1 sl2 r1 r2 d1 d2 v1 v2 i j,
  all_nonneg sl1 -> all_nonneg sl2 ->
  do_rvs d (Some sl1) 0 r1 = Ok (d1, v1) -> do_rvs d (Some sl2) 0 r2 = Ok (d2, v2) ->
  (i < length sl1)%nat -> (j < length sl2)%nat -> nth i sl1 0 = nth j sl2 0 -> nth i v1 0 = nth j v2 0.
Proof. exact rvs_agent_value. Qed.
Print Assumptions C03_agent_value_independent_of_others.

(* integer-size (scalar) calls read the same stream: value k is the agent value for slot k *)
Theorem C03_scalar_path_same_stream : forall d n reset d' vals, 0 < n ->
  do_rvs d None n reset = Ok (d', vals) -> vals = map (unif (d_cur d)) (map Z.of_nat (seq 0 (Z.to_nat n))).
Proof. exact do_rvs_n. Qed.
Print Assumptions C03_scalar_path_same_stream.

(* whole histories: the outputs of ANY history of non-forced, non-resetting operations on an
   auto-jumping distribution equal those of the abstract machine in which a draw is
   map (unif (state_of_ind hist0 ind)) slots -- a function of initial state, jump index and slot only;
   how much was drawn earlier, and for whom, is irrelevant. *)
Theorem C03_history_refinement : forall ops d, good d -> forallb plain ops = true -> Forall op_slots_ok ops ->
  snd (drun d ops) = snd (spec_run (d_hist0 d) (d_ind d) ops) /\
  d_ind (fst (drun d ops)) = fst (spec_run (d_hist0 d) (d_ind d) ops).
Proof. exact drun_refines. Qed.
Print Assumptions C03_history_refinement.

Theorem C03_fresh_dist_is_good : forall g0 s, good (dist_init g0 s true).
Proof. intros g0 s. split; [apply init_clean|]. repeat split. Qed.
Print Assumptions C03_fresh_dist_is_good.

(* pairwise draws: a function of the two per-agent values only (hence of the two slots) *)
Theorem C03_pair_draw_slots_only : forall a b a' b', a = a' -> b = b' -> combine32 a b = combine32 a' b'.
Proof. intros; subst; reflexivity. Qed.
Print Assumptions C03_pair_draw_slots_only.

(* non-vacuity: a concrete history with two steps, nested uid sets and a repeated slot *)
Example C03_nonvacuous :
  let g0 := mkPcg 33261208707367790463622745601869196757 268209174141567072605526753992732310247 false 0 in
  let ops := [OJumpDt 1 false; ORvs [3; 0; 3; 7] false; ORvs [7] false; OJumpDt 2 false; ORvs [0; 1] false] in
  forallb plain ops = true /\
  snd (drun (dist_init g0 true true) ops) = snd (spec_run g0 0 ops) /\
  exists a b c x y z, snd (drun (dist_init g0 true true) ops) = [Some []; Some [a; b; a; c]; Some [x]; Some []; Some [y; z]]
    /\ a <> b /\ x <> c.
Proof. vm_compute. split; [reflexivity|]. split; [reflexivity|]. do 6 eexists. split; [reflexivity|]. split; discriminate. Qed.
