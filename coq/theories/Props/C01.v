(* C01 -- Same configuration and seed give bit-identical simulations.  Statements only.
   Abstract machine: components stepping over a shared state, each drawing from its own named distributions whose seed is the GENERATED
   seed_gen (offset of the trace + base seed: pinned Dist.process_seed, sha-based str2int); the process-wide NumPy generator is an explicit
   extra state that the environment may perturb before every step.  The call sites that draw from it are the GENERATED global_rng_sites_gen. *)
From SS Require Import Model.Prelude Gen.Gen_Dist Gen.Gen_Sim Model.L6_Sim Proofs.P_Sim.
From Coq Require Import String List ZArith.
Open Scope string_scope.

(* if no component reads the process-wide generator, the run (private states and shared state after any number of steps) does not depend on
   the generator's initial state nor on anything done to it between steps -- other sims created or run in between, user draws, a reused interpreter *)
Theorem C01_run_independent_of_global_generator : forall (shared mstate draws gstate : Type) (stream : Z -> nat -> nat -> draws) (offset : string -> Z) base cs,
  Forall (ignores_global shared mstate draws gstate) cs -> forall n ti ms s g g' perturb perturb',
  fst (run shared mstate draws gstate stream offset base perturb cs n ti ms s g) = fst (run shared mstate draws gstate stream offset base perturb' cs n ti ms s g').
Proof. exact run_ignores_global. Qed.
Print Assumptions C01_run_independent_of_global_generator.
(* changing the seed changes the seed of every distribution *)
Theorem C01_seed_changes_every_distribution_seed : forall o b b', b <> b' -> seed_gen o b <> seed_gen o b'.
Proof. exact seed_changes_with_base. Qed.
Print Assumptions C01_seed_changes_every_distribution_seed.
(* premises of the abstract machine that are read off the source: no mutable container is bound in a class body (state shared by every instance,
   hence by every sim of a process), and the only places where the iteration order of a set can reach a value are a display method and a set of
   integers (whose order does not depend on PYTHONHASHSEED) *)
Theorem C01_no_state_shared_between_instances : class_level_mutables_gen = [].
Proof. reflexivity. Qed.
Theorem C01_set_order_reaches_no_result : hash_order_sites_gen = ["loop.py:__repr__:list({len(arr) for arr in self.abs_tvecs.values()})"; "products.py:administer:list(set(tx_successful))"].
Proof. reflexivity. Qed.
(* the classes of the CURRENT source that do read the process-wide generator: the hypothesis of the theorem fails for them (known findings) *)
Theorem C01_global_generator_users_refuted :
  draws_from_global "Births" = true /\ draws_from_global "RandomNet" = true /\ draws_from_global "NCD" = true /\
  draws_from_global "sir_vaccine" = true /\ draws_from_global "Syphilis" = true.
Proof. vm_compute. repeat split. Qed.
Theorem C01_classes_without_global_draws :
  forallb (fun c => negb (draws_from_global c)) ["SIR"; "SIS"; "Measles"; "Ebola"; "Cholera"; "Gonorrhea"; "HIV"; "Deaths"; "Pregnancy"; "MFNet"; "MSMNet"; "StaticNet"; "ErdosRenyiNet"; "DiskNet";
                                                   "EmbeddingNet"; "MaternalNet"; "PrenatalNet"; "PostnatalNet"; "MixingPool"; "MixingPools"; "routine_vx"; "campaign_vx"; "treat_num"; "Dx"; "Tx"; "People"; "Sim"; "Loop"] = true.
Proof. vm_compute. reflexivity. Qed.
(* other simulations created or run in between: any interleaving with another simulation sharing the process (and doing anything at all to the
   process-wide generator) leaves the first one exactly at its standalone result *)
Theorem C01_interleaving_is_invisible : forall (shared mstate draws gstate : Type) (stream : Z -> nat -> nat -> draws) (offset : string -> Z) baseA baseB csA csB,
  Forall (ignores_global shared mstate draws gstate) csA -> forall sched tiA msA sA tiB msB sB g g' perturb,
  interleaved shared mstate draws gstate stream offset baseA baseB csA csB sched tiA msA sA tiB msB sB g =
  fst (run shared mstate draws gstate stream offset baseA perturb csA (count_occ Bool.bool_dec sched true) tiA msA sA g').
Proof. exact interleaving_is_invisible. Qed.
Print Assumptions C01_interleaving_is_invisible.
(* the premises are satisfiable and not trivially so: a component adding its own draw to its state ignores the generator, one that reads it does not,
   and the interleaved run of the former with the latter is its standalone run *)
Definition ex_stream (seed : Z) (ti ord : nat) : nat := (Z.to_nat (seed mod 7) + ti + ord)%nat.
Definition ex_good : comp nat nat nat nat := mkComp nat nat nat nat "sir" (fun d ti m s g => ((m + d ".p" 0)%nat, (s + m)%nat, g)).
Definition ex_bad : comp nat nat nat nat := mkComp nat nat nat nat "births" (fun d ti m s g => ((m + g)%nat, s, S g)).
Example C01_premises_hold_somewhere :
  Forall (ignores_global nat nat nat nat) [ex_good] /\ ~ ignores_global nat nat nat nat ex_bad /\
  interleaved nat nat nat nat ex_stream (fun _ => 3%Z) 1 2 [ex_good] [ex_bad] [true; false; true; false; true] 0 [5%nat] 0%nat 0 [1%nat] 0%nat 9%nat = ([20%nat], 28%nat).
Proof.
  split; [|split].
  - constructor; [|constructor]. intros d ti m s g g'. reflexivity.
  - intros H. specialize (H (fun _ _ => 0%nat) 0%nat 0%nat 0%nat 0%nat 1%nat). discriminate H.
  - vm_compute. reflexivity.
Qed.
