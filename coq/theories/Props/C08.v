(* C08 -- Each module steps exactly once per own time point, in phase order.
   Statements only.  The phase list, module chain order, sort key and eps are GENERATED from
   starsim/loop.py, sim.py, settings.py (Gen/Gen_Loop.v). *)
From SS Require Import Model.Prelude Model.L4_LoopBase Gen.Gen_Loop Model.L4_Loop
  Proofs.P_Loop Proofs.P_LoopClock Proofs.P_LoopInst Proofs.P_LoopNames.
From Coq Require Import List Permutation Sorted QArith.

(* the collected phases are the documented ones, in the documented order *)
Theorem C08_phase_order : phases_gen =
  [PSim MStartStep; PEach GAll MStartStep false;          (* start of step *)
   PEach GDemographics MStep false;                       (* demographics *)
   PEach GDiseases MStepState true;                       (* disease state updates *)
   PEach GConnectors MStep false;                         (* connectors *)
   PEach GNetworks MStep false;                           (* networks *)
   PEach GInterventions MStep false;                      (* interventions *)
   PEach GDiseases MStep false;                           (* transmission *)
   PPeople MStepDie;                                      (* death resolution *)
   PPeople MUpdateResults; PEach GAll MUpdateResults false;   (* result recording *)
   PEach GAnalyzers MStep false;                          (* analyzers *)
   PEach GAll MFinishStep false; PPeople MFinishStep; PSim MFinishStep].   (* end of step *)
Proof. reflexivity. Qed.
Print Assumptions C08_phase_order.

Theorem C08_module_chain : module_chain_gen =
  [GDemographics; GNetworks; GDiseases; GConnectors; GInterventions; GProducts; GAnalyzers].
Proof. reflexivity. Qed.
Print Assumptions C08_module_chain.

(* exactly once per own time point, for every function, every module set, every family of time vectors *)
Theorem C08_exactly_once : forall tv mods i f, nth_error (collect mods) i = Some f ->
  Permutation (filter (fun r => Nat.eqb (r_order r) i) (plan tv mods))
              (map (fun t => mkRow t i f) (owner_tvec tv mods (f_owner f))).
Proof. exact plan_exactly_once. Qed.
Print Assumptions C08_exactly_once.

Theorem C08_nothing_else_scheduled : forall tv mods r, In r (plan tv mods) ->
  nth_error (collect mods) (r_order r) = Some (r_func r) /\ In (r_time r) (owner_tvec tv mods (f_owner (r_func r))).
Proof. exact plan_rows_wellformed. Qed.
Print Assumptions C08_nothing_else_scheduled.

(* executed in non-decreasing step order = time + eps * phase position *)
Theorem C08_sorted_by_step_order : forall tv mods, Sorted (fun a b => key a <= key b) (plan tv mods).
Proof. exact plan_sorted. Qed.
Print Assumptions C08_sorted_by_step_order.

(* within one instant: phase order *)
Theorem C08_same_instant_phase_order : forall a b, r_time a == r_time b -> (key a <= key b <-> (r_order a <= r_order b)%nat).
Proof. exact key_lex. Qed.
Print Assumptions C08_same_instant_phase_order.

(* across instants: time order, PROVIDED the instants are further apart than eps * phase position
   (partial: the hypothesis is forced by the float-key design of make_plan) *)
Theorem C08_time_order_partial : forall a b,
  r_time a + time_eps_gen * inject_Z (Z.of_nat (r_order a)) < r_time b -> key a < key b.
Proof. exact key_time_gap. Qed.
Print Assumptions C08_time_order_partial.

(* without the gap the order is wrong: two instants closer than eps * (phase distance) run out of time order *)
Theorem C08_close_times_refuted : exists a b, r_time a < r_time b /\ key b < key a.
Proof.
  exists (mkRow 0 20 (mkFunc OSim MFinishStep)), (mkRow (1 # 1000000) 0 (mkFunc OSim MStartStep)).
  split; reflexivity.
Qed.
Print Assumptions C08_close_times_refuted.

(* at each invocation the module's own clock denotes the scheduled instant *)
Theorem C08_clock_at_call : forall tv mods id m pre r post k,
  NoDup (map m_id (chain mods)) -> In id (map m_id (chain mods)) -> find_mod mods id = Some m ->
  StronglySorted (fun a b => a + time_eps_gen * inject_Z (Z.of_nat (length (collect mods))) < b) (m_tvec m) ->
  plan tv mods = pre ++ r :: post -> f_owner (r_func r) = OMod id -> nth_error (m_tvec m) k = Some (r_time r) ->
  exists sim_ti, nth_error (snd (run_rows clocks0 (plan tv mods))) (length pre) = Some (r, k, sim_ti).
Proof. exact clock_at_call. Qed.
Print Assumptions C08_clock_at_call.

(* after the whole plan each module clock has advanced once per own time point (then the completion
   fix-up of Sim.run subtracts one: final index npts-1) *)
Theorem C08_final_clock : forall tv mods id m,
  NoDup (map m_id (chain mods)) -> In id (map m_id (chain mods)) -> find_mod mods id = Some m ->
  owner_ti (fst (run_rows clocks0 (plan tv mods))) (OMod id) = length (m_tvec m).
Proof. exact final_module_clock. Qed.
Print Assumptions C08_final_clock.

(* non-vacuity: a sim with two modules on different timelines *)
Example C08_nonvacuous :
  let mods := [mkMod 0 GDiseases true [0; 1; 2]; mkMod 1 GNetworks false [0; 2]] in
  let pl := plan [0; 1; 2] mods in
  length pl = 38%nat /\ NoDup (map m_id (chain mods)) /\
  map (fun x => snd (fst x)) (filter (fun x => owner_eqb (f_owner (r_func (fst (fst x)))) (OMod 1)) (snd (run_rows clocks0 pl)))
    = [0; 0; 0; 0; 1; 1; 1; 1]%nat.
Proof. vm_compute. repeat split; try reflexivity. repeat constructor; cbn; intuition discriminate. Qed.

(* the implementation looks a module's time vector up by the module's NAME (Loop.collect_abs_tvecs): with pairwise distinct names that is the module's own
   vector, as the plan of the model assumes ... *)
Theorem C08_name_keyed_lookup_is_own_timeline_for_distinct_names : forall name sim_tvec mods, NoDup (map m_id mods) -> NoDup (map (fun m => name (m_id m)) mods) ->
  forall m, In m mods -> owner_tvec_by_name name sim_tvec mods (OMod (m_id m)) = owner_tvec sim_tvec mods (OMod (m_id m)).
Proof. exact owner_tvec_by_name_unique. Qed.
(* ... but names are only unique per kind of module: an intervention and an analyzer of the same name are both scheduled on the later one's time vector
   (listed finding plan-keyed-by-module-name) *)
Theorem C08_name_keyed_lookup_refuted : exists name sim_tvec mods m, In m mods /\ NoDup (map m_id mods) /\
  owner_tvec_by_name name sim_tvec mods (OMod (m_id m)) <> owner_tvec sim_tvec mods (OMod (m_id m)).
Proof. exact owner_tvec_by_name_refuted. Qed.
Print Assumptions C08_name_keyed_lookup_is_own_timeline_for_distinct_names. Print Assumptions C08_name_keyed_lookup_refuted.
