(* C04 -- No random-number generator state is ever used twice in a run.
   Statements only; proofs are `exact` of lemmas in Proofs/P_Dist.v and Proofs/P_Pcg.v. *)
From SS Require Import Model.Prelude Model.L0_Pcg64 Gen.Gen_Dist Model.L1_Dist Proofs.P_Dist Proofs.P_Pcg.
From Coq Require Import ZArith List Sorted.
Open Scope Z_scope.

(* Over ANY history of non-forced, non-resetting operations (any number of calls per step, any jump
   targets): every successful non-empty draw starts from the clean state of its jump index, and the
   jump indices of successive draws are STRICTLY increasing -- hence pairwise distinct. *)
Theorem C04_call_indices_strictly_increasing : forall ops d, good d -> forallb plain ops = true -> Forall op_slots_ok ops ->
  Forall (fun c => snd c = state_of_ind (d_hist0 d) (fst c) /\ d_ind d <= fst c) (calls d ops) /\
  StronglySorted Z.lt (map fst (calls d ops)).
Proof. exact calls_spec. Qed.
Print Assumptions C04_call_indices_strictly_increasing.

(* distinct indices are distinct generator states: PCG64's 128-bit LCG (multiplier = 1 mod 4, odd increment) has full period and the jump
   stride is odd -- proved (Hull-Dobell for modulus 2^128, Proofs/P_Pcg.v), no hypothesis about the generator is left.  The premises (odd
   increment, state below 2^128) are checked on every logged generator state of the real runs. *)
Theorem C04_lcg_full_period : forall A c x d e, A mod 4 = 1 -> A <> 1 -> Z.odd c = true -> 0 <= d -> d < e -> e < M128 ->
  aff_apply (aff_pow (mod128 A, mod128 c) d) x <> aff_apply (aff_pow (mod128 A, mod128 c) e) x.
Proof. exact lcg_full_period. Qed.
Print Assumptions C04_lcg_full_period.
Theorem C04_distinct_indices_distinct_states : forall g l, Z.odd (p_inc g) = true -> 0 <= p_st g < M128 -> StronglySorted Z.lt l ->
  Forall (fun i => 0 <= i < 2 ^ 64) l -> NoDup (map (fun i => p_st (state_of_ind g i)) l).
Proof. exact sorted_distinct_states_proved. Qed.
Print Assumptions C04_distinct_indices_distinct_states.

(* the per-step stride and the unit jump after each call *)
Theorem C04_step_jump_target : forall d ti d', do_jump_dt d ti false = Ok d' ->
  d_ind d' = jump_size_gen * ti /\ d_ind d < d_ind d' /\ clean d'.
Proof.
  intros d ti d' H. unfold do_jump_dt, do_jump in H.
  destruct (jump_to_ok _ _ _ _ H) as (C & I & _ & _ & _ & _ & _ & L). repeat split; auto.
  rewrite I. apply L; reflexivity.
Qed.
Print Assumptions C04_step_jump_target.

(* refusals *)
Theorem C04_uninitialised_refuses : forall d sl n r, d_init d = false -> do_rvs d sl n r = Err ENotInitialized.
Proof. exact rvs_uninitialised. Qed.
Print Assumptions C04_uninitialised_refuses.

Theorem C04_strict_second_draw_refused : forall d sl r' d' vals sl2 n2,
  d_init d = true -> d_strict d = true -> d_auto d = false -> sl <> [] ->
  do_rvs d (Some sl) 0 false = Ok (d', vals) -> do_rvs d' sl2 n2 r' = Err ENotReady.
Proof. exact strict_second_draw_refused. Qed.
Print Assumptions C04_strict_second_draw_refused.

Theorem C04_backward_jump_refused : forall d to delta,
  (match to with Some t => t | None => d_ind d + delta end) <= d_ind d -> do_jump d to delta false = Err ESeedRepeat.
Proof. exact backward_jump_refused. Qed.
Print Assumptions C04_backward_jump_refused.

(* a step that exhausts its stride does not silently run into the next step: the next step jump is refused *)
Theorem C04_stride_overrun_refused : forall d ti, jump_size_gen * ti <= d_ind d -> do_jump_dt d ti false = Err ESeedRepeat.
Proof. intros d ti H. unfold do_jump_dt. apply backward_jump_refused. exact H. Qed.
Print Assumptions C04_stride_overrun_refused.

Theorem C04_empty_draw_no_advance : forall d r, d_init d = true -> (d_ready d = true \/ d_strict d = false) ->
  do_rvs d (Some []) 0 r = Ok (d, []).
Proof. exact empty_draw_no_advance. Qed.
Print Assumptions C04_empty_draw_no_advance.

(* seeds: the initialisation check passes exactly on pairwise distinct seeds *)
Theorem C04_seed_check_sound : forall seeds, check_seeds [] seeds = Ok tt -> NoDup seeds.
Proof. intros seeds H. exact (proj1 (check_seeds_ok seeds [] H)). Qed.
Print Assumptions C04_seed_check_sound.

Theorem C04_seed_check_complete : forall seeds, NoDup seeds -> check_seeds [] seeds = Ok tt.
Proof.
  intros seeds ND. destruct (check_seeds [] seeds) as [[]|e] eqn:E; [reflexivity|].
  assert (N : check_seeds [] seeds <> Ok tt) by (rewrite E; discriminate).
  destruct (check_seeds_dup seeds [] N) as [X|[s [_ []]]]. contradiction.
Qed.
Print Assumptions C04_seed_check_complete.

(* the documented opt-outs DO repeat states (so they are rightly excluded above) *)
Example C04_reset_repeats_by_design :
  let g0 := mkPcg 33261208707367790463622745601869196757 268209174141567072605526753992732310247 false 0 in
  let ops := [OJumpDt 1 false; ORvs [0; 1] true; ORvs [0; 1] false] in
  exists x, snd (drun (dist_init g0 true true) ops) = [Some []; Some x; Some x].
Proof. vm_compute. eexists; reflexivity. Qed.

Example C04_nonvacuous :
  let g0 := mkPcg 33261208707367790463622745601869196757 268209174141567072605526753992732310247 false 0 in
  let ops := [OJumpDt 1 false; ORvs [2; 5] false; ORvs [] false; ORvsN 3 false; OJumpDt 1 false; OJumpDt 2 false; ORvs [1] false] in
  forallb plain ops = true /\ map fst (calls (dist_init g0 true true) ops) = [1000; 1001; 2000].
Proof. vm_compute. split; reflexivity. Qed.
