(* C11 -- Agent arrays behave as a uid-indexed map restricted to active agents.  Statements only.
   The abstract map is  M u := get_raw (raw a) u ; the active list is auids. *)
From SS Require Import Model.Prelude Model.L2_People Proofs.P_Arr Proofs.P_People.
From Coq Require Import List Permutation Sorted QArith.
Local Open Scope nat_scope.

(* identifier indexing addresses agents wherever they sit: writing by uids updates exactly those keys *)
Theorem C11_write_by_uid : forall a us v u, u < len_tot a ->
  get_raw (set_const (raw a) us v) u = if existsb (Nat.eqb u) us then V v else get_raw (raw a) u.
Proof. exact set_get_const. Qed.
Print Assumptions C11_write_by_uid.

Theorem C11_write_many_by_uid : forall us l vs j, NoDup us -> length vs = length us -> (forall u, In u us -> u < length l) ->
  get_raw (set_many l us vs) j =
    match find (fun p => Nat.eqb (fst p) j) (combine us vs) with Some p => V (snd p) | None => get_raw l j end.
Proof. exact get_set_many. Qed.
Print Assumptions C11_write_many_by_uid.

(* the active view (slices, reductions) is the map restricted to the active agents *)
Theorem C11_values_are_map_on_active : forall a au, arr_values a au = map (get_raw (raw a)) au.
Proof. exact values_are_map. Qed.
Print Assumptions C11_values_are_map_on_active.

(* derived arrays define exactly the active cells: the active view never meets uninitialised memory *)
Theorem C11_derived_active_cells_defined : forall a au vals, NoDup au -> length vals = length au -> (forall u, In u au -> u < len_tot a) ->
  arr_values (asnew a au vals) au = map V vals.
Proof. exact asnew_values. Qed.
Print Assumptions C11_derived_active_cells_defined.

(* comparison yields the identifier set {u active | M u <op> c} *)
Theorem C11_comparison_uids : forall a au o c, NoDup au -> (forall u, In u au -> u < len_tot a) ->
  true_uids (arr_cmp a au o c) au = Some (filter (fun u => cmp_q o (cell_q (get_raw (raw a) u)) c) au).
Proof. exact cmp_uids. Qed.
Print Assumptions C11_comparison_uids.

(* true() and false() partition the active set *)
Theorem C11_true_false_partition : forall a au vals, NoDup au -> length vals = length au -> (forall u, In u au -> u < len_tot a) ->
  exists t f, true_uids (asnew a au vals) au = Some t /\ false_uids (asnew a au vals) au = Some f /\
    Permutation (t ++ f) au /\ (forall x, In x t -> ~ In x f).
Proof. exact true_false_partition. Qed.
Print Assumptions C11_true_false_partition.

Theorem C11_not_swaps : forall a au vals, NoDup au -> length vals = length au -> (forall u, In u au -> u < len_tot a) ->
  let b := asnew a au vals in true_uids (arr_not b au) au = false_uids b au.
Proof. exact not_uids. Qed.
Print Assumptions C11_not_swaps.

(* identifier-set algebra = set operations; results sorted and duplicate-free *)
Theorem C11_uids_and : forall a b x, In x (uids_and a b) <-> In x a /\ In x b.
Proof. exact uids_and_spec. Qed.
Theorem C11_uids_or : forall a b x, In x (uids_or a b) <-> In x a \/ In x b.
Proof. exact uids_or_spec. Qed.
Theorem C11_uids_sub : forall a b x, In x (uids_sub a b) <-> In x a /\ ~ In x b.
Proof. exact uids_sub_spec. Qed.
Theorem C11_uids_xor : forall a b x, In x (uids_xor a b) <-> (In x a /\ ~ In x b) \/ (In x b /\ ~ In x a).
Proof. exact uids_xor_spec. Qed.
Theorem C11_uids_results_sorted_unique : forall l, StronglySorted lt (sort_unique l) /\ NoDup (sort_unique l).
Proof. intro l. split; [apply sort_unique_sorted|apply sorted_lt_nodup, sort_unique_sorted]. Qed.
Print Assumptions C11_uids_and.
Print Assumptions C11_uids_or.
Print Assumptions C11_uids_sub.
Print Assumptions C11_uids_xor.
Print Assumptions C11_uids_results_sorted_unique.

(* growth: existing values preserved, new agents receive the declared default *)
Theorem C11_growth : forall a n k vals, arr_ok n a -> vals_ok k vals ->
  let a' := arr_grow a (seq n k) vals in
  (forall i, i < n -> get_raw (raw a') i = get_raw (raw a) i) /\
  (forall j, j < k -> get_raw (raw a') (n + j) =
     V (match vals with Some vs => nth j vs 0%Q | None => match dflt a with Some d => d | None => nanv a end end)).
Proof. intros a n k vals H1 H2 a'. destruct (arr_grow_spec a n k vals H1 H2) as (_ & A & B & _). split; assumption. Qed.
Print Assumptions C11_growth.

(* REFUTED clause: "integer indexing sees only active agents".  arr[i] with a Python int addresses raw[i]:
   after agent 0 is removed, index 0 still returns agent 0's value, not the first ACTIVE agent's. *)
Definition int_index (a : arr) (i : nat) : cell := get_raw (raw a) i.   (* _convert_key returns an int key unchanged *)
Theorem C11_int_key_is_raw_refuted :
  let a := arr_grow (mkArr [] 0 None nanq) (seq 0 3) (Some [10; 20; 30]%Q) in
  let active := [1; 2] in                                              (* agent 0 has died and been removed *)
  int_index a 0 = V 10%Q /\ nth 0 (arr_values a active) G = V 20%Q.
Proof. vm_compute. split; reflexivity. Qed.
Print Assumptions C11_int_key_is_raw_refuted.

(* a derived array read by the uid of a NON-active agent returns uninitialised memory *)
Theorem C11_derived_inactive_is_garbage :
  let a := arr_grow (mkArr [] 0 None nanq) (seq 0 3) (Some [10; 20; 30]%Q) in
  get_raw (raw (arr_cmp a [1; 2] CGt 15%Q)) 0 = G.
Proof. vm_compute. reflexivity. Qed.
Print Assumptions C11_derived_inactive_is_garbage.

Example C11_nonvacuous :
  let a := arr_grow (mkArr [] 0 None nanq) (seq 0 5) (Some [10; 20; 30; 40; 50]%Q) in
  true_uids (arr_cmp a [4; 1; 2] CGt 15%Q) [4; 1; 2] = Some [4; 1; 2] /\
  true_uids (arr_cmp a [4; 1; 2] CLt 45%Q) [4; 1; 2] = Some [1; 2] /\ uids_xor [5; 1; 3; 1] [3; 9] = [1; 5; 9].
Proof. vm_compute. repeat split; reflexivity. Qed.
