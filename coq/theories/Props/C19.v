(* C19 -- Ageing, parentage and pregnancy states stay mutually consistent.  Statements only.
   The per-woman flag machine is DEFINED FROM the scripts regenerated from Pregnancy.update_states / set_prognoses / finish_step; the
   schedules (ti_delivery_gen, ti_postpartum_gen), the embryo age and the maternal-network edge end / keep / inactivity tests are the
   expressions REGENERATED from demographics.py and networks.py (Gen/Gen_Preg.v).  Ageing by dt_year per step is C16. *)
From SS Require Import Model.Prelude Model.L5_CompartBase Gen.Gen_Compart Model.L5_Compart Gen.Gen_Preg Model.L5_Preg Proofs.P_Preg.
From Coq Require Import String List QArith Qround ZArith.
Local Open Scope list_scope.
Open Scope string_scope.

(* ---- pregnant / post-partum / fecund are mutually exclusive and exhaustive, for every flag valuation and every truth assignment of the time tests *)
Theorem C19_states_exclusive_general : forall m, check_preg m = true ->
  forall st cv, map fst st = preg_flags -> map fst cv = dedup_str (sels_of (preg_method_script m)) -> pvalid st = true ->
  exists st', run_script (preg_method_script m) cv st = Some st' /\ pvalid st' = true /\ parrow_ok (pcomp st) (pcomp st') = true.
Proof. exact check_preg_sound. Qed.
Theorem C19_states_exclusive_instances : check_preg "update_states" = true /\ check_preg "set_prognoses" = true /\ check_preg "finish_step" = true.
Proof. exact preg_machines. Qed.
Theorem C19_conception_needs_fecund : forall st, map fst st = preg_flags -> pvalid st = true -> getv st "postpartum" = true ->
  exists st', run_script (preg_script_gen "set_prognoses") [("uids", true)] st = Some st' /\ pvalid st' = false.
Proof. exact conception_of_postpartum_breaks. Qed.
Print Assumptions C19_states_exclusive_general. Print Assumptions C19_states_exclusive_instances. Print Assumptions C19_conception_needs_fecund.

(* ---- delivery follows conception by the gestation period rounded up to a whole step *)
Theorem C19_delivery_at_gestation_rounded_up : forall t0 d t, delivery_due (ti_delivery_gen (inject_Z t0) d) t = true <-> (delivery_step t0 d <= t)%Z.
Proof. exact delivery_at_ceiling. Qed.
Theorem C19_no_delivery_before : forall t0 d t, (t < delivery_step t0 d)%Z -> delivery_due (ti_delivery_gen (inject_Z t0) d) t = false.
Proof. exact not_delivered_before. Qed.
Print Assumptions C19_delivery_at_gestation_rounded_up. Print Assumptions C19_no_delivery_before.

(* ---- prenatal edges are kept, and active, exactly while the woman is still pregnant; a dead endpoint ends the edge *)
Theorem C19_prenatal_edge_iff_pregnant : forall t0 d t,
  edge_keep_gen (edge_end_gen (inject_Z t0) d) (inject_Z t) true true = negb (delivery_due (ti_delivery_gen (inject_Z t0) d) t) /\
  edge_inactive_gen (edge_end_gen (inject_Z t0) d) (inject_Z t) = delivery_due (ti_delivery_gen (inject_Z t0) d) t.
Proof. exact prenatal_edge_iff_pregnant. Qed.
Theorem C19_dead_endpoint_ends_edge : forall e t a b, (a = false \/ b = false) -> edge_keep_gen e t a b = false.
Proof. exact dead_endpoint_ends_edge. Qed.
(* ---- postnatal edges outlive the post-partum period by less than one step *)
Theorem C19_postnatal_edge_outlives_by_less_than_a_step : forall t0 d dpp,
  let s := delivery_step t0 d in
  let e := edge_end_gen (inject_Z s) dpp in
  let tpp := ti_postpartum_gen (ti_delivery_gen (inject_Z t0) d) dpp in
  (0 <= e - tpp)%Q /\ (e - tpp < 1)%Q.
Proof. exact postnatal_outlives_by_less_than_a_step. Qed.
Print Assumptions C19_prenatal_edge_iff_pregnant. Print Assumptions C19_dead_endpoint_ends_edge. Print Assumptions C19_postnatal_edge_outlives_by_less_than_a_step.

(* ---- newborns enter at age zero: conceived at minus the gestation, aged by dt_year per step, the child is in [0, dt_year) at the delivery step *)
Theorem C19_newborn_age : forall g dty t0, (0 < dty)%Q -> (0 <= t0)%Z ->
  let k := Qceiling (g / dty) in (0 <= child_age g t0 dty k)%Q /\ (child_age g t0 dty k < dty)%Q.
Proof. exact age_at_delivery. Qed.
Theorem C19_burnin_age : forall g dty ti k, (ti < 0)%Z -> (child_age g ti dty k == - g + inject_Z (k - ti) * dty)%Q.
Proof. exact burnin_age. Qed.
Print Assumptions C19_newborn_age. Print Assumptions C19_burnin_age.

(* ---- each conceived agent has exactly one mother and the links agree *)
Theorem C19_links_agree : forall parent child mothers news, NoDup mothers -> NoDup news -> length mothers = length news ->
  let '(parent', child') := set_links parent child mothers news in
  (forall i m c, nth_error mothers i = Some m -> nth_error news i = Some c -> parent' c = Some m /\ child' m = Some c) /\
  (forall x, ~ In x news -> parent' x = parent x) /\ (forall x, ~ In x mothers -> child' x = child x).
Proof. exact links_agree. Qed.
Print Assumptions C19_links_agree.

(* ---- non-vacuity *)
Example C19_delivery_example : delivery_step 4 (15 # 8) = 6%Z /\ delivery_due (ti_delivery_gen 4 (15 # 8)) 5 = false /\ delivery_due (ti_delivery_gen 4 (15 # 8)) 6 = true.
Proof. vm_compute. repeat split. Qed.
Example C19_age_example : child_age (3 # 4) 2 (2 # 5) (Qceiling ((3 # 4) / (2 # 5))) == 1 # 20.
Proof. vm_compute. reflexivity. Qed.
Example C19_machine_example :
  run_script (preg_method_script "update_states") [("self.ti_delivery <= ti", true); ("self.ti_postpartum <= ti", false); ("self.ti_dead <= ti", false)]
    [("fecund", false); ("pregnant", true); ("postpartum", false)] = Some [("fecund", false); ("pregnant", false); ("postpartum", true)].
Proof. vm_compute. reflexivity. Qed.
