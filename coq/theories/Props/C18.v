(* C18 -- Parallel and multi-run execution equals independent serial runs.  Statements only.  The replicate seed is the GENERATED reseed_gen
   (single_run: rand_seed += ind); multi_run / MultiSim.run / MultiSim.reduce are shape-pinned. *)
From SS Require Import Model.Prelude Gen.Gen_Sim Model.L6_Sim Proofs.P_Sim.
From Coq Require Import List Permutation ZArith QArith.

(* whatever the order in which any number of workers execute the replicates, filing each result under its index gives exactly the standalone
   runs with seeds base + i *)
Theorem C18_schedule_irrelevant : forall (result : Type) (simulate : Z -> result) base n sched, Permutation sched (seq 0 n) ->
  assembled result n (executed result simulate base sched) = map (fun r => Some r) (serial_runs result simulate base n).
Proof. exact schedule_irrelevant. Qed.
Theorem C18_member_seed : forall (result : Type) (simulate : Z -> result) base i, member result simulate base i = simulate (base + Z.of_nat i)%Z.
Proof. exact member_seed. Qed.
Theorem C18_members_have_distinct_seeds : forall base i j, i <> j -> reseed_gen base (Z.of_nat i) <> reseed_gen base (Z.of_nat j).
Proof. exact members_have_distinct_seeds. Qed.
Print Assumptions C18_schedule_irrelevant. Print Assumptions C18_member_seed. Print Assumptions C18_members_have_distinct_seeds.
(* reduced statistics are invariant to the order of the members *)
Theorem C18_mean_order_invariant : forall l l', Permutation l l' -> (qmean_of l == qmean_of l')%Q.
Proof. exact mean_order_invariant. Qed.
Theorem C18_quantile_order_invariant : forall q l l', Permutation l l' -> quantile q l = quantile q l'.
Proof. exact quantile_order_invariant. Qed.
Print Assumptions C18_mean_order_invariant. Print Assumptions C18_quantile_order_invariant.
Example C18_quantile_example : (quantile (1 # 2) [7; 1; 4; 10]%Z == 11 # 2)%Q /\ (quantile (1 # 10) [7; 1; 4; 10]%Z == 19 # 10)%Q.
Proof. vm_compute. split; reflexivity. Qed.
Example C18_schedule_example : assembled nat 3 (executed nat (fun s => Z.to_nat s) 10 [2; 0; 1]%nat) = [Some 10; Some 11; Some 12]%nat.
Proof. vm_compute. reflexivity. Qed.
