(* C18 -- Parallel and multi-run execution equals independent serial runs.  Statements only.  The replicate seed is the GENERATED reseed_gen
   (single_run: rand_seed += ind); multi_run / MultiSim.run / MultiSim.reduce are shape-pinned. *)
From SS Require Import Model.Prelude Gen.Gen_Sim Model.L6_Sim Proofs.P_Sim.
From Coq Require Import List Permutation ZArith QArith.

(* whatever the order in which any number of workers execute the replicates, filing each result under its index gives exactly the standalone
   runs with seeds base + i *)
Theorem C18_schedule_irrelevant : forall (result : Type) (simulate : Z -> result) base n sched, Permutation sched (seq 0 n) ->
  assembled result n (executed result simulate base sched) = map (fun r => Some r) (serial_runs result simulate base n).
Proof. exact schedule_irrelevant. Qed.
Theorem C18_member_seed : forall (result : Type) (simulate : Z -> result) base i, member result simulate base i = simulate (base + Z.of_nat i)%Z.
Proof. exact member_seed. Qed.
Theorem C18_members_have_distinct_seeds : forall base i j, i <> j -> reseed_gen base (Z.of_nat i) <> reseed_gen base (Z.of_nat j).
Proof. exact members_have_distinct_seeds. Qed.
Print Assumptions C18_schedule_irrelevant. Print Assumptions C18_member_seed. Print Assumptions C18_members_have_distinct_seeds.
(* reduced statistics are invariant to the order of the members *)
Theorem C18_mean_order_invariant : forall l l', Permutation l l' -> (qmean_of l == qmean_of l')%Q.
Proof. exact mean_order_invariant. Qed.
Theorem C18_quantile_order_invariant : forall q l l', Permutation l l' -> quantile q l = quantile q l'.
Proof. exact quantile_order_invariant. Qed.
Print Assumptions C18_mean_order_invariant. Print Assumptions C18_quantile_order_invariant.
Example C18_quantile_example : (quantile (1 # 2) [7; 1; 4; 10]%Z == 11 # 2)%Q /\ (quantile (1 # 10) [7; 1; 4; 10]%Z == 19 # 10)%Q.
Proof. vm_compute. split; reflexivity. Qed.
Example C18_schedule_example : assembled nat 3 (executed nat (fun s => Z.to_nat s) 10 [2; 0; 1]%nat) = [Some 10; Some 11; Some 12]%nat.
Proof. vm_compute. reflexivity. Qed.
(* in-place updating hands the caller's objects those same results *)
Theorem C18_in_place_gets_member : forall (result : Type) (simulate : Z -> result) (obj : Type) (take_over : obj -> result -> obj) base n objs i d,
  List.length objs = n -> (i < n)%nat ->
  nth i (update_in_place result obj take_over objs (serial_runs result simulate base n)) d = take_over (nth i objs d) (member result simulate base i).
Proof. exact in_place_gets_member. Qed.
Theorem C18_in_place_preserves_count : forall (result obj : Type) (take_over : obj -> result -> obj) objs rs,
  List.length (update_in_place result obj take_over objs rs) = List.length objs.
Proof. exact in_place_preserves_count. Qed.
Theorem C18_in_place_refused_on_length_mismatch : forall (result obj : Type) (take_over : obj -> result -> obj) objs rs,
  List.length rs <> List.length objs -> update_in_place result obj take_over objs rs = objs.
Proof. exact in_place_refused_on_length_mismatch. Qed.
Print Assumptions C18_in_place_gets_member. Print Assumptions C18_in_place_preserves_count. Print Assumptions C18_in_place_refused_on_length_mismatch.
Example C18_in_place_example : update_in_place Z (Z * Z) (fun o r => (fst o, r)) [(10, 0); (20, 0); (30, 0)]%Z (serial_runs Z (fun s => s * s)%Z 5 3) = [(10, 25); (20, 36); (30, 49)]%Z.
Proof. vm_compute. reflexivity. Qed.
(* the reduced statistics are the stated statistics of the members: the 0- and 1-quantiles are the extreme members, every quantile and the mean
   lie between them, a larger q never gives a smaller value (low <= median <= high), and the variance is order-invariant too *)
Theorem C18_quantile_between : forall q l L H, l <> [] -> (0 <= q)%Q -> (q <= 1)%Q -> (forall x, In x l -> (L <= x <= H)%Z) ->
  (inject_Z L <= quantile q l)%Q /\ (quantile q l <= inject_Z H)%Q.
Proof. exact quantile_between. Qed.
Theorem C18_quantile_monotone : forall q q' l, l <> [] -> (0 <= q)%Q -> (q <= q')%Q -> (q' <= 1)%Q -> (quantile q l <= quantile q' l)%Q.
Proof. exact quantile_monotone. Qed.
Theorem C18_quantile_zero_is_min : forall l, l <> [] -> exists m, In m l /\ (forall x, In x l -> (m <= x)%Z) /\ (quantile 0 l == inject_Z m)%Q.
Proof. exact quantile_zero_is_min. Qed.
Theorem C18_quantile_one_is_max : forall l, l <> [] -> exists m, In m l /\ (forall x, In x l -> (x <= m)%Z) /\ (quantile 1 l == inject_Z m)%Q.
Proof. exact quantile_one_is_max. Qed.
Theorem C18_mean_between : forall (L H : Q) l, l <> [] -> (forall x, In x l -> (L <= x)%Q /\ (x <= H)%Q) -> (L <= qmean_of l)%Q /\ (qmean_of l <= H)%Q.
Proof. exact mean_between. Qed.
Theorem C18_variance_order_invariant : forall l l', Permutation l l' -> (qvar_of l == qvar_of l')%Q.
Proof. exact variance_order_invariant. Qed.
Print Assumptions C18_quantile_between. Print Assumptions C18_quantile_monotone. Print Assumptions C18_quantile_zero_is_min.
Print Assumptions C18_quantile_one_is_max. Print Assumptions C18_mean_between. Print Assumptions C18_variance_order_invariant.
Example C18_statistics_example : (quantile (1 # 10) [7; 1; 4; 10]%Z <= quantile (1 # 2) [7; 1; 4; 10]%Z)%Q /\ (quantile (9 # 10) [7; 1; 4; 10]%Z == 91 # 10)%Q
  /\ (qmean_of [7; 1; 4; 10] == 11 # 2)%Q /\ (qvar_of [7; 1; 4; 10] == 45 # 4)%Q.
Proof. vm_compute. repeat split; try reflexivity; discriminate. Qed.
(* ... unless the reduced series is integer-typed: the members [10; 5; 8; 8] then reduce to 7, not to their mean 31/4 *)
Theorem C18_integer_series_truncates_the_mean_refuted :
  ~ (stored_in_integer_series (qmean_of [10; 5; 8; 8]) == qmean_of [10; 5; 8; 8])%Q /\ (stored_in_integer_series (qmean_of [10; 5; 8; 8]) == 7)%Q.
Proof. exact integer_series_truncates_the_mean. Qed.
Theorem C18_integer_series_keeps_whole_statistics : forall z, (stored_in_integer_series (inject_Z z) == inject_Z z)%Q.
Proof. exact integer_series_keeps_whole_statistics. Qed.
Print Assumptions C18_integer_series_truncates_the_mean_refuted. Print Assumptions C18_integer_series_keeps_whole_statistics.
