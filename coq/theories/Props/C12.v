(* C12 -- Infections arise only through admissible transmission events.  Statements only.
   The probability product, the comparison direction, net_beta and the mixing-pool probability are
   REGENERATED from starsim/disease.py and starsim/networks.py (Gen/Gen_Disease.v). *)
From SS Require Import Model.Prelude Gen.Gen_Arr Model.L2_People Gen.Gen_Disease Model.L5_Transmit Proofs.P_Arr Proofs.P_Transmit.
From Coq Require Import List Sorted QArith.
Local Open Scope nat_scope.

(* the per-edge probability is rel_trans[src] * rel_sus[trg] * (edge beta * disease beta), tested by p > r *)
Theorem C12_edge_probability : forall a c eb b r,
  transmitted_gen (p_transmit_gen a c (net_beta_gen eb b)) r = true <-> (r < a * c * (eb * b))%Q.
Proof.
  intros. unfold transmitted_gen, p_transmit_gen, net_beta_gen. split; [apply Qgtb_true|apply Qgtb_intro].
Qed.
Print Assumptions C12_edge_probability.

(* every new infection: target susceptible and active, source infectious and active, joined by an edge of
   that step's network in a direction with non-zero beta, no zero factor anywhere *)
Theorem C12_new_case_admissible : forall inf sus rel_trans rel_sus au nets rands res t s i,
  NoDup au -> (forall x, In x au -> x < length rel_trans) -> (forall x, In x au -> x < length rel_sus) -> rands_nonneg rands ->
  infect inf sus rel_trans rel_sus au nets rands = Some res -> In (t, s, i) res ->
  exists n e fwd, nth_error nets i = Some n /\ In e (n_edges n) /\ s = dir_src fwd e /\ t = dir_trg fwd e /\
    ~ (dir_beta fwd n == 0)%Q /\ ~ (e_beta e == 0)%Q /\ In s au /\ In t au /\
    qtrue (get_raw inf s) = true /\ qtrue (get_raw sus t) = true /\
    ~ (cell_q (get_raw rel_trans s) == 0)%Q /\ ~ (cell_q (get_raw rel_sus t) == 0)%Q.
Proof. exact new_case_admissible. Qed.
Print Assumptions C12_new_case_admissible.

Theorem C12_no_zero_crossing : forall rt rs s t eb b r, (0 <= r)%Q ->
  (cell_q (get_raw rt s) == 0 \/ cell_q (get_raw rs t) == 0 \/ eb == 0 \/ b == 0)%Q ->
  forall t' s', edge_event rt rs s t eb b r <> EvHit t' s'.
Proof. exact no_zero_crossing. Qed.
Print Assumptions C12_no_zero_crossing.

(* at most once per disease per step; the recorded source is the first admissible occurrence *)
Theorem C12_at_most_once : forall inf sus rel_trans rel_sus au nets rands res,
  infect inf sus rel_trans rel_sus au nets rands = Some res ->
  StronglySorted lt (map (fun h => fst (fst h)) res) /\ NoDup (map (fun h => fst (fst h)) res).
Proof. exact targets_unique. Qed.
Print Assumptions C12_at_most_once.

Theorem C12_first_source_kept : forall inf sus rel_trans rel_sus au nets rands res h,
  infect inf sus rel_trans rel_sus au nets rands = Some res -> In h res ->
  first_of (fst (fst h)) (hits (all_events (masked inf rel_trans au) (masked sus rel_sus au) nets rands)) = Some h.
Proof. exact first_source_kept. Qed.
Print Assumptions C12_first_source_kept.

(* same state, same random numbers, pointwise larger beta (same calls made): every event still happens *)
Theorem C12_beta_monotone : forall rt rs nets nets' rands, cells_nonneg rt -> cells_nonneg rs -> Forall2 net_le nets nets' ->
  forall t s i, In (EvHit t s, i) (all_events rt rs nets rands) -> In (EvHit t s, i) (all_events rt rs nets' rands).
Proof. exact beta_monotone. Qed.
Print Assumptions C12_beta_monotone.

(* an edge whose endpoint is not an active agent makes the outcome depend on uninitialised memory
   (this is how the positional-edge defect of C14 surfaces here) *)
Theorem C12_inactive_endpoint_garbage : forall flag fac rs au s t eb b r, NoDup au -> (forall x, In x au -> x < length fac) -> ~ In s au ->
  edge_event (masked flag fac au) rs s t eb b r = EvGarbage.
Proof. exact inactive_endpoint_is_garbage. Qed.
Print Assumptions C12_inactive_endpoint_garbage.

(* mixing pools: new cases belong to the destination group and had a positive acquisition probability *)
Theorem C12_pool_cases_in_destination : forall probs dst us x, In x (pool_new_cases probs dst us) -> In x dst.
Proof. exact pool_cases_in_dst. Qed.
Print Assumptions C12_pool_cases_in_destination.

Theorem C12_pool_needs_positive_probability : forall probs dst us x, (forall u, In u us -> 0 <= u)%Q ->
  In x (pool_new_cases probs dst us) -> exists p, In p probs /\ (0 < p)%Q.
Proof. exact pool_case_prob_positive. Qed.
Print Assumptions C12_pool_needs_positive_probability.

Example C12_nonvacuous :
  let inf := [V 1; V 0; V 0; V 1]%Q in let sus := [V 0; V 1; V 1; V 0]%Q in
  let one := [V 1; V 1; V (1#2); V 1]%Q in
  let nets := [mkNet [mkEdge 0 1 1; mkEdge 2 3 1; mkEdge 0 2 1] (1#2) (1#4); mkNet [mkEdge 3 1 1] (1#2) 0]%Q in
  infect inf sus one one [0; 1; 2; 3] nets [[(1#10); (1#10); (3#10)]; [(1#10); (1#10); (1#10)]; [(1#10)]]%Q
    = Some [(1, 0, 0); (2, 3, 0)].
Proof. vm_compute. reflexivity. Qed.

(* ... and the proviso "same calls made" of C12_beta_monotone cannot be dropped: a direction with beta = 0 makes no call, so raising an earlier beta from 0
   to a positive value shifts the shared random stream of all later calls and can REMOVE infections (listed finding zero-beta-skips-shared-transmission-draw) *)
Theorem C12_beta_monotone_across_zero_refuted : exists rt rs nets nets' rands t s i,
  Forall2 net_le_weak nets nets' /\ In (EvHit t s, i) (all_events rt rs nets rands) /\ ~ In (EvHit t s, i) (all_events rt rs nets' rands).
Proof. exact beta_monotone_needs_same_calls. Qed.
Print Assumptions C12_beta_monotone_across_zero_refuted.
