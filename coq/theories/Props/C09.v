(* C09 -- Pausing, copying or saving a run never changes its outcome.
   Statements only.  What a scheduled function does to the simulation state is an arbitrary function
   `exec` (Section variable of the lemmas): the theorems hold for every such function, i.e. for the
   whole object graph PROVIDED the state handed back after a pause / copy / pickle / save+load is the
   state that was taken (that proviso is exactly what the correspondence sweep tests). *)
From SS Require Import Model.Prelude Model.L4_LoopBase Gen.Gen_Loop Model.L4_Loop Proofs.P_Loop Proofs.P_LoopInst Proofs.P_LoopNames.
From Coq Require Import List Sorted QArith.

Theorem C09_resume_compose : forall (St : Type) (exec : St -> row -> St) pl i j k s, (i <= j)%nat -> (j <= k)%nat ->
  run_range St exec pl j k (run_range St exec pl i j s) = run_range St exec pl i k s.
Proof. exact resume_compose. Qed.
Print Assumptions C09_resume_compose.

(* any number of pauses at any boundaries between scheduled functions *)
Theorem C09_any_number_of_pauses : forall (St : Type) (exec : St -> row -> St) pl stops i s, Sorted le (i :: stops) ->
  run_stops St exec pl i stops s = run_range St exec pl i (last stops i) s.
Proof. exact resume_many. Qed.
Print Assumptions C09_any_number_of_pauses.

(* a copy continued independently: value semantics -- continuing one state does not change another *)
Theorem C09_copy_independent : forall (St : Type) (exec : St -> row -> St) pl i j k s,
  let original := run_range St exec pl i j s in
  let copy := original in
  (i <= j)%nat -> (j <= k)%nat ->
  run_range St exec pl j k copy = run_range St exec pl i k s /\ run_range St exec pl j k original = run_range St exec pl i k s.
Proof. intros St exec pl i j k s original copy H1 H2. split; apply resume_compose; assumption. Qed.
Print Assumptions C09_copy_independent.

(* a completed simulation refuses to run or finalise again *)
Theorem C09_rerun_refused : forall pl now u s, s_complete s = true -> sim_run pl now u s = Err EAlreadyRun.
Proof. exact run_complete_refused. Qed.
Print Assumptions C09_rerun_refused.
Theorem C09_refinalize_refused : forall s, s_ready s = true -> sim_finalize s = Err EAlreadyRun.
Proof. exact finalize_twice_refused. Qed.
Print Assumptions C09_refinalize_refused.

(* hence over ANY sequence of run(until) / finalize calls scaling is applied at most once *)
Theorem C09_scaled_at_most_once : forall pl now ops s, (s_scaled s <= 1)%nat -> (s_scaled s = 1%nat <-> s_ready s = true) ->
  (s_scaled (fold_left (sstep pl now) ops s) <= 1)%nat.
Proof. exact scaled_at_most_once. Qed.
Print Assumptions C09_scaled_at_most_once.

(* stop-time semantics: `until` is compared with the sim's native time value (a calendar year for a
   year-based sim), so a step COUNT used as `until` stops after the first function *)
Example C09_until_is_a_time_not_a_count :
  let pl := plan [0; 1; 2] [] in
  let now := fun ti : nat => 2000 + inject_Z (Z.of_nat ti) in
  snd (run_until now (Some 1) clocks0 pl 0%nat) = 1%nat /\ snd (run_until now (Some 2000) clocks0 pl 0%nat) = 5%nat /\
  snd (run_until now None clocks0 pl 0%nat) = length pl.
Proof. vm_compute. repeat split; reflexivity. Qed.

Example C09_nonvacuous :
  run_stops (list nat) (fun s r => r_order r :: s) (plan [0; 1] []) 0%nat [2; 5; 10]%nat [7]%nat
  = run_range (list nat) (fun s r => r_order r :: s) (plan [0; 1] []) 0%nat 10%nat [7]%nat.
Proof. vm_compute. reflexivity. Qed.

(* a stop time of exactly 0 is not honoured: `if until and ...` treats it as "no stop time" (listed finding until-zero-is-ignored) *)
Theorem C09_until_zero_runs_to_the_end : forall now rows c idx, run_until now (Some 0%Q) c rows idx = run_until now None c rows idx.
Proof. exact run_until_zero_is_no_stop. Qed.
Print Assumptions C09_until_zero_runs_to_the_end.

(* "applied exactly once" needs ONE set of flags per run: two handles sharing the results but not the flags (the caller's sim and the member after an
   in-place MultiSim.run) finalise twice -- refuted, listed finding multisim-inplace-aliases-finalise-twice; through one handle the second attempt is
   refused and changes nothing *)
Theorem C09_aliased_handles_finalise_twice_refuted : forall s, s_ready s = false ->
  s_scaled (fst (through false sim_finalize (through true sim_finalize (s, s)))) = S (S (s_scaled s)).
Proof. exact aliased_handles_finalise_twice. Qed.
Theorem C09_one_handle_finalises_once : forall s, s_ready s = false ->
  through true sim_finalize (through true sim_finalize (s, s)) = through true sim_finalize (s, s).
Proof. exact one_handle_finalises_once. Qed.
Print Assumptions C09_aliased_handles_finalise_twice_refuted. Print Assumptions C09_one_handle_finalises_once.
