(* C17 -- Parameters are applied exactly as given or rejected, never dropped.  Statements only.
   The three type-dispatch tables of Pars.update / _update_timepar / _update_dist are REGENERATED from starsim/parameters.py
   (Gen/Gen_Pars.v: every arm must be one of the recognised actions, else the translation fails); Model/L6_Pars.v gives the actions
   their meaning.  Module.update_pars / define_pars / Sim.__init__ are shape-pinned. *)
From SS Require Import Model.Prelude Model.L6_ParsBase Gen.Gen_Pars Model.L6_Pars Proofs.P_Pars.
From Coq Require Import String List.
Local Open Scope list_scope.
Open Scope string_scope.

Theorem C17_unknown_names_rejected : forall m pars, (exists k, In k (map fst pars) /\ lookup m k = None) -> pars_update m pars false = RErr EKeyNotFound.
Proof. exact unknown_key_rejected. Qed.
Theorem C17_success_means_known_names : forall m pars m', pars_update m pars false = ROk m' -> forall k, In k (map fst pars) -> lookup m k <> None.
Proof. exact strict_success_means_known. Qed.
Theorem C17_applied_exactly_or_rejected : forall m pars create m', NoDup (map fst pars) -> pars_update m pars create = ROk m' ->
  (forall k new, In (k, new) pars -> exists v, lookup m' k = Some v /\ in_effect v new) /\
  (forall k, ~ In k (map fst pars) -> lookup m' k = lookup m k).
Proof. exact applied_or_rejected. Qed.
Theorem C17_one_parameter_applied_or_rejected : forall old new v, update_leaf old new = OSet v -> in_effect v new.
Proof. exact update_leaf_effect. Qed.
Print Assumptions C17_unknown_names_rejected. Print Assumptions C17_success_means_known_names.
Print Assumptions C17_applied_exactly_or_rejected. Print Assumptions C17_one_parameter_applied_or_rejected.

(* values that cannot stand in for a time parameter or a distribution are rejected *)
Theorem C17_unfit_for_timepar_rejected : forall old new, no_ntest new -> update_timepar old new = OErr ETypeError.
Proof. exact unfit_value_rejected_timepar. Qed.
Theorem C17_unfit_for_dist_rejected : forall old new, no_ntest new -> update_dist old new = OErr ETypeError.
Proof. exact unfit_value_rejected_dist. Qed.
Theorem C17_unfit_values : no_ntest (NVStr "x") /\ no_ntest NVNone /\ no_ntest (NVArr 0) /\ no_ntest (NVOther 0) /\ no_ntest (NVModule 0).
Proof. exact unfit_examples. Qed.
Theorem C17_frame_for_dist_rejected : forall old id, update_dist old (NVFrame id) = OErr ETypeError.
Proof. exact frame_for_dist_rejected. Qed.
Theorem C17_bernoulli_guard : forall old ft id, is_bern (obj old) = true ->
  update_dist old (NVDist false ft id) = OErr ETypeError /\
  (forall ty kw, String.eqb ty "bernoulli" = false -> update_dist old (NVDict (Some ty) kw) = OErr ETypeError) /\
  update_dist old (NVDist true ft id) = OSet (mkSV (NVDist true ft id) Orig).
Proof. exact bernoulli_guard. Qed.
Theorem C17_duration_guard : forall b od id nd nb v, od <> nd -> update_dist (mkSV (NVDist b (Some od) id) Orig) (NVTimePar nd nb v) = OErr ETypeError.
Proof. exact duration_guard. Qed.
Print Assumptions C17_unfit_for_timepar_rejected. Print Assumptions C17_unfit_for_dist_rejected. Print Assumptions C17_unfit_values.
Print Assumptions C17_frame_for_dist_rejected. Print Assumptions C17_bernoulli_guard. Print Assumptions C17_duration_guard.

(* accepted forms and their effect *)
Theorem C17_dist_accepts : forall old, is_bern (obj old) = false -> forall z l kw f,
  update_dist old (NVNum z) = OSet (mkSV (obj old) (SetArg (NVNum z))) /\
  update_dist old (NVList l) = OSet (mkSV (obj old) (SetStar l)) /\
  update_dist old (NVDict None kw) = OSet (mkSV (obj old) (SetKw kw)) /\
  update_dist old (NVFunc f) = OSet (mkSV (obj old) (SetArg (NVFunc f))).
Proof. exact dist_accepts. Qed.
Theorem C17_timepar_accepts : forall old z l d b v id,
  update_timepar old (NVNum z) = OSet (mkSV (obj old) (SetArg (NVNum z))) /\
  update_timepar old (NVList l) = OSet (mkSV (obj old) (SetStar l)) /\
  update_timepar old (NVTimePar d b v) = OSet (mkSV (NVTimePar d b v) Orig) /\
  update_timepar old (NVFrame id) = OSet (mkSV (NVFrame id) Orig).
Proof. exact timepar_accepts. Qed.
Theorem C17_plain_parameter_takes_value : forall old new, (sat_old (obj old) TAtomic = true \/ (obj old = NVFunc 0) \/ exists t k, obj old = NVDict t k) ->
  update_leaf old new = OSet (mkSV new Orig).
Proof. exact plain_parameter_takes_value. Qed.
Print Assumptions C17_dist_accepts. Print Assumptions C17_timepar_accepts. Print Assumptions C17_plain_parameter_takes_value.

(* non-vacuity *)
Example C17_example_update :
  pars_update [("beta", mkSV (NVTimePar false true 1) Orig); ("dur_inf", mkSV (NVDist false (Some true) 7) Orig); ("init_prev", mkSV (NVDist true None 8) Orig); ("n", mkSV (NVNum 5) Orig)]
              [("dur_inf", NVList [6; 2]%Z); ("n", NVStr "many"); ("init_prev", NVNum 1)] false
  = ROk [("beta", mkSV (NVTimePar false true 1) Orig); ("dur_inf", mkSV (NVDist false (Some true) 7) (SetStar [6; 2]%Z)); ("init_prev", mkSV (NVDist true None 8) (SetArg (NVNum 1)));
         ("n", mkSV (NVStr "many") Orig)].
Proof. vm_compute. reflexivity. Qed.
Example C17_example_reject : pars_update [("n", mkSV (NVNum 5) Orig)] [("n", NVNum 6); ("m", NVNum 1)] false = RErr EKeyNotFound.
Proof. vm_compute. reflexivity. Qed.

(* "values that cannot stand in for a time parameter are rejected" is refuted for the KIND of a bare time parameter: a duration replaces a rate (and
   vice versa) without complaint, whereas the same mismatch inside a distribution is refused (C17_duration_guard) -- listed finding wrong-kind-of-timepar-accepted *)
Theorem C17_timepar_kind_mismatch_accepted_refuted : forall od nd ob nb ov nv', od <> nd ->
  update_timepar (mkSV (NVTimePar od ob ov) Orig) (NVTimePar nd nb nv') = OSet (mkSV (NVTimePar nd nb nv') Orig).
Proof. exact timepar_kind_mismatch_accepted. Qed.
Print Assumptions C17_timepar_kind_mismatch_accepted_refuted.
