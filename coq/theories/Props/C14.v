(* C14 -- Contact networks reference only live agents and honour their rules.  Statements only. *)
From SS Require Import Model.Prelude Gen.Gen_Net Model.L5_Net Proofs.P_Net.
From Coq Require Import List Permutation QArith.
Local Open Scope nat_scope.

(* agents removed on death vanish from the network; nothing else changes *)
Theorem C14_remove_uids : forall es us e, In e (remove_uids es us) <-> In e es /\ ~ In (d_p1 e) us /\ ~ In (d_p2 e) us.
Proof. exact remove_uids_spec. Qed.
Print Assumptions C14_remove_uids.

Theorem C14_static_changes_only_through_death : forall es, remove_uids es [] = es.
Proof. exact remove_uids_noop. Qed.
Print Assumptions C14_static_changes_only_through_death.

(* removing the dead from the networks and then from the active list keeps "both endpoints are active" *)
Theorem C14_removal_keeps_endpoints_active : forall es au dead, endpoints_in es au = true ->
  let '(es', au') := remove_dead_net es au dead in endpoints_in es' au' = true.
Proof. exact remove_dead_keeps_endpoints_active. Qed.
Print Assumptions C14_removal_keeps_endpoints_active.

Theorem C14_added_pairs_of_active_agents_keep_it : forall es1 es2 au,
  endpoints_in (es1 ++ es2) au = andb (endpoints_in es1 au) (endpoints_in es2 au).
Proof. exact endpoints_in_app. Qed.
Print Assumptions C14_added_pairs_of_active_agents_keep_it.

(* dynamic networks: each step drops edges whose remaining duration is not positive or with a non-alive endpoint *)
Theorem C14_end_pairs : forall alive dt es e, In e (end_pairs alive dt es) ->
  (0 < d_dur e)%Q /\ alive (d_p1 e) = true /\ alive (d_p2 e) = true /\
  exists e0, In e0 es /\ d_p1 e0 = d_p1 e /\ d_p2 e0 = d_p2 e /\ d_beta e0 = d_beta e /\ (d_dur e == d_dur e0 - dt)%Q.
Proof. exact end_pairs_spec. Qed.
Print Assumptions C14_end_pairs.

(* timed edges persist for their stated duration and then end: with live endpoints an edge of duration d is still
   present after j end-of-step updates iff d - j*dt > 0 *)
Theorem C14_timed_edges : forall alive dt e j, alive (d_p1 e) = true -> alive (d_p2 e) = true -> (0 < dt)%Q ->
  (iter_end alive dt j [e] <> [] <-> (0 < d_dur e - inject_Z (Z.of_nat j) * dt)%Q \/ j = 0).
Proof. exact timed_edge_present. Qed.
Print Assumptions C14_timed_edges.

(* random networks: exactly the requested number of outgoing and incoming half-edges per agent,
   for EVERY permutation the generator may produce *)
Theorem C14_random_outgoing : forall inds ns x, NoDup inds -> length ns = length inds ->
  count_occ Nat.eq_dec (get_source inds ns) x =
    match find (fun un => Nat.eqb (fst un) x) (combine inds ns) with Some un => snd un | None => 0 end.
Proof. exact source_degree. Qed.
Print Assumptions C14_random_outgoing.

Theorem C14_random_incoming_equals_outgoing : forall source target x, Permutation source target ->
  count_occ Nat.eq_dec target x = count_occ Nat.eq_dec source x.
Proof. exact target_degree. Qed.
Print Assumptions C14_random_incoming_equals_outgoing.

(* edges built from uids of eligible agents have eligible endpoints; edges built from array POSITIONS do not *)
Theorem C14_uid_keyed_pairs_ok : forall born pairs p, (forall ij, In ij pairs -> fst ij < length born /\ snd ij < length born) ->
  In p (uid_pairs born pairs) -> In (fst p) born /\ In (snd p) born.
Proof. exact uid_pairs_in_born. Qed.
Print Assumptions C14_uid_keyed_pairs_ok.

Theorem C14_positional_pairs_refuted :
  let born := [1; 2] in let pairs := [(0, 1)] in
  endpoints_in (map (fun p => mkDE (fst p) (snd p) 1 0) (positional_pairs born pairs)) born = false /\
  endpoints_in (map (fun p => mkDE (fst p) (snd p) 1 0) (uid_pairs born pairs)) born = true.
Proof. exact positional_edges_dangle_refuted. Qed.
Print Assumptions C14_positional_pairs_refuted.

Example C14_nonvacuous :
  let es := [mkDE 0 1 1 (3#2); mkDE 2 3 1 (1#2); mkDE 1 3 1 (5#2)] in
  map d_p1 (iter_end (fun u => negb (Nat.eqb u 3)) (1#1) 1 es) = [0] /\
  map d_p1 (iter_end (fun _ => true) (1#1) 2 es) = [1] /\ get_source [4; 7] [2; 1] = [4; 4; 7].
Proof. vm_compute. repeat split; reflexivity. Qed.

(* the creation rule of the Erdos-Renyi network: the pair number combined from two UNSIGNED 64-bit draws lies in [0, 1], and the pair is an edge exactly when
   its 64-bit pattern is at most p (2^64 - 1) -- a fraction of the 2^64 patterns within 2^-64 of p; the source hands the draws over unsigned (generated flag) *)
Theorem C14_erdos_renyi_pair_number_in_unit_interval : forall a b, (0 <= combine_u64 a b <= 1)%Q.
Proof. exact combine_u64_unit_interval. Qed.
Theorem C14_erdos_renyi_edge_law : forall a b p, er_edge (combine_u64 a b) p = true <-> (inject_Z (combine_bits a b) <= p * inject_Z (two64 - 1))%Q.
Proof. exact er_edge_unsigned_law. Qed.
Theorem C14_erdos_renyi_draws_are_unsigned : erdosrenyi_unsigned_draws_gen = true.
Proof. reflexivity. Qed.
(* ... whereas the SIGNED reading of the same bits (the defect repaired by 2bfb5eb) accepts the whole upper half of the patterns for every p >= 0: edge probability 1/2 + p *)
Theorem C14_erdos_renyi_signed_reading_accepts_half : forall a b p, (0 <= p)%Q -> (two64 / 2 <= combine_bits a b)%Z -> er_edge (combine_i64 a b) p = true.
Proof. exact er_edge_signed_accepts_upper_half. Qed.
Print Assumptions C14_erdos_renyi_pair_number_in_unit_interval. Print Assumptions C14_erdos_renyi_edge_law. Print Assumptions C14_erdos_renyi_signed_reading_accepts_half.
From Coq Require Import PrimFloat.
(* over binary64 the stated duration is overrun by one step for steps that are not binary fractions (0.1 here: 0x1.999999999999ap-4 is the double
   nearest 0.1, 0x1p-1 is 0.5): the real-number theorem C14_timed_edges does not transfer to the count-down the code performs *)
Theorem C14_float_countdown_keeps_an_extra_step_refuted :
  float_edge_kept 5 0x1p-1%float 0x1.999999999999ap-4%float = true /\ (inject_Z 5 * (1 # 10) == 1 # 2)%Q.
Proof. exact float_countdown_keeps_an_extra_step. Qed.
Theorem C14_float_countdown_exact_for_binary_steps : float_edge_kept 4 0x1p-1%float 0x1p-3%float = false /\ float_edge_kept 3 0x1p-1%float 0x1p-3%float = true.
Proof. exact float_countdown_exact_for_binary_steps. Qed.
Print Assumptions C14_float_countdown_keeps_an_extra_step_refuted. Print Assumptions C14_float_countdown_exact_for_binary_steps.
