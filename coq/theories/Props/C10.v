(* C10 -- Population bookkeeping stays consistent under births and deaths.  Statements only. *)
From SS Require Import Model.Prelude Model.L2_People Proofs.P_Arr Proofs.P_People.
From Coq Require Import List QArith Lia.
Local Open Scope nat_scope.

(* identifiers: dense, in creation order, never reused *)
Theorem C10_new_ids_are_next : forall p n s v, snd (grow p n s v) = if Nat.eqb n 0 then [] else seq (n_uid p) n.
Proof. exact grow_ids_dense. Qed.
Print Assumptions C10_new_ids_are_next.

Theorem C10_id_space_monotone : forall p o, Inv p -> n_uid p <= n_uid (pstep p o).
Proof. exact n_uid_monotone. Qed.
Print Assumptions C10_id_space_monotone.

(* alignment + dense uid array + duplicate-free active set inside the id space: an invariant of EVERY
   history of births (with arbitrary slots), death requests, death resolution, removal, time steps and
   late state registration -- including every reallocation boundary *)
Theorem C10_invariant_initial : forall n, Inv (init_people n).
Proof. exact inv_init. Qed.
Print Assumptions C10_invariant_initial.

Theorem C10_invariant_preserved : forall p o, Inv p -> op_ok p o -> Inv (pstep p o).
Proof. exact inv_step. Qed.
Print Assumptions C10_invariant_preserved.

Theorem C10_invariant_all_histories : forall ops p, Inv p -> ops_ok p ops -> Inv (prun p ops).
Proof. exact inv_run. Qed.
Print Assumptions C10_invariant_all_histories.

(* growth keeps every existing value and gives new agents the declared default / supplied values *)
Theorem C10_growth_preserves_and_defaults : forall a n k vals, arr_ok n a -> vals_ok k vals ->
  let a' := arr_grow a (seq n k) vals in
  arr_ok (n + k) a' /\
  (forall i, i < n -> get_raw (raw a') i = get_raw (raw a) i) /\
  (forall j, j < k -> get_raw (raw a') (n + j) =
     V (match vals with Some vs => nth j vs 0%Q | None => match dflt a with Some d => d | None => nanv a end end)) /\
  dflt a' = dflt a /\ nanv a' = nanv a.
Proof. exact arr_grow_spec. Qed.
Print Assumptions C10_growth_preserves_and_defaults.

(* deaths *)
Theorem C10_death_permanent : forall p o u, Inv p -> u < n_uid p -> is_alive p u = false -> is_alive (pstep p o) u = false.
Proof. exact death_permanent. Qed.
Print Assumptions C10_death_permanent.

Theorem C10_death_same_step : forall p us u, Inv p -> nan_free p -> (forall x, In x us -> x < n_uid p) -> In u (auids p) -> In u us ->
  let r := step_die (request_death p us) in In u (snd r) /\ is_alive (fst r) u = false.
Proof. exact death_same_step. Qed.
Print Assumptions C10_death_same_step.

Theorem C10_death_next_step_if_requested_late : forall p us u, Inv p -> nan_free p -> (forall x, In x us -> x < n_uid p) ->
  In u (auids p) -> In u us -> is_alive p u = true ->
  let r := step_die (tick (remove_dead (request_death p us))) in In u (snd r) /\ is_alive (fst r) u = false.
Proof. exact death_next_step. Qed.
Print Assumptions C10_death_next_step_if_requested_late.

Theorem C10_active_is_not_died : forall p, auids (remove_dead p) = filter (is_alive p) (auids p).
Proof. exact active_after_removal. Qed.
Print Assumptions C10_active_is_not_died.

Theorem C10_removed_stay_removed : forall p o u, Inv p -> ~ In u (auids p) -> u < n_uid p -> ~ In u (auids (pstep p o)).
Proof. exact removed_never_active_again. Qed.
Print Assumptions C10_removed_stay_removed.

Theorem C10_deaths_balance : forall p, Inv p ->
  n_alive p = n_alive (fst (step_die p)) + length (filter (is_alive p) (snd (step_die p))).
Proof. exact step_die_balance. Qed.
Print Assumptions C10_deaths_balance.

(* the recorded flow new_deaths = #(ti_dead == ti) over the active agents is exactly the deaths carried out in the step (step_die stamps ti_dead with
   the step at which it kills), whenever they were requested ... *)
Theorem C10_recorded_deaths_are_the_executed_deaths : forall p, Inv p -> Qeq_bool (inject_Z (ti p)) (nanv (ti_dead p)) = false ->
  recorded_new_deaths (fst (step_die p)) = length (snd (step_die p)).
Proof. exact recorded_deaths_are_executed_deaths. Qed.
(* ... hence the balance of the property for a step that starts with living active agents only: alive before = alive after + recorded deaths *)
Theorem C10_alive_balance_with_recorded_deaths : forall p, Inv p -> Qeq_bool (inject_Z (ti p)) (nanv (ti_dead p)) = false ->
  (forall u, In u (auids p) -> is_alive p u = true) -> n_alive p = n_alive (fst (step_die p)) + recorded_new_deaths (fst (step_die p)).
Proof. exact alive_balance_with_recorded_deaths. Qed.
Print Assumptions C10_recorded_deaths_are_the_executed_deaths. Print Assumptions C10_alive_balance_with_recorded_deaths.
(* the history that used to go uncounted (agent 1 requested at step 0 AFTER the resolution phase): it dies at step 1 and is recorded at step 1 *)
Theorem C10_late_request_counted_at_the_next_step :
  let p0 := init_people 3 in
  let p1 := request_death (fst (step_die p0)) [1] in                 (* requested after resolution of step 0 *)
  let rec0 := recorded_new_deaths (fst (step_die p0)) in             (* recorded at step 0 *)
  let p2 := tick (remove_dead p1) in
  let r := step_die p2 in
  let rec1 := recorded_new_deaths (fst r) in                         (* recorded at step 1 *)
  snd r = [1] /\ rec0 = 0 /\ rec1 = 1 /\ n_alive (fst r) = 2.
Proof. vm_compute. repeat split; reflexivity. Qed.
Print Assumptions C10_late_request_counted_at_the_next_step.

(* non-vacuity: a history with two reallocations, a late-registered state, overlapping requests *)
Example C10_nonvacuous :
  let ops := [PGrow 2 None []; PRegister (Some (5#1)%Q) nanq None; PGrow 7 (Some [40;41;42;43;44;45;46]) [None];
              PRequestDeath [0; 9; 0]; PStepDie; PRemoveDead; PTick; PGrow 1 None [Some [(3#2)%Q]]] in
  ops_ok (init_people 4) ops /\ n_uid (prun (init_people 4) ops) = 14 /\
  auids (prun (init_people 4) ops) = [1; 2; 3; 4; 5; 6; 7; 8; 10; 11; 12; 13].
Proof.
  split; [|vm_compute; split; reflexivity].
  cbn [ops_ok op_ok]. repeat split; try reflexivity; try (repeat constructor; fail).
  intros u H. vm_compute. vm_compute in H. repeat (destruct H as [<-|H]; [repeat constructor|]). destruct H.
Qed.
