(* C16 -- Per-step hazards and durations are independent of the timestep.  Statements only.
   The factor branches / products of Deaths, Births, Pregnancy and the routine-delivery conversion are REGENERATED
   from demographics.py / interventions.py (Gen/Gen_Demog.v). *)
From SS Require Import Model.Prelude Model.L3_Units Gen.Gen_Time Model.L3_TimePar Gen.Gen_Demog Model.L5_Demog Proofs.P_Time Proofs.P_Demog Proofs.P_DemogR.
From Coq Require Import QArith Reals.

Theorem C16_deaths_plain_rate : forall unit dt r u rel, has_units unit = true ->
  exists p, death_prob_raw false r u rel unit dt = Ok p /\ p == r * u * rel * dt_year unit dt.
Proof. exact deaths_number. Qed.
Print Assumptions C16_deaths_plain_rate.

Theorem C16_births_plain_rate : forall unit dt r u rel, has_units unit = true ->
  exists p, birth_prob_raw false r u rel unit dt = Ok p /\ p == r * u * rel * dt_year unit dt.
Proof. exact births_number. Qed.
Print Assumptions C16_births_plain_rate.

Theorem C16_births_time_parameter_rate : forall unit dt r u rel, has_units unit = true -> 0 < dt ->
  exists p, birth_prob_raw true r u rel unit dt = Ok p /\ p == r * u * rel * dt_year unit dt.
Proof. exact births_timepar. Qed.
Print Assumptions C16_births_time_parameter_rate.

Theorem C16_fertility : forall unit dt r u rel, has_units unit = true ->
  exists p, fertility_prob_gen r u rel unit dt = Ok p /\ p == r * u * rel * dt_year unit dt.
Proof. exact fertility_number. Qed.
Print Assumptions C16_fertility.

(* background mortality with a time-parameter rate (the DEFAULT ss.peryear(20)): dt is applied twice *)
Theorem C16_deaths_time_parameter_rate_double_dt : forall unit dt r u rel, has_units unit = true -> 0 < dt ->
  exists p, death_prob_raw true r u rel unit dt = Ok p /\ p == (r * u * rel * dt_year unit dt) * dt.
Proof. exact deaths_timepar_double_dt. Qed.
Print Assumptions C16_deaths_time_parameter_rate_double_dt.

Theorem C16_deaths_time_parameter_refuted : exists unit dt r u rel p,
  death_prob_raw true r u rel unit dt = Ok p /\ ~ p == r * u * rel * dt_year unit dt.
Proof. exact deaths_timepar_refuted. Qed.
Print Assumptions C16_deaths_time_parameter_refuted.

(* expected events per year do not depend on (unit, dt): probability per year of step is the same *)
Theorem C16_hazard_per_year_invariant : forall unit1 dt1 unit2 dt2 r u rel p1 p2,
  has_units unit1 = true -> has_units unit2 = true -> 0 < dt1 -> 0 < dt2 ->
  death_prob_raw false r u rel unit1 dt1 = Ok p1 -> death_prob_raw false r u rel unit2 dt2 = Ok p2 ->
  p1 / dt_year unit1 dt1 == p2 / dt_year unit2 dt2.
Proof. exact hazard_per_year_invariant. Qed.
Print Assumptions C16_hazard_per_year_invariant.

Theorem C16_ageing : forall k age dty, age_after k age dty == age + inject_Z (Z.of_nat k) * dty.
Proof. exact ageing. Qed.
Print Assumptions C16_ageing.

Theorem C16_age_bin_lookup : forall age bins i, (0 <= i)%Z -> bin_index age bins = i ->
  forall j, (j <= Z.to_nat i)%nat -> (j < length bins)%nat -> nth j bins 0 <= age.
Proof. exact bin_index_spec. Qed.
Print Assumptions C16_age_bin_lookup.

(* with the -inf edge that the data standardisation prepends, unborn agents never wrap around to the last bin *)
Theorem C16_lowest_edge_guards_negative_index : forall age b t, b <= age -> (0 <= bin_index age (b :: t))%Z.
Proof. exact lowest_edge_guards_negative_index. Qed.
Print Assumptions C16_lowest_edge_guards_negative_index.

(* routine delivery: the annual probability is converted with the BARE sim dt: correct when the sim unit is the year ... *)
Open Scope R_scope.
Theorem C16_routine_prob_compounds_over_a_year_if_unit_is_year : forall p dt, 0 <= p < 1 -> 0 < dt ->
  1 - Rpower (1 - routine_prob_gen p dt) (/ dt) = p.
Proof. exact routine_compounds. Qed.
Print Assumptions C16_routine_prob_compounds_over_a_year_if_unit_is_year.
(* ... and unit-blind otherwise: with unit = day and dt = 1 the per-step (daily) probability IS the annual one *)
Theorem C16_routine_prob_unit_blind_refuted : forall p, 0 <= p < 1 -> routine_prob_gen p 1 = p.
Proof. exact routine_unit_blind. Qed.
Print Assumptions C16_routine_prob_unit_blind_refuted.
Close Scope R_scope.

Example C16_nonvacuous :
  (exists p, death_prob false 20 (1 # 1000) 1 UDay 73 = Ok p /\ p == (20 # 1000) * (73 * 4 # 1461)) /\
  exists p, death_prob true 20 (1 # 1000) 1 UYear (1 # 5) = Ok p /\ p == (1 # 1250).
Proof. split; eexists; split; vm_compute; reflexivity. Qed.

Open Scope R_scope.
(* transmission on sexual networks (generated from SexualNetwork.net_beta): with a per-act probability the hazard per unit time does not depend on the
   step, and the steps of one unit of time compound to 1 - (1-b)^acts *)
Theorem C16_sexual_network_hazard_step_free : forall b acts dt, 0 <= b < 1 -> 0 < dt -> - ln (1 - sexual_net_beta_gen 1 b acts dt) / dt = acts * - ln (1 - b).
Proof. exact sexual_hazard_step_free. Qed.
Theorem C16_sexual_network_compounds_over_a_unit_of_time : forall b acts dt, 0 <= b < 1 -> 0 < dt -> Rpower (1 - sexual_net_beta_gen 1 b acts dt) (/ dt) = Rpower (1 - b) acts.
Proof. exact sexual_compounds. Qed.
(* a beta that is already converted to the step (ss.beta) is converted a second time: hazard proportional to the step (listed finding sexual-network-beta-double-dt) *)
Theorem C16_sexual_network_time_scaled_beta_double_dt : forall b acts dt, 0 <= b < 1 -> 0 < dt ->
  - ln (1 - sexual_net_beta_gen 1 (beta_per_step b dt) acts dt) / dt = dt * (acts * - ln (1 - b)).
Proof. exact sexual_hazard_time_scaled. Qed.
Theorem C16_sexual_network_time_scaled_beta_refuted : exists b acts dt1 dt2, 0 <= b < 1 /\ 0 < dt1 /\ 0 < dt2 /\
  - ln (1 - sexual_net_beta_gen 1 (beta_per_step b dt1) acts dt1) / dt1 <> - ln (1 - sexual_net_beta_gen 1 (beta_per_step b dt2) acts dt2) / dt2.
Proof. exact sexual_time_scaled_refuted. Qed.
Print Assumptions C16_sexual_network_hazard_step_free. Print Assumptions C16_sexual_network_compounds_over_a_unit_of_time.
Print Assumptions C16_sexual_network_time_scaled_beta_double_dt. Print Assumptions C16_sexual_network_time_scaled_beta_refuted.
Close Scope R_scope.
