(* C13 -- Disease compartments partition the living and follow allowed moves.  Statements only.
   The per-disease machines are DEFINED FROM the scripts of selector definitions and flag updates regenerated from
   starsim/diseases/*.py (Gen/Gen_Compart.v); partitions, subset relations and arrow sets are the hand-written specification. *)
From SS Require Import Model.Prelude Model.L5_CompartBase Gen.Gen_Compart Model.L5_Compart Proofs.P_Compart.
From Coq Require Import String List.
Open Scope string_scope.

(* general form: valid in, valid out, along an allowed arrow -- for every flag valuation and every truth assignment of the time conditions *)
Theorem C13_live_step_preserves_partition : forall sp m, check_live sp m = true ->
  forall st cv, map fst st = s_flags sp -> map fst cv = dedup_str (sels_of (method_script sp m)) ->
  valid sp st = true -> coupled sp cv = true ->
  exists st', run_script (method_script sp m) cv st = Some st' /\ valid sp st' = true /\ arrow_ok sp (comp sp st) (comp sp st') = true.
Proof. exact check_live_sound. Qed.
Print Assumptions C13_live_step_preserves_partition.

Theorem C13_death_clears_all_flags : forall sp, check_die sp = true -> forall st, map fst st = s_flags sp -> valid sp st = true ->
  (exists st', run_script (script_gen (s_name sp) "step_die") [("uids", true)] st = Some st' /\ all_clear sp st' = true) /\
  (exists st', run_script (script_gen (s_name sp) "step_die") [("uids", false)] st = Some st' /\
               forall k, In k (s_flags sp) -> getv st' k = getv st k).
Proof. exact check_die_sound. Qed.
Print Assumptions C13_death_clears_all_flags.

(* the instances, for the scripts generated from the current source *)
Theorem C13_SIR : check_live spec_SIR "step_state" = true /\ check_live spec_SIR "set_prognoses" = true /\ check_die spec_SIR = true.
Proof. exact live_SIR. Qed.
Theorem C13_SIS : check_live spec_SIS "step_state" = true /\ check_live spec_SIS "set_prognoses" = true.
Proof. exact live_SIS. Qed.
Theorem C13_Measles : check_live spec_Measles "step_state" = true /\ check_live spec_Measles "set_prognoses" = true /\ check_die spec_Measles = true.
Proof. exact live_Measles. Qed.
Theorem C13_Ebola : check_live spec_Ebola "step_state" = true /\ check_live spec_Ebola "set_prognoses" = true /\ check_die spec_Ebola = true.
Proof. exact live_Ebola. Qed.
Theorem C13_Cholera : check_live spec_Cholera "step_state" = true /\ check_live spec_Cholera "set_prognoses" = true /\ check_die spec_Cholera = true.
Proof. exact live_Cholera. Qed.
Theorem C13_Gonorrhea : check_live spec_Gonorrhea "step_state" = true /\ check_live spec_Gonorrhea "set_prognoses" = true.
Proof. exact live_Gonorrhea. Qed.
Theorem C13_Syphilis : check_live spec_Syphilis "step_state" = true /\ check_live spec_Syphilis "set_prognoses" = true.
Proof. exact live_Syphilis. Qed.
Theorem C13_HIV : check_live spec_HIV "step_state" = true /\ check_live spec_HIV "set_prognoses" = true.
Proof. exact live_HIV. Qed.
Print Assumptions C13_SIR. Print Assumptions C13_SIS. Print Assumptions C13_Measles. Print Assumptions C13_Ebola.
Print Assumptions C13_Cholera. Print Assumptions C13_Gonorrhea. Print Assumptions C13_HIV. Print Assumptions C13_Syphilis.

(* no return to susceptible where immunity is permanent: no allowed arrow leads back *)
Theorem C13_no_return_to_susceptible : forall sp a, no_return sp = true -> a <> "susceptible" -> arrow_ok sp a "susceptible" = false.
Proof. exact arrow_no_return. Qed.
Print Assumptions C13_no_return_to_susceptible.
Theorem C13_permanent_immunity_models : no_return spec_SIR = true /\ no_return spec_Measles = true /\ no_return spec_Ebola = true /\ no_return spec_Cholera = true /\ no_return spec_HIV = true /\ no_return spec_Syphilis = true.
Proof. exact no_return_SIR_like. Qed.
Print Assumptions C13_permanent_immunity_models.

Example C13_nonvacuous :
  let st := [("susceptible", false); ("exposed", true); ("infected", false); ("recovered", false)] in
  valid spec_Measles st = true /\
  run_script (method_script spec_Measles "step_state") [("self.ti_infected <= ti", true); ("self.ti_recovered <= ti", false); ("self.ti_dead <= ti", false)] st
    = Some [("susceptible", false); ("exposed", false); ("infected", true); ("recovered", false)].
Proof. vm_compute. split; reflexivity. Qed.
