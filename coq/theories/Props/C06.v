(* C06 -- Time-unit conversion preserves physical quantities.
   Statements only; every proof is `exact <lemma>` from Proofs/P_Time*.v, which are about the
   definitions REGENERATED from starsim/time.py (Gen/Gen_Time.v). *)
From SS Require Import Model.Prelude Model.L3_Units Gen.Gen_Time Gen.Gen_Crude Model.L3_TimePar Proofs.P_Time Proofs.P_TimeR.
From Coq Require Import QArith Reals.

(* the unit table is the physical one *)
Theorem C06_units_physical :
  time_units_gen UDay = Some 1%Q /\ time_units_gen UWeek = Some 7%Q /\
  time_units_gen UYear = Some (1461 # 4)%Q /\
  exists m, time_units_gen UMonth = Some m /\ m == (1461 # 4) / 12.
Proof. repeat split; try reflexivity. eexists; split; reflexivity. Qed.
Print Assumptions C06_units_physical.

Theorem C06_ratio_formula : forall u1 d1 u2 d2,
  has_units u1 = true -> has_units u2 = true -> ~ d2 == 0 ->
  exists r, time_ratio_gen u1 d1 u2 d2 = Ok r /\ r == (d1 / d2) * (unit_days u1 / unit_days u2).
Proof. exact time_ratio_spec. Qed.
Print Assumptions C06_ratio_formula.

Theorem C06_ratio_reciprocal : forall u1 d1 u2 d2 r12 r21,
  has_units u1 = true -> has_units u2 = true -> ~ d1 == 0 -> ~ d2 == 0 ->
  time_ratio_gen u1 d1 u2 d2 = Ok r12 -> time_ratio_gen u2 d2 u1 d1 = Ok r21 -> r12 * r21 == 1.
Proof. exact ratio_recip. Qed.
Print Assumptions C06_ratio_reciprocal.

Theorem C06_ratio_transitive : forall u1 d1 u2 d2 u3 d3 r12 r23 r13,
  has_units u1 = true -> has_units u2 = true -> has_units u3 = true -> ~ d2 == 0 -> ~ d3 == 0 ->
  time_ratio_gen u1 d1 u2 d2 = Ok r12 -> time_ratio_gen u2 d2 u3 d3 = Ok r23 ->
  time_ratio_gen u1 d1 u3 d3 = Ok r13 -> r12 * r23 == r13.
Proof. exact ratio_trans. Qed.
Print Assumptions C06_ratio_transitive.

Theorem C06_ratio_refl : forall u d, time_ratio_gen u d u d = Ok 1%Q.
Proof. exact ratio_refl. Qed.
Print Assumptions C06_ratio_refl.

Theorem C06_ratio_rejects_mixed : forall u1 d1 u2 d2,
  u1 <> u2 -> ~ d2 == 0 -> (u1 = UUnitless \/ u2 = UUnitless \/ u1 = UNone \/ u2 = UNone) ->
  time_ratio_gen u1 d1 u2 d2 = Err EValue.
Proof. exact ratio_rejects_unitless. Qed.
Print Assumptions C06_ratio_rejects_mixed.
(* a zero step length to convert to is rejected as a division by zero (the generated definitions guard every division as Python does) *)
Theorem C06_ratio_rejects_zero_dt : forall u1 d1 u2, ~ d1 == 0 -> time_ratio_gen u1 d1 u2 0 = Err EZeroDiv.
Proof. exact ratio_zero_dt. Qed.
Print Assumptions C06_ratio_rejects_zero_dt.

Theorem C06_dur_physical : forall p y, tp_ok p -> tp_kind_of p = KDur -> tp_values p = Ok y ->
  y * (tp_parent_dt p * unit_days (tp_parent_unit p)) == tp_v p * (tp_self_dt p * unit_days (tp_unit p)).
Proof. exact dur_physical. Qed.
Print Assumptions C06_dur_physical.

Theorem C06_rate_physical : forall p y, tp_ok p -> tp_kind_of p = KRate -> tp_values p = Ok y ->
  y * (tp_self_dt p * unit_days (tp_unit p)) == tp_v p * (tp_parent_dt p * unit_days (tp_parent_unit p)).
Proof. exact rate_physical. Qed.
Print Assumptions C06_rate_physical.

Theorem C06_values_total : forall p, tp_ok p -> exists y, tp_values p = Ok y.
Proof. exact tp_values_total. Qed.
Print Assumptions C06_values_total.

Theorem C06_to_compose : forall p u d u0 d0 q q2 q3,
  has_units (tp_unit p) = true -> has_units u = true -> has_units u0 = true ->
  0 < tp_self_dt p -> 0 < d -> 0 < d0 ->
  tp_to p u (Some d) = Ok q -> tp_to q u0 (Some d0) = Ok q2 -> tp_to p u0 (Some d0) = Ok q3 ->
  tp_v q2 == tp_v q3.
Proof. exact to_compose. Qed.
Print Assumptions C06_to_compose.

Theorem C06_to_roundtrip : forall p u d q q2,
  has_units (tp_unit p) = true -> has_units u = true -> 0 < tp_self_dt p -> 0 < d ->
  tp_to p u (Some d) = Ok q -> tp_to q (tp_unit p) (Some (tp_self_dt p)) = Ok q2 ->
  tp_v q2 == tp_v p /\ tp_unit q2 = tp_unit p /\ tp_self_dt q2 = tp_self_dt p.
Proof. exact to_roundtrip. Qed.
Print Assumptions C06_to_roundtrip.

Theorem C06_mul_rescales : forall p k y, tp_ok p -> tp_values p = Ok y ->
  exists y', tp_values (tp_mul p k) = Ok y' /\ y' == y * k.
Proof. exact tp_mul_values. Qed.
Print Assumptions C06_mul_rescales.

Theorem C06_neg_rescales : forall p y, tp_ok p -> tp_values p = Ok y ->
  exists y', tp_values (tp_neg p) = Ok y' /\ y' == - y.
Proof. exact tp_neg_values. Qed.
Print Assumptions C06_neg_rescales.

(* ---- probabilities (over R; standard real-number axioms) ---- *)
Open Scope R_scope.

Theorem C06_time_prob_compound : forall v f y, 0 < v < 1 -> f <> 0 ->
  time_prob_values_gen v f = Ok y -> 1 - Rpower (1 - y) f = v.
Proof. exact time_prob_compound. Qed.
Print Assumptions C06_time_prob_compound.

Theorem C06_time_prob_endpoints : forall f, time_prob_values_gen 0 f = Ok 0 /\ time_prob_values_gen 1 f = Ok 1.
Proof. intro f; split; [exact (tpv_zero f) | exact (tpv_one f)]. Qed.
Print Assumptions C06_time_prob_endpoints.

Theorem C06_time_prob_range : forall v f y, 0 <= v <= 1 -> 0 < f -> time_prob_values_gen v f = Ok y -> 0 <= y <= 1.
Proof. exact time_prob_range. Qed.
Print Assumptions C06_time_prob_range.

Theorem C06_time_prob_total : forall v f, 0 <= v <= 1 -> exists y, time_prob_values_gen v f = Ok y.
Proof. exact tpv_total. Qed.
Print Assumptions C06_time_prob_total.

Theorem C06_time_prob_monotone_in_dt : forall v f1 f2 y1 y2, 0 <= v <= 1 -> 0 < f1 <= f2 ->
  time_prob_values_gen v f1 = Ok y1 -> time_prob_values_gen v f2 = Ok y2 -> y2 <= y1.
Proof. exact time_prob_mono. Qed.
Print Assumptions C06_time_prob_monotone_in_dt.

Theorem C06_time_prob_rejects : forall v f, v < 0 \/ 1 < v -> time_prob_values_gen v f = Err EValue.
Proof. exact tpv_reject. Qed.
Print Assumptions C06_time_prob_rejects.

Theorem C06_time_prob_roundtrip : forall v f y1 y2, 0 <= v <= 1 -> 0 < f ->
  time_prob_values_gen v f = Ok y1 -> time_prob_values_gen y1 (/ f) = Ok y2 -> y2 = v.
Proof. exact time_prob_roundtrip. Qed.
Print Assumptions C06_time_prob_roundtrip.

Theorem C06_time_prob_compose : forall v f1 f2 y1 y2, 0 <= v <= 1 -> 0 < f1 -> 0 < f2 ->
  time_prob_values_gen v f1 = Ok y1 -> time_prob_values_gen y1 f2 = Ok y2 ->
  time_prob_values_gen v (f1 * f2) = Ok y2.
Proof. exact time_prob_compose. Qed.
Print Assumptions C06_time_prob_compose.

Theorem C06_rate_prob_formula : forall v f y, 0 <= v -> f <> 0 -> rate_prob_values_gen v f = Ok y -> y = 1 - exp (- (v * / f)).
Proof. exact rate_prob_formula. Qed.
Print Assumptions C06_rate_prob_formula.

Theorem C06_rate_prob_range : forall v f y, 0 <= v -> 0 < f -> rate_prob_values_gen v f = Ok y -> 0 <= y < 1.
Proof. exact rate_prob_range. Qed.
Print Assumptions C06_rate_prob_range.

Theorem C06_rate_prob_monotone_in_dt : forall v f1 f2 y1 y2, 0 <= v -> 0 < f1 <= f2 ->
  rate_prob_values_gen v f1 = Ok y1 -> rate_prob_values_gen v f2 = Ok y2 -> y2 <= y1.
Proof. exact rate_prob_mono. Qed.
Print Assumptions C06_rate_prob_monotone_in_dt.

Theorem C06_rate_prob_rejects : forall v f, v < 0 -> rate_prob_values_gen v f = Err EValue.
Proof. exact rpv_reject. Qed.
Print Assumptions C06_rate_prob_rejects.

(* ---- non-vacuity: concrete parameters meeting the hypotheses ---- *)
Close Scope R_scope.
Example C06_nonvacuous_dur :
  let p := mkTP KDur (10#1) UDay 1 UWeek (1#2) in
  tp_ok p /\ exists y, tp_values p = Ok y /\ y == (20 # 7).
Proof. cbn. split; [repeat split; reflexivity|]. eexists; split; [reflexivity|reflexivity]. Qed.

Example C06_nonvacuous_to :
  exists q, tp_to (mkTP KRate (3#1) UYear 1 UYear 1) UMonth (Some 2) = Ok q /\ tp_v q == (1 # 2).
Proof. eexists; split; [reflexivity|reflexivity]. Qed.

(* "arithmetic rescales consistently" is refuted for addition: x + c adds c to the converted values, x += c adds c to v in the parameter's own unit
   (ss.dur(3, 'week') on a daily parent: x + 1 = 22 steps, after x += 1 the parameter is 28 steps) -- listed finding inplace-add-uses-own-unit *)
Theorem C06_inplace_add_differs_refuted : exists p c y1 y2, tp_add p c = Ok y1 /\ tp_values (tp_iadd p c) = Ok y2 /\ ~ y1 == y2.
Proof. exact inplace_add_differs_refuted. Qed.
Print Assumptions C06_inplace_add_differs_refuted.
(* a per-step count divided by the step length of the module that counted it gives the rate in its own unit, whatever the sim's step; every
   crude-rate site of the CURRENT source divides by the module's own step (generated table); dividing by the sim's step is off by mdt / sdt
   (the defect repaired in Births / Deaths / Pregnancy: a yearly Births in a daily sim reported 365.25 times its rate) *)
Theorem C06_crude_rate_own_step : forall rate alive units dt, 0 < alive -> 0 < units -> 0 < dt -> crude_rate (rate * units * dt * alive) alive units dt == rate.
Proof. exact crude_rate_own_step. Qed.
Theorem C06_crude_rate_reported_own : forall rate alive units sdt mdt, 0 < alive -> 0 < units -> 0 < mdt ->
  crude_rate_reported true (rate * units * mdt * alive) alive units sdt mdt == rate.
Proof. exact crude_rate_reported_own. Qed.
Theorem C06_crude_rate_sites_divide_by_own_step : forallb snd crude_rate_divisor_gen = true.
Proof. reflexivity. Qed.
Theorem C06_crude_rate_reported_sim_step_scaled : forall rate alive units sdt mdt, 0 < alive -> 0 < units -> 0 < sdt -> 0 < mdt ->
  crude_rate_reported false (rate * units * mdt * alive) alive units sdt mdt == rate * (mdt / sdt).
Proof. exact crude_rate_reported_sim_step_scaled. Qed.
Theorem C06_crude_rate_reported_sim_step_refuted : exists rate alive units sdt mdt, 0 < alive /\ 0 < units /\ 0 < sdt /\ 0 < mdt /\
  ~ crude_rate_reported false (rate * units * mdt * alive) alive units sdt mdt == rate.
Proof. exact crude_rate_reported_sim_step_refuted. Qed.
Print Assumptions C06_crude_rate_own_step. Print Assumptions C06_crude_rate_reported_own. Print Assumptions C06_crude_rate_sites_divide_by_own_step.
Print Assumptions C06_crude_rate_reported_sim_step_scaled. Print Assumptions C06_crude_rate_reported_sim_step_refuted.
