(* C15 -- Reported results are exact counts, sums and scalings of agent state.  Statements only.
   The slice bounds of the cumulative sums, the prevalence expression and pop_scale/total_pop are REGENERATED. *)
From SS Require Import Model.Prelude Gen.Gen_Results Model.L5_Results Proofs.P_Results.
From Coq Require Import List QArith.
Local Open Scope nat_scope.

(* count results are the number of active agents in the state (by definition of the recorded expression) *)
Theorem C15_count_exact : forall flag au, count_state flag au = length (filter flag au).
Proof. reflexivity. Qed.
Print Assumptions C15_count_exact.

Theorem C15_prevalence_range : forall infected alive au, (forall u, In u au -> infected u = true -> alive u = true) ->
  0 < count_state alive au -> (0 <= prevalence infected alive au <= 1)%Q.
Proof. exact prevalence_range. Qed.
Print Assumptions C15_prevalence_range.

(* cumulative infections: running sum INCLUDING the current step *)
Theorem C15_cum_infections_running_sum : forall new ti, cum_at cum_infections_upper_gen new ti = running_sum new ti.
Proof. exact cum_incl_is_running_sum. Qed.
Print Assumptions C15_cum_infections_running_sum.

Theorem C15_running_sum_recurrence : forall new ti, S ti < length new ->
  (running_sum new (S ti) == running_sum new ti + nth (S ti) new 0)%Q.
Proof. exact running_sum_step. Qed.
Print Assumptions C15_running_sum_recurrence.

(* the sim-level cumulative deaths series is recorded with the bound [:ti]: it is the running sum of the PREVIOUS step *)
Theorem C15_cum_deaths_lags_one_step : forall new ti, cum_at cum_deaths_upper_gen new (S ti) = running_sum new ti.
Proof. exact cum_deaths_lags. Qed.
Print Assumptions C15_cum_deaths_lags_one_step.

Theorem C15_cum_deaths_refuted : exists new ti, ~ (cum_at cum_deaths_upper_gen new ti == running_sum new ti)%Q.
Proof. exact cum_deaths_lag_refuted. Qed.
Print Assumptions C15_cum_deaths_refuted.

(* scaling multiplies exactly the scalable results, leaves the others untouched *)
Theorem C15_scale_only_scalable : forall s rs r, In r (finalize_results s rs) ->
  exists r0, In r0 rs /\ r_scale r = r_scale r0 /\ r_vals r = if r_scale r0 then map (Qmult s) (r_vals r0) else r_vals r0.
Proof. exact scale_only_scalable. Qed.
Print Assumptions C15_scale_only_scalable.

Theorem C15_pop_scale_total_pop_consistent : forall total_pop n s, ~ (n == 0)%Q ->
  (total_pop_gen (pop_scale_gen total_pop n) n == total_pop)%Q /\ (pop_scale_gen (total_pop_gen s n) n == s)%Q.
Proof. intros; split; [apply pop_scale_two_forms|apply pop_scale_from_scale]; assumption. Qed.
Print Assumptions C15_pop_scale_total_pop_consistent.

Theorem C15_cumsum_commutes_with_scaling : forall s new ti, (running_sum (map (Qmult s) new) ti == s * running_sum new ti)%Q.
Proof. exact cumsum_commutes_with_scaling. Qed.
Print Assumptions C15_cumsum_commutes_with_scaling.

Example C15_nonvacuous :
  cum_series cum_infections_upper_gen [3; 0; 2; 5]%Q = [3; 3 + 0; 3 + (0 + 2); 3 + (0 + (2 + 5))]%Q /\
  r_vals (scale_result 10 (mkRes true [1; 2]%Q)) = [10 * 1; 10 * 2]%Q /\ r_vals (scale_result 10 (mkRes false [1#2]%Q)) = [1#2]%Q.
Proof. cbn. repeat split; try reflexivity. Qed.

(* the hypothesis of C15_prevalence_range (infected agents are alive) cannot be dropped: SIS, HIV, Gonorrhea and NCD keep the flags of agents who died in the
   current step, who are still active when the results are recorded (listed finding n-infected-counts-agents-who-died-this-step) *)
Theorem C15_prevalence_above_one_refuted : exists infected alive au, (0 < count_state alive au)%nat /\ (1 < prevalence infected alive au)%Q.
Proof. exact prevalence_above_one_refuted. Qed.
Print Assumptions C15_prevalence_above_one_refuted.
