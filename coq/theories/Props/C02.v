(* C02 -- Independent components never perturb each other's random streams.  Statements only.  Same abstract machine as C01: a component sees
   only the draws of the distributions named after it (trace = name ++ suffix; seed = sha(trace) + base: pinned), never those of another. *)
From SS Require Import Model.Prelude Gen.Gen_Dist Gen.Gen_Sim Model.L6_Sim Proofs.P_Sim.
From Coq Require Import String List ZArith.

(* a component that only reads the shared state and samples its own distributions -- an analyzer, a zero-coverage or zero-efficacy intervention, a
   ghost -- inserted at ANY position of the module list leaves every other component's private state and the shared state identical, after any
   number of steps *)
Theorem C02_sampling_only_component_is_invisible : forall (shared mstate draws gstate : Type) (stream : Z -> nat -> nat -> draws) (offset : string -> Z) base perturb c,
  sampling_only shared mstate draws gstate c -> forall n ti i cs ms m s g, List.length ms = List.length cs -> (i <= List.length cs)%nat ->
  exists m', run shared mstate draws gstate stream offset base perturb (insert_at i c cs) n ti (insert_at i m ms) s g =
             (let '(ms1, s1, g1) := run shared mstate draws gstate stream offset base perturb cs n ti ms s g in (insert_at i m' ms1, s1, g1)).
Proof. exact ghost_noninterference. Qed.
Print Assumptions C02_sampling_only_component_is_invisible.
(* two independent components (neither sees the other's effects) may be listed in either order *)
Theorem C02_independent_components_commute : forall (shared mstate draws gstate : Type) (stream : Z -> nat -> nat -> draws) (offset : string -> Z) base ti c1 c2,
  independent shared mstate draws gstate c1 c2 -> forall pre cs mpre m1 m2 ms s g, List.length mpre = List.length pre ->
  snd (fst (step_all shared mstate draws gstate stream offset base ti (pre ++ c1 :: c2 :: cs) (mpre ++ m1 :: m2 :: ms) s g)) =
  snd (fst (step_all shared mstate draws gstate stream offset base ti (pre ++ c2 :: c1 :: cs) (mpre ++ m2 :: m1 :: ms) s g)).
Proof. exact independent_order_irrelevant. Qed.
Print Assumptions C02_independent_components_commute.
