(* C02 -- Independent components never perturb each other's random streams.  Statements only.  Same abstract machine as C01: a component sees
   only the draws of the distributions named after it (trace = name ++ suffix; seed = sha(trace) + base: pinned), never those of another. *)
From SS Require Import Model.Prelude Gen.Gen_Dist Gen.Gen_Sim Model.L6_Sim Proofs.P_Sim.
From Coq Require Import String List ZArith.

(* a component that only reads the shared state and samples its own distributions -- an analyzer, a zero-coverage or zero-efficacy intervention, a
   ghost -- inserted at ANY position of the module list leaves every other component's private state and the shared state identical, after any
   number of steps *)
Theorem C02_sampling_only_component_is_invisible : forall (shared mstate draws gstate : Type) (stream : Z -> nat -> nat -> draws) (offset : string -> Z) base perturb c,
  sampling_only shared mstate draws gstate c -> forall n ti i cs ms m s g, List.length ms = List.length cs -> (i <= List.length cs)%nat ->
  exists m', run shared mstate draws gstate stream offset base perturb (insert_at i c cs) n ti (insert_at i m ms) s g =
             (let '(ms1, s1, g1) := run shared mstate draws gstate stream offset base perturb cs n ti ms s g in (insert_at i m' ms1, s1, g1)).
Proof. exact ghost_noninterference. Qed.
Print Assumptions C02_sampling_only_component_is_invisible.
(* two independent components (neither sees the other's effects) may be listed in either order *)
Theorem C02_independent_components_commute : forall (shared mstate draws gstate : Type) (stream : Z -> nat -> nat -> draws) (offset : string -> Z) base ti c1 c2,
  independent shared mstate draws gstate c1 c2 -> forall pre cs mpre m1 m2 ms s g, List.length mpre = List.length pre ->
  snd (fst (step_all shared mstate draws gstate stream offset base ti (pre ++ c1 :: c2 :: cs) (mpre ++ m1 :: m2 :: ms) s g)) =
  snd (fst (step_all shared mstate draws gstate stream offset base ti (pre ++ c2 :: c1 :: cs) (mpre ++ m2 :: m1 :: ms) s g)).
Proof. exact independent_order_irrelevant. Qed.
Print Assumptions C02_independent_components_commute.

(* a sufficient condition that can be read off two components: when the shared state is a family of named arrays and each component has a read
   set and a write set (it writes only W, its outputs depend only on R, it leaves the process-wide generator alone), disjoint footprints --
   W1 disjoint from W2 and R2, W2 disjoint from R1 -- make the two orders agree on both private states, on every array, and on the generator *)
Theorem C02_disjoint_footprints_commute : forall (V mstate draws gstate : Type) (c1 c2 : comp (string -> V) mstate draws gstate) R1 W1 R2 W2,
  footprint V mstate draws gstate c1 R1 W1 -> footprint V mstate draws gstate c2 R2 W2 ->
  (forall k, W1 k = true -> W2 k = false /\ R2 k = false) -> (forall k, W2 k = true -> R1 k = false) ->
  forall d1 d2 ti m1 m2 s g,
    let r1 := cstep _ _ _ _ c1 d1 ti m1 s g in let r12 := cstep _ _ _ _ c2 d2 ti m2 (shr V mstate gstate r1) (gst V mstate gstate r1) in
    let q2 := cstep _ _ _ _ c2 d2 ti m2 s g in let q21 := cstep _ _ _ _ c1 d1 ti m1 (shr V mstate gstate q2) (gst V mstate gstate q2) in
    mst V mstate gstate r1 = mst V mstate gstate q21 /\ mst V mstate gstate r12 = mst V mstate gstate q2 /\
    (forall k, shr V mstate gstate r12 k = shr V mstate gstate q21 k) /\ gst V mstate gstate r12 = gst V mstate gstate q21.
Proof. exact disjoint_footprints_commute. Qed.
Print Assumptions C02_disjoint_footprints_commute.

(* the naming mechanism behind "trace = path of the distribution inside the sim, so new paths never shift old ones": a component enumerated LATER by the
   object search (an analyzer or connector, or any module appended to its container) never renames -- hence never re-seeds -- a distribution reached earlier,
   and a component enumerated EARLIER does not either as long as none of its paths reaches that distribution ... *)
Theorem C02_later_paths_never_rename : forall i l l', In i (map snd l) -> name_of i (l ++ l') = name_of i l.
Proof. exact name_of_later_paths. Qed.
Theorem C02_earlier_unrelated_paths_never_rename : forall i l l', ~ In i (map snd l') -> name_of i (l' ++ l) = name_of i l.
Proof. exact name_of_earlier_unrelated_paths. Qed.
(* ... but an earlier component that merely holds a reference to a later module does (listed finding reference-holder-renames-dists) *)
Theorem C02_earlier_reference_renames_refuted : exists l l' i, In i (map snd l) /\ name_of i (l' ++ l) <> name_of i l.
Proof. exact name_of_earlier_reference_renames. Qed.
Print Assumptions C02_later_paths_never_rename. Print Assumptions C02_earlier_unrelated_paths_never_rename. Print Assumptions C02_earlier_reference_renames_refuted.
