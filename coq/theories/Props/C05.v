(* C05 -- Each distribution samples the law its parameters describe.  Statements only (over R).
   The maps from the uniform stream to the variates that starsim itself defines -- uniform, the per-agent path of randint (scaled uniform; np.floor pinned), Bernoulli, the
   explicit-to-implicit lognormal parameters, the time-unit scaling -- are REGENERATED from distributions.py / time.py (Gen/Gen_Law.v, Gen_Time.v).
   The quantile functions of the other families are SciPy's (pinned by family and parameter names) and are compared on the implementation. *)
From SS Require Import Model.Prelude Model.L3_Units Gen.Gen_Time Gen.Gen_Law Proofs.P_Law Model.L1_Choice Proofs.P_Choice.
From Coq Require Import Reals QArith.
Local Open Scope R_scope.

Theorem C05_uniform_support : forall u low high, 0 <= u < 1 -> low < high -> low <= uniform_ppf_gen u low high < high.
Proof. exact uniform_range. Qed.
Theorem C05_uniform_law : forall u low high x, low < high -> (uniform_ppf_gen u low high <= x <-> u <= (x - low) / (high - low)).
Proof. exact uniform_quantile. Qed.
Print Assumptions C05_uniform_support. Print Assumptions C05_uniform_law.

Theorem C05_randint_support : forall u low high, 0 <= u < 1 -> low < high -> low <= randint_ppf_gen u low high < high.
Proof. exact randint_range. Qed.
Theorem C05_randint_integer_range_half_open : forall u (low high : Z), 0 <= u < 1 -> (low < high)%Z ->
  (low <= Int_part (randint_ppf_gen u (IZR low) (IZR high)) < high)%Z.
Proof. exact randint_floor_range. Qed.
Print Assumptions C05_randint_support. Print Assumptions C05_randint_integer_range_half_open.

Theorem C05_bernoulli_law : forall u p, bernoulli_gen u p = true <-> u < p.
Proof. exact bernoulli_spec. Qed.
Theorem C05_bernoulli_monotone_in_p : forall u p p', p <= p' -> bernoulli_gen u p = true -> bernoulli_gen u p' = true.
Proof. exact bernoulli_monotone. Qed.
Theorem C05_bernoulli_extremes : (forall u p, 0 <= u -> p <= 0 -> bernoulli_gen u p = false) /\ (forall u p, u < 1 -> 1 <= p -> bernoulli_gen u p = true).
Proof. split; [exact bernoulli_never|exact bernoulli_always]. Qed.
Print Assumptions C05_bernoulli_law. Print Assumptions C05_bernoulli_monotone_in_p. Print Assumptions C05_bernoulli_extremes.

(* explicit lognormal: with the generated implicit parameters, exp(mu + sigma^2/2) = mean and (exp(sigma^2) - 1) exp(2 mu + sigma^2) = std^2 *)
Theorem C05_lognorm_ex_mean : forall m s, 0 < m -> 0 < s -> exp (lognorm_mu_gen m s + (lognorm_sigma_gen m s) ^ 2 / 2) = m.
Proof. exact lognorm_ex_mean. Qed.
Theorem C05_lognorm_ex_variance : forall m s, 0 < m -> 0 < s ->
  (exp ((lognorm_sigma_gen m s) ^ 2) - 1) * exp (2 * lognorm_mu_gen m s + (lognorm_sigma_gen m s) ^ 2) = s ^ 2.
Proof. exact lognorm_ex_variance. Qed.
Print Assumptions C05_lognorm_ex_mean. Print Assumptions C05_lognorm_ex_variance.

(* a time-unit-wrapped parameter scales the variates by exactly the unit conversion factor *)
Theorem C05_duration_variates_scaled : forall v f, dur_values_gen v f = Ok (v * f)%Q.
Proof. exact dur_scaling. Qed.
Theorem C05_rate_variates_scaled : forall v f, ~ (f == 0)%Q -> rate_values_gen v f = Ok (v / f)%Q.
Proof. exact rate_scaling. Qed.
Print Assumptions C05_duration_variates_scaled. Print Assumptions C05_rate_variates_scaled.

(* discrete choice with probabilities p (NumPy's Generator.choice as called by ss.choice: normalised cumulative sums, searchsorted side='right'):
   every uniform in [0,1) selects an existing option, and option i is selected exactly on an interval of length p_i / sum(p) -- the whole law *)
Theorem C05_choice_selects_an_option : forall p u, all_nonneg p -> (0 < total p)%Q -> (0 <= u < 1)%Q -> (choice_np_norm p u < length p)%nat.
Proof. exact np_norm_in_range. Qed.
Theorem C05_choice_law : forall p u i, all_nonneg p -> (0 < total p)%Q -> (0 <= u)%Q -> (i < length p)%nat ->
  (choice_np_norm p u = i <-> (psum i p / total p <= u < psum (S i) p / total p)%Q).
Proof. exact np_norm_law. Qed.
Theorem C05_choice_mass : forall p i, (0 < total p)%Q -> (i < length p)%nat -> (psum (S i) p / total p - psum i p / total p == nth i p 0 / total p)%Q.
Proof. exact np_norm_mass. Qed.
(* ss.choice.ppf (searchsorted side='left') selects the same option except on the cdf points themselves *)
Theorem C05_choice_ppf_law : forall p u i, all_nonneg p -> (0 < u)%Q -> (i < length p)%nat -> (choice_ppf p u = i <-> (psum i p < u <= psum (S i) p)%Q).
Proof. exact ppf_law. Qed.
Print Assumptions C05_choice_selects_an_option. Print Assumptions C05_choice_law. Print Assumptions C05_choice_mass. Print Assumptions C05_choice_ppf_law.
Example C05_choice_nonvacuous : all_nonneg [1#5; 3#10; 1#2]%Q /\ (0 < total [1#5; 3#10; 1#2])%Q /\ choice_np_norm [1#5; 3#10; 1#2]%Q (3#5)%Q = 2%nat /\ choice_np_norm [1#5; 3#10; 1#2]%Q (1#5)%Q = 1%nat /\ choice_ppf [1#5; 3#10; 1#2]%Q (1#5)%Q = 0%nat.
Proof. repeat split; try (repeat constructor; discriminate); reflexivity. Qed.
