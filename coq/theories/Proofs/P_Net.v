(* Proofs about contact-network maintenance (L5). *)
From SS Require Import Model.Prelude Gen.Gen_Net Model.L5_Net.
From Coq Require Import Lia List Permutation QArith Lqa.
Local Open Scope nat_scope.

Lemma Qgtb_intro' a b : (b < a)%Q -> Qgtb a b = true.
Proof. unfold Qgtb. intros H. destruct (Qle_bool a b) eqn:E; [|reflexivity]. apply Qle_bool_iff in E. exfalso. apply (Qlt_not_le _ _ H E). Qed.

Lemma memb_in x l : memb x l = true <-> In x l.
Proof.
  unfold memb. rewrite existsb_exists. split; [intros [y [Hy E]]; apply Nat.eqb_eq in E; subst; exact Hy|].
  intros H; exists x; split; [exact H|apply Nat.eqb_refl].
Qed.

(* removed agents vanish from the network; all other edges are kept, in order *)
Theorem remove_uids_spec es us e : In e (remove_uids es us) <-> In e es /\ ~ In (d_p1 e) us /\ ~ In (d_p2 e) us.
Proof.
  unfold remove_uids. rewrite filter_In. split.
  - intros [H K]. split; [exact H|]. apply negb_true_iff, orb_false_iff in K as [A B].
    split; intros X; apply memb_in in X; congruence.
  - intros [H [A B]]. split; [exact H|]. apply negb_true_iff, orb_false_iff. split.
    + destruct (memb (d_p1 e) us) eqn:X; [apply memb_in in X; contradiction|reflexivity].
    + destruct (memb (d_p2 e) us) eqn:X; [apply memb_in in X; contradiction|reflexivity].
Qed.

Theorem remove_uids_noop es : remove_uids es [] = es.
Proof. unfold remove_uids. induction es as [|e es IH]; cbn in *; [reflexivity|]. f_equal. exact IH. Qed.

(* the order of removal of dead agents keeps "every endpoint is active": networks first, then the active list *)
Theorem remove_dead_keeps_endpoints_active es au dead :
  endpoints_in es au = true ->
  let '(es', au') := remove_dead_net es au dead in endpoints_in es' au' = true.
Proof.
  unfold remove_dead_net, endpoints_in. rewrite !forallb_forall. intros H e He.
  apply remove_uids_spec in He as (He & N1 & N2). specialize (H e He). apply andb_prop in H as [A B].
  apply andb_true_intro. split; apply memb_in; apply filter_In; (split; [apply memb_in; assumption|]);
    apply negb_true_iff; destruct (memb _ dead) eqn:X; try reflexivity; apply memb_in in X; contradiction.
Qed.

Lemma endpoints_in_app es1 es2 au : endpoints_in (es1 ++ es2) au = andb (endpoints_in es1 au) (endpoints_in es2 au).
Proof. unfold endpoints_in. apply forallb_app. Qed.

(* end_pairs: survivors have a positive remaining duration, alive endpoints, and duration reduced by dt *)
Theorem end_pairs_spec alive dt es e : In e (end_pairs alive dt es) ->
  (0 < d_dur e)%Q /\ alive (d_p1 e) = true /\ alive (d_p2 e) = true /\
  exists e0, In e0 es /\ d_p1 e0 = d_p1 e /\ d_p2 e0 = d_p2 e /\ d_beta e0 = d_beta e /\ (d_dur e == d_dur e0 - dt)%Q.
Proof.
  unfold end_pairs. intros H. apply filter_In in H as [H K]. apply in_map_iff in H as [e0 [<- He0]].
  apply andb_prop in K as [K1 K2]. apply andb_prop in K2 as [K2 K3]. cbn in *.
  repeat split; auto.
  - unfold dur_keep_gen, Qgtb in K1. destruct (Qle_bool (dur_step_gen (d_dur e0) dt) 0) eqn:X; [discriminate|].
    destruct (Qlt_le_dec 0 (dur_step_gen (d_dur e0) dt)); [assumption|]. apply Qle_bool_iff in q. congruence.
  - exists e0. repeat split; auto; try (unfold dur_step_gen; reflexivity).
Qed.

(* timed edges: an edge of duration d whose endpoints stay alive survives exactly the first j end_pairs with d - j*dt > 0 *)
Fixpoint iter_end (alive : nat -> bool) (dt : Q) (j : nat) (es : list dedge) : list dedge :=
  match j with O => es | S k => end_pairs alive dt (iter_end alive dt k es) end.

Theorem timed_edge_present alive dt e j : alive (d_p1 e) = true -> alive (d_p2 e) = true -> (0 < dt)%Q ->
  (iter_end alive dt j [e] <> [] <-> (0 < d_dur e - inject_Z (Z.of_nat j) * dt)%Q \/ j = 0).
Proof.
  intros A1 A2 Hdt. revert e A1 A2. induction j as [|j IH]; intros e A1 A2.
  - cbn. split; [intros _; right; reflexivity|intros _; discriminate].
  - cbn [iter_end]. split.
    + intros H. left.
      destruct (iter_end alive dt j [e]) as [|e1 l] eqn:E; [cbn in H; congruence|].
      assert (Hne : iter_end alive dt j [e] <> []) by (rewrite E; discriminate).
      (* the surviving edge after j rounds has duration d - j*dt; it survives round j+1 iff d - (j+1)dt > 0 *)
      assert (Hdur : forall k l0, iter_end alive dt k [e] = l0 -> forall x, In x l0 -> (d_dur x == d_dur e - inject_Z (Z.of_nat k) * dt)%Q).
      { clear. induction k as [|k IHk]; intros l0 El x Hx.
        - cbn in El. subst. destruct Hx as [<-|[]]. cbn. ring.
        - cbn [iter_end] in El. subst. apply end_pairs_spec in Hx as (_ & _ & _ & e0 & He0 & _ & _ & _ & Hd).
          rewrite Hd, (IHk _ eq_refl e0 He0). rewrite Nat2Z.inj_succ, inject_Z_plus || idtac.
          replace (Z.of_nat (S k)) with (Z.of_nat k + 1)%Z by lia. rewrite inject_Z_plus. ring. }
      destruct (end_pairs alive dt (e1 :: l)) as [|e2 l2] eqn:E2; [congruence|].
      assert (In e2 (end_pairs alive dt (e1 :: l))) by (rewrite E2; left; reflexivity).
      pose proof (Hdur (S j) _ ltac:(cbn [iter_end]; rewrite E; exact E2) e2 (or_introl eq_refl)) as Hd2.
      apply end_pairs_spec in H0 as (Hpos & _). rewrite Hd2 in Hpos. exact Hpos.
    + intros [Hpos|Hj]; [|discriminate].
      assert (Hprev : (0 < d_dur e - inject_Z (Z.of_nat j) * dt)%Q \/ j = 0).
      { destruct j; [right; reflexivity|left]. replace (Z.of_nat (S (S j))) with (Z.of_nat (S j) + 1)%Z in Hpos by lia.
        rewrite inject_Z_plus in Hpos. change (inject_Z 1) with 1%Q in Hpos. lra. }
      apply IH in Hprev; [|assumption|assumption].
      destruct (iter_end alive dt j [e]) as [|e1 l] eqn:E; [congruence|].
      (* e1 is e with reduced duration and the same (alive) endpoints; it passes the filter *)
      assert (Hinv : forall k x, In x (iter_end alive dt k [e]) -> d_p1 x = d_p1 e /\ d_p2 x = d_p2 e /\ (d_dur x == d_dur e - inject_Z (Z.of_nat k) * dt)%Q).
      { clear - e. induction k as [|k IHk]; intros x Hx.
        - cbn in Hx. destruct Hx as [<-|[]]. repeat split. cbn. ring.
        - cbn [iter_end] in Hx. apply end_pairs_spec in Hx as (_ & _ & _ & e0 & He0 & P1 & P2 & _ & Hd).
          destruct (IHk e0 He0) as (Q1 & Q2 & Q3). repeat split; try congruence.
          rewrite Hd, Q3. replace (Z.of_nat (S k)) with (Z.of_nat k + 1)%Z by lia. rewrite inject_Z_plus. ring. }
      destruct (Hinv j e1 ltac:(rewrite E; left; reflexivity)) as (P1 & P2 & P3).
      unfold end_pairs. cbn [map filter]. cbn [d_dur d_p1 d_p2].
      assert (K : dur_keep_gen (dur_step_gen (d_dur e1) dt) = true).
      { unfold dur_keep_gen, dur_step_gen. apply Qgtb_intro'. rewrite P3.
        replace (Z.of_nat (S j)) with (Z.of_nat j + 1)%Z in Hpos by lia. rewrite inject_Z_plus in Hpos. change (inject_Z 1) with 1%Q in Hpos. lra. }
      rewrite K, P1, P2, A1, A2. cbn. discriminate.
Qed.

(* ------------------------------------------------------------------ random network half-edges *)
Lemma count_repeat x y n : count_occ Nat.eq_dec (repeat y n) x = if Nat.eq_dec y x then n else 0.
Proof. destruct (Nat.eq_dec y x) as [E|N]; [apply count_occ_repeat_eq; congruence|apply count_occ_repeat_neq; congruence]. Qed.

Lemma count_app x l1 l2 : count_occ Nat.eq_dec (l1 ++ l2) x = count_occ Nat.eq_dec l1 x + count_occ Nat.eq_dec l2 x.
Proof. apply count_occ_app. Qed.

(* every requested uid appears in `source` exactly its (rounded) number of contacts ... *)
Theorem source_degree inds ns x : NoDup inds -> length ns = length inds ->
  count_occ Nat.eq_dec (get_source inds ns) x =
    match find (fun un => Nat.eqb (fst un) x) (combine inds ns) with Some un => snd un | None => 0 end.
Proof.
  unfold get_source. revert ns. induction inds as [|u inds IH]; intros [|n ns] ND L; try discriminate; [reflexivity|].
  cbn [combine flat_map find fst snd]. rewrite count_app, count_repeat. inversion ND as [|? ? Hn ND']; subst.
  rewrite (IH ns ND') by (cbn in L; lia). destruct (Nat.eq_dec u x) as [->|N].
  - rewrite Nat.eqb_refl.
    assert (F : find (fun un : nat * nat => Nat.eqb (fst un) x) (combine inds ns) = None).
    { destruct (find _ _) as [p|] eqn:F; [|reflexivity]. apply find_some in F as [Hin Hp]. apply Nat.eqb_eq in Hp. destruct p; cbn in Hp; subst.
      apply in_combine_l in Hin. contradiction. }
    rewrite F. cbn [snd]. lia.
  - destruct (Nat.eqb_spec u x); [contradiction|]. reflexivity.
Qed.

(* ... and, the target column being a permutation of the source column, exactly as many times in `target`:
   as many incoming as outgoing half-edges, whatever permutation the generator produced *)
Theorem target_degree source target x : Permutation source target ->
  count_occ Nat.eq_dec target x = count_occ Nat.eq_dec source x.
Proof. intros P. symmetry. revert x. apply Permutation_count_occ. exact P. Qed.

(* ------------------------------------------------------------------ positional edge construction *)
(* building edges from array POSITIONS instead of uids yields an endpoint that is not an eligible agent as soon as
   the eligible uids are not 0..n-1 (e.g. after agent 0 has been removed) *)
Theorem positional_edges_dangle_refuted :
  let born := [1; 2] in                     (* agent 0 has died and been removed *)
  let pairs := [(0, 1)] in                  (* upper-triangle index pair *)
  endpoints_in (map (fun p => mkDE (fst p) (snd p) 1 0) (positional_pairs born pairs)) born = false /\
  endpoints_in (map (fun p => mkDE (fst p) (snd p) 1 0) (uid_pairs born pairs)) born = true.
Proof. split; reflexivity. Qed.

Theorem uid_pairs_in_born born pairs p : (forall ij, In ij pairs -> fst ij < length born /\ snd ij < length born) ->
  In p (uid_pairs born pairs) -> In (fst p) born /\ In (snd p) born.
Proof.
  intros B H. unfold uid_pairs in H. apply in_map_iff in H as [ij [<- Hin]]. destruct (B ij Hin) as [B1 B2]. cbn. split; apply nth_In; assumption.
Qed.

(* ---- Erdos-Renyi pair numbers *)
Lemma lxor_lt a b n : (0 <= n -> 0 <= a < 2 ^ n -> 0 <= b < 2 ^ n -> 0 <= Z.lxor a b < 2 ^ n)%Z.
Proof.
  intros Hn Ha Hb. split; [apply Z.lxor_nonneg; lia|].
  destruct (Z.eq_dec (Z.lxor a b) 0) as [E|E]; [rewrite E; apply Z.pow_pos_nonneg; lia|].
  assert (P : (0 < Z.lxor a b)%Z) by (pose proof (proj2 (Z.lxor_nonneg a b) ltac:(lia)); lia).
  assert (Hn0 : (0 < n)%Z).
  { destruct (Z.eq_dec n 0) as [->|]; [|lia]. exfalso. change (2 ^ 0)%Z with 1%Z in *. assert (a = 0%Z) by lia. assert (b = 0%Z) by lia. subst. apply E. reflexivity. }
  apply Z.log2_lt_pow2; [exact P|].
  pose proof (Z.log2_lxor a b ltac:(lia) ltac:(lia)) as L.
  assert (La : (Z.log2 a < n)%Z) by (destruct (Z.eq_dec a 0) as [->|]; [cbn; lia|apply Z.log2_lt_pow2; lia]).
  assert (Lb : (Z.log2 b < n)%Z) by (destruct (Z.eq_dec b 0) as [->|]; [cbn; lia|apply Z.log2_lt_pow2; lia]).
  lia.
Qed.

Lemma combine_bits_range a b : (0 <= combine_bits a b < two64)%Z.
Proof.
  unfold combine_bits. change two64 with (2 ^ 64)%Z. apply lxor_lt; [lia| |]; apply Z.mod_pos_bound; reflexivity.
Qed.

Local Open Scope Q_scope.
(* unsigned: every pair number lies in [0, 1] *)
Lemma combine_u64_unit_interval a b : 0 <= combine_u64 a b <= 1.
Proof.
  unfold combine_u64. pose proof (combine_bits_range a b) as [L U].
  assert (D : 0 < inject_Z (two64 - 1)) by (change 0 with (inject_Z 0); rewrite <- Zlt_Qlt; reflexivity).
  split.
  - apply Qle_shift_div_l; [exact D|]. rewrite Qmult_0_l. change 0 with (inject_Z 0). rewrite <- Zle_Qle. exact L.
  - apply Qle_shift_div_r; [exact D|]. rewrite Qmult_1_l. rewrite <- Zle_Qle. lia.
Qed.

(* unsigned: the pair is an edge exactly when its 64-bit number is at most p (2^64 - 1): a fraction of all 2^64 bit patterns within 2^-64 of p *)
Lemma er_edge_unsigned_law a b p : er_edge (combine_u64 a b) p = true <-> inject_Z (combine_bits a b) <= p * inject_Z (two64 - 1).
Proof.
  unfold er_edge, combine_u64. rewrite Qle_bool_iff.
  assert (D : 0 < inject_Z (two64 - 1)) by (change 0 with (inject_Z 0); rewrite <- Zlt_Qlt; reflexivity).
  split; intros H.
  - assert (Nz : ~ inject_Z (two64 - 1) == 0) by (intros E; rewrite E in D; apply (Qlt_irrefl 0 D)).
    assert (E : inject_Z (combine_bits a b) == inject_Z (combine_bits a b) / inject_Z (two64 - 1) * inject_Z (two64 - 1)) by (field; exact Nz).
    rewrite E. apply Qmult_le_compat_r; [exact H|apply Qlt_le_weak; exact D].
  - apply Qle_shift_div_r; [exact D|exact H].
Qed.

(* signed reading of the same bits: the upper half of the bit patterns gives a NEGATIVE number, which passes r <= p for every probability p >= 0 *)
Lemma er_edge_signed_accepts_upper_half a b p : 0 <= p -> (two64 / 2 <= combine_bits a b)%Z -> er_edge (combine_i64 a b) p = true.
Proof.
  intros Hp Hc. unfold er_edge, combine_i64, as_signed64. rewrite Qle_bool_iff.
  destruct (Z.ltb_spec (combine_bits a b) (two64 / 2)) as [L|_]; [lia|].
  pose proof (combine_bits_range a b) as [_ U].
  assert (D : 0 < inject_Z (two64 - 1)) by (change 0 with (inject_Z 0); rewrite <- Zlt_Qlt; reflexivity).
  apply Qle_trans with 0; [|exact Hp]. apply Qle_shift_div_r; [exact D|]. rewrite Qmult_0_l. change 0 with (inject_Z 0). rewrite <- Zle_Qle. lia.
Qed.

(* ---- timed edges over binary64: the real-number law (an edge of duration d = n * dt is gone after n count-downs) does NOT carry over to the
   floating-point count-down -- 0.5 - 0.1 five times leaves 2^-55 > 0, so the edge is used on a sixth step (listed finding
   timed-edges-float-countdown-extra-step).  For a step that is a power of two the count-down is exact. *)
From Coq Require Import PrimFloat.
Lemma float_countdown_keeps_an_extra_step :
  float_edge_kept 5 0x1p-1%float 0x1.999999999999ap-4%float = true /\ (inject_Z 5 * (1 # 10) == 1 # 2)%Q.
Proof. split; [vm_compute; reflexivity|reflexivity]. Qed.
Lemma float_countdown_exact_for_binary_steps : float_edge_kept 4 0x1p-1%float 0x1p-3%float = false /\ float_edge_kept 3 0x1p-1%float 0x1p-3%float = true.
Proof. split; vm_compute; reflexivity. Qed.
