(* Proofs about the Dist state machine (L1) over the PCG64 stream (L0). *)
From SS Require Import Model.Prelude Model.L0_Pcg64 Gen.Gen_Dist Model.L1_Dist.
From Coq Require Import Lia ZArith List Sorted.
Open Scope Z_scope.

(* ------------------------------------------------------------------ stream prefix stability *)
Lemma rand_f32_length n g : length (fst (rand_f32 n g)) = n.
Proof.
  revert g; induction n as [|n IH]; intros g; cbn [rand_f32]; [reflexivity|].
  destruct (next_f32 g) as [x g1]. specialize (IH g1). destruct (rand_f32 n g1) as [xs g2]. cbn in *. lia.
Qed.

(* the k-th value of a draw does not depend on how many values are drawn *)
Lemma rand_f32_prefix n m g k dflt : (k < n)%nat -> (k < m)%nat ->
  nth k (fst (rand_f32 n g)) dflt = nth k (fst (rand_f32 m g)) dflt.
Proof.
  revert m g k; induction n as [|n IH]; intros m g k Hn Hm; [lia|].
  destruct m as [|m]; [lia|]. cbn [rand_f32].
  destruct (next_f32 g) as [x g1].
  specialize (IH m g1). destruct (rand_f32 n g1) as [xs g2]. destruct (rand_f32 m g1) as [ys g3].
  destruct k as [|k]; cbn; [reflexivity|]. cbn in IH. apply IH; lia.
Qed.

(* the k-th uniform of the stream that starts at generator state g *)
Definition unif (g : pcg) (k : Z) : Z := nthZ (fst (rand_f32 (S (Z.to_nat k)) g)) k.

Lemma nthZ_rand n g k : 0 <= k -> (Z.to_nat k < n)%nat -> nthZ (fst (rand_f32 n g)) k = unif g k.
Proof. intros Hk Hn. unfold unif, nthZ. apply rand_f32_prefix; lia. Qed.

Lemma list_max_ge (l : list Z) (x : Z) : In x l -> x <= zmax_list l.
Proof.
  unfold zmax_list. induction l as [|a l IH]; cbn [fold_right In]; [tauto|].
  intros [->|H]; [lia|]. specialize (IH H). lia.
Qed.

Lemma list_max_nonneg (l : list Z) : 0 <= zmax_list l.
Proof. unfold zmax_list. induction l; cbn [fold_right]; lia. Qed.

Definition all_nonneg (l : list Z) : Prop := forall x, In x l -> 0 <= x.

(* ------------------------------------------------------------------ one draw *)
(* An agent call returns, for every requested agent, the uniform at the index of ITS slot in the
   stream starting at the current state -- nothing else about the call matters. *)
Lemma do_rvs_pointwise d sl reset d' vals : all_nonneg sl ->
  do_rvs d (Some sl) 0 reset = Ok (d', vals) -> vals = map (unif (d_cur d)) sl.
Proof.
  intros Hnn H. unfold do_rvs in H. destruct (rvs_guard d); cbn [bind] in H; [|discriminate].
  destruct sl as [|s0 sl'].
  - cbn in H. injection H as <- <-. reflexivity.
  - remember (s0 :: sl') as sl.
    assert (Hsz : size_of_max_gen (zmax_list sl) = zmax_list sl + 1) by reflexivity.
    assert (Hsl : match sl with [] => 0 | _ :: _ => size_of_max_gen (zmax_list sl) end = zmax_list sl + 1)
      by (subst sl; reflexivity).
    rewrite ?Hsl, ?Hsz in H. pose proof (list_max_nonneg sl) as Hm.
    destruct (zmax_list sl + 1 =? 0) eqn:E; [lia|].
    destruct (rand_f32 (Z.to_nat (zmax_list sl + 1)) (d_cur d)) as [xs g'] eqn:R.
    destruct (rvs_tail _ reset) as [d2|e]; cbn [bind] in H; [|discriminate].
    injection H as <- <-.
    apply map_ext_in. intros k Hk.
    replace xs with (fst (rand_f32 (Z.to_nat (zmax_list sl + 1)) (d_cur d))) by (rewrite R; reflexivity).
    apply nthZ_rand; [apply Hnn; exact Hk|]. pose proof (list_max_ge sl k Hk). lia.
Qed.

(* corollaries: the value of an agent is independent of which other agents are in the call, of their
   order, of repeats and of the population size (largest slot) *)
Corollary rvs_agent_value d sl1 sl2 r1 r2 d1 d2 v1 v2 i j : all_nonneg sl1 -> all_nonneg sl2 ->
  do_rvs d (Some sl1) 0 r1 = Ok (d1, v1) -> do_rvs d (Some sl2) 0 r2 = Ok (d2, v2) ->
  (i < length sl1)%nat -> (j < length sl2)%nat -> nth i sl1 0 = nth j sl2 0 ->
  nth i v1 0 = nth j v2 0.
Proof.
  intros H1 H2 E1 E2 Hi Hj Hs.
  rewrite (do_rvs_pointwise _ _ _ _ _ H1 E1), (do_rvs_pointwise _ _ _ _ _ H2 E2).
  rewrite (nth_indep _ 0 (unif (d_cur d) 0)) by (rewrite map_length; lia).
  rewrite (nth_indep (map _ sl2) 0 (unif (d_cur d) 0)) by (rewrite map_length; lia).
  rewrite !map_nth. congruence.
Qed.

(* an integer-size call returns the first n values of the same stream: scalar and agent paths agree *)
Lemma do_rvs_n d n reset d' vals : 0 < n ->
  do_rvs d None n reset = Ok (d', vals) -> vals = map (unif (d_cur d)) (map Z.of_nat (seq 0 (Z.to_nat n))).
Proof.
  intros Hn H. unfold do_rvs in H. destruct (rvs_guard d); cbn [bind] in H; [|discriminate].
  destruct (n =? 0) eqn:E; [lia|].
  destruct (rand_f32 (Z.to_nat n) (d_cur d)) as [xs g'] eqn:R.
  destruct (rvs_tail _ reset) as [d2|e]; cbn [bind] in H; [|discriminate].
  injection H as <- <-.
  assert (L : length xs = Z.to_nat n) by (pose proof (rand_f32_length (Z.to_nat n) (d_cur d)) as X; rewrite R in X; exact X).
  apply nth_ext with (d := -1) (d' := unif (d_cur d) (Z.of_nat 0)).
  - rewrite !map_length, seq_length. exact L.
  - intros k Hk. rewrite (map_nth (unif (d_cur d))). rewrite (map_nth Z.of_nat), seq_nth by lia. cbn [plus].
    replace xs with (fst (rand_f32 (Z.to_nat n) (d_cur d))) by (rewrite R; reflexivity).
    change (nth k ?l (-1)) with (nth k l (-1)).
    rewrite <- (Nat2Z.id k) at 1. fold (nthZ (fst (rand_f32 (Z.to_nat n) (d_cur d))) (Z.of_nat k)).
    apply nthZ_rand; lia.
Qed.

(* ------------------------------------------------------------------ jumps *)
Definition clean (d : dist) : Prop := d_cur d = state_of_ind (d_hist0 d) (d_ind d).

Lemma jump_to_ok d j force d' : jump_to d j force = Ok d' ->
  clean d' /\ d_ind d' = j /\ d_hist0 d' = d_hist0 d /\ d_ready d' = true /\ d_auto d' = d_auto d /\
  d_strict d' = d_strict d /\ d_init d' = d_init d /\ (force = false -> d_ind d < j).
Proof.
  unfold jump_to. destruct (jump_refuse_gen (d_ind d) j force) eqn:R; [discriminate|].
  intros E; injection E as <-. unfold clean; cbn. repeat split.
  intros ->. unfold jump_refuse_gen in R. destruct (Z.geb_spec (d_ind d) j); cbn in R; [discriminate|lia].
Qed.

Lemma jump_to_refused d j : j <= d_ind d -> jump_to d j false = Err ESeedRepeat.
Proof.
  intros H. unfold jump_to, jump_refuse_gen. destruct (Z.geb_spec (d_ind d) j); [reflexivity|lia].
Qed.

Lemma init_clean g0 s a : clean (dist_init g0 s a).
Proof. unfold clean, dist_init, state_of_ind; cbn. destruct g0; reflexivity. Qed.

(* ------------------------------------------------------------------ histories *)
(* non-forced, non-resetting operations: the documented opt-outs are excluded *)
Definition plain (o : dop) : bool :=
  match o with
  | OJump _ _ f => negb f | OJumpDt _ f => negb f | OReset _ => false
  | ORvs _ r => negb r | ORvsN _ r => negb r
  end.

Definition op_slots_ok (o : dop) : Prop :=
  match o with ORvs sl _ => all_nonneg sl | ORvsN n _ => 0 <= n | _ => True end.

(* abstract machine: only the jump index evolves; a draw at index i reads the stream of index i *)
Definition spec_step (g0 : pcg) (ind : Z) (o : dop) : option (Z * list Z) :=
  match o with
  | OJump to delta _ =>
      let j := match to with Some t => t | None => ind + delta end in
      if ind <? j then Some (j, []) else None
  | OJumpDt ti _ => let j := jump_size_gen * ti in if ind <? j then Some (j, []) else None
  | OReset _ => None
  | ORvs sl _ => match sl with [] => Some (ind, []) | _ => Some (ind + 1, map (unif (state_of_ind g0 ind)) sl) end
  | ORvsN n _ => if n =? 0 then Some (ind, [])
                 else Some (ind + 1, map (unif (state_of_ind g0 ind)) (map Z.of_nat (seq 0 (Z.to_nat n))))
  end.

Fixpoint spec_run (g0 : pcg) (ind : Z) (ops : list dop) : Z * list (option (list Z)) :=
  match ops with
  | [] => (ind, [])
  | o :: t => match spec_step g0 ind o with
              | Some (i', out) => let '(i, outs) := spec_run g0 i' t in (i, Some out :: outs)
              | None => let '(i, outs) := spec_run g0 ind t in (i, None :: outs)
              end
  end.

Definition good (d : dist) : Prop :=
  clean d /\ d_auto d = true /\ d_init d = true /\ d_ready d = true.

Lemma dstep_refines d o : good d -> plain o = true -> op_slots_ok o ->
  match dstep d o, spec_step (d_hist0 d) (d_ind d) o with
  | Ok (d', out), Some (i', out') => good d' /\ d_hist0 d' = d_hist0 d /\ d_ind d' = i' /\ out = out'
  | Err _, None => True
  | _, _ => False
  end.
Proof.
  intros (Hc & Ha & Hi & Hr) Hp Hs. destruct o as [to delta f | ti f | l | sl r | n r]; cbn in Hp.
  - (* OJump *) destruct f; [discriminate|]. cbn [dstep spec_step]. unfold do_jump.
    set (j := match to with Some t => jump_target_to_gen t | None => jump_target_delta_gen (d_ind d) delta end).
    assert (Ej : j = match to with Some t => t | None => d_ind d + delta end) by (destruct to; reflexivity).
    rewrite <- Ej. destruct (Z.ltb_spec (d_ind d) j) as [L|L].
    + destruct (jump_to d j false) as [d'|e] eqn:E.
      * cbn. destruct (jump_to_ok _ _ _ _ E) as (C & I & H0 & R & A & S & In & _).
        repeat split; auto; congruence.
      * unfold jump_to, jump_refuse_gen in E. destruct (Z.geb_spec (d_ind d) j); [lia|discriminate].
    + rewrite jump_to_refused by lia. exact I.
  - (* OJumpDt *) destruct f; [discriminate|]. cbn [dstep spec_step]. unfold do_jump_dt, do_jump.
    change (jump_target_to_gen (jump_dt_target_gen jump_size_gen ti)) with (jump_size_gen * ti).
    set (j := jump_size_gen * ti). destruct (Z.ltb_spec (d_ind d) j) as [L|L].
    + destruct (jump_to d j false) as [d'|e] eqn:E.
      * cbn. destruct (jump_to_ok _ _ _ _ E) as (C & I & H0 & R & A & S & In & _).
        repeat split; auto; congruence.
      * unfold jump_to, jump_refuse_gen in E. destruct (Z.geb_spec (d_ind d) j); [lia|discriminate].
    + rewrite jump_to_refused by lia. exact I.
  - discriminate.
  - (* ORvs *) destruct r; [discriminate|]. cbn [dstep spec_step]. cbn in Hs.
    destruct (do_rvs d (Some sl) 0 false) as [[d' out]|e] eqn:E.
    + pose proof (do_rvs_pointwise _ _ _ _ _ Hs E) as Hv.
      unfold do_rvs in E. unfold rvs_guard in E. rewrite Hi, Hr in E. cbn [negb andb bind] in E.
      destruct sl as [|s0 sl'].
      * cbn in E. injection E as <- <-. repeat split; auto.
      * remember (s0 :: sl') as sl.
        assert (Hsl : match sl with [] => 0 | _ :: _ => size_of_max_gen (zmax_list sl) end = zmax_list sl + 1)
          by (subst sl; reflexivity).
        assert (Hsz : size_of_max_gen (zmax_list sl) = zmax_list sl + 1) by reflexivity.
        rewrite ?Hsl, ?Hsz in E. pose proof (list_max_nonneg sl).
        destruct (zmax_list sl + 1 =? 0) eqn:Z0; [lia|].
        destruct (rand_f32 _ (d_cur d)) as [xs g'].
        unfold rvs_tail in E. cbn [d_auto] in E. rewrite Ha in E. unfold do_jump in E. cbn [d_ind] in E.
        change (jump_target_delta_gen (d_ind d) 1) with (d_ind d + 1) in E.
        destruct (jump_to _ (d_ind d + 1) false) as [d2|e] eqn:J; cbn [bind] in E; [|discriminate].
        injection E as <- <-. destruct (jump_to_ok _ _ _ _ J) as (C & I & H0 & R & A & S & In & _). cbn in *.
        subst sl. repeat split; auto; try congruence; try (rewrite Hv, Hc; reflexivity).
    + exfalso. unfold do_rvs, rvs_guard in E. rewrite Hi, Hr in E. cbn [negb andb bind] in E.
      destruct sl as [|s0 sl']; [cbn in E; discriminate|]. remember (s0 :: sl') as sl.
      assert (Hsl : match sl with [] => 0 | _ :: _ => size_of_max_gen (zmax_list sl) end = zmax_list sl + 1)
        by (subst sl; reflexivity).
      assert (Hsz : size_of_max_gen (zmax_list sl) = zmax_list sl + 1) by reflexivity.
      rewrite ?Hsl, ?Hsz in E. pose proof (list_max_nonneg sl).
      destruct (zmax_list sl + 1 =? 0) eqn:Z0; [lia|]. destruct (rand_f32 _ (d_cur d)) as [xs g'].
      unfold rvs_tail in E. cbn [d_auto] in E. rewrite Ha in E. unfold do_jump in E. cbn [d_ind] in E.
      change (jump_target_delta_gen (d_ind d) 1) with (d_ind d + 1) in E.
      unfold jump_to, jump_refuse_gen in E. cbn [d_ind] in E.
      destruct (Z.geb_spec (d_ind d) (d_ind d + 1)); [lia|]. cbn in E. discriminate.
  - (* ORvsN *) destruct r; [discriminate|]. cbn [dstep spec_step]. cbn in Hs.
    destruct (Z.eqb_spec n 0) as [->|Hn0].
    + unfold do_rvs, rvs_guard. rewrite Hi, Hr. cbn. repeat split; auto.
    + destruct (do_rvs d None n false) as [[d' out]|e] eqn:E.
      * assert (Hn : 0 < n) by lia. pose proof (do_rvs_n _ _ _ _ _ Hn E) as Hv.
        unfold do_rvs, rvs_guard in E. rewrite Hi, Hr in E. cbn [negb andb bind] in E.
        destruct (n =? 0) eqn:Z0; [lia|]. destruct (rand_f32 _ (d_cur d)) as [xs g'].
        unfold rvs_tail in E. cbn [d_auto] in E. rewrite Ha in E. unfold do_jump in E. cbn [d_ind] in E.
        change (jump_target_delta_gen (d_ind d) 1) with (d_ind d + 1) in E.
        destruct (jump_to _ (d_ind d + 1) false) as [d2|e] eqn:J; cbn [bind] in E; [|discriminate].
        injection E as <- <-. destruct (jump_to_ok _ _ _ _ J) as (C & I & H0 & R & A & S & In & _). cbn in *.
        repeat split; auto; try congruence; try (rewrite Hv, Hc; reflexivity).
      * exfalso. unfold do_rvs, rvs_guard in E. rewrite Hi, Hr in E. cbn [negb andb bind] in E.
        destruct (n =? 0) eqn:Z0; [lia|]. destruct (rand_f32 _ (d_cur d)) as [xs g'].
        unfold rvs_tail in E. cbn [d_auto] in E. rewrite Ha in E. unfold do_jump in E. cbn [d_ind] in E.
        change (jump_target_delta_gen (d_ind d) 1) with (d_ind d + 1) in E.
        unfold jump_to, jump_refuse_gen in E. cbn [d_ind] in E.
        destruct (Z.geb_spec (d_ind d) (d_ind d + 1)); [lia|]. cbn in E. discriminate.
Qed.

(* Refinement over whole histories: the outputs of any plain history are those of the abstract machine,
   in which a draw is a function of (initial state, jump index, slot) only.  In particular nothing that
   was drawn earlier (how many values, for whom) influences a later draw. *)
Theorem drun_refines ops : forall d, good d -> forallb plain ops = true -> Forall op_slots_ok ops ->
  snd (drun d ops) = snd (spec_run (d_hist0 d) (d_ind d) ops) /\
  d_ind (fst (drun d ops)) = fst (spec_run (d_hist0 d) (d_ind d) ops).
Proof.
  induction ops as [|o ops IH]; intros d G P S; [split; reflexivity|].
  cbn in P. apply andb_prop in P as [Po Pt]. inversion S as [|? ? So St]; subst.
  pose proof (dstep_refines d o G Po So) as R. cbn [drun spec_run].
  destruct (dstep d o) as [[d' out]|e]; destruct (spec_step (d_hist0 d) (d_ind d) o) as [[i' out']|]; try contradiction.
  - destruct R as (G' & H0 & I' & ->). specialize (IH d' G' Pt St). rewrite H0, I' in IH.
    destruct (drun d' ops) as [df outs]. destruct (spec_run (d_hist0 d) i' ops) as [i outs']. cbn in *.
    destruct IH as [-> ->]. split; reflexivity.
  - specialize (IH d G Pt St).
    destruct (drun d ops) as [df outs]. destruct (spec_run (d_hist0 d) (d_ind d) ops) as [i outs']. cbn in *.
    destruct IH as [-> ->]. split; reflexivity.
Qed.

(* ------------------------------------------------------------------ C04: call-start indices *)
Definition is_draw (o : dop) : bool := match o with ORvs _ _ | ORvsN _ _ => true | _ => false end.

(* (jump index, generator state) at the start of every successful non-empty draw of a history *)
Fixpoint calls (d : dist) (ops : list dop) : list (Z * pcg) :=
  match ops with
  | [] => []
  | o :: t => match dstep d o with
              | Ok (d', out) =>
                  (if andb (is_draw o) (negb (match out with [] => true | _ => false end))
                   then [(d_ind d, d_cur d)] else []) ++ calls d' t
              | Err _ => calls d t
              end
  end.

Lemma spec_step_mono g0 ind o i' out : spec_step g0 ind o = Some (i', out) ->
  ind <= i' /\ (out <> [] -> ind < i').
Proof.
  destruct o as [to delta f | ti f | l | sl r | n r]; cbn [spec_step].
  - destruct (Z.ltb_spec ind (match to with Some t => t | None => ind + delta end)); intros E; [|discriminate].
    injection E as <- <-. split; [lia|congruence].
  - remember (jump_size_gen * ti) as j eqn:Ej. clear Ej.
    destruct (Z.ltb_spec ind j); intros E; [|discriminate].
    injection E as <- <-. split; [lia|congruence].
  - discriminate.
  - destruct sl; intros E; injection E as <- <-; split; try lia; congruence.
  - destruct (n =? 0); intros E; injection E as <- <-; split; try lia; congruence.
Qed.

Lemma calls_spec ops : forall d, good d -> forallb plain ops = true -> Forall op_slots_ok ops ->
  Forall (fun c => snd c = state_of_ind (d_hist0 d) (fst c) /\ d_ind d <= fst c) (calls d ops) /\
  StronglySorted Z.lt (map fst (calls d ops)).
Proof.
  induction ops as [|o ops IH]; intros d G P S; [split; constructor|].
  cbn in P. apply andb_prop in P as [Po Pt]. inversion S as [|? ? So St]; subst.
  pose proof (dstep_refines d o G Po So) as R. cbn [calls].
  destruct (dstep d o) as [[d' out]|e] eqn:E; destruct (spec_step (d_hist0 d) (d_ind d) o) as [[i' out']|] eqn:E'; try contradiction.
  - destruct R as (G' & H0 & I' & ->). destruct (IH d' G' Pt St) as [F SS].
    destruct (spec_step_mono _ _ _ _ _ E') as [M1 M2].
    assert (F' : Forall (fun c => snd c = state_of_ind (d_hist0 d) (fst c) /\ d_ind d' <= fst c) (calls d' ops)).
    { eapply Forall_impl; [|exact F]. intros c [A B]. rewrite H0 in A. split; auto. }
    destruct (andb (is_draw o) (negb match out' with [] => true | _ => false end)) eqn:D.
    + apply andb_prop in D as [_ D]. assert (N : out' <> []) by (destruct out'; [discriminate|congruence]).
      specialize (M2 N). cbn [app map]. split.
      * constructor; [cbn; split; [apply G|lia]|]. eapply Forall_impl; [|exact F']. intros c [A B]. split; auto. lia.
      * constructor; [exact SS|]. apply Forall_forall. intros x Hx. apply in_map_iff in Hx as [c [<- Hc]].
        rewrite Forall_forall in F'. destruct (F' c Hc). cbn. lia.
    + cbn [app]. split; [|exact SS]. eapply Forall_impl; [|exact F']. intros c [A B]. split; auto. lia.
  - apply IH; auto.
Qed.

(* readiness / initialisation / backward-jump refusals *)
Lemma rvs_uninitialised d sl n r : d_init d = false -> do_rvs d sl n r = Err ENotInitialized.
Proof. intros H. unfold do_rvs, rvs_guard. rewrite H. reflexivity. Qed.

Lemma rvs_not_ready d sl n r : d_init d = true -> d_ready d = false -> d_strict d = true ->
  do_rvs d sl n r = Err ENotReady.
Proof. intros H1 H2 H3. unfold do_rvs, rvs_guard. rewrite H1, H2, H3. reflexivity. Qed.

(* a strict non-auto distribution is not ready after a non-empty draw, until it is jumped *)
Lemma strict_second_draw_refused d sl r' d' vals sl2 n2 :
  d_init d = true -> d_strict d = true -> d_auto d = false -> sl <> [] ->
  do_rvs d (Some sl) 0 false = Ok (d', vals) -> do_rvs d' sl2 n2 r' = Err ENotReady.
Proof.
  intros Hi Hs Ha Hne E. unfold do_rvs in E. destruct (rvs_guard d); cbn [bind] in E; [|discriminate].
  destruct sl as [|s0 sl']; [congruence|]. remember (s0 :: sl') as sl.
  assert (Hsz : size_of_max_gen (zmax_list sl) = zmax_list sl + 1) by reflexivity.
  rewrite ?Hsz in E. pose proof (list_max_nonneg sl).
  destruct (zmax_list sl + 1 =? 0) eqn:Z0; [lia|]. destruct (rand_f32 _ (d_cur d)) as [xs g'].
  unfold rvs_tail in E. cbn [d_auto d_strict] in E. rewrite Ha, Hs in E. cbn [bind] in E. injection E as <- <-.
  apply rvs_not_ready; cbn; auto.
Qed.

Lemma backward_jump_refused d to delta : (match to with Some t => t | None => d_ind d + delta end) <= d_ind d ->
  do_jump d to delta false = Err ESeedRepeat.
Proof. intros H. unfold do_jump. apply jump_to_refused. destruct to; exact H. Qed.

Lemma refused_jump_keeps_state d to delta f : forall e, do_jump d to delta f = Err e -> True.
Proof. trivial. Qed.

(* an empty request consumes nothing *)
Lemma empty_draw_no_advance d r : d_init d = true -> (d_ready d = true \/ d_strict d = false) ->
  do_rvs d (Some []) 0 r = Ok (d, []).
Proof.
  intros Hi Hr. unfold do_rvs, rvs_guard. rewrite Hi. cbn [negb].
  destruct Hr as [-> | ->]; cbn; try reflexivity. destruct (d_ready d); reflexivity.
Qed.

(* check_seeds: passes exactly when all seeds are pairwise distinct *)
Lemma check_seeds_ok seeds : forall seen, check_seeds seen seeds = Ok tt ->
  NoDup seeds /\ forall s, In s seeds -> ~ In s seen.
Proof.
  induction seeds as [|s t IH]; intros seen H; cbn in *; [split; [constructor|tauto]|].
  destruct (existsb (Z.eqb s) seen) eqn:E; [discriminate|].
  destruct (IH _ H) as [ND NI]. split.
  - constructor; auto. intros Hin. apply (NI s Hin). left; reflexivity.
  - intros x [<-|Hx] Hs.
    + assert (existsb (Z.eqb s) seen = true) by (apply existsb_exists; exists s; split; [auto|apply Z.eqb_refl]). congruence.
    + apply (NI x Hx). right; exact Hs.
Qed.

Lemma check_seeds_dup seeds : forall seen, check_seeds seen seeds <> Ok tt ->
  ~ NoDup seeds \/ exists s, In s seeds /\ In s seen.
Proof.
  induction seeds as [|s t IH]; intros seen H; cbn in *; [congruence|].
  destruct (existsb (Z.eqb s) seen) eqn:E.
  - right. apply existsb_exists in E as [x [Hx Ex]]. apply Z.eqb_eq in Ex; subst. exists x; auto.
  - destruct (IH _ H) as [ND | [x [Hx Hs]]].
    + left. intros N. inversion N; auto.
    + destruct Hs as [<-|Hs]; [left; intros N; inversion N; auto | right; exists x; auto].
Qed.

(* ---- distinct jump indices give distinct generator states, GIVEN that PCG64's LCG has full
   period on the jump lattice (a fact about NumPy's generator, stated as a hypothesis, not an axiom) *)
Definition pcg_free : Prop := forall g i j, 0 <= i -> i < j -> j < 2 ^ 64 ->
  p_st (state_of_ind g i) <> p_st (state_of_ind g j).

Lemma sorted_distinct_states g (l : list Z) : pcg_free -> StronglySorted Z.lt l ->
  Forall (fun i => 0 <= i < 2 ^ 64) l -> NoDup (map (fun i => p_st (state_of_ind g i)) l).
Proof.
  intros Fr. induction l as [|a l IH]; intros S B; cbn; [constructor|].
  inversion S as [|? ? S' Hlt]; subst. inversion B as [|? ? Ba Bl]; subst. constructor; [|apply IH; auto].
  intros Hin. apply in_map_iff in Hin as [j [E Hj]].
  rewrite Forall_forall in Hlt, Bl. specialize (Hlt j Hj). specialize (Bl j Hj).
  apply (Fr g a j); try lia; try congruence.
Qed.

Definition res_opt {A} (r : res A) : option A := match r with Ok a => Some a | Err _ => None end.
Lemma dtrace_drun ops : forall d, fst (dtrace d ops) = fst (drun d ops) /\ map res_opt (snd (dtrace d ops)) = snd (drun d ops).
Proof.
  induction ops as [|o t IH]; intros d; cbn [dtrace drun]; [split; reflexivity|].
  destruct (dstep d o) as [[d' out]|e].
  - destruct (IH d') as [A B]. destruct (dtrace d' t), (drun d' t); cbn in *. subst. split; reflexivity.
  - destruct (IH d) as [A B]. destruct (dtrace d t), (drun d t); cbn in *. subst. split; reflexivity.
Qed.
