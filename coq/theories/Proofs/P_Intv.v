From SS Require Import Model.Prelude Gen.Gen_Arr Model.L2_People Gen.Gen_Intv Gen.Gen_Disease Model.L5_Transmit Model.L5_CompartBase Model.L5_Compart Model.L5_Intv
  Proofs.P_Arr Proofs.P_Transmit.
From Coq Require Import Lia Lqa QArith Qround Qabs Sorting.Sorted String.
Local Open Scope list_scope.
Local Open Scope Z_scope.

(* ------------------------------------------------------------------ windows *)
Lemma zrange_in a b x : In x (zrange a b) <-> a <= x <= b.
Proof.
  unfold zrange. rewrite in_map_iff. split.
  - intros (i & <- & Hi). apply in_seq in Hi. lia.
  - intros H. exists (Z.to_nat (x - a)). split; [lia|]. apply in_seq. lia.
Qed.

Lemma adj_ge_1 dt : (1 <= dt)%Q -> adj_factor_gen dt = 0.
Proof.
  intros H. unfold adj_factor_gen, Qltb. destruct (Qle_bool (1 # 1) dt) eqn:E; [reflexivity|].
  exfalso. apply Qle_bool_iff in H. unfold Qle_bool in *. congruence.
Qed.
Lemma adj_lt_1 dt : (dt < 1)%Q -> adj_factor_gen dt = Qtrunc (1 / dt) - 1.
Proof.
  intros H. unfold adj_factor_gen, Qltb. destruct (Qle_bool (1 # 1) dt) eqn:E; [|reflexivity].
  exfalso. apply Qle_bool_iff in E. apply (Qlt_irrefl dt). eapply Qlt_le_trans; [exact H|exact E].
Qed.
Lemma adj_unit_fraction k : (2 <= Z.pos k) -> adj_factor_gen (1 # k) = Z.pos k - 1.
Proof.
  intros H. rewrite adj_lt_1 by (unfold Qlt; cbn; lia).
  unfold Qtrunc, Qdiv, Qinv, Qmult, Qle_bool, Qfloor. cbn [Qnum Qden]. rewrite Z.mul_1_l.
  cbn. rewrite Z.div_1_r. reflexivity.
Qed.

(* the year of grid index i on a year-unit timeline starting at y0 *)
Definition year_at (y0 dt : Q) (i : Z) : Q := y0 + inject_Z i * dt.

Lemma inv_nonneg dt : (0 < dt)%Q -> (0 <= 1 / dt)%Q.
Proof. intros H. unfold Qdiv. rewrite Qmult_1_l. apply Qlt_le_weak, Qinv_lt_0_compat. exact H. Qed.
Lemma inv_ge_1 dt : (0 < dt)%Q -> (dt <= 1)%Q -> (1 <= 1 / dt)%Q.
Proof. intros H L. apply Qle_shift_div_l; [exact H|]. rewrite Qmult_1_l. exact L. Qed.
Lemma trunc_pos_le x : (0 <= x)%Q -> (inject_Z (Qtrunc x) <= x)%Q.
Proof. intros H. unfold Qtrunc. apply Qle_bool_iff in H. rewrite H. apply Qfloor_le. Qed.

(* every routine time point lies in [start_year, end_year + 1), and in [start_year, end_year] when dt >= 1 *)
Lemma routine_window_sound y0 dt is_ ie i : (0 < dt)%Q -> In i (routine_timepoints is_ ie dt) ->
  (year_at y0 dt is_ <= year_at y0 dt i)%Q /\ (year_at y0 dt i < year_at y0 dt ie + 1)%Q /\ ((1 <= dt)%Q -> (year_at y0 dt i <= year_at y0 dt ie)%Q).
Proof.
  intros Hd Hi. unfold routine_timepoints, end_point_gen in Hi. apply zrange_in in Hi. destruct Hi as [L U].
  unfold year_at. split; [|split].
  - apply Qplus_le_r. apply Qmult_le_compat_r; [|apply Qlt_le_weak; exact Hd]. rewrite <- Zle_Qle. exact L.
  - destruct (Qlt_le_dec dt 1) as [Hlt|Hge].
    + rewrite adj_lt_1 in U by exact Hlt.
      assert (Hx : (0 <= 1 / dt)%Q) by (apply inv_nonneg; exact Hd).
      pose proof (trunc_pos_le _ Hx) as T.
      assert (Hz : (i - ie <= Qtrunc (1 / dt) - 1)%Z) by lia.
      rewrite Zle_Qle in Hz. unfold Z.sub in Hz. rewrite !inject_Z_plus, !inject_Z_opp in Hz. change (inject_Z 1) with 1%Q in Hz.
      set (X := (1 / dt)%Q) in *. set (N := inject_Z (Qtrunc X)) in *.
      assert (Hj : (inject_Z i - inject_Z ie <= X - 1)%Q) by lra.
      assert (Hm : ((inject_Z i - inject_Z ie) * dt <= (X - 1) * dt)%Q) by (apply Qmult_le_compat_r; [exact Hj|apply Qlt_le_weak; exact Hd]).
      assert (Hf : ((X - 1) * dt == 1 - dt)%Q) by (subst X; field; intros Z0; rewrite Z0 in Hd; apply (Qlt_irrefl 0); exact Hd).
      assert (Hr : ((inject_Z i - inject_Z ie) * dt == inject_Z i * dt - inject_Z ie * dt)%Q) by ring.
      rewrite Hf, Hr in Hm. set (A := (inject_Z i * dt)%Q) in *. set (B := (inject_Z ie * dt)%Q) in *. lra.
    + rewrite adj_ge_1 in U by exact Hge. assert (Hle : (inject_Z i <= inject_Z ie)%Q) by (rewrite <- Zle_Qle; lia).
      assert (Hm : (inject_Z i * dt <= inject_Z ie * dt)%Q) by (apply Qmult_le_compat_r; [exact Hle|apply Qlt_le_weak; exact Hd]). lra.
  - intros Hge. rewrite adj_ge_1 in U by exact Hge. assert (Hle : (inject_Z i <= inject_Z ie)%Q) by (rewrite <- Zle_Qle; lia).
    assert (Hm : (inject_Z i * dt <= inject_Z ie * dt)%Q) by (apply Qmult_le_compat_r; [exact Hle|apply Qlt_le_weak; exact Hd]). lra.
Qed.

(* no grid point of the window [start_year, end_year] is skipped; for dt = 1/k the whole final year is covered *)
Lemma routine_window_complete dt is_ ie i : (0 < dt)%Q -> is_ <= i <= ie -> In i (routine_timepoints is_ ie dt).
Proof.
  intros Hd H. unfold routine_timepoints, end_point_gen. apply zrange_in. split; [lia|].
  destruct (Qlt_le_dec dt 1) as [Hlt|Hge].
  - rewrite adj_lt_1 by exact Hlt.
    assert (H1 : (1 <= 1 / dt)%Q) by (apply inv_ge_1; [exact Hd|apply Qlt_le_weak; exact Hlt]).
    assert (1 <= Qtrunc (1 / dt)).
    { unfold Qtrunc. assert (Hx : (0 <= 1 / dt)%Q) by lra. apply Qle_bool_iff in Hx. rewrite Hx.
      change 1 with (Qfloor 1). apply Qfloor_resp_le. exact H1. }
    lia.
  - rewrite adj_ge_1 by exact Hge. lia.
Qed.
Lemma routine_final_year_covered k is_ ie i : (2 <= Z.pos k) -> is_ <= i <= ie + Z.pos k - 1 <-> In i (routine_timepoints is_ ie (1 # k)).
Proof. intros Hk. unfold routine_timepoints, end_point_gen. rewrite adj_unit_fraction by exact Hk. rewrite zrange_in. lia. Qed.

(* campaign: the chosen index minimises the distance to the requested year *)
Lemma argmin_from_spec ds : forall best bestd i0 pre,
  i0 = List.length pre -> (best < i0)%nat -> nth_error pre best = Some bestd -> (forall j d, nth_error pre j = Some d -> (bestd <= d)%Q) ->
  let r := argmin_from best bestd i0 ds in
  (r < List.length (pre ++ ds))%nat /\ exists dr, nth_error (pre ++ ds) r = Some dr /\ forall j d, nth_error (pre ++ ds) j = Some d -> (dr <= d)%Q.
Proof.
  induction ds as [|d ds IH]; intros best bestd i0 pre Hi Hb Hn Hmin; cbn [argmin_from].
  - rewrite app_nil_r. split; [lia|]. exists bestd. split; [exact Hn|exact Hmin].
  - replace (pre ++ d :: ds) with ((pre ++ [d]) ++ ds) by (rewrite <- app_assoc; reflexivity).
    unfold Qltb. destruct (Qle_bool bestd d) eqn:E; cbn [negb].
    + apply Qle_bool_iff in E. apply IH.
      * rewrite app_length; cbn; lia.
      * lia.
      * rewrite nth_error_app1 by lia. exact Hn.
      * intros j x Hj. destruct (Nat.lt_ge_cases j (List.length pre)) as [Hlt|Hge].
        -- rewrite nth_error_app1 in Hj by exact Hlt. eapply Hmin; exact Hj.
        -- rewrite nth_error_app2 in Hj by exact Hge. destruct (j - List.length pre)%nat as [|m]; cbn in Hj; [injection Hj as <-; exact E|destruct m; discriminate].
    + assert (Hlt : (d < bestd)%Q) by (apply Qnot_le_lt; intros C; apply Qle_bool_iff in C; congruence).
      apply IH.
      * rewrite app_length; cbn; lia.
      * lia.
      * rewrite nth_error_app2 by lia. subst i0. rewrite Nat.sub_diag. reflexivity.
      * intros j x Hj. destruct (Nat.lt_ge_cases j (List.length pre)) as [Hl|Hge].
        -- rewrite nth_error_app1 in Hj by exact Hl. apply Qle_trans with bestd; [apply Qlt_le_weak; exact Hlt|eapply Hmin; exact Hj].
        -- rewrite nth_error_app2 in Hj by exact Hge. destruct (j - List.length pre)%nat as [|m]; cbn in Hj; [injection Hj as <-; apply Qle_refl|destruct m; discriminate].
Qed.
Lemma nearest_is_nearest grid y : grid <> [] ->
  (nearest_idx grid y < List.length grid)%nat /\
  exists g, nth_error grid (nearest_idx grid y) = Some g /\ forall j h, nth_error grid j = Some h -> (Qabs (g - y) <= Qabs (h - y))%Q.
Proof.
  intros Hne. unfold nearest_idx. destruct grid as [|g0 gs]; [congruence|]. cbn [map].
  pose proof (argmin_from_spec (map (fun g => Qabs (g - y)) gs) 0%nat (Qabs (g0 - y)) 1%nat [Qabs (g0 - y)] eq_refl ltac:(lia) eq_refl) as S.
  cbn zeta in S. destruct S as [L (dr & Hdr & Hmin)].
  { intros j d Hj. destruct j as [|j]; cbn in Hj; [injection Hj as <-; apply Qle_refl|destruct j; discriminate]. }
  change ([Qabs (g0 - y)] ++ map (fun g => Qabs (g - y)) gs) with (map (fun g => Qabs (g - y)) (g0 :: gs)) in *.
  rewrite map_length in L. split; [exact L|].
  rewrite nth_error_map in Hdr. destruct (nth_error (g0 :: gs) _) as [g|] eqn:G; [|discriminate]. injection Hdr as <-.
  exists g. split; [reflexivity|]. intros j h Hj. apply (Hmin j). rewrite nth_error_map, Hj. reflexivity.
Qed.

(* ------------------------------------------------------------------ the gate *)
Lemma tp_index_spec tps ti : match tp_index tps ti with
  | Some i => nth_error tps i = Some ti /\ (i < List.length tps)%nat
  | None => ~ In ti tps end.
Proof.
  induction tps as [|x t IH]; cbn [tp_index]; [intros []|].
  destruct (Z.eqb_spec x ti) as [->|N]; [split; [reflexivity|cbn; lia]|].
  destruct (tp_index t ti) as [i|]; cbn [option_map].
  - destruct IH as [A B]. split; [exact A|cbn; lia].
  - intros [E|I]; [congruence|exact (IH I)].
Qed.
Lemma delivers_in tps ti : delivers tps ti = true <-> In ti tps.
Proof. unfold delivers. rewrite existsb_exists. split; [intros (x & I & E); apply Z.eqb_eq in E; subst; exact I|intros I; exists ti; split; [exact I|apply Z.eqb_refl]]. Qed.
Lemma gate_closed_iff tps probs ti : step_gate tps probs ti = Closed <-> delivers tps ti = false.
Proof.
  unfold step_gate. pose proof (tp_index_spec tps ti) as S. destruct (tp_index tps ti) as [i|].
  - destruct S as [A B]. assert (In ti tps) by (eapply nth_error_In; exact A). apply delivers_in in H. rewrite H.
    destruct (nth_error probs i); split; discriminate.
  - split; [intros _|reflexivity]. destruct (delivers tps ti) eqn:D; [apply delivers_in in D; contradiction|reflexivity].
Qed.
Lemma gate_total tps probs ti : List.length probs = List.length tps -> step_gate tps probs ti <> IndexErr.
Proof.
  intros L. unfold step_gate. pose proof (tp_index_spec tps ti) as S. destruct (tp_index tps ti) as [i|]; [|discriminate].
  destruct S as [_ B]. destruct (nth_error probs i) eqn:E; [discriminate|]. apply nth_error_None in E. lia.
Qed.
Lemma gate_open_prob tps probs ti p : step_gate tps probs ti = Open p -> exists i, nth_error tps i = Some ti /\ nth_error probs i = Some p.
Proof.
  unfold step_gate. pose proof (tp_index_spec tps ti) as S. destruct (tp_index tps ti) as [i|]; [|discriminate].
  destruct (nth_error probs i) eqn:E; [|discriminate]. intros H; injection H as <-. exists i. tauto.
Qed.

(* ------------------------------------------------------------------ acceptance *)
Lemma accept_in d p us u : In u (accept d p us) <-> In u us /\ (d u < p)%Q.
Proof.
  unfold accept. rewrite filter_In. unfold Qltb. split; intros [A B]; (split; [exact A|]).
  - apply Qnot_le_lt. intros C. apply Qle_bool_iff in C. rewrite C in B. discriminate.
  - destruct (Qle_bool p (d u)) eqn:E; [|reflexivity]. apply Qle_bool_iff in E. exfalso. apply (Qlt_irrefl p). eapply Qle_lt_trans; eassumption.
Qed.
Lemma accept_nodup d p us : NoDup us -> NoDup (accept d p us).
Proof. apply NoDup_filter. Qed.
Lemma accept_zero d p us : (p <= 0)%Q -> (forall u, 0 <= d u)%Q -> accept d p us = [].
Proof.
  intros Hp Hd. destruct (accept d p us) as [|u t] eqn:E; [reflexivity|]. exfalso.
  assert (I : In u (accept d p us)) by (rewrite E; left; reflexivity). apply accept_in in I as [_ L].
  apply (Qlt_irrefl 0). eapply Qle_lt_trans; [apply (Hd u)|]. eapply Qlt_le_trans; [exact L|exact Hp].
Qed.
Lemma accept_all d p us : (1 <= p)%Q -> (forall u, d u < 1)%Q -> accept d p us = us.
Proof.
  intros Hp Hd. unfold accept. induction us as [|u t IH]; [reflexivity|]. cbn [filter]. rewrite IH.
  unfold Qltb. destruct (Qle_bool p (d u)) eqn:E; [|reflexivity]. apply Qle_bool_iff in E. exfalso.
  apply (Qlt_irrefl 1). eapply Qle_lt_trans; [exact Hp|]. eapply Qle_lt_trans; [exact E|apply Hd].
Qed.
Lemma accept_mono d p p' us u : (p <= p')%Q -> In u (accept d p us) -> In u (accept d p' us).
Proof. intros H I. apply accept_in in I as [A B]. apply accept_in. split; [exact A|eapply Qlt_le_trans; eassumption]. Qed.

(* ------------------------------------------------------------------ records updated for recipients only *)
Lemma upd_where_nth {A} (f : A -> A) us : forall l i k,
  nth_error (upd_where f us l i) k = option_map (fun x => if mem (i + k)%nat us then f x else x) (nth_error l k).
Proof.
  induction l as [|x t IH]; intros i k; cbn [upd_where]; [destruct k; reflexivity|].
  destruct k as [|k]; cbn [nth_error option_map]; [rewrite Nat.add_0_r; reflexivity|].
  rewrite IH. replace (S i + k)%nat with (i + S k)%nat by lia. reflexivity.
Qed.
Lemma upd_where_length {A} (f : A -> A) us : forall l i, List.length (upd_where f us l i) = List.length l.
Proof. induction l as [|x t IH]; intros i; cbn; [reflexivity|rewrite IH; reflexivity]. Qed.
Lemma get_upd_where f us l u : get_raw (upd_where (scale f) us l 0) u = if mem u us then scale f (get_raw l u) else get_raw l u.
Proof.
  unfold get_raw. destruct (nth_error l u) as [c|] eqn:E.
  - rewrite (nth_error_nth _ _ G E). erewrite nth_error_nth; [reflexivity|]. rewrite upd_where_nth, E. reflexivity.
  - rewrite (nth_overflow l) by (apply nth_error_None; exact E).
    rewrite nth_overflow by (rewrite upd_where_length; apply nth_error_None; exact E). destruct (mem u us); reflexivity.
Qed.

Lemma vx_outside_window tps probs ti el d eff s : delivers tps ti = false -> vx_step tps probs ti el d eff s = Some ([], s).
Proof. intros H. apply (gate_closed_iff tps probs) in H. unfold vx_step. rewrite H. reflexivity. Qed.
Lemma vx_recipients tps probs ti el d eff s acc s' : vx_step tps probs ti el d eff s = Some (acc, s') ->
  forall u, In u acc -> In u el /\ In ti tps /\ exists i p, nth_error tps i = Some ti /\ nth_error probs i = Some p /\ (d u < p)%Q.
Proof.
  unfold vx_step. destruct (step_gate tps probs ti) eqn:Gt; [intros H; injection H as <- <-; intros u []| |discriminate].
  intros H; injection H as <- <-. intros u I. apply accept_in in I as [A B]. destruct (gate_open_prob _ _ _ _ Gt) as (i & Hi & Hp).
  split; [exact A|]. split; [eapply nth_error_In; exact Hi|]. exists i, p. tauto.
Qed.
Lemma vx_effect tps probs ti el d eff s acc s' : vx_step tps probs ti el d eff s = Some (acc, s') -> forall u,
  get_raw (rel_sus s') u = (if mem u acc then scale (vx_factor_gen eff) (get_raw (rel_sus s) u) else get_raw (rel_sus s) u) /\
  nth_error (vaccinated s') u = option_map (fun x => if mem u acc then true else x) (nth_error (vaccinated s) u) /\
  nth_error (doses s') u = option_map (fun x => if mem u acc then x + 1 else x) (nth_error (doses s) u).
Proof.
  unfold vx_step. destruct (step_gate tps probs ti) eqn:Gt; [| |discriminate]; intros H; injection H as <- <-; intros u.
  - cbn [mem existsb]. destruct (nth_error (vaccinated s) u), (nth_error (doses s) u); cbn; auto.
  - unfold vx_apply. cbn [rel_sus vaccinated doses]. rewrite get_upd_where, !upd_where_nth. cbn [plus]. auto.
Qed.
Lemma vx_full_efficacy eff c : (eff == 1)%Q -> (cell_q (scale (vx_factor_gen eff) c) == 0)%Q.
Proof. intros E. destruct c as [q|]; cbn [scale cell_q]; [|reflexivity]. unfold vx_factor_gen. rewrite E. ring. Qed.

(* a recipient of a fully effective (leaky) vaccine cannot be a new case of network transmission while rel_sus is not reset *)
Lemma vx_blocks_infection tps probs ti el d eff s acc s' inf sus rel_trans au nets rands res t src i :
  (eff == 1)%Q -> vx_step tps probs ti el d eff s = Some (acc, s') -> In t acc ->
  NoDup au -> (forall x, In x au -> (x < List.length rel_trans)%nat) -> (forall x, In x au -> (x < List.length (rel_sus s'))%nat) -> rands_nonneg rands ->
  infect inf sus rel_trans (rel_sus s') au nets rands = Some res -> ~ In (t, src, i) res.
Proof.
  intros E Hs It ND B1 B2 RN Hinf Hin.
  destruct (new_case_admissible _ _ _ _ _ _ _ _ _ _ _ ND B1 B2 RN Hinf Hin) as (n & e & fwd & _ & _ & _ & _ & _ & _ & _ & _ & _ & _ & _ & Nz).
  apply Nz. destruct (vx_effect _ _ _ _ _ _ _ _ _ Hs t) as [R _]. rewrite R.
  apply mem_in in It. rewrite It. apply vx_full_efficacy. exact E.
Qed.

(* ------------------------------------------------------------------ treat_num *)
Lemma firstn_In_local {A} (l : list A) : forall n x, In x (firstn n l) -> In x l.
Proof. induction l as [|h t IH]; intros [|n] x H; cbn in *; try contradiction. destruct H as [H|H]; [left; exact H|right; eapply IH; exact H]. Qed.
Lemma filter_length_le {A} (f : A -> bool) l : (List.length (filter f l) <= List.length l)%nat.
Proof. induction l as [|h t IH]; cbn; [lia|]. destruct (f h); cbn; lia. Qed.
Lemma insert_u_length x l : (List.length (insert_u x l) <= S (List.length l))%nat.
Proof. induction l as [|h t IH]; cbn [insert_u]; [cbn; lia|]. destruct (Nat.ltb x h); [cbn; lia|]. destruct (Nat.eqb x h); cbn in *; lia. Qed.
Lemma sort_unique_length l : (List.length (sort_unique l) <= List.length l)%nat.
Proof. unfold sort_unique. induction l as [|h t IH]; cbn [fold_right]; [lia|]. pose proof (insert_u_length h (fold_right insert_u [] t)). cbn; lia. Qed.
Lemma uids_and_length a b : (List.length (uids_and a b) <= List.length a)%nat.
Proof. unfold uids_and. eapply Nat.le_trans; [apply sort_unique_length|apply filter_length_le]. Qed.

Lemma candidates_len c q : 0 <= c -> Z.of_nat (List.length (candidates (Some c) q)) <= c.
Proof.
  intros Hc. unfold candidates. destruct q as [|x t]; [cbn; lia|]. set (q := x :: t). unfold use_all_gen.
  destruct (Z.gtb_spec c (Z.of_nat (List.length q))); [lia|]. unfold py_prefix. destruct (Z.ltb_spec c 0); [lia|].
  rewrite firstn_length. lia.
Qed.
Lemma candidates_prefix cap q : match cap with Some c => 0 <= c | None => True end -> exists r, q = candidates cap q ++ r.
Proof.
  intros Hc. unfold candidates. destruct q as [|x t]; [exists []; reflexivity|]. set (q := x :: t).
  destruct (use_all_gen cap (Z.of_nat (List.length q))); [exists []; rewrite app_nil_r; reflexivity|].
  destruct cap as [c|]; [|exists []; rewrite app_nil_r; reflexivity].
  unfold py_prefix. destruct (Z.ltb_spec c 0); [lia|]. exists (skipn (Z.to_nat c) q). rewrite firstn_skipn. reflexivity.
Qed.
Lemma candidates_in cap q u : In u (candidates cap q) -> In u q.
Proof.
  unfold candidates. destruct q as [|x t]; [intros []|]. set (q := x :: t).
  destruct (use_all_gen cap _); [auto|]. destruct cap as [c|]; [|auto]. unfold py_prefix.
  destruct (c <? 0); intros H; eapply firstn_In_local; exact H.
Qed.

Lemma treat_capacity c q a st : 0 <= c -> Z.of_nat (List.length (fst (treat_step (Some c) q a st))) <= c.
Proof.
  intros Hc. unfold treat_step. cbn [fst]. pose proof (uids_and_length (candidates (Some c) (q ++ a)) st).
  pose proof (candidates_len c (q ++ a) Hc). lia.
Qed.
Lemma treat_in cap q a st u : In u (fst (treat_step cap q a st)) <-> In u (candidates cap (q ++ a)) /\ In u st.
Proof. unfold treat_step. cbn [fst]. apply uids_and_spec. Qed.
Lemma treat_eligible_and_queued cap q a st u : In u (fst (treat_step cap q a st)) -> In u st /\ (In u q \/ In u a).
Proof. intros H. apply treat_in in H as [C S]. split; [exact S|]. apply candidates_in in C. apply in_app_or in C. exact C. Qed.
Lemma treat_nodup cap q a st : NoDup (fst (treat_step cap q a st)).
Proof. unfold treat_step. cbn [fst]. unfold uids_and. apply sorted_lt_nodup, sort_unique_sorted. Qed.
Lemma queue_after_in cap q a st u : In u (snd (treat_step cap q a st)) <-> In u (q ++ a) /\ ~ In u (fst (treat_step cap q a st)).
Proof. unfold treat_step. cbn [fst snd]. rewrite filter_In, negb_mem. tauto. Qed.
(* FIFO: whoever is ahead of a candidate in the queue is a candidate too *)
Lemma treat_fifo cap q u : match cap with Some c => 0 <= c | None => True end -> In u (candidates cap q) ->
  exists r, q = candidates cap q ++ r.
Proof. intros Hc _. apply candidates_prefix. exact Hc. Qed.

(* whole histories of a treat_num intervention *)
Lemma treat_run_capacity c steps : 0 <= c -> forall q, Forall (fun tr => Z.of_nat (List.length tr) <= c) (fst (treat_run (Some c) q steps)).
Proof.
  intros Hc. induction steps as [|[a st] t IH]; intros q; cbn [treat_run fst]; [constructor|].
  destruct (treat_step (Some c) q a st) as [tr q'] eqn:E. specialize (IH q'). destruct (treat_run (Some c) q' t) as [trs qf]. cbn [fst] in *.
  constructor; [|exact IH]. pose proof (treat_capacity c q a st Hc) as H. rewrite E in H. exact H.
Qed.
(* everybody treated at step k is eligible at step k and entered the queue by acceptance at some step j <= k (or was in the initial queue) *)
Lemma treat_run_sources cap steps : forall q k tr u, nth_error (fst (treat_run cap q steps)) k = Some tr -> In u tr ->
  (exists a st, nth_error steps k = Some (a, st) /\ In u st) /\
  (In u q \/ exists j a st, (j <= k)%nat /\ nth_error steps j = Some (a, st) /\ In u a).
Proof.
  induction steps as [|[a st] t IH]; intros q k tr u Hk Hu; cbn [treat_run fst] in Hk; [destruct k; discriminate|].
  destruct (treat_step cap q a st) as [tr0 q'] eqn:E. destruct (treat_run cap q' t) as [trs qf] eqn:R. cbn [fst] in Hk.
  destruct k as [|k]; cbn [nth_error] in Hk.
  - injection Hk as <-. assert (H : In u (fst (treat_step cap q a st))) by (rewrite E; exact Hu).
    apply treat_eligible_and_queued in H as [S [Q|A]].
    + split; [exists a, st; split; [reflexivity|exact S]|left; exact Q].
    + split; [exists a, st; split; [reflexivity|exact S]|right; exists 0%nat, a, st; split; [lia|split; [reflexivity|exact A]]].
  - assert (Hk' : nth_error (fst (treat_run cap q' t)) k = Some tr) by (rewrite R; exact Hk).
    destruct (IH q' k tr u Hk' Hu) as [Hs [Q|(j & a' & st' & Lj & Nj & Aj)]].
    + split; [exact Hs|]. assert (H : In u (snd (treat_step cap q a st))) by (rewrite E; exact Q).
      apply queue_after_in in H as [H _]. apply in_app_or in H as [H|H]; [left; exact H|right; exists 0%nat, a, st; split; [lia|split; [reflexivity|exact H]]].
    + split; [exact Hs|]. right. exists (S j), a', st'. split; [lia|split; [exact Nj|exact Aj]].
Qed.
(* a treated agent leaves the queue *)
Lemma treated_leave_queue cap q a st u : In u (fst (treat_step cap q a st)) -> ~ In u (snd (treat_step cap q a st)).
Proof. intros H C. apply queue_after_in in C as [_ C]. exact (C H). Qed.

(* ------------------------------------------------------------------ Tx.administer *)
Lemma tx_nonrecipient rows : forall oks st, tx_agent false rows oks st = st.
Proof. induction rows as [|r t IH]; intros [|o os] st; cbn [tx_agent]; try reflexivity. unfold tx_row. cbn [andb]. apply IH. Qed.
Lemma tx_all_fail rows : forall oks st b, (forall o, In o oks -> o = false) -> tx_agent b rows oks st = st.
Proof.
  induction rows as [|r t IH]; intros [|o os] st b H; cbn [tx_agent]; try reflexivity.
  unfold tx_row. rewrite (H o (or_introl eq_refl)). rewrite !andb_false_r. apply IH. intros x Hx. apply H. right. exact Hx.
Qed.
Lemma tx_single_row a b st ok : tx_agent true [(a, b)] [ok] st = if andb (getv st a) ok then setv (setv st a false) b true else st.
Proof. reflexivity. Qed.
Lemma getv_setv_other v k b k' : k <> k' -> getv (setv v k b) k' = getv v k'.
Proof.
  intros N. unfold getv, setv. induction v as [|[x y] t IH]; cbn [map find fst snd]; [reflexivity|].
  destruct (String.eqb_spec x k) as [->|N1]; cbn [fst snd].
  - destruct (String.eqb_spec k k') as [E|_]; [contradiction|]. exact IH.
  - destruct (String.eqb x k'); [reflexivity|exact IH].
Qed.
(* flags that are neither a treated state nor a post-treatment state of the table are never touched *)
Lemma tx_other_flags rows : forall oks st rc k, (forall r, In r rows -> fst r <> k /\ snd r <> k) -> getv (tx_agent rc rows oks st) k = getv st k.
Proof.
  induction rows as [|r t IH]; intros [|o os] st rc k H; cbn [tx_agent]; try reflexivity.
  rewrite IH by (intros x Hx; apply H; right; exact Hx). unfold tx_row.
  destruct (andb rc (andb (getv st (fst r)) o)); [|reflexivity].
  destruct (H r (or_introl eq_refl)) as [A B]. rewrite getv_setv_other by exact B. apply getv_setv_other. exact A.
Qed.

(* ------------------------------------------------------------------ Dx.administer *)
Lemma dx_fold_le rows : forall acc, (fold_left dx_step rows acc <= acc)%nat.
Proof. induction rows as [|[b c] t IH]; intros acc; cbn [fold_left]; [lia|]. unfold dx_step at 2; cbn [fst snd]. destruct b; [eapply Nat.le_trans; [apply IH|apply Nat.le_min_r]|apply IH]. Qed.
Lemma dx_result_in_hierarchy default rows : (dx_agent default rows <= default)%nat.
Proof. apply dx_fold_le. Qed.
Lemma dx_no_state_default default rows : (forall r, In r rows -> fst r = false) -> dx_agent default rows = default.
Proof.
  unfold dx_agent. revert default. induction rows as [|[b c] t IH]; intros d H; cbn [fold_left]; [reflexivity|].
  unfold dx_step at 2; cbn [fst snd]. pose proof (H (b, c) (or_introl eq_refl)) as Hb. cbn in Hb. subst b. apply IH. intros r Hr. apply H. right. exact Hr.
Qed.
Lemma dx_fold_min rows : forall acc, fold_left dx_step rows acc =
  Nat.min acc (fold_left dx_step rows acc).
Proof. intros acc. pose proof (dx_fold_le rows acc). lia. Qed.
(* the result is a lower bound of every applicable drawn category, and is attained: it is their minimum (with the default) *)
Lemma dx_lower_bound default rows r : In r rows -> fst r = true -> (dx_agent default rows <= snd r)%nat.
Proof.
  unfold dx_agent. revert default. induction rows as [|[b c] t IH]; intros d Hin Hb; [destruct Hin|]. cbn [fold_left]. unfold dx_step at 2; cbn [fst snd].
  destruct Hin as [E|Hin].
  - subst r. cbn [fst snd] in *. subst b. eapply Nat.le_trans; [apply dx_fold_le|apply Nat.le_min_l].
  - apply IH; assumption.
Qed.
Lemma dx_attained default rows : dx_agent default rows = default \/ exists r, In r rows /\ fst r = true /\ dx_agent default rows = snd r.
Proof.
  unfold dx_agent. revert default. induction rows as [|[b c] t IH]; intros d; cbn [fold_left]; [left; reflexivity|]. unfold dx_step at 2 4; cbn [fst snd].
  destruct b.
  - destruct (IH (Nat.min c d)) as [E|(r & Hr & Hb & E)].
    + destruct (Nat.min_dec c d) as [M|M]; rewrite M in E.
      * right. exists (true, c). split; [left; reflexivity|]. split; [reflexivity|]. rewrite M. exact E.
      * left. rewrite M. exact E.
    + right. exists r. split; [right; exact Hr|]. split; [exact Hb|exact E].
  - destruct (IH d) as [E|(r & Hr & Hb & E)]; [left; exact E|right; exists r; split; [right; exact Hr|split; [exact Hb|exact E]]].
Qed.
(* every tested agent lands in exactly one category of the returned dictionary; nobody else appears in it *)
Lemma dx_groups_partition res u c : In (u, c) res -> In u (dx_group c res).
Proof. intros H. unfold dx_group. apply in_map_iff. exists (u, c). split; [reflexivity|]. apply filter_In. split; [exact H|cbn; apply Nat.eqb_refl]. Qed.
Lemma dx_groups_sound res u k : In u (dx_group k res) -> In (u, k) res.
Proof. unfold dx_group. intros H. apply in_map_iff in H as ([u' c] & E & H). cbn in E. subst u'. apply filter_In in H as [H B]. cbn in B. apply Nat.eqb_eq in B. subst c. exact H. Qed.
