(* Proofs about agent arrays (L2): raw-cell lemmas, growth, uid-map semantics, uid-set algebra. *)
From SS Require Import Model.Prelude Model.L2_People.
From Coq Require Import Lia List Permutation Sorted QArith.
Local Open Scope nat_scope.

(* ------------------------------------------------------------------ set_nth / get_raw *)
Lemma set_nth_length {A} (l : list A) i x : length (set_nth l i x) = length l.
Proof. revert i; induction l as [|h t IH]; intros [|i]; cbn; auto. Qed.

Lemma get_set_nth l i x j : get_raw (set_nth l i x) j = if andb (Nat.eqb i j) (Nat.ltb i (length l)) then x else get_raw l j.
Proof.
  unfold get_raw. revert i j; induction l as [|h t IH]; intros i j.
  - cbn. destruct i, j; cbn; try reflexivity; rewrite ?andb_false_r; reflexivity.
  - destruct i as [|i], j as [|j]; cbn; try reflexivity.
    rewrite IH. reflexivity.
Qed.

Lemma set_const_length l us v : length (set_const l us v) = length l.
Proof. unfold set_const. revert l; induction us as [|u us IH]; intros l; cbn; [reflexivity|]. rewrite IH, set_nth_length. reflexivity. Qed.

Lemma get_set_const us : forall l v j, get_raw (set_const l us v) j = if andb (existsb (Nat.eqb j) us) (Nat.ltb j (length l)) then V v else get_raw l j.
Proof.
  unfold set_const. induction us as [|u us IH]; intros l v j; cbn [fold_left existsb]; [reflexivity|].
  rewrite IH, set_nth_length, get_set_nth. rewrite (Nat.eqb_sym j u).
  destruct (existsb (Nat.eqb j) us); destruct (Nat.eqb_spec u j) as [->|N]; destruct (Nat.ltb_spec j (length l)); cbn; try reflexivity;
    try (destruct (Nat.ltb_spec u (length l)); reflexivity).
Qed.

Lemma set_many_length us : forall l vs, length (set_many l us vs) = length l.
Proof. induction us as [|u us IH]; intros l [|v vs]; cbn; try reflexivity. rewrite IH, set_nth_length. reflexivity. Qed.

(* writing distinct in-range positions: position k of the index list receives value k *)
Lemma get_set_many us : forall l vs j, NoDup us -> length vs = length us -> (forall u, In u us -> u < length l) ->
  get_raw (set_many l us vs) j =
    match find (fun p => Nat.eqb (fst p) j) (combine us vs) with Some p => V (snd p) | None => get_raw l j end.
Proof.
  induction us as [|u us IH]; intros l vs j ND L B; destruct vs as [|v vs]; try discriminate; cbn [set_many combine find]; [reflexivity|].
  inversion ND as [|? ? Hn ND']; subst. cbn [fst snd].
  rewrite IH; [|assumption|cbn in L; lia|intros x Hx; rewrite set_nth_length; apply B; right; exact Hx].
  destruct (Nat.eqb u j) eqn:E.
  - apply Nat.eqb_eq in E; subst.
    assert (F : find (fun p => Nat.eqb (fst p) j) (combine us vs) = None).
    { destruct (find _ _) as [p|] eqn:F; [|reflexivity]. exfalso. apply find_some in F as [Hin Hp].
      apply Nat.eqb_eq in Hp. destruct p as [a b]. cbn in Hp; subst. apply in_combine_l in Hin. contradiction. }
    rewrite F, get_set_nth, Nat.eqb_refl. cbn [andb].
    assert (j < length l) by (apply B; left; reflexivity). destruct (Nat.ltb_spec j (length l)); [reflexivity|lia].
  - destruct (find _ _); [reflexivity|]. rewrite get_set_nth, E. reflexivity.
Qed.

Lemma get_app_l l1 l2 j : j < length l1 -> get_raw (l1 ++ l2) j = get_raw l1 j.
Proof. intros H. unfold get_raw. apply app_nth1. exact H. Qed.

(* ------------------------------------------------------------------ uid-map semantics (C11) *)
(* M u := get_raw (raw a) u is the abstract map; writing by uids updates exactly those keys *)
Lemma set_get_const a us v u : u < len_tot a ->
  get_raw (set_const (raw a) us v) u = if existsb (Nat.eqb u) us then V v else get_raw (raw a) u.
Proof.
  intros H. rewrite get_set_const. unfold len_tot in H.
  destruct (Nat.ltb_spec u (length (raw a))); [|lia]. rewrite andb_true_r. reflexivity.
Qed.

Lemma values_are_map a au : arr_values a au = map (get_raw (raw a)) au.
Proof. reflexivity. Qed.

(* derived arrays (comparisons, logic) only define the active cells; reading them through the active
   view never meets garbage and gives the pointwise result *)
Lemma asnew_values a au vals : NoDup au -> length vals = length au -> (forall u, In u au -> u < len_tot a) ->
  arr_values (asnew a au vals) au = map V vals.
Proof.
  intros ND L B. unfold arr_values, asnew. cbn [raw upd_raw].
  assert (Hlen : forall u, In u au -> u < length (repeat G (len_tot a))) by (intros u Hu; rewrite repeat_length; apply B; exact Hu).
  revert vals L. induction au as [|u au IH]; intros [|v vals] L; try discriminate; [reflexivity|].
  cbn [map]. inversion ND as [|? ? Hn ND']; subst. f_equal.
  - rewrite get_set_many; [|assumption|assumption|assumption]. cbn [combine find fst]. rewrite Nat.eqb_refl. reflexivity.
  - (* the remaining cells are those written by the tail of the index list *)
    assert (E : map (get_raw (set_many (repeat G (len_tot a)) (u :: au) (v :: vals))) au
              = map (get_raw (set_many (repeat G (len_tot a)) au vals)) au).
    { apply map_ext_in. intros x Hx.
      rewrite get_set_many; [|assumption|assumption|assumption].
      rewrite get_set_many; [|assumption|cbn in L; lia|intros y Hy; apply Hlen; right; exact Hy].
      cbn [combine find fst]. destruct (Nat.eqb u x) eqn:E; [apply Nat.eqb_eq in E; subst; contradiction|]. reflexivity. }
    rewrite E. apply IH; [assumption|intros y Hy; apply B; right; exact Hy|intros y Hy; apply Hlen; right; exact Hy|cbn in L; lia].
Qed.

Lemma filter_cells_V keep au vals : length vals = length au ->
  filter_cells keep au (map V vals) = Some (map fst (filter (fun p => Bool.eqb (negb (Qeq_bool (snd p) 0)) keep) (combine au vals))).
Proof.
  revert vals; induction au as [|u au IH]; intros [|v vals] L; try discriminate; [reflexivity|].
  cbn [map filter_cells truthy combine filter]. rewrite IH by (cbn in L; lia). cbn [snd].
  destruct (Bool.eqb (negb (Qeq_bool v 0)) keep); reflexivity.
Qed.

(* true() and false() partition the active set *)
Lemma true_false_partition a au vals : NoDup au -> length vals = length au -> (forall u, In u au -> u < len_tot a) ->
  exists t f, true_uids (asnew a au vals) au = Some t /\ false_uids (asnew a au vals) au = Some f /\
    Permutation (t ++ f) au /\ (forall x, In x t -> ~ In x f).
Proof.
  intros ND L B. unfold true_uids, false_uids. rewrite (asnew_values a au vals ND L B), !filter_cells_V by assumption.
  eexists; eexists; split; [reflexivity|]; split; [reflexivity|].
  clear B. revert vals L ND. induction au as [|u au IH]; intros [|v vals] L ND; try discriminate; [split; [constructor|intros x []]|].
  inversion ND as [|? ? Hn ND']; subst. cbn in L. destruct (IH vals ltac:(lia) ND') as [P D].
  cbn [combine filter snd]. destruct (negb (Qeq_bool v 0)); cbn [Bool.eqb map fst app].
  - split; [constructor; exact P|]. intros x [<-|Hx] Hf.
    + apply Hn. apply in_map_iff in Hf as [[a0 b0] [<- Hin]]. apply filter_In in Hin as [Hin _]. apply in_combine_l in Hin. exact Hin.
    + apply (D x Hx Hf).
  - split.
    + apply Permutation_sym, Permutation_cons_app, Permutation_sym, P.
    + intros x Hx [<-|Hf]; [|apply (D x Hx Hf)].
      apply Hn. apply in_map_iff in Hx as [[a0 b0] [<- Hin]]. apply filter_In in Hin as [Hin _]. apply in_combine_l in Hin. exact Hin.
Qed.

(* comparison: the uids of (arr <op> c) are exactly the active agents whose mapped value satisfies it *)
Lemma cmp_uids a au o c : NoDup au -> (forall u, In u au -> u < len_tot a) ->
  true_uids (arr_cmp a au o c) au = Some (filter (fun u => cmp_q o (cell_q (get_raw (raw a) u)) c) au).
Proof.
  intros ND B. unfold true_uids, arr_cmp.
  rewrite asnew_values; [|assumption|unfold arr_values; rewrite !map_length; reflexivity|assumption].
  rewrite filter_cells_V by (unfold arr_values; rewrite !map_length; reflexivity).
  f_equal. unfold arr_values. clear. induction au as [|u au IH]; cbn; [reflexivity|].
  destruct (cmp_q o (cell_q (get_raw (raw a) u)) c); cbn; rewrite IH; reflexivity.
Qed.

(* logical not swaps true() and false() *)
Lemma not_uids a au vals : NoDup au -> length vals = length au -> (forall u, In u au -> u < len_tot a) ->
  let b := asnew a au vals in true_uids (arr_not b au) au = false_uids b au.
Proof.
  intros ND L B b. unfold true_uids, false_uids, arr_not, b.
  assert (Lt : len_tot (asnew a au vals) = len_tot a).
  { unfold asnew, len_tot. cbn. rewrite set_many_length, repeat_length. reflexivity. }
  rewrite (asnew_values a au vals ND L B).
  rewrite asnew_values; [|assumption|rewrite !map_length; exact L|intros u Hu; rewrite Lt; apply B; exact Hu].
  rewrite !filter_cells_V by (rewrite ?map_length; assumption).
  f_equal. clear - L. revert vals L; induction au as [|u au IH]; intros [|v vals] L; try discriminate; [reflexivity|].
  cbn. unfold qtrue, cell_q. destruct (Qeq_bool v 0) eqn:E; cbn; rewrite IH by (cbn in L; lia); reflexivity.
Qed.

(* ------------------------------------------------------------------ uid-set algebra *)
Lemma insert_u_in x l y : In y (insert_u x l) <-> y = x \/ In y l.
Proof.
  induction l as [|h t IH]; cbn [insert_u In]; [intuition|].
  destruct (Nat.ltb x h); [cbn [In]; intuition|]. destruct (Nat.eqb x h) eqn:E.
  - apply Nat.eqb_eq in E; subst. cbn [In]. intuition.
  - cbn [In]. rewrite IH. intuition.
Qed.
Lemma sort_unique_in l y : In y (sort_unique l) <-> In y l.
Proof. unfold sort_unique. induction l as [|h t IH]; cbn [fold_right In]; [tauto|]. rewrite insert_u_in, IH. intuition. Qed.

Lemma insert_u_sorted x l : StronglySorted lt l -> StronglySorted lt (insert_u x l).
Proof.
  induction l as [|h t IH]; intros S; cbn [insert_u]; [repeat constructor|].
  inversion S as [|? ? S' Hall]; subst.
  destruct (Nat.ltb_spec x h).
  - constructor; [exact S|]. constructor; [exact H|]. rewrite Forall_forall in *. intros y Hy. specialize (Hall y Hy). lia.
  - destruct (Nat.eqb_spec x h); [exact S|]. constructor; [apply IH; exact S'|].
    rewrite Forall_forall in *. intros y Hy. apply insert_u_in in Hy as [->|Hy]; [lia|apply Hall; exact Hy].
Qed.
Lemma sort_unique_sorted l : StronglySorted lt (sort_unique l).
Proof. unfold sort_unique. induction l; cbn [fold_right]; [constructor|]. apply insert_u_sorted. assumption. Qed.
Lemma sorted_lt_nodup l : StronglySorted lt l -> NoDup l.
Proof.
  induction 1 as [|a l S IH Hall]; constructor; [|exact IH]. intros Hin. rewrite Forall_forall in Hall. specialize (Hall a Hin). lia.
Qed.
Lemma mem_in x l : mem x l = true <-> In x l.
Proof.
  unfold mem. rewrite existsb_exists. split; [intros [y [Hy E]]; apply Nat.eqb_eq in E; subst; exact Hy|].
  intros H; exists x; split; [exact H|apply Nat.eqb_refl].
Qed.

Lemma uids_and_spec a b x : In x (uids_and a b) <-> In x a /\ In x b.
Proof. unfold uids_and. rewrite sort_unique_in, filter_In, mem_in. tauto. Qed.
Lemma uids_or_spec a b x : In x (uids_or a b) <-> In x a \/ In x b.
Proof. unfold uids_or. rewrite sort_unique_in, in_app_iff. tauto. Qed.
Lemma negb_mem x l : negb (mem x l) = true <-> ~ In x l.
Proof.
  split.
  - intros H Hin. apply mem_in in Hin. rewrite Hin in H. discriminate.
  - intros H. destruct (mem x l) eqn:E; [apply mem_in in E; contradiction|reflexivity].
Qed.
Lemma uids_sub_spec a b x : In x (uids_sub a b) <-> In x a /\ ~ In x b.
Proof. unfold uids_sub. rewrite sort_unique_in, filter_In, negb_mem. tauto. Qed.
Lemma uids_xor_spec a b x : In x (uids_xor a b) <-> (In x a /\ ~ In x b) \/ (In x b /\ ~ In x a).
Proof. unfold uids_xor. rewrite sort_unique_in, in_app_iff, !filter_In, !negb_mem. tauto. Qed.
