(* The clock theorem: when the plan reaches the row scheduled for the k-th own time point of a module,
   that module's own time index is k. *)
From SS Require Import Model.Prelude Model.L4_LoopBase Gen.Gen_Loop Model.L4_Loop Proofs.P_Loop.
From Coq Require Import Lia List Permutation Sorted QArith Lqa.

Definition cnt {A} (p : A -> bool) (l : list A) : nat := length (filter p l).
Lemma cnt_app {A} (p : A -> bool) l1 l2 : cnt p (l1 ++ l2) = (cnt p l1 + cnt p l2)%nat.
Proof. unfold cnt. rewrite filter_app, app_length. reflexivity. Qed.
Lemma cnt_perm {A} (p : A -> bool) l1 l2 : Permutation l1 l2 -> cnt p l1 = cnt p l2.
Proof.
  unfold cnt. intros H. induction H; cbn; auto.
  - destruct (p x); cbn; auto.
  - destruct (p x), (p y); reflexivity.
  - congruence.
Qed.

(* the clock an owner reads: people share the sim's *)
Definition clk_of (o : owner) : owner := match o with OPeople => OSim | x => x end.
Definition is_fin (o : owner) (r : row) : bool :=
  andb (method_eqb (f_meth (r_func r)) MFinishStep) (owner_eqb (f_owner (r_func r)) (clk_of o)).

Lemma get_bump l id id' : get_ti (bump_ti l id) id' = (get_ti l id' + (if Nat.eqb id id' then 1 else 0))%nat.
Proof.
  induction l as [|[i v] t IH]; cbn.
  - destruct (Nat.eqb id id'); lia.
  - destruct (Nat.eqb i id) eqn:E; cbn.
    + apply Nat.eqb_eq in E; subst. destruct (Nat.eqb id id'); lia.
    + destruct (Nat.eqb i id') eqn:E'; [|exact IH].
      apply Nat.eqb_eq in E'; subst. apply Nat.eqb_neq in E.
      destruct (Nat.eqb_spec id id'); [congruence|lia].
Qed.

Lemma owner_ti_exec c r o : owner_ti (exec_row c r) o = (owner_ti c o + (if is_fin o r then 1 else 0))%nat.
Proof.
  unfold exec_row, is_fin. destruct r as [t k [ow me]]; cbn.
  destruct me; cbn; try lia; destruct ow as [| |id]; destruct o as [| |id']; cbn; try lia.
  - rewrite get_bump. rewrite Nat.eqb_sym. reflexivity.
Qed.

Lemma run_rows_split c pre r post :
  exists c', In (r, owner_ti c' (f_owner (r_func r)), c_sim c') (snd (run_rows c (pre ++ r :: post))) /\
    (forall o, owner_ti c' o = owner_ti c o + cnt (is_fin o) pre)%nat.
Proof.
  revert c. induction pre as [|x pre IH]; intros c.
  - exists c. split.
    + cbn [app run_rows]. destruct (run_rows (exec_row c r) post) as [cf tr]. left; reflexivity.
    + intros o. cbn. lia.
  - destruct (IH (exec_row c x)) as [c' [Hin Hc]]. exists c'. split.
    + cbn [app run_rows]. fold (app pre (r :: post)).
      destruct (run_rows (exec_row c x) (pre ++ r :: post)) as [cf tr]. right. exact Hin.
    + intros o. rewrite Hc, owner_ti_exec. unfold cnt. cbn [filter]. destruct (is_fin o x); cbn; lia.
Qed.

(* positions in the trace are positions in the plan *)
Lemma run_rows_nth c rows : forall p r, nth_error rows p = Some r ->
  exists c', nth_error (snd (run_rows c rows)) p = Some (r, owner_ti c' (f_owner (r_func r)), c_sim c') /\
    (forall o, owner_ti c' o = owner_ti c o + cnt (is_fin o) (firstn p rows))%nat.
Proof.
  revert c. induction rows as [|x rows IH]; intros c p r H; [destruct p; discriminate|].
  destruct p as [|p].
  - cbn in H. injection H as ->. exists c. cbn [run_rows]. destruct (run_rows (exec_row c r) rows). split; [reflexivity|].
    intros o; cbn; lia.
  - cbn in H. destruct (IH (exec_row c x) p r H) as [c' [Hn Hc]]. exists c'. cbn [run_rows].
    destruct (run_rows (exec_row c x) rows) as [cf tr]. split; [exact Hn|].
    intros o. rewrite Hc, owner_ti_exec. cbn [firstn]. unfold cnt. cbn [filter]. destruct (is_fin o x); cbn; lia.
Qed.

(* ------------------------------------------------------------------ sorted prefix *)
Lemma row_le_trans : Relations_1.Transitive row_le.
Proof. intros a b c. unfold row_le. apply Qle_trans. Qed.

Lemma sorted_split l : Sorted row_le l -> forall pre r post, l = pre ++ r :: post ->
  (forall x, In x pre -> key x <= key r) /\ (forall x, In x post -> key r <= key x).
Proof.
  intros S. apply Sorted_StronglySorted in S; [|exact row_le_trans].
  induction S as [|a l S IH Hall]; intros pre r post E; [destruct pre; discriminate|].
  destruct pre as [|b pre]; cbn in E; injection E as <- ->.
  - split; [intros x []|]. intros x Hx. rewrite Forall_forall in Hall. apply Hall; exact Hx.
  - destruct (IH pre r post eq_refl) as [P1 P2]. split; [|exact P2].
    intros x [<-|Hx]; [|apply P1; exact Hx]. rewrite Forall_forall in Hall. apply Hall. apply in_or_app. right; left; reflexivity.
Qed.

(* ------------------------------------------------------------------ counting finish rows *)
Definition fin_func (o : owner) (f : func) : bool :=
  andb (method_eqb (f_meth f) MFinishStep) (owner_eqb (f_owner f) (clk_of o)).

Lemma number_app {A} (l1 l2 : list A) i : number i (l1 ++ l2) = number i l1 ++ number (i + length l1) l2.
Proof.
  revert i; induction l1 as [|a t IH]; intros i; cbn [app number length].
  - replace (i + 0)%nat with i by lia. reflexivity.
  - rewrite IH. replace (S i + length t)%nat with (i + S (length t))%nat by lia. reflexivity.
Qed.

Lemma filter_rows_of tv mods o nf :
  filter (is_fin o) (rows_of tv mods nf) = if fin_func o (snd nf) then rows_of tv mods nf else [].
Proof.
  unfold rows_of. destruct (fin_func o (snd nf)) eqn:E.
  - apply filter_map_all. intros t. unfold is_fin. cbn. exact E.
  - apply filter_map_none. intros t. unfold is_fin. cbn. exact E.
Qed.

Lemma filter_cross_none tv mods o (l : list func) : forall j, (forall f, In f l -> fin_func o f = false) ->
  filter (is_fin o) (flat_map (rows_of tv mods) (number j l)) = [].
Proof.
  induction l as [|a t IH]; intros j H; cbn; [reflexivity|].
  rewrite filter_app, filter_rows_of. cbn [snd]. rewrite (H a) by (left; reflexivity). cbn.
  apply IH. intros f Hf. apply H. right; exact Hf.
Qed.

Lemma owner_eqb_eq a b : owner_eqb a b = true <-> a = b.
Proof.
  destruct a, b; cbn; split; intros H; try reflexivity; try discriminate; try congruence.
  - apply Nat.eqb_eq in H. congruence.
  - injection H as ->. apply Nat.eqb_refl.
Qed.

Section Clock.
  Variable tv : list Q.
  Variable mods : list modl.
  (* structure of the collected function list (established for `collect` from phases_gen in Props) *)
  Variable A : list func.
  Variable i1 i2 : list nat.
  Variable id : nat.
  Let mk (k : nat) := mkFunc (OMod k) MFinishStep.
  Let Bs := [mkFunc OPeople MFinishStep; mkFunc OSim MFinishStep].
  Hypothesis Hcollect : collect mods = A ++ (map mk i1 ++ mk id :: map mk i2) ++ Bs.
  Hypothesis HA : forall f, In f A -> f_meth f <> MFinishStep.
  Hypothesis Hi1 : ~ In id i1.
  Hypothesis Hi2 : ~ In id i2.
  Variable m : modl.
  Hypothesis Hm : find_mod mods id = Some m.

  Let o := OMod id.
  Let ifin := (length A + length i1)%nat.
  Let nf := length (collect mods).
  Let gap := time_eps_gen * inject_Z (Z.of_nat nf).
  (* own time vector strictly increasing with gaps larger than eps * (number of functions) *)
  Hypothesis Hgap : StronglySorted (fun a b => a + gap < b) (m_tvec m).

  Lemma fin_A f : In f A -> fin_func o f = false.
  Proof. intros H. unfold fin_func. pose proof (HA f H). destruct (f_meth f); cbn; try reflexivity. congruence. Qed.
  Lemma fin_other l : ~ In id l -> forall f, In f (map mk l) -> fin_func o f = false.
  Proof.
    intros N f H. apply in_map_iff in H as [k [<- Hk]]. unfold fin_func, mk, o. cbn.
    apply Nat.eqb_neq. intros ->. contradiction.
  Qed.
  Lemma fin_B f : In f Bs -> fin_func o f = false.
  Proof. intros [<-|[<-|[]]]; reflexivity. Qed.

  Lemma fin_rows_cross :
    filter (is_fin o) (cross tv mods) = map (fun t => mkRow t ifin (mk id)) (m_tvec m).
  Proof.
    unfold cross. fold (rows_of tv mods).
    change (fun nf0 : nat * func => map (fun t : Q => mkRow t (fst nf0) (snd nf0)) (owner_tvec tv mods (f_owner (snd nf0)))) with (rows_of tv mods).
    rewrite Hcollect. rewrite !number_app, !flat_map_app, !filter_app. cbn [number flat_map].
    rewrite filter_app.
    rewrite (filter_cross_none tv mods o A) by exact fin_A.
    rewrite (filter_cross_none tv mods o (map mk i1)) by (apply fin_other; exact Hi1).
    rewrite (filter_cross_none tv mods o (map mk i2)) by (apply fin_other; exact Hi2).
    rewrite (filter_cross_none tv mods o Bs) by exact fin_B.
    rewrite filter_rows_of. cbn [snd]. unfold fin_func at 1. cbn [f_meth f_owner mk method_eqb owner_eqb clk_of o andb].
    rewrite Nat.eqb_refl. cbn [app]. rewrite ?app_nil_r. unfold rows_of. cbn [fst snd f_owner mk owner_tvec]. rewrite Hm.
    rewrite map_length. unfold ifin. replace (0 + length A + length i1)%nat with (length A + length i1)%nat by lia. reflexivity.
  Qed.

  (* every function owned by the module sits at or before its finish_step *)
  Lemma order_le_fin k f : nth_error (collect mods) k = Some f -> f_owner f = o -> (k <= ifin)%nat.
  Proof.
    intros H Ho. rewrite Hcollect in H.
    destruct (Nat.le_gt_cases k ifin) as [L|L]; [exact L|exfalso].
    rewrite nth_error_app2 in H by (unfold ifin in L; lia).
    rewrite <- app_assoc in H. rewrite nth_error_app2 in H by (rewrite map_length; unfold ifin in L; lia).
    rewrite map_length in H. cbn [app] in H.
    destruct (k - length A - length i1)%nat as [|q] eqn:E; [unfold ifin in L; lia|]. cbn [nth_error] in H.
    apply nth_error_In in H. apply in_app_or in H as [H|H].
    - apply in_map_iff in H as [j [<- Hj]]. unfold o, mk in Ho. cbn in Ho. injection Ho as ->. contradiction.
    - destruct H as [<-|[<-|[]]]; discriminate.
  Qed.

  Lemma gap_nonneg : 0 <= gap.
  Proof. unfold gap. apply Qmult_le_0_compat; [discriminate|]. change 0 with (inject_Z 0). rewrite <- Zle_Qle. lia. Qed.

  (* position of a time point in a strictly increasing vector = number of earlier points *)
  Lemma sorted_count_lt (l : list Q) : StronglySorted (fun a b => a + gap < b) l -> forall k t, nth_error l k = Some t ->
    cnt (fun t' => negb (Qle_bool t t')) l = k.
  Proof.
    intros S. induction S as [|a l S IH Hall]; intros k t H; [destruct k; discriminate|].
    pose proof gap_nonneg as G. rewrite Forall_forall in Hall.
    destruct k as [|k]; cbn in H.
    - injection H as ->. unfold cnt. cbn [filter].
      assert (E : Qle_bool t t = true) by (apply Qle_bool_iff; apply Qle_refl). rewrite E. cbn.
      assert (Z : filter (fun t' => negb (Qle_bool t t')) l = []).
      { clear IH. induction l as [|b l IHl]; cbn; [reflexivity|].
        assert (Qle_bool t b = true) by (apply Qle_bool_iff; pose proof (Hall b (or_introl eq_refl)); lra).
        rewrite H. cbn. apply IHl; [inversion S; assumption|]. intros x Hx. apply Hall. right; exact Hx. }
      rewrite Z. reflexivity.
    - unfold cnt. cbn [filter].
      assert (L : a + gap < t) by (apply Hall; eapply nth_error_In; exact H).
      assert (E : Qle_bool t a = false).
      { destruct (Qle_bool t a) eqn:X; [|reflexivity]. apply Qle_bool_iff in X. lra. }
      rewrite E. cbn. f_equal. apply (IH k t H).
  Qed.

  (* THE CLOCK THEOREM (module owner): split the sorted plan at any row r of module id scheduled for the
     k-th own time point; exactly k finish_step rows of that module precede it. *)
  Theorem clock_count pre r post k : plan tv mods = pre ++ r :: post ->
    f_owner (r_func r) = o -> nth_error (m_tvec m) k = Some (r_time r) ->
    cnt (is_fin o) pre = k.
  Proof.
    intros Hsplit Ho Hk.
    pose proof (plan_sorted tv mods) as S. destruct (sorted_split _ S _ _ _ Hsplit) as [Hpre Hpost].
    pose proof (plan_perm tv mods) as P.
    assert (Hr : In r (plan tv mods)) by (rewrite Hsplit; apply in_or_app; right; left; reflexivity).
    destruct (plan_rows_wellformed tv mods r Hr) as [Hnth _].
    assert (Hord : (r_order r <= ifin)%nat) by (eapply order_le_fin; eauto).
    assert (Hnf : (ifin < nf)%nat).
    { unfold nf. rewrite Hcollect. rewrite !app_length, !map_length. cbn. unfold ifin. lia. }
    set (early := fun x : row => andb (is_fin o x) (negb (Qle_bool (r_time r) (r_time x)))).
    set (late := fun x : row => andb (is_fin o x) (Qle_bool (r_time r) (r_time x))).
    (* all finish rows of the module, as rows of the cross product *)
    assert (Hfin_in : forall x, In x (plan tv mods) -> is_fin o x = true ->
                      exists t, In t (m_tvec m) /\ x = mkRow t ifin (mk id)).
    { intros x Hx Hf. apply (Permutation_in _ P) in Hx.
      assert (In x (filter (is_fin o) (cross tv mods))) by (apply filter_In; split; assumption).
      rewrite fin_rows_cross in H. apply in_map_iff in H as [t [<- Ht]]. exists t; split; [exact Ht|reflexivity]. }
    pose proof gap_nonneg as G.
    assert (Hsorted_pairs : forall t, In t (m_tvec m) -> t = r_time r \/ t + gap < r_time r \/ r_time r + gap < t).
    { intros t Ht. apply nth_error_In in Hk as Hk'. clear - Hgap Ht Hk'. revert Ht Hk'.
      induction Hgap as [|a l S IH Hall]; intros Ht Hk'; [destruct Ht|]. rewrite Forall_forall in Hall.
      destruct Ht as [<-|Ht], Hk' as [<-|Hk']; auto. }
    (* late finish rows are not in pre *)
    assert (Hlate_pre : cnt late pre = 0%nat).
    { unfold cnt. destruct (filter late pre) as [|x l] eqn:E; [reflexivity|exfalso].
      assert (Hx : In x (filter late pre)) by (rewrite E; left; reflexivity).
      apply filter_In in Hx as [Hxp Hl]. unfold late in Hl. apply andb_prop in Hl as [Hf Hle].
      assert (Hxin : In x (plan tv mods)) by (rewrite Hsplit; apply in_or_app; left; exact Hxp).
      destruct (Hfin_in x Hxin Hf) as [t [Ht ->]]. cbn [r_time] in Hle. apply Qle_bool_iff in Hle.
      pose proof (Hpre _ Hxp) as Hk1. unfold key, sort_key_gen in Hk1. cbn [r_time r_order] in Hk1.
      destruct (Hsorted_pairs t Ht) as [->|[Hlt|Hgt]].
      - (* same instant: the finish row comes after every other function of the module, and r itself is not in pre *)
        assert (X : time_eps_gen * inject_Z (Z.of_nat ifin) <= time_eps_gen * inject_Z (Z.of_nat (r_order r))) by lra.
        assert (Y : (ifin <= r_order r)%nat).
        { destruct (Nat.le_gt_cases ifin (r_order r)); [assumption|exfalso].
          assert (inject_Z (Z.of_nat (r_order r)) < inject_Z (Z.of_nat ifin)) by (rewrite <- Zlt_Qlt; lia).
          assert (time_eps_gen * inject_Z (Z.of_nat (r_order r)) < time_eps_gen * inject_Z (Z.of_nat ifin)) by (apply Qmult_lt_l; [reflexivity|assumption]).
          lra. }
        assert (Eo : r_order r = ifin) by lia.
        (* then x = r, so r occurs twice in the plan, contradicting exactly-once *)
        assert (Ef : r_func r = mk id).
        { rewrite Eo in Hnth. rewrite Hcollect in Hnth. rewrite nth_error_app2 in Hnth by (unfold ifin; lia).
          rewrite <- app_assoc in Hnth. rewrite nth_error_app2 in Hnth by (rewrite map_length; unfold ifin; lia).
          rewrite map_length in Hnth. replace (ifin - length A - length i1)%nat with 0%nat in Hnth by (unfold ifin; lia).
          cbn in Hnth. congruence. }
        assert (Er : r = mkRow (r_time r) ifin (mk id)) by (destruct r; cbn in *; congruence).
        set (same := fun y : row => andb (is_fin o y) (Qeq_bool (r_time y) (r_time r))).
        pose proof (cnt_perm same _ _ P) as C.
        assert (T : same r = true).
        { unfold same. rewrite Er. unfold is_fin. cbn. rewrite Nat.eqb_refl. cbn. apply Qeq_bool_iff. reflexivity. }
        (* count of finish rows at time r_time r in cross is 1, but plan has r in pre and r itself *)
        assert (C1 : (2 <= cnt same (plan tv mods))%nat).
        { rewrite Hsplit, cnt_app.
          assert ((1 <= cnt same (r :: post))%nat) by (unfold cnt; cbn [filter]; rewrite T; cbn; lia).
          assert ((1 <= cnt same pre)%nat).
          { unfold cnt. apply in_split in Hxp as [p1 [p2 ->]]. rewrite filter_app. cbn [filter].
            rewrite <- Er. rewrite T. rewrite app_length. cbn. lia. }
          lia. }
        assert (C2 : cnt same (cross tv mods) = 1%nat).
        { unfold cnt, same.
          assert (F : filter (fun y => is_fin o y && Qeq_bool (r_time y) (r_time r)) (cross tv mods)
                      = filter (fun y => Qeq_bool (r_time y) (r_time r)) (filter (is_fin o) (cross tv mods))).
          { generalize (cross tv mods). intros l0. induction l0 as [|a0 l0 IHl]; cbn; [reflexivity|].
            destruct (is_fin o a0); cbn; [destruct (Qeq_bool (r_time a0) (r_time r)); cbn; rewrite IHl; reflexivity|exact IHl]. }
          rewrite F, fin_rows_cross. clear - Hgap Hk G.
          revert k Hk. induction Hgap as [|a l S IH Hall]; intros k Hk; [destruct k; discriminate|]. rewrite Forall_forall in Hall.
          cbn [map filter r_time]. destruct k as [|k]; cbn in Hk.
          - injection Hk as ->. assert (E : Qeq_bool (r_time r) (r_time r) = true) by (apply Qeq_bool_iff; reflexivity). rewrite E. cbn. f_equal.
            assert (Z : filter (fun y => Qeq_bool (r_time y) (r_time r)) (map (fun t => mkRow t ifin (mk id)) l) = []).
            { clear IH Hgap. induction l as [|b l IHl]; cbn; [reflexivity|].
              assert (Qeq_bool b (r_time r) = false).
              { destruct (Qeq_bool b (r_time r)) eqn:X; [|reflexivity]. apply Qeq_bool_iff in X. pose proof (Hall b (or_introl eq_refl)). lra. }
              rewrite H. apply IHl; [inversion S; assumption|]. intros x Hx. apply Hall. right; exact Hx. }
            rewrite Z. reflexivity.
          - assert (E : Qeq_bool a (r_time r) = false).
            { destruct (Qeq_bool a (r_time r)) eqn:X; [|reflexivity]. apply Qeq_bool_iff in X.
              pose proof (Hall (r_time r) (nth_error_In _ _ Hk)). lra. }
            rewrite E. apply (IH S k Hk). }
        lia.
      - lra.
      - (* later instant: key strictly larger than r's *)
        assert (inject_Z (Z.of_nat (r_order r)) <= inject_Z (Z.of_nat nf)) by (rewrite <- Zle_Qle; lia).
        assert (time_eps_gen * inject_Z (Z.of_nat (r_order r)) <= gap) by (unfold gap; apply Qmult_le_l; [reflexivity|assumption]).
        assert (0 <= time_eps_gen * inject_Z (Z.of_nat ifin)).
        { apply Qmult_le_0_compat; [discriminate|]. change 0 with (inject_Z 0). rewrite <- Zle_Qle. lia. }
        unfold key, sort_key_gen in Hk1. lra. }
    (* early finish rows are not in post, nor is r one *)
    assert (Hearly_post : cnt early post = 0%nat).
    { unfold cnt. destruct (filter early post) as [|x l] eqn:E; [reflexivity|exfalso].
      assert (Hx : In x (filter early post)) by (rewrite E; left; reflexivity).
      apply filter_In in Hx as [Hxp Hl]. unfold early in Hl. apply andb_prop in Hl as [Hf Hlt].
      assert (Hxin : In x (plan tv mods)) by (rewrite Hsplit; apply in_or_app; right; right; exact Hxp).
      destruct (Hfin_in x Hxin Hf) as [t [Ht ->]]. cbn [r_time] in Hlt.
      assert (Hlt' : t < r_time r).
      { destruct (Qle_bool (r_time r) t) eqn:X; [discriminate|]. destruct (Qlt_le_dec t (r_time r)); [assumption|].
        apply Qle_bool_iff in q. congruence. }
      pose proof (Hpost _ Hxp) as Hk1. unfold key, sort_key_gen in Hk1. cbn [r_time r_order] in Hk1.
      destruct (Hsorted_pairs t Ht) as [->|[Hl2|Hgt]]; [lra| |lra].
      assert (inject_Z (Z.of_nat ifin) <= inject_Z (Z.of_nat nf)) by (rewrite <- Zle_Qle; lia).
      assert (time_eps_gen * inject_Z (Z.of_nat ifin) <= gap) by (unfold gap; apply Qmult_le_l; [reflexivity|assumption]).
      assert (0 <= time_eps_gen * inject_Z (Z.of_nat (r_order r))).
      { apply Qmult_le_0_compat; [discriminate|]. change 0 with (inject_Z 0). rewrite <- Zle_Qle. lia. }
      lra. }
    assert (Hearly_r : early r = false).
    { unfold early. assert (Qle_bool (r_time r) (r_time r) = true) by (apply Qle_bool_iff; apply Qle_refl). rewrite H. cbn. apply andb_false_r. }
    (* put together *)
    assert (Csplit : cnt (is_fin o) pre = (cnt early pre + cnt late pre)%nat).
    { unfold cnt, early, late. clear. induction pre as [|a l IH]; cbn; [reflexivity|].
      destruct (is_fin o a); cbn; [|exact IH]. destruct (Qle_bool (r_time r) (r_time a)); cbn; lia. }
    assert (Cearly : cnt early (plan tv mods) = cnt early pre).
    { rewrite Hsplit, cnt_app. unfold cnt at 2. cbn [filter]. rewrite Hearly_r. fold (cnt early post). lia. }
    assert (Ccross : cnt early (cross tv mods) = k).
    { unfold cnt, early.
      assert (F : filter (fun x => is_fin o x && negb (Qle_bool (r_time r) (r_time x))) (cross tv mods)
                  = filter (fun x => negb (Qle_bool (r_time r) (r_time x))) (filter (is_fin o) (cross tv mods))).
      { generalize (cross tv mods). intros l0. induction l0 as [|a0 l0 IHl]; cbn; [reflexivity|].
        destruct (is_fin o a0); cbn; [destruct (Qle_bool (r_time r) (r_time a0)); cbn; rewrite IHl; reflexivity|exact IHl]. }
      rewrite F, fin_rows_cross.
      assert (M : forall l, filter (fun x => negb (Qle_bool (r_time r) (r_time x))) (map (fun t => mkRow t ifin (mk id)) l)
                  = map (fun t => mkRow t ifin (mk id)) (filter (fun t' => negb (Qle_bool (r_time r) t')) l)).
      { intros l. induction l as [|a l IHl]; cbn; [reflexivity|]. destruct (Qle_bool (r_time r) a); cbn; rewrite IHl; reflexivity. }
      rewrite M, map_length. apply (sorted_count_lt _ Hgap k _ Hk). }
    rewrite Csplit, Hlate_pre, <- Cearly, (cnt_perm early _ _ P), Ccross. lia.
  Qed.
End Clock.
