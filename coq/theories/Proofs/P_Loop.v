(* Proofs about the integration plan (L4). *)
From SS Require Import Model.Prelude Model.L4_LoopBase Gen.Gen_Loop Model.L4_Loop.
From Coq Require Import Lia List Permutation Sorted QArith Lqa.

Definition row_le (a b : row) : Prop := key a <= key b.

Lemma row_leb_total a b : row_leb a b = false -> row_le b a.
Proof.
  unfold row_leb, row_le. intros H.
  destruct (Qlt_le_dec (key b) (key a)) as [L|L]; [apply Qlt_le_weak; exact L|].
  apply Qle_bool_iff in L. congruence.
Qed.

Lemma insert_perm x l : Permutation (insert x l) (x :: l).
Proof.
  induction l as [|y t IH]; cbn; [reflexivity|]. destruct (row_leb x y); [reflexivity|].
  rewrite IH. apply perm_swap.
Qed.

Lemma isort_perm l : Permutation (isort l) l.
Proof. induction l as [|x t IH]; cbn; [constructor|]. rewrite insert_perm. constructor. exact IH. Qed.

Lemma insert_sorted x l : Sorted row_le l -> Sorted row_le (insert x l).
Proof.
  induction l as [|y t IH]; intros S; cbn; [repeat constructor|].
  destruct (row_leb x y) eqn:E.
  - constructor; [exact S|]. constructor. unfold row_le. apply Qle_bool_iff. exact E.
  - inversion S as [|? ? S' H]; subst. constructor; [apply IH; exact S'|].
    pose proof (row_leb_total _ _ E) as Hyx.
    destruct t as [|z t']; cbn; [constructor; exact Hyx|].
    destruct (row_leb x z); constructor; [exact Hyx|]. inversion H; assumption.
Qed.

Lemma isort_sorted l : Sorted row_le (isort l).
Proof. induction l as [|x t IH]; cbn; [constructor|]. apply insert_sorted. exact IH. Qed.

(* The plan is a permutation of (functions x own time points): nothing is dropped, nothing duplicated. *)
Theorem plan_perm tv mods : Permutation (plan tv mods) (cross tv mods).
Proof. apply isort_perm. Qed.

(* ... and it is ordered by the step-order key time + eps * function order *)
Theorem plan_sorted tv mods : Sorted row_le (plan tv mods).
Proof. apply isort_sorted. Qed.

(* rows of the function at position i: exactly one per time point of its owner *)
Lemma number_spec {A} (l : list A) : forall i k x, In (k, x) (number i l) <-> (i <= k /\ nth_error l (k - i) = Some x)%nat.
Proof.
  induction l as [|a t IH]; intros i k x; cbn.
  - split; [tauto|]. intros [_ H]. destruct (k - i)%nat; discriminate.
  - split.
    + intros [E|H]; [inversion E; subst; split; [lia|]; replace (k - k)%nat with 0%nat by lia; reflexivity|].
      apply IH in H as [L H]. split; [lia|]. replace (k - i)%nat with (S (k - S i)) by lia. exact H.
    + intros [L H]. destruct (Nat.eq_dec k i) as [->|N].
      * left. replace (i - i)%nat with 0%nat in H by lia. cbn in H. congruence.
      * right. apply IH. split; [lia|]. replace (k - i)%nat with (S (k - S i)) in H by lia. exact H.
Qed.

Lemma filter_flat_map {A B} (f : A -> list B) (p : B -> bool) l :
  filter p (flat_map f l) = flat_map (fun a => filter p (f a)) l.
Proof. induction l as [|a t IH]; cbn; [reflexivity|]. rewrite filter_app, IH. reflexivity. Qed.

Lemma filter_map_all {A B} (g : A -> B) (p : B -> bool) l : (forall a, p (g a) = true) -> filter p (map g l) = map g l.
Proof. intros H. induction l as [|a t IH]; cbn; [reflexivity|]. rewrite H, IH. reflexivity. Qed.
Lemma filter_map_none {A B} (g : A -> B) (p : B -> bool) l : (forall a, p (g a) = false) -> filter p (map g l) = [].
Proof. intros H. induction l as [|a t IH]; cbn; [reflexivity|]. rewrite H, IH. reflexivity. Qed.

Definition rows_of (tv : list Q) (mods : list modl) (nf : nat * func) : list row :=
  map (fun t => mkRow t (fst nf) (snd nf)) (owner_tvec tv mods (f_owner (snd nf))).

Lemma cross_none tv mods (fs : list func) : forall j i0, (i0 < j)%nat ->
  filter (fun r => Nat.eqb (r_order r) i0) (flat_map (rows_of tv mods) (number j fs)) = [].
Proof.
  induction fs as [|a t IH]; intros j i0 H; cbn; [reflexivity|].
  rewrite filter_app. unfold rows_of at 1. cbn [fst snd].
  rewrite filter_map_none by (intros; cbn; apply Nat.eqb_neq; lia). cbn. apply IH. lia.
Qed.

Lemma cross_rows_of_func_aux tv mods (fs : list func) : forall i0 i f,
  nth_error fs (i - i0) = Some f -> (i0 <= i)%nat ->
  filter (fun r => Nat.eqb (r_order r) i) (flat_map (rows_of tv mods) (number i0 fs))
  = map (fun t => mkRow t i f) (owner_tvec tv mods (f_owner f)).
Proof.
  induction fs as [|g t IH]; intros i0 i f H L; [destruct (i - i0)%nat; discriminate|].
  cbn [number flat_map]. rewrite filter_app. destruct (Nat.eq_dec i i0) as [->|N].
  - replace (i0 - i0)%nat with 0%nat in H by lia. cbn in H. injection H as ->.
    unfold rows_of at 1. cbn [fst snd].
    rewrite filter_map_all by (intros; cbn; apply Nat.eqb_refl).
    rewrite cross_none by lia. rewrite app_nil_r. reflexivity.
  - unfold rows_of at 1. cbn [fst snd].
    rewrite filter_map_none by (intros; cbn; apply Nat.eqb_neq; lia). cbn [app].
    apply IH; [|lia]. replace (i - i0)%nat with (S (i - S i0)) in H by lia. exact H.
Qed.

(* Every per-step method of every module is scheduled exactly once for each point of its owner's time
   vector: the rows of the plan that belong to the function at position i are a permutation of one row
   per time point of the owner. *)
Theorem plan_exactly_once tv mods i f : nth_error (collect mods) i = Some f ->
  Permutation (filter (fun r => Nat.eqb (r_order r) i) (plan tv mods))
              (map (fun t => mkRow t i f) (owner_tvec tv mods (f_owner f))).
Proof.
  intros H. unfold plan.
  assert (P : Permutation (filter (fun r => Nat.eqb (r_order r) i) (isort (cross tv mods)))
                          (filter (fun r => Nat.eqb (r_order r) i) (cross tv mods))).
  { clear H. generalize (isort_perm (cross tv mods)). generalize (isort (cross tv mods)) (cross tv mods).
    intros l l' Hp. induction Hp; cbn.
    - constructor.
    - destruct (Nat.eqb (r_order x) i); [constructor|]; assumption.
    - destruct (Nat.eqb (r_order x) i), (Nat.eqb (r_order y) i); try reflexivity. apply perm_swap.
    - etransitivity; eassumption. }
  rewrite P. unfold cross. fold (rows_of tv mods).
  change (fun nf : nat * func => map (fun t : Q => mkRow t (fst nf) (snd nf)) (owner_tvec tv mods (f_owner (snd nf)))) with (rows_of tv mods).
  rewrite (cross_rows_of_func_aux tv mods (collect mods) 0 i f); [reflexivity| |lia].
  replace (i - 0)%nat with i by lia. exact H.
Qed.

(* every row of the plan is a (function, own time point) pair *)
Theorem plan_rows_wellformed tv mods r : In r (plan tv mods) ->
  nth_error (collect mods) (r_order r) = Some (r_func r) /\ In (r_time r) (owner_tvec tv mods (f_owner (r_func r))).
Proof.
  intros H. apply (Permutation_in _ (plan_perm tv mods)) in H. unfold cross in H.
  apply in_flat_map in H as [[k f] [Hn Hr]]. apply in_map_iff in Hr as [t [<- Ht]]. cbn [fst snd] in *. cbn [r_order r_func r_time].
  apply number_spec in Hn as [_ Hn]. replace (k - 0)%nat with k in Hn by lia. split; assumption.
Qed.

(* lexicographic order (time, phase) under the gap hypothesis: two rows whose times differ by more than
   eps * (function-order distance) are ordered by time; rows at the same instant by function order. *)
Lemma key_lex a b : r_time a == r_time b -> (key a <= key b <-> (r_order a <= r_order b)%nat).
Proof.
  intros E. unfold key, sort_key_gen, time_eps_gen. rewrite E. split.
  - intros H. assert (X : (1 # 1000000) * inject_Z (Z.of_nat (r_order a)) <= (1 # 1000000) * inject_Z (Z.of_nat (r_order b))) by lra.
    apply Qmult_lt_0_le_reg_r with (z := 1 # 1000000) in X; [|reflexivity] || idtac.
    destruct (Nat.le_gt_cases (r_order a) (r_order b)); [assumption|]. exfalso.
    assert (Y : inject_Z (Z.of_nat (r_order b)) < inject_Z (Z.of_nat (r_order a))) by (rewrite <- Zlt_Qlt; lia).
    assert (Z1 : (1 # 1000000) * inject_Z (Z.of_nat (r_order b)) < (1 # 1000000) * inject_Z (Z.of_nat (r_order a))).
    { apply Qmult_lt_l; [reflexivity|exact Y]. }
    lra.
  - intros H. assert (Y : inject_Z (Z.of_nat (r_order a)) <= inject_Z (Z.of_nat (r_order b))) by (rewrite <- Zle_Qle; lia).
    assert (Z1 : (1 # 1000000) * inject_Z (Z.of_nat (r_order a)) <= (1 # 1000000) * inject_Z (Z.of_nat (r_order b))).
    { apply Qmult_le_l; [reflexivity|exact Y]. }
    lra.
Qed.

Lemma key_time_gap a b : r_time a + time_eps_gen * inject_Z (Z.of_nat (r_order a)) < r_time b -> key a < key b.
Proof.
  unfold key, sort_key_gen. intros H.
  assert (0 <= time_eps_gen * inject_Z (Z.of_nat (r_order b))).
  { apply Qmult_le_0_compat; [discriminate|]. change 0 with (inject_Z 0). rewrite <- Zle_Qle. lia. }
  lra.
Qed.
