From SS Require Import Model.Prelude Model.L3_Units Gen.Gen_Time Model.L3_TimePar Gen.Gen_Demog Model.L5_Demog Proofs.P_Time.
From Coq Require Import Lia QArith Lqa Field.

Lemma dt_year_ratio unit dt : has_units unit = true -> exists f, time_ratio_gen unit dt UYear 1 = Ok f /\ f == dt_year unit dt.
Proof.
  intros H. destruct (time_ratio_spec unit dt UYear 1 H eq_refl) as [r [E Hr]]; [discriminate|].
  exists r. split; [exact E|]. rewrite Hr. unfold dt_year. change (unit_days UYear) with (1461 # 4). field.
Qed.

(* plain-number rates: per-step probability = rate x units x rel x (step length in years) *)
Theorem deaths_number unit dt r u rel : has_units unit = true ->
  exists p, death_prob_raw false r u rel unit dt = Ok p /\ p == r * u * rel * dt_year unit dt.
Proof.
  intros H. destruct (dt_year_ratio unit dt H) as [f [E Hf]]. unfold death_prob_raw, death_prob_gen. cbn [bind]. rewrite E. cbn [bind].
  eexists; split; [reflexivity|]. rewrite Hf. ring.
Qed.

Theorem births_number unit dt r u rel : has_units unit = true ->
  exists p, birth_prob_raw false r u rel unit dt = Ok p /\ p == r * u * rel * dt_year unit dt.
Proof.
  intros H. destruct (dt_year_ratio unit dt H) as [f [E Hf]]. unfold birth_prob_raw, birth_prob_gen. cbn [bind]. rewrite E. cbn [bind].
  eexists; split; [reflexivity|]. rewrite Hf. ring.
Qed.

Theorem fertility_number unit dt r u rel : has_units unit = true ->
  exists p, fertility_prob_gen r u rel unit dt = Ok p /\ p == r * u * rel * dt_year unit dt.
Proof.
  intros H. destruct (dt_year_ratio unit dt H) as [f [E Hf]]. unfold fertility_prob_gen. rewrite E. cbn [bind].
  eexists; split; [reflexivity|]. rewrite Hf. ring.
Qed.

(* a per-year TimePar rate, seen from a module with (unit, dt), is rate x step length in years *)
Lemma rate_per_step_spec r unit dt : has_units unit = true -> 0 < dt ->
  exists v, rate_per_step r unit dt = Ok v /\ v == r * dt_year unit dt.
Proof.
  intros H Hd. unfold rate_per_step.
  assert (Hok : tp_ok (mkTP KRate r UYear 1 unit dt)) by (repeat split; auto; reflexivity).
  destruct (tp_values_total _ Hok) as [y Ey]. exists y. split; [exact Ey|].
  pose proof (rate_physical _ y Hok eq_refl Ey) as P. cbn in P. unfold dt_year.
  pose proof (unit_days_pos _ H) as Hu.
  assert (Hy : unit_days UYear == 1461 # 4) by reflexivity.
  apply (Qmult_inj_r _ _ (1 * unit_days UYear)); [rewrite Hy; discriminate|]. rewrite P. field. rewrite Hy. discriminate.
Qed.

Theorem births_timepar unit dt r u rel : has_units unit = true -> 0 < dt ->
  exists p, birth_prob_raw true r u rel unit dt = Ok p /\ p == r * u * rel * dt_year unit dt.
Proof.
  intros H Hd. destruct (rate_per_step_spec r unit dt H Hd) as [v [E Hv]]. unfold birth_prob_raw, birth_prob_gen. rewrite E. cbn [bind].
  eexists; split; [reflexivity|]. rewrite Hv. ring.
Qed.

(* the per-year TimePar death rate is multiplied by dt once more: the per-step probability is dt times too large/small *)
Theorem deaths_timepar_double_dt unit dt r u rel : has_units unit = true -> 0 < dt ->
  exists p, death_prob_raw true r u rel unit dt = Ok p /\ p == (r * u * rel * dt_year unit dt) * dt.
Proof.
  intros H Hd. destruct (rate_per_step_spec r unit dt H Hd) as [v [E Hv]]. unfold death_prob_raw, death_prob_gen. rewrite E. cbn [bind].
  eexists; split; [reflexivity|]. rewrite Hv. ring.
Qed.

Theorem deaths_timepar_refuted : exists unit dt r u rel p,
  death_prob_raw true r u rel unit dt = Ok p /\ ~ p == r * u * rel * dt_year unit dt.
Proof.
  exists UYear, (1 # 5), 20, (1 # 1000), 1. eexists. split; [vm_compute; reflexivity|]. vm_compute. intros H. discriminate H.
Qed.

(* first-order invariance for the correctly scaled hazards: probability per year of step length is independent of (unit, dt) *)
Theorem hazard_per_year_invariant unit1 dt1 unit2 dt2 r u rel p1 p2 : has_units unit1 = true -> has_units unit2 = true -> 0 < dt1 -> 0 < dt2 ->
  death_prob_raw false r u rel unit1 dt1 = Ok p1 -> death_prob_raw false r u rel unit2 dt2 = Ok p2 ->
  p1 / dt_year unit1 dt1 == p2 / dt_year unit2 dt2.
Proof.
  intros H1 H2 D1 D2 E1 E2.
  destruct (deaths_number unit1 dt1 r u rel H1) as [q1 [F1 G1]]. destruct (deaths_number unit2 dt2 r u rel H2) as [q2 [F2 G2]].
  rewrite E1 in F1; rewrite E2 in F2. injection F1 as <-; injection F2 as <-. rewrite G1, G2.
  pose proof (unit_days_pos _ H1). pose proof (unit_days_pos _ H2).
  assert (N1 : ~ dt_year unit1 dt1 == 0).
  { unfold dt_year. intros Z. assert (dt1 * unit_days unit1 == 0). { assert (Y : unit_days UYear == 1461 # 4) by reflexivity. rewrite Y in Z. apply (Qmult_inj_r _ _ (/ (1461 # 4))); [discriminate|]. rewrite Z. ring. }
    assert (0 < dt1 * unit_days unit1) by (apply Qmult_lt_0_compat; assumption). lra. }
  assert (N2 : ~ dt_year unit2 dt2 == 0).
  { unfold dt_year. intros Z. assert (dt2 * unit_days unit2 == 0). { assert (Y : unit_days UYear == 1461 # 4) by reflexivity. rewrite Y in Z. apply (Qmult_inj_r _ _ (/ (1461 # 4))); [discriminate|]. rewrite Z. ring. }
    assert (0 < dt2 * unit_days unit2) by (apply Qmult_lt_0_compat; assumption). lra. }
  field. split; assumption.
Qed.

Theorem ageing k age dty : age_after k age dty == age + inject_Z (Z.of_nat k) * dty.
Proof.
  induction k as [|k IH]; cbn [age_after]; [cbn; ring|]. rewrite IH, Nat2Z.inj_succ. unfold Z.succ. rewrite inject_Z_plus. ring.
Qed.

(* age-bin lookup: for increasing bin edges the chosen bin is the last edge not above the age *)
Theorem bin_index_spec age bins i : (0 <= i)%Z -> bin_index age bins = i ->
  (forall j, (j <= Z.to_nat i)%nat -> (j < length bins)%nat -> nth j bins 0 <= age) .
Proof.
  unfold bin_index. revert i. induction bins as [|b t IH]; intros i Hi H j Hj Hl; [cbn in Hl; lia|].
  cbn [digitize] in H. destruct (Qle_bool b age) eqn:E; [|lia].
  destruct j as [|j]; [cbn; apply Qle_bool_iff; exact E|].
  cbn [nth]. apply (IH (i - 1)%Z); try lia. cbn in Hl. lia.
Qed.

(* standardize_data prepends a -inf edge: with a first edge not above the age the index is never negative
   (no wrap-around to the last bin through Python's negative indexing) *)
Theorem lowest_edge_guards_negative_index age b t : b <= age -> (0 <= bin_index age (b :: t))%Z.
Proof.
  intros H. unfold bin_index. cbn [digitize]. apply Qle_bool_iff in H. rewrite H.
  assert (G : forall l, (0 <= digitize age l)%Z) by (induction l as [|x l IH]; cbn [digitize]; [lia|destruct (Qle_bool x age); lia]).
  pose proof (G t). lia.
Qed.
