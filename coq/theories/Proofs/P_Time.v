(* Proofs about the GENERATED unit-conversion definitions (Gen_Time) and the TimePar model. *)
From SS Require Import Model.Prelude Model.L3_Units Gen.Gen_Time Model.L3_TimePar.
From Coq Require Import Lia Lqa Field QArith.

Lemma Qeqb_true a b : Qeqb a b = true -> a == b.
Proof. unfold Qeqb. apply Qeq_bool_eq. Qed.
Lemma Qeqb_false a b : Qeqb a b = false -> ~ a == b.
Proof. unfold Qeqb. intros H E. apply Qeq_eq_bool in E. congruence. Qed.

Lemma unit_days_pos u : has_units u = true -> 0 < unit_days u.
Proof. destruct u; cbn; try discriminate; intros _; reflexivity. Qed.

Lemma unit_eqb_eq a b : unit_eqb a b = true <-> a = b.
Proof. destruct a, b; cbn; split; intros; try congruence; try discriminate. Qed.

(* The single conversion factor: (dt ratio) x (unit ratio), including the shortcuts. *)
Lemma time_ratio_spec u1 d1 u2 d2 :
  has_units u1 = true -> has_units u2 = true -> ~ d2 == 0 ->
  exists r, time_ratio_gen u1 d1 u2 d2 = Ok r /\ r == (d1 / d2) * (unit_days u1 / unit_days u2).
Proof.
  intros H1 H2 Hd.
  assert (G : Qeq_bool d2 0 = false) by (destruct (Qeq_bool d2 0) eqn:B; [apply Qeq_bool_eq in B; contradiction|reflexivity]).
  unfold time_ratio_gen. rewrite ?G.
  destruct (Qeqb d1 d2) eqn:E.
  - apply Qeqb_true in E.
    destruct u1, u2; try discriminate; cbn; eexists; (split; [reflexivity|]);
      rewrite E; unfold unit_days; cbn; field; auto.
  - destruct u1, u2; try discriminate; cbn; eexists; (split; [reflexivity|]);
      unfold unit_days; cbn; field; auto.
Qed.

Lemma ratio_refl u d : time_ratio_gen u d u d = Ok 1.
Proof.
  unfold time_ratio_gen.
  assert (E : Qeqb d d = true) by (unfold Qeqb; apply Qeq_eq_bool; reflexivity).
  rewrite E. assert (U : unit_eqb u u = true) by (destruct u; reflexivity). rewrite U. reflexivity.
Qed.

Lemma ratio_recip u1 d1 u2 d2 r12 r21 :
  has_units u1 = true -> has_units u2 = true -> ~ d1 == 0 -> ~ d2 == 0 ->
  time_ratio_gen u1 d1 u2 d2 = Ok r12 -> time_ratio_gen u2 d2 u1 d1 = Ok r21 ->
  r12 * r21 == 1.
Proof.
  intros H1 H2 Hd1 Hd2 E12 E21.
  destruct (time_ratio_spec u1 d1 u2 d2 H1 H2 Hd2) as [r [Er Hr]].
  destruct (time_ratio_spec u2 d2 u1 d1 H2 H1 Hd1) as [r' [Er' Hr']].
  rewrite E12 in Er; rewrite E21 in Er'. injection Er as <-. injection Er' as <-.
  rewrite Hr, Hr'.
  pose proof (unit_days_pos _ H1). pose proof (unit_days_pos _ H2).
  field. repeat split; auto; intro Z; rewrite Z in *; lra.
Qed.

Lemma ratio_trans u1 d1 u2 d2 u3 d3 r12 r23 r13 :
  has_units u1 = true -> has_units u2 = true -> has_units u3 = true ->
  ~ d2 == 0 -> ~ d3 == 0 ->
  time_ratio_gen u1 d1 u2 d2 = Ok r12 -> time_ratio_gen u2 d2 u3 d3 = Ok r23 ->
  time_ratio_gen u1 d1 u3 d3 = Ok r13 ->
  r12 * r23 == r13.
Proof.
  intros H1 H2 H3 Hd2 Hd3 E12 E23 E13.
  destruct (time_ratio_spec u1 d1 u2 d2 H1 H2 Hd2) as [a [Ea Ha]].
  destruct (time_ratio_spec u2 d2 u3 d3 H2 H3 Hd3) as [b [Eb Hb]].
  destruct (time_ratio_spec u1 d1 u3 d3 H1 H3 Hd3) as [c [Ec Hc]].
  rewrite E12 in Ea; rewrite E23 in Eb; rewrite E13 in Ec.
  injection Ea as <-; injection Eb as <-; injection Ec as <-.
  rewrite Ha, Hb, Hc.
  pose proof (unit_days_pos _ H1). pose proof (unit_days_pos _ H2). pose proof (unit_days_pos _ H3).
  field. repeat split; auto; intro Z; rewrite Z in *; lra.
Qed.

Lemma ratio_pos u1 d1 u2 d2 r :
  has_units u1 = true -> has_units u2 = true -> 0 < d1 -> 0 < d2 ->
  time_ratio_gen u1 d1 u2 d2 = Ok r -> 0 < r.
Proof.
  intros H1 H2 Hd1 Hd2 E.
  assert (Hn : ~ d2 == 0) by (intro Z; rewrite Z in Hd2; lra).
  destruct (time_ratio_spec u1 d1 u2 d2 H1 H2 Hn) as [a [Ea Ha]].
  rewrite E in Ea; injection Ea as <-. rewrite Ha.
  pose proof (unit_days_pos _ H1). pose proof (unit_days_pos _ H2).
  apply Qmult_lt_0_compat; apply Qlt_shift_div_l; lra.
Qed.

(* mixing unitless / uninitialised units with real units is rejected *)
Lemma ratio_rejects_unitless u1 d1 u2 d2 :
  u1 <> u2 -> ~ d2 == 0 -> (u1 = UUnitless \/ u2 = UUnitless \/ u1 = UNone \/ u2 = UNone) ->
  time_ratio_gen u1 d1 u2 d2 = Err EValue.
Proof.
  intros Hne Hd H. unfold time_ratio_gen.
  assert (G : Qeq_bool d2 0 = false) by (destruct (Qeq_bool d2 0) eqn:B; [apply Qeq_bool_eq in B; contradiction|reflexivity]).
  rewrite ?G.
  destruct (Qeqb d1 d2); destruct u1, u2; cbn; try reflexivity; try congruence;
    destruct H as [H|[H|[H|H]]]; discriminate.
Qed.

(* a zero step length in the denominator is rejected (Python: ZeroDivisionError), before any unit check *)
Lemma ratio_zero_dt u1 d1 u2 : ~ d1 == 0 -> time_ratio_gen u1 d1 u2 0 = Err EZeroDiv.
Proof.
  intros H. unfold time_ratio_gen.
  assert (E : Qeqb d1 0 = false) by (unfold Qeqb; destruct (Qeq_bool d1 0) eqn:B; [apply Qeq_bool_eq in B; contradiction|reflexivity]).
  rewrite E. reflexivity.
Qed.

(* ---------------------------------------------------------------- dur / rate *)
Definition tp_ok (p : timepar) : Prop :=
  has_units (tp_unit p) = true /\ has_units (tp_parent_unit p) = true /\ 0 < tp_self_dt p /\ 0 < tp_parent_dt p.

Lemma tp_factor_spec p : tp_ok p ->
  exists f, tp_factor p = Ok f /\
    f == (tp_self_dt p / tp_parent_dt p) * (unit_days (tp_unit p) / unit_days (tp_parent_unit p)) /\ 0 < f.
Proof.
  intros (H1 & H2 & H3 & H4). unfold tp_factor, factor_gen.
  assert (Hn : ~ tp_parent_dt p == 0) by (intro Z; rewrite Z in H4; lra).
  destruct (time_ratio_spec _ (tp_self_dt p) _ _ H1 H2 Hn) as [r [Er Hr]].
  rewrite Er; cbn. exists r. split; [reflexivity|]. split; [exact Hr|].
  eapply (ratio_pos _ _ _ _ _ H1 H2 H3 H4 Er).
Qed.

(* a duration in parent steps, times the parent step length, is the original duration *)
Lemma dur_physical p y : tp_ok p -> tp_kind_of p = KDur -> tp_values p = Ok y ->
  y * (tp_parent_dt p * unit_days (tp_parent_unit p)) == tp_v p * (tp_self_dt p * unit_days (tp_unit p)).
Proof.
  intros Hok Hk E. destruct (tp_factor_spec p Hok) as [f [Ef [Hf Hpos]]].
  unfold tp_values in E. rewrite Ef in E. cbn in E. rewrite Hk in E. cbn in E. injection E as <-.
  destruct Hok as (H1 & H2 & H3 & H4).
  pose proof (unit_days_pos _ H1). pose proof (unit_days_pos _ H2).
  rewrite Hf. field. split; intro Z; rewrite Z in *; lra.
Qed.

(* a per-parent-step rate, divided by the parent step length, is the original rate *)
Lemma rate_physical p y : tp_ok p -> tp_kind_of p = KRate -> tp_values p = Ok y ->
  y * (tp_self_dt p * unit_days (tp_unit p)) == tp_v p * (tp_parent_dt p * unit_days (tp_parent_unit p)).
Proof.
  intros Hok Hk E. destruct (tp_factor_spec p Hok) as [f [Ef [Hf Hpos]]].
  assert (G : Qeq_bool f 0 = false) by (destruct (Qeq_bool f 0) eqn:B; [apply Qeq_bool_eq in B; rewrite B in Hpos; lra|reflexivity]).
  unfold tp_values in E. rewrite Ef in E. cbn [bind] in E. rewrite Hk in E. unfold kind_values, rate_values_gen in E. rewrite G in E. injection E as <-.
  destruct Hok as (H1 & H2 & H3 & H4).
  pose proof (unit_days_pos _ H1). pose proof (unit_days_pos _ H2).
  rewrite Hf. field. repeat split; intro Z; rewrite Z in *; lra.
Qed.

Lemma tp_values_total p : tp_ok p -> exists y, tp_values p = Ok y.
Proof.
  intros Hok. destruct (tp_factor_spec p Hok) as [f [Ef [_ Hpos]]].
  assert (G : Qeq_bool f 0 = false) by (destruct (Qeq_bool f 0) eqn:B; [apply Qeq_bool_eq in B; rewrite B in Hpos; lra|reflexivity]).
  unfold tp_values. rewrite Ef. cbn [bind]. destruct (tp_kind_of p); unfold kind_values, rate_values_gen, dur_values_gen; rewrite ?G; eexists; reflexivity.
Qed.

(* arithmetic: scaling v scales the converted value *)
Lemma tp_mul_values p k y : tp_ok p -> tp_values p = Ok y ->
  exists y', tp_values (tp_mul p k) = Ok y' /\ y' == y * k.
Proof.
  intros Hok E. destruct (tp_factor_spec p Hok) as [f [Ef [Hf Hpos]]].
  assert (G : Qeq_bool f 0 = false) by (destruct (Qeq_bool f 0) eqn:B; [apply Qeq_bool_eq in B; rewrite B in Hpos; lra|reflexivity]).
  unfold tp_values in *. unfold tp_factor in *. unfold tp_mul, tp_neg, tp_set_v. cbn [tp_unit tp_self_dt tp_parent_unit tp_parent_dt tp_kind_of tp_v]. rewrite Ef in *. cbn [bind] in *.
  destruct (tp_kind_of p); unfold kind_values, rate_values_gen, dur_values_gen in *; rewrite ?G in *; injection E as <-; eexists; (split; [reflexivity|]); field.
  intro Z; rewrite Z in Hpos; lra.
Qed.

Lemma tp_neg_values p y : tp_ok p -> tp_values p = Ok y ->
  exists y', tp_values (tp_neg p) = Ok y' /\ y' == - y.
Proof.
  intros Hok E. destruct (tp_factor_spec p Hok) as [f [Ef [Hf Hpos]]].
  assert (G : Qeq_bool f 0 = false) by (destruct (Qeq_bool f 0) eqn:B; [apply Qeq_bool_eq in B; rewrite B in Hpos; lra|reflexivity]).
  unfold tp_values in *. unfold tp_factor in *. unfold tp_mul, tp_neg, tp_set_v. cbn [tp_unit tp_self_dt tp_parent_unit tp_parent_dt tp_kind_of tp_v]. rewrite Ef in *. cbn [bind] in *.
  destruct (tp_kind_of p); unfold kind_values, rate_values_gen, dur_values_gen in *; rewrite ?G in *; injection E as <-; eexists; (split; [reflexivity|]); field.
  intro Z; rewrite Z in Hpos; lra.
Qed.

(* ---------------------------------------------------------------- to() *)
Lemma tp_to_spec p u d : has_units (tp_unit p) = true -> has_units u = true -> 0 < tp_self_dt p -> 0 < d ->
  exists q r, tp_to p u (Some d) = Ok q /\ tp_unit q = u /\ tp_self_dt q = d /\ tp_parent_unit q = u /\
    tp_parent_dt q = d /\ tp_kind_of q = tp_kind_of p /\
    r == (tp_self_dt p / d) * (unit_days (tp_unit p) / unit_days u) /\ 0 < r /\
    tp_v q == match tp_kind_of p with KDur => tp_v p * r | KRate => tp_v p / r end.
Proof.
  intros H1 H2 H3 H4. unfold tp_to, to_factor_gen.
  assert (Hu : first_unit u (tp_parent_unit p) (tp_unit p) = u) by (destruct u; try discriminate; reflexivity).
  rewrite Hu.
  assert (Hn : ~ d == 0) by (intro Z; rewrite Z in H4; lra).
  destruct (time_ratio_spec _ (tp_self_dt p) _ _ H1 H2 Hn) as [r [Er Hr]].
  rewrite Er; cbn.
  assert (Hp : 0 < r) by exact (ratio_pos _ _ _ _ _ H1 H2 H3 H4 Er).
  assert (G : Qeq_bool r 0 = false) by (destruct (Qeq_bool r 0) eqn:B; [apply Qeq_bool_eq in B; rewrite B in Hp; lra|reflexivity]).
  destruct (tp_kind_of p) eqn:K; unfold kind_values, rate_values_gen, dur_values_gen; rewrite ?G; cbn; eexists; exists r; repeat split; eauto; cbn; reflexivity.
Qed.

(* converting to another (unit, dt) and then on to a third equals converting directly *)
Lemma to_compose p u d u0 d0 q q2 q3 :
  has_units (tp_unit p) = true -> has_units u = true -> has_units u0 = true ->
  0 < tp_self_dt p -> 0 < d -> 0 < d0 ->
  tp_to p u (Some d) = Ok q -> tp_to q u0 (Some d0) = Ok q2 -> tp_to p u0 (Some d0) = Ok q3 ->
  tp_v q2 == tp_v q3.
Proof.
  intros H1 H2 H3 P1 P2 P3 E1 E2 E3.
  destruct (tp_to_spec p u d H1 H2 P1 P2) as (a & r1 & Ea & A1 & A2 & A3 & A4 & A5 & R1 & R1p & V1).
  rewrite E1 in Ea; injection Ea as <-.
  assert (H2' : has_units (tp_unit q) = true) by (rewrite A1; auto).
  assert (P2' : 0 < tp_self_dt q) by (rewrite A2; auto).
  destruct (tp_to_spec q u0 d0 H2' H3 P2' P3) as (b & r2 & Eb & B1 & B2 & B3 & B4 & B5 & R2 & R2p & V2).
  rewrite E2 in Eb; injection Eb as <-.
  destruct (tp_to_spec p u0 d0 H1 H3 P1 P3) as (c & r3 & Ec & C1 & C2 & C3 & C4 & C5 & R3 & R3p & V3).
  rewrite E3 in Ec; injection Ec as <-.
  rewrite V2, V3. rewrite A5. rewrite A1, A2 in R2.
  pose proof (unit_days_pos _ H1). pose proof (unit_days_pos _ H2). pose proof (unit_days_pos _ H3).
  assert (R : r1 * r2 == r3).
  { rewrite R1, R2, R3. field. repeat split; intro Z; rewrite Z in *; lra. }
  destruct (tp_kind_of p); rewrite V1.
  - rewrite <- R. ring.
  - rewrite <- R. field. split; intro Z; rewrite Z in *; lra.
Qed.

(* there and back again *)
Lemma to_roundtrip p u d q q2 :
  has_units (tp_unit p) = true -> has_units u = true -> 0 < tp_self_dt p -> 0 < d ->
  tp_to p u (Some d) = Ok q -> tp_to q (tp_unit p) (Some (tp_self_dt p)) = Ok q2 ->
  tp_v q2 == tp_v p /\ tp_unit q2 = tp_unit p /\ tp_self_dt q2 = tp_self_dt p.
Proof.
  intros H1 H2 P1 P2 E1 E2.
  destruct (tp_to_spec p (tp_unit p) (tp_self_dt p) H1 H1 P1 P1) as (c & r3 & Ec & C1 & C2 & C3 & C4 & C5 & R3 & R3p & V3).
  pose proof (to_compose p u d (tp_unit p) (tp_self_dt p) q q2 c H1 H2 H1 P1 P2 P1 E1 E2 Ec) as HV.
  destruct (tp_to_spec p u d H1 H2 P1 P2) as (a & r1 & Ea & A1 & A2 & A3 & A4 & A5 & R1 & R1p & V1).
  rewrite E1 in Ea; injection Ea as <-.
  assert (H2' : has_units (tp_unit q) = true) by (rewrite A1; auto).
  assert (P2' : 0 < tp_self_dt q) by (rewrite A2; auto).
  destruct (tp_to_spec q (tp_unit p) (tp_self_dt p) H2' H1 P2' P1) as (b & r2 & Eb & B1 & B2 & B3 & B4 & B5 & R2 & R2p & V2).
  rewrite E2 in Eb; injection Eb as <-.
  repeat split; auto.
  rewrite HV, V3.
  pose proof (unit_days_pos _ H1).
  assert (R : r3 == 1). { rewrite R3. field. split; intro Z; rewrite Z in *; lra. }
  destruct (tp_kind_of p); rewrite R; field.
Qed.

(* x + c works on the converted values (c in steps of the parent), x += c on v (c in the parameter's own unit): they agree only when the factor is 1 *)
Lemma inplace_add_differs_refuted : exists p c y1 y2, tp_add p c = Ok y1 /\ tp_values (tp_iadd p c) = Ok y2 /\ ~ y1 == y2.
Proof.
  exists (mkTP KDur 3 UWeek 1 UDay 1), 1, 22, 28. repeat split; try (vm_compute; reflexivity). vm_compute. discriminate.
Qed.

(* ---- crude rates: a per-step count divided by the step length of the module that counted it gives back the rate in its own unit ... *)
Lemma crude_rate_own_step rate alive units dt : 0 < alive -> 0 < units -> 0 < dt -> crude_rate (rate * units * dt * alive) alive units dt == rate.
Proof. intros A U D. unfold crude_rate. field. repeat split; lra. Qed.
Lemma crude_rate_reported_own rate alive units sdt mdt : 0 < alive -> 0 < units -> 0 < mdt -> crude_rate_reported true (rate * units * mdt * alive) alive units sdt mdt == rate.
Proof. intros A U M. unfold crude_rate_reported. apply crude_rate_own_step; assumption. Qed.
(* ... and divided by the sim's step it is off by the ratio of the two (the defect repaired in Births / Deaths / Pregnancy) *)
Lemma crude_rate_reported_sim_step_scaled rate alive units sdt mdt : 0 < alive -> 0 < units -> 0 < sdt -> 0 < mdt ->
  crude_rate_reported false (rate * units * mdt * alive) alive units sdt mdt == rate * (mdt / sdt).
Proof. intros A U S M. unfold crude_rate_reported, crude_rate. field. repeat split; lra. Qed.
Lemma crude_rate_reported_sim_step_refuted : exists rate alive units sdt mdt, 0 < alive /\ 0 < units /\ 0 < sdt /\ 0 < mdt /\
  ~ crude_rate_reported false (rate * units * mdt * alive) alive units sdt mdt == rate.
Proof. exists 20, 1000, (1 # 1000), (4 # 1461), 1. repeat split; try reflexivity. vm_compute. discriminate. Qed.
