From SS Require Import Model.Prelude Model.L6_ParsBase Gen.Gen_Pars Model.L6_Pars.
From Coq Require Import String List Bool Lia.
Local Open Scope list_scope.
Open Scope string_scope.

(* ---- every recognised action either puts the supplied value in effect, or rejects, or hands over to the members *)
Lemma run_act_effect a old new v : run_act a old new = OSet v -> in_effect v new.
Proof.
  destruct a; cbn [run_act]; intros H; try discriminate; try (injection H as <-; reflexivity).
  - destruct new; try discriminate. injection H as <-. reflexivity.
  - destruct new; try discriminate. injection H as <-. cbn. eexists. reflexivity.
  - destruct new as [| | | | | | | | |ty kw| | |]; try discriminate. destruct ty; [|discriminate]. injection H as <-. reflexivity.
Qed.
Lemma update_timepar_effect old new v : update_timepar old new = OSet v -> in_effect v new.
Proof.
  unfold update_timepar. destruct (first_match _ _) as [[a|a b]|]; [|destruct (is_beta _)|]; apply run_act_effect.
Qed.
Lemma update_dist_effect old new v : update_dist old new = OSet v -> in_effect v new.
Proof.
  unfold update_dist. destruct (first_match _ _) as [[a|a b|a b|s r m]|].
  - apply run_act_effect.
  - destruct (andb _ _); apply run_act_effect.
  - destruct (dur_mismatch _ _); apply run_act_effect.
  - destruct new as [| | | | | | | | |ty kw| | |]; try apply run_act_effect. destruct ty; [destruct (andb _ _)|]; apply run_act_effect.
  - apply run_act_effect.
Qed.
Lemma update_container_effect old new v : update_container old new = OSet v -> in_effect v new.
Proof.
  unfold update_container. destruct (obj old) as [| | | | | | | | | |e| |]; try (destruct (sat_new _ _); discriminate).
  destruct e; [intros H; injection H as <-; reflexivity|destruct (sat_new _ _); discriminate].
Qed.
Theorem update_leaf_effect old new v : update_leaf old new = OSet v -> in_effect v new.
Proof.
  unfold update_leaf. destruct (first_match _ _) as [a|]; [|apply run_act_effect].
  destruct a; try apply run_act_effect; try apply update_container_effect; [apply update_timepar_effect|apply update_dist_effect].
Qed.

(* ---- what the CURRENT tables accept and reject *)
Definition no_ntest (x : nv) : Prop := forall t, sat_new x t = false.
Lemma first_match_none {T A} (sat : T -> bool) (tbl : list (T * A)) : (forall t, sat t = false) -> first_match sat tbl = None.
Proof. intros H. induction tbl as [|[t a] r IH]; cbn; [reflexivity|]. rewrite H. exact IH. Qed.
(* a value that is none of time parameter / frame / number / list / dict / distribution / function cannot stand in for a time parameter or a distribution *)
Theorem unfit_value_rejected_timepar old new : no_ntest new -> update_timepar old new = OErr ETypeError.
Proof. intros H. unfold update_timepar. rewrite first_match_none by exact H. reflexivity. Qed.
Theorem unfit_value_rejected_dist old new : no_ntest new -> update_dist old new = OErr ETypeError.
Proof. intros H. unfold update_dist. rewrite first_match_none by exact H. reflexivity. Qed.
Lemma unfit_examples : no_ntest (NVStr "x") /\ no_ntest NVNone /\ no_ntest (NVArr 0) /\ no_ntest (NVOther 0) /\ no_ntest (NVModule 0).
Proof. repeat split; intros []; reflexivity. Qed.
(* a frame is accepted for a time parameter (demographic tables) but not for a distribution *)
Theorem frame_for_dist_rejected old id : update_dist old (NVFrame id) = OErr ETypeError.
Proof. reflexivity. Qed.
(* Bernoulli distributions cannot be replaced by another family, by object or by dict *)
Theorem bernoulli_guard old ft id : is_bern (obj old) = true ->
  update_dist old (NVDist false ft id) = OErr ETypeError /\
  (forall ty kw, String.eqb ty "bernoulli" = false -> update_dist old (NVDict (Some ty) kw) = OErr ETypeError) /\
  update_dist old (NVDist true ft id) = OSet (mkSV (NVDist true ft id) Orig).
Proof.
  intros H. unfold update_dist. cbn [first_match dist_table_gen sat_new]. rewrite H. cbn. split; [reflexivity|]. split; [|reflexivity].
  intros ty kw E. rewrite E. reflexivity.
Qed.
(* a distribution whose first parameter is a duration cannot be given a non-duration time parameter, and vice versa *)
Theorem duration_guard b od id nd nb v : od <> nd ->
  update_dist (mkSV (NVDist b (Some od) id) Orig) (NVTimePar nd nb v) = OErr ETypeError.
Proof. intros H. unfold update_dist. cbn. destruct od, nd; try congruence; reflexivity. Qed.
(* accepted forms, with their effect *)
Theorem dist_accepts old : is_bern (obj old) = false -> forall z l kw f,
  update_dist old (NVNum z) = OSet (mkSV (obj old) (SetArg (NVNum z))) /\
  update_dist old (NVList l) = OSet (mkSV (obj old) (SetStar l)) /\
  update_dist old (NVDict None kw) = OSet (mkSV (obj old) (SetKw kw)) /\
  update_dist old (NVFunc f) = OSet (mkSV (obj old) (SetArg (NVFunc f))).
Proof. intros H z l kw f. unfold update_dist. cbn. repeat split; reflexivity. Qed.
Theorem timepar_accepts old : forall z l d b v id,
  update_timepar old (NVNum z) = OSet (mkSV (obj old) (SetArg (NVNum z))) /\
  update_timepar old (NVList l) = OSet (mkSV (obj old) (SetStar l)) /\
  update_timepar old (NVTimePar d b v) = OSet (mkSV (NVTimePar d b v) Orig) /\
  update_timepar old (NVFrame id) = OSet (mkSV (NVFrame id) Orig).
Proof. intros. unfold update_timepar. cbn. repeat split; reflexivity. Qed.
(* an atomic, callable or plain-dict parameter takes any supplied value as it is *)
Theorem plain_parameter_takes_value old new : (sat_old (obj old) TAtomic = true \/ (obj old = NVFunc 0) \/ exists t k, obj old = NVDict t k) ->
  update_leaf old new = OSet (mkSV new Orig).
Proof.
  intros [H|[H|(t & k & H)]]; unfold update_leaf.
  - destruct (obj old); try discriminate; reflexivity.
  - rewrite H. reflexivity.
  - rewrite H. reflexivity.
Qed.

(* ---- Pars.update as a whole *)
Lemma lookup_setk_same {A} (m : list (string * A)) k v : lookup (setk m k v) k = Some v.
Proof. induction m as [|[k' v'] r IH]; cbn; [rewrite String.eqb_refl; reflexivity|]. destruct (String.eqb_spec k' k) as [->|N]; cbn; [rewrite String.eqb_refl; reflexivity|]. destruct (String.eqb_spec k' k); [contradiction|exact IH]. Qed.
Lemma lookup_setk_other {A} (m : list (string * A)) k v k2 : k <> k2 -> lookup (setk m k v) k2 = lookup m k2.
Proof.
  intros N. induction m as [|[k' v'] r IH]; cbn.
  - destruct (String.eqb_spec k k2); [contradiction|reflexivity].
  - destruct (String.eqb_spec k' k) as [->|N1]; cbn.
    + destruct (String.eqb_spec k k2); [contradiction|reflexivity].
    + destruct (String.eqb_spec k' k2); [reflexivity|exact IH].
Qed.
(* unknown names are rejected unless creation is requested *)
Theorem unknown_key_rejected m pars : (exists k, In k (map fst pars) /\ lookup m k = None) -> pars_update m pars false = RErr EKeyNotFound.
Proof.
  intros (k & Hk & Hn). unfold pars_update. destruct pars as [|p r]; [destruct Hk|]. set (ps := p :: r) in *.
  cbn [negb andb]. assert (F : forallb (fun kv => has m (fst kv)) ps = false).
  { apply not_true_is_false. intros C. rewrite forallb_forall in C. apply in_map_iff in Hk as (kv & <- & I). specialize (C kv I). unfold has in C. rewrite Hn in C. discriminate. }
  rewrite F. reflexivity.
Qed.
(* a successful update puts every supplied value in effect and leaves the other parameters alone *)
Lemma apply_all_spec pars : forall m m', NoDup (map fst pars) -> apply_all m pars = ROk m' ->
  (forall k new, In (k, new) pars -> exists v, lookup m' k = Some v /\ in_effect v new) /\
  (forall k, ~ In k (map fst pars) -> lookup m' k = lookup m k).
Proof.
  induction pars as [|[k new] r IH]; intros m m' ND H; cbn [apply_all] in H.
  - injection H as <-. split; [intros ? ? []|reflexivity].
  - cbn [map fst] in ND. inversion ND as [|? ? Hn ND']; subst.
    assert (Step : exists v, in_effect v new /\ apply_all (setk m k v) r = ROk m').
    { destruct (lookup m k) as [old|] eqn:L.
      - destruct (update_leaf old new) as [v|e|] eqn:U; try discriminate. exists v. split; [eapply update_leaf_effect; exact U|exact H].
      - exists (mkSV new Orig). split; [reflexivity|exact H]. }
    destruct Step as (v & Hv & Hr). destruct (IH _ _ ND' Hr) as [A B]. split.
    + intros k2 new2 [E|I].
      * injection E as <- <-. exists v. split; [|exact Hv]. rewrite B by exact Hn. apply lookup_setk_same.
      * apply A. exact I.
    + intros k2 Hk2. cbn [map fst In] in Hk2. rewrite B by tauto. apply lookup_setk_other. intros ->. apply Hk2. left. reflexivity.
Qed.
Theorem applied_or_rejected m pars create m' : NoDup (map fst pars) -> pars_update m pars create = ROk m' ->
  (forall k new, In (k, new) pars -> exists v, lookup m' k = Some v /\ in_effect v new) /\
  (forall k, ~ In k (map fst pars) -> lookup m' k = lookup m k).
Proof.
  intros ND H. unfold pars_update in H. destruct pars as [|p r]; [injection H as <-; split; [intros ? ? []|reflexivity]|].
  destruct (andb _ _); [discriminate|]. eapply apply_all_spec; eassumption.
Qed.
(* with strict keys, success means that every supplied name was a parameter already *)
Theorem strict_success_means_known m pars m' : pars_update m pars false = ROk m' -> forall k, In k (map fst pars) -> lookup m k <> None.
Proof.
  intros H k Hk C. rewrite unknown_key_rejected in H by (exists k; tauto). discriminate.
Qed.

(* a bare time parameter is replaced by ANY time parameter: the duration-versus-rate test that guards distribution-valued parameters (duration_guard)
   has no counterpart in _update_timepar, so a duration is accepted where a rate is in place and vice versa (listed finding wrong-kind-of-timepar-accepted) *)
Lemma timepar_kind_mismatch_accepted od nd ob nb ov nv' : od <> nd ->
  update_timepar (mkSV (NVTimePar od ob ov) Orig) (NVTimePar nd nb nv') = OSet (mkSV (NVTimePar nd nb nv') Orig).
Proof. intros _. destruct (timepar_accepts (mkSV (NVTimePar od ob ov) Orig) 0%Z [] nd nb nv' 0) as [_ [_ [H _]]]. exact H. Qed.
