(* Instantiation of the clock theorem for `collect` (structure read off the GENERATED phases_gen),
   final clocks, and the resume algebra used by C09. *)
From SS Require Import Model.Prelude Model.L4_LoopBase Gen.Gen_Loop Model.L4_Loop Proofs.P_Loop Proofs.P_LoopClock.
From Coq Require Import Lia List Permutation Sorted QArith Lqa.

Definition phase_meth (p : phase) : method := match p with PSim m | PPeople m | PEach _ m _ => m end.

Lemma phase_funcs_meth mods p f : In f (phase_funcs mods p) -> f_meth f = phase_meth p.
Proof.
  destruct p as [m|m|g m od]; cbn.
  - intros [<-|[]]; reflexivity.
  - intros [<-|[]]; reflexivity.
  - destruct g; intros H; apply in_map_iff in H as [md [<- _]]; reflexivity.
Qed.

Definition mkfin (k : nat) := mkFunc (OMod k) MFinishStep.
Definition early_phases := firstn 12 phases_gen.

(* the last three phases are: every module's finish_step, people.finish_step, sim.finish_step *)
Lemma collect_structure mods :
  collect mods = flat_map (phase_funcs mods) early_phases ++ map mkfin (map m_id (chain mods)) ++
                 [mkFunc OPeople MFinishStep; mkFunc OSim MFinishStep].
Proof.
  unfold collect, early_phases. rewrite <- (firstn_skipn 12 phases_gen) at 1. rewrite flat_map_app.
  f_equal. cbn [skipn phases_gen flat_map phase_funcs app]. rewrite map_map. reflexivity.
Qed.

Lemma early_no_finish mods f : In f (flat_map (phase_funcs mods) early_phases) -> f_meth f <> MFinishStep.
Proof.
  intros H. apply in_flat_map in H as [p [Hp Hf]]. rewrite (phase_funcs_meth _ _ _ Hf).
  unfold early_phases in Hp. cbn in Hp.
  repeat (destruct Hp as [<-|Hp]; [cbn; discriminate|]). destruct Hp.
Qed.

(* The clock theorem, stated on the executed trace: at the invocation scheduled for the k-th own time
   point of module id, that module's own time index is k. *)
Theorem clock_at_call tv mods id m pre r post k :
  NoDup (map m_id (chain mods)) -> In id (map m_id (chain mods)) -> find_mod mods id = Some m ->
  StronglySorted (fun a b => a + time_eps_gen * inject_Z (Z.of_nat (length (collect mods))) < b) (m_tvec m) ->
  plan tv mods = pre ++ r :: post -> f_owner (r_func r) = OMod id -> nth_error (m_tvec m) k = Some (r_time r) ->
  exists sim_ti, nth_error (snd (run_rows clocks0 (plan tv mods))) (length pre) = Some (r, k, sim_ti).
Proof.
  intros ND Hin Hm Hgap Hsplit Ho Hk.
  apply in_split in Hin as [i1 [i2 E]].
  assert (N1 : ~ In id i1 /\ ~ In id i2).
  { rewrite E in ND. apply NoDup_remove_2 in ND. split; intros X; apply ND; apply in_or_app; [left|right]; exact X. }
  destruct N1 as [N1 N2].
  assert (Hc : collect mods = flat_map (phase_funcs mods) early_phases ++
                 (map mkfin i1 ++ mkfin id :: map mkfin i2) ++ [mkFunc OPeople MFinishStep; mkFunc OSim MFinishStep]).
  { rewrite collect_structure, E, map_app. reflexivity. }
  pose proof (clock_count tv mods _ i1 i2 id Hc (early_no_finish mods) N1 N2 m Hm Hgap pre r post k Hsplit Ho Hk) as C.
  assert (Hn : nth_error (plan tv mods) (length pre) = Some r).
  { rewrite Hsplit, nth_error_app2 by lia. replace (length pre - length pre)%nat with 0%nat by lia. reflexivity. }
  destruct (run_rows_nth clocks0 _ _ _ Hn) as [c' [Ht Hc']]. exists (c_sim c').
  rewrite Ht. do 3 f_equal. rewrite Hc'. rewrite Ho. cbn [owner_ti clocks0 c_mod get_ti].
  rewrite Hsplit, firstn_app. replace (length pre - length pre)%nat with 0%nat by lia.
  rewrite firstn_all. cbn [firstn]. rewrite app_nil_r. exact C.
Qed.

(* after the whole plan every module has been finished exactly once per own time point *)
Theorem final_module_clock tv mods id m :
  NoDup (map m_id (chain mods)) -> In id (map m_id (chain mods)) -> find_mod mods id = Some m ->
  owner_ti (fst (run_rows clocks0 (plan tv mods))) (OMod id) = length (m_tvec m).
Proof.
  intros ND Hin Hm.
  apply in_split in Hin as [i1 [i2 E]].
  assert (N1 : ~ In id i1 /\ ~ In id i2).
  { rewrite E in ND. apply NoDup_remove_2 in ND. split; intros X; apply ND; apply in_or_app; [left|right]; exact X. }
  destruct N1 as [N1 N2].
  assert (Hc : collect mods = flat_map (phase_funcs mods) early_phases ++
                 (map mkfin i1 ++ mkfin id :: map mkfin i2) ++ [mkFunc OPeople MFinishStep; mkFunc OSim MFinishStep]).
  { rewrite collect_structure, E, map_app. reflexivity. }
  assert (G : forall rows c o, owner_ti (fst (run_rows c rows)) o = (owner_ti c o + cnt (is_fin o) rows)%nat).
  { induction rows as [|x rows IH]; intros c o; cbn [run_rows]; [cbn; lia|].
    specialize (IH (exec_row c x) o). destruct (run_rows (exec_row c x) rows) as [cf tr]. cbn [fst] in *.
    rewrite IH, owner_ti_exec. unfold cnt. cbn [filter]. destruct (is_fin o x); cbn; lia. }
  rewrite G. cbn [owner_ti clocks0 c_mod get_ti]. rewrite (cnt_perm _ _ _ (plan_perm tv mods)).
  unfold cnt. rewrite (fin_rows_cross tv mods _ i1 i2 id Hc (early_no_finish mods) N1 N2 m Hm). rewrite map_length. reflexivity.
Qed.

(* ------------------------------------------------------------------ C09: resume algebra *)
Lemma firstn_plus {A} (l : list A) : forall a b, firstn (a + b) l = firstn a l ++ firstn b (skipn a l).
Proof. induction l as [|x l IH]; intros a b; destruct a; cbn; try reflexivity; [destruct b; reflexivity|]. rewrite IH. reflexivity. Qed.
Lemma skipn_plus {A} (l : list A) : forall a b, skipn a (skipn b l) = skipn (b + a) l.
Proof. induction l as [|x l IH]; intros a b; destruct b; cbn; try reflexivity; [destruct a; reflexivity|]. apply IH. Qed.

Section Resume.
  Variable St : Type.
  Variable exec : St -> row -> St.          (* what a scheduled function does to the whole sim state *)
  Definition run_range (pl : list row) (i j : nat) (s : St) : St := fold_left exec (firstn (j - i) (skipn i pl)) s.

  (* pausing anywhere and resuming gives the uninterrupted result *)
  Lemma resume_compose pl i j k s : (i <= j)%nat -> (j <= k)%nat ->
    run_range pl j k (run_range pl i j s) = run_range pl i k s.
  Proof.
    intros H1 H2. unfold run_range. rewrite <- fold_left_app. f_equal.
    replace (k - i)%nat with ((j - i) + (k - j))%nat by lia.
    rewrite firstn_plus. f_equal. rewrite skipn_plus. f_equal. f_equal. lia.
  Qed.

  (* any number of pauses: run to each stop in turn *)
  Fixpoint run_stops (pl : list row) (i : nat) (stops : list nat) (s : St) : St :=
    match stops with [] => s | j :: t => run_stops pl j t (run_range pl i j s) end.

  Lemma run_range_refl pl i s : run_range pl i i s = s.
  Proof. unfold run_range. replace (i - i)%nat with 0%nat by lia. reflexivity. Qed.

  Lemma last_default (l : list nat) a b : l <> [] -> last l a = last l b.
  Proof. induction l as [|x t IH]; intros H; [congruence|]. destruct t as [|y t]; [reflexivity|]. cbn [last] in *. apply IH. discriminate. Qed.
  Lemma last_In (l : list nat) a : l <> [] -> In (last l a) l.
  Proof. induction l as [|x t IH]; intros H; [congruence|]. destruct t as [|y t]; [left; reflexivity|]. right. apply IH. discriminate. Qed.

  Lemma resume_many pl : forall stops i s, Sorted le (i :: stops) ->
    run_stops pl i stops s = run_range pl i (last stops i) s.
  Proof.
    induction stops as [|j stops IH]; intros i s S; [cbn; symmetry; apply run_range_refl|].
    inversion S as [|? ? S' Hd]; subst. inversion Hd as [|? ? Hij]; subst.
    cbn [run_stops]. rewrite (IH j _ S').
    destruct stops as [|x t]; [cbn [last]; rewrite run_range_refl; reflexivity|].
    assert (NE : x :: t <> []) by discriminate.
    change (last (j :: x :: t) i) with (last (x :: t) i). rewrite (last_default (x :: t) i j NE).
    apply resume_compose; [exact Hij|].
    apply Sorted_StronglySorted in S'; [|intros a b c; apply Nat.le_trans].
    inversion S' as [|? ? _ Hall]; subst. rewrite Forall_forall in Hall. apply Hall. apply last_In. exact NE.
  Qed.
End Resume.

(* run / finalize guards *)
Lemma run_complete_refused pl now u s : s_complete s = true -> sim_run pl now u s = Err EAlreadyRun.
Proof. intros H. unfold sim_run. rewrite H. reflexivity. Qed.
Lemma finalize_twice_refused s : s_ready s = true -> sim_finalize s = Err EAlreadyRun.
Proof. intros H. unfold sim_finalize. rewrite H. reflexivity. Qed.

(* scaling is applied at most once over any sequence of run / finalize calls *)
Inductive sop := SRun (u : option Q) | SFinalize.
Definition sstep (pl : list row) (now : nat -> Q) (s : simstate) (o : sop) : simstate :=
  match (match o with SRun u => sim_run pl now u s | SFinalize => sim_finalize s end) with Ok s' => s' | Err _ => s end.

Lemma scaled_once_inv pl now s o : (s_scaled s <= 1)%nat -> (s_scaled s = 1%nat <-> s_ready s = true) ->
  (s_scaled (sstep pl now s o) <= 1)%nat /\ (s_scaled (sstep pl now s o) = 1%nat <-> s_ready (sstep pl now s o) = true).
Proof.
  intros H1 H2. unfold sstep. destruct o as [u|].
  - unfold sim_run. destruct (s_complete s); [split; assumption|].
    destruct (run_until now u (s_clk s) (skipn (s_idx s) pl) (s_idx s)) as [c i].
    destruct (Nat.eqb i (length pl)); [|cbn; split; assumption].
    destruct (s_ready s) eqn:R; [cbn; rewrite ?R; split; assumption|]. cbn.
    assert (s_scaled s = 0%nat) by (destruct (s_scaled s) as [|[|]]; [reflexivity| |lia]; exfalso; destruct H2 as [H2 _]; specialize (H2 eq_refl); congruence).
    rewrite H. split; [lia|tauto].
  - unfold sim_finalize. destruct (s_ready s) eqn:R; [cbn; rewrite ?R; split; assumption|]. cbn.
    assert (s_scaled s = 0%nat) by (destruct (s_scaled s) as [|[|]]; [reflexivity| |lia]; exfalso; destruct H2 as [H2 _]; specialize (H2 eq_refl); congruence).
    rewrite H. split; [lia|tauto].
Qed.

Theorem scaled_at_most_once pl now ops : forall s, (s_scaled s <= 1)%nat -> (s_scaled s = 1%nat <-> s_ready s = true) ->
  (s_scaled (fold_left (sstep pl now) ops s) <= 1)%nat.
Proof.
  induction ops as [|o ops IH]; intros s H1 H2; cbn; [exact H1|].
  destruct (scaled_once_inv pl now s o H1 H2) as [A B]. apply IH; assumption.
Qed.

(* with two handles that share the results but not the flags, finishing through one and then through the other finalises (scales) twice: the guard of
   C09_refinalize_refused looks at a flag the second handle never had set (listed finding multisim-inplace-aliases-finalise-twice); through ONE handle
   the second attempt is refused and changes nothing *)
Lemma aliased_handles_finalise_twice : forall s, s_ready s = false ->
  s_scaled (fst (through false sim_finalize (through true sim_finalize (s, s)))) = S (S (s_scaled s)).
Proof. intros s R. unfold through, sim_finalize. rewrite R. cbn. rewrite R. cbn. reflexivity. Qed.
Lemma one_handle_finalises_once : forall s, s_ready s = false ->
  through true sim_finalize (through true sim_finalize (s, s)) = through true sim_finalize (s, s).
Proof. intros s R. unfold through, sim_finalize. rewrite R. cbn. reflexivity. Qed.
